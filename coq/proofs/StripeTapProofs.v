(* C10, part 2: every stripe hands the hardware exactly the receptive field of its output rows (tap equality). *)
From Coq Require Import ZArith List Bool Lia.
From VV Require Import lib.PyInt gen.GenArchTables model.Stripe proofs.StripeProofs.
Import ListNotations.
Open Scope Z_scope.

(* ---------- transform, height part, without upscaling ---------- *)
Lemma tf_height_up1 y0 y1 oy1 sy skt skb H kdh :
  tf_height y0 y1 oy1 sy skt skb H 1 kdh =
  (Z.max (y0 * sy - skt) 0, Z.max (Z.min (y1 * sy + skb) H) 1, Z.max 0 (- (y0 * sy - skt)),
   if H <? oy1 * sy + skb then Z.max 0 (y0 * sy - skt + sy * (oy1 - y0 - 1) + kdh - H) else 0).
Proof.
  unfold tf_height. rewrite !Z.mod_1_r, !Z.div_1_r, !Z.mul_1_r, !Z.add_0_r.
  change (negb (1 =? 1)) with false. cbn [andb].
  replace (Z.max (Z.max (y0 * sy - skt) 0) 0) with (Z.max (y0 * sy - skt) 0) by lia.
  replace (0 - (y0 * sy - skt)) with (- (y0 * sy - skt)) by lia.
  replace (Z.max (y0 * sy - skt) 0 - Z.max 0 (- (y0 * sy - skt))) with (y0 * sy - skt) by lia.
  reflexivity.
Qed.

(* an operator along one axis whose padding attributes are consistent with its geometry *)
Definition geom_ok (g : geom) : Prop :=
  1 <= g_s g /\ 1 <= g_d g /\ 1 <= g_k g /\ 1 <= g_in g /\ 1 <= g_out g /\ g_out g <= g_in g /\
  0 <= g_top g /\
  g_sk_t g = g_top g /\
  g_sk_b g = needed_total_padding (g_in g) (g_s g) (g_kd g) - g_top g /\
  g_bottom g = Z.max 0 ((g_out g - 1) * g_s g + g_kd g - g_top g - g_in g).

Lemma mul_mono_r a b s : a <= b -> 0 <= s -> a * s <= b * s.
Proof. intros. apply Z.mul_le_mono_nonneg_r; assumption. Qed.

(* how the two tap functions resolve *)
Lemma hw_tap_pad b0 b1 p0 p1 n s kd i j :
  i * s + j - p0 < 0 \/ (n - 1) * s + kd - p0 - p1 <= i * s + j - p0 -> hw_tap b0 b1 p0 p1 n s kd i j = TPad.
Proof.
  intros H. unfold hw_tap.
  destruct (Z.ltb_spec (i * s + j - p0) 0); [reflexivity|].
  destruct (Z.leb_spec ((n - 1) * s + kd - p0 - p1) (i * s + j - p0)); [reflexivity|lia].
Qed.

Lemma hw_tap_src b0 b1 p0 p1 n s kd i j u :
  0 <= i * s + j - p0 -> i * s + j - p0 < (n - 1) * s + kd - p0 - p1 -> i * s + j - p0 < b1 - b0 ->
  u = b0 + (i * s + j - p0) -> hw_tap b0 b1 p0 p1 n s kd i j = TSrc u.
Proof.
  intros H1 H2 H3 ->. unfold hw_tap.
  destruct (Z.ltb_spec (i * s + j - p0) 0); [lia|].
  destruct (Z.leb_spec ((n - 1) * s + kd - p0 - p1) (i * s + j - p0)); [lia|]. cbn [orb].
  destruct (Z.ltb_spec (i * s + j - p0) (b1 - b0)); [reflexivity|lia].
Qed.

Lemma ref_tap_pad lo hi top s r j : lo + r * s + j - top < lo \/ hi <= lo + r * s + j - top -> ref_tap lo hi top s r j = TPad.
Proof.
  intros H. unfold ref_tap.
  destruct (Z.ltb_spec (lo + r * s + j - top) lo); [reflexivity|].
  destruct (Z.leb_spec hi (lo + r * s + j - top)); [reflexivity|lia].
Qed.

Lemma ref_tap_src lo hi top s r j : lo <= lo + r * s + j - top < hi -> ref_tap lo hi top s r j = TSrc (lo + r * s + j - top).
Proof.
  intros H. unfold ref_tap.
  destruct (Z.ltb_spec (lo + r * s + j - top) lo); [lia|].
  destruct (Z.leb_spec hi (lo + r * s + j - top)); [lia|]. reflexivity.
Qed.

(* the arithmetic core, one axis: A = first output * stride, Q = this output * stride, E = end * stride (all relative to
   the operator's own output), J the tap offset, KD = dilated kernel - 1 *)
Lemma tap_core A Q E J KD s top H ypad b0 b1 pt pb n_s i_s :
  0 <= A -> A <= Q -> Q + s <= E -> 0 <= J <= KD -> 1 <= s -> 0 <= top -> KD + 1 - s <= ypad -> 1 <= H ->
  b0 = Z.max (A - top) 0 -> b1 = Z.max (Z.min (E + (ypad - top)) H) 1 ->
  pt = Z.max 0 (top - A) ->
  (pb = Z.max 0 (E - s + KD + 1 - top - H) \/ (pb = 0 /\ E + (ypad - top) <= H)) ->
  n_s = E - A - s -> i_s = Q - A ->
  (i_s + J - pt < 0 \/ n_s + (KD + 1) - pt - pb <= i_s + J - pt) /\ (Q + J - top < 0 \/ H <= Q + J - top)
  \/
  (0 <= i_s + J - pt /\ i_s + J - pt < n_s + (KD + 1) - pt - pb /\ i_s + J - pt < b1 - b0 /\
   Q + J - top = b0 + (i_s + J - pt) /\ 0 <= Q + J - top < H).
Proof.
  intros. subst b0 b1 pt n_s i_s.
  destruct (Z.lt_ge_cases (Q + J - top) 0); [left; lia|].
  destruct (Z.le_gt_cases H (Q + J - top)); [left; lia|].
  right. lia.
Qed.

(* the (box, pad_top, pad_bottom) of any stripe [st,en) of the operator's output resolves every tap exactly like the
   operator itself *)
Lemma stripe_h_taps g woff st en r ky :
  geom_ok g -> woff <= st -> st < en -> en <= woff + g_out g -> st <= r < en -> 0 <= ky < g_k g ->
  let '(b0, b1, pt, pb) := stripe_h g woff st en in
  hw_tap b0 b1 pt pb (en - st) (g_s g) (g_kd g) (r - st) (ky * g_d g)
  = ref_tap 0 (g_in g) (g_top g) (g_s g) (r - woff) (ky * g_d g).
Proof.
  intros (Hs & Hd & Hk & HH & Ho1 & HoH & Htop & Hskt & Hskb & Hbot) Hst Hse Hen Hr Hky.
  unfold stripe_h. rewrite tf_height_up1. rewrite Hskt, Hskb.
  rewrite (Z.min_l (en - woff) (g_in g)) by lia.
  destruct (needed_total_padding_ge (g_in g) (g_s g) (g_kd g) ltac:(lia)) as [Hyp Hyp0].
  set (ypad := needed_total_padding (g_in g) (g_s g) (g_kd g)) in *.
  unfold g_kd in *.
  set (s := g_s g) in *. set (d := g_d g) in *. set (k := g_k g) in *. set (H := g_in g) in *.
  set (Ho := g_out g) in *. set (top := g_top g) in *.
  assert (M1 : (st - woff) * s <= (r - woff) * s) by (apply mul_mono_r; lia).
  assert (M2 : (r - woff + 1) * s <= (en - woff) * s) by (apply mul_mono_r; lia).
  assert (M3 : 0 <= (st - woff) * s) by (apply Z.mul_nonneg_nonneg; lia).
  assert (M5 : 0 <= ky * d) by (apply Z.mul_nonneg_nonneg; lia).
  assert (M6 : ky * d <= (k - 1) * d) by (apply mul_mono_r; lia).
  assert (M7 : s * (en - woff - (st - woff) - 1) = (en - woff) * s - (st - woff) * s - s) by ring.
  assert (M8 : (r - st) * s = (r - woff) * s - (st - woff) * s) by ring.
  assert (M9 : (en - st - 1) * s = (en - woff) * s - (st - woff) * s - s) by ring.
  assert (M11 : (r - woff + 1) * s = (r - woff) * s + s) by ring.
  assert (M12 : d * (k - 1) = (k - 1) * d) by ring.
  rewrite M7. rewrite M12 in *. rewrite M11 in M2.
  set (A := (st - woff) * s) in *. set (Q := (r - woff) * s) in *. set (E := (en - woff) * s) in *.
  set (J := ky * d) in *. set (KD := (k - 1) * d) in *.
  set (b0 := Z.max (A - top) 0). set (b1 := Z.max (Z.min (E + (ypad - top)) H) 1).
  assert (Hcore : forall pt pb, pt = Z.max 0 (top - A) ->
            (pb = Z.max 0 (E - s + KD + 1 - top - H) \/ (pb = 0 /\ E + (ypad - top) <= H)) ->
            hw_tap b0 b1 pt pb (en - st) s (KD + 1) (r - st) J = ref_tap 0 H top s (r - woff) J).
  { intros pt pb Hpt Hpb.
    destruct (tap_core A Q E J KD s top H ypad b0 b1 pt pb (E - A - s) (Q - A)) as [[Hp Hq]|(T1 & T2 & T3 & T4 & T5)];
      try lia; try reflexivity; try assumption.
    - rewrite hw_tap_pad by (rewrite M8, M9; exact Hp).
      rewrite ref_tap_pad by (fold Q; lia). reflexivity.
    - rewrite (hw_tap_src _ _ _ _ _ _ _ _ _ (Q + J - top)) by (rewrite ?M8, ?M9; lia).
      rewrite ref_tap_src by (fold Q; lia). f_equal; fold Q; lia. }
  destruct ((st =? woff) && (woff + Ho <=? en)) eqn:Efl.
  - apply andb_true_iff in Efl. destruct Efl as [E1 E2].
    apply Z.eqb_eq in E1. apply Z.leb_le in E2.
    assert (Hen' : en - woff = Ho) by lia.
    assert (HA : A = 0) by (unfold A; rewrite E1; ring).
    apply Hcore; [lia|]. left. rewrite Hbot.
    replace ((Ho - 1) * s) with (E - s) by (unfold E; rewrite Hen'; ring). lia.
  - apply Hcore; [lia|].
    destruct (Z.ltb_spec H (E + (ypad - top))); [left; lia | right; lia].
Qed.

(* ---------- an OFM taller than the IFM ---------- *)
(* A PAD operator folded into a VALID convolution with an even kernel (pads k/2 + k/2 = k) makes the OFM one row taller than
   the IFM.  The transform clips the OFM end to the IFM height for the box, but (as repaired) takes the last kernel position
   from the unclipped end: the tap theorem holds without g_out <= g_in, given a non-negative trailing skirt *)
Definition geom_ok_tall (g : geom) : Prop :=
  1 <= g_s g /\ 1 <= g_d g /\ 1 <= g_k g /\ 1 <= g_in g /\ 1 <= g_out g /\
  0 <= g_top g /\ 0 <= g_sk_b g /\
  g_sk_t g = g_top g /\
  g_sk_b g = needed_total_padding (g_in g) (g_s g) (g_kd g) - g_top g /\
  g_bottom g = Z.max 0 ((g_out g - 1) * g_s g + g_kd g - g_top g - g_in g).

Lemma tap_core_tall A Q E E' J KD s top H ypad b0 b1 pt pb n_s i_s :
  0 <= A -> A <= Q -> Q + s <= E -> 0 <= J <= KD -> 1 <= s -> 0 <= top -> KD + 1 - s <= ypad -> 1 <= H ->
  (E' = E \/ H <= E' + (ypad - top)) ->
  b0 = Z.max (A - top) 0 -> b1 = Z.max (Z.min (E' + (ypad - top)) H) 1 ->
  pt = Z.max 0 (top - A) ->
  (pb = Z.max 0 (E - s + KD + 1 - top - H) \/ (pb = 0 /\ E + (ypad - top) <= H)) ->
  n_s = E - A - s -> i_s = Q - A ->
  (i_s + J - pt < 0 \/ n_s + (KD + 1) - pt - pb <= i_s + J - pt) /\ (Q + J - top < 0 \/ H <= Q + J - top)
  \/
  (0 <= i_s + J - pt /\ i_s + J - pt < n_s + (KD + 1) - pt - pb /\ i_s + J - pt < b1 - b0 /\
   Q + J - top = b0 + (i_s + J - pt) /\ 0 <= Q + J - top < H).
Proof.
  intros. subst b0 b1 pt n_s i_s.
  destruct (Z.lt_ge_cases (Q + J - top) 0); [left; lia|].
  destruct (Z.le_gt_cases H (Q + J - top)); [left; lia|].
  right. lia.
Qed.

Lemma stripe_h_taps_tall g woff st en r ky :
  geom_ok_tall g -> woff <= st -> st < en -> en <= woff + g_out g -> st <= r < en -> 0 <= ky < g_k g ->
  let '(b0, b1, pt, pb) := stripe_h g woff st en in
  hw_tap b0 b1 pt pb (en - st) (g_s g) (g_kd g) (r - st) (ky * g_d g)
  = ref_tap 0 (g_in g) (g_top g) (g_s g) (r - woff) (ky * g_d g).
Proof.
  intros (Hs & Hd & Hk & HH & Ho1 & Htop & Hskb0 & Hskt & Hskb & Hbot) Hst Hse Hen Hr Hky.
  unfold stripe_h. rewrite tf_height_up1. rewrite Hskb in Hskb0. rewrite Hskt, Hskb.
  destruct (needed_total_padding_ge (g_in g) (g_s g) (g_kd g) ltac:(lia)) as [Hyp Hyp0].
  set (ypad := needed_total_padding (g_in g) (g_s g) (g_kd g)) in *.
  unfold g_kd in *.
  set (s := g_s g) in *. set (d := g_d g) in *. set (k := g_k g) in *. set (H := g_in g) in *.
  set (Ho := g_out g) in *. set (top := g_top g) in *.
  assert (M1 : (st - woff) * s <= (r - woff) * s) by (apply mul_mono_r; lia).
  assert (M2 : (r - woff + 1) * s <= (en - woff) * s) by (apply mul_mono_r; lia).
  assert (M3 : 0 <= (st - woff) * s) by (apply Z.mul_nonneg_nonneg; lia).
  assert (M5 : 0 <= ky * d) by (apply Z.mul_nonneg_nonneg; lia).
  assert (M6 : ky * d <= (k - 1) * d) by (apply mul_mono_r; lia).
  assert (M7 : s * (en - woff - (st - woff) - 1) = (en - woff) * s - (st - woff) * s - s) by ring.
  assert (M8 : (r - st) * s = (r - woff) * s - (st - woff) * s) by ring.
  assert (M9 : (en - st - 1) * s = (en - woff) * s - (st - woff) * s - s) by ring.
  assert (M11 : (r - woff + 1) * s = (r - woff) * s + s) by ring.
  assert (M12 : d * (k - 1) = (k - 1) * d) by ring.
  assert (M13 : H * 1 <= H * s) by (apply Z.mul_le_mono_nonneg_l; lia).
  rewrite M7. rewrite M12 in *. rewrite M11 in M2.
  set (A := (st - woff) * s) in *. set (Q := (r - woff) * s) in *. set (E := (en - woff) * s) in *.
  set (E' := Z.min (en - woff) H * s) in *.
  assert (HE' : E' = E \/ H <= E' + (ypad - top)).
  { unfold E', E. destruct (Z.le_gt_cases (en - woff) H); [left; rewrite Z.min_l by lia; reflexivity | right; rewrite Z.min_r by lia; lia]. }
  set (J := ky * d) in *. set (KD := (k - 1) * d) in *.
  set (b0 := Z.max (A - top) 0). set (b1 := Z.max (Z.min (E' + (ypad - top)) H) 1).
  assert (Hcore : forall pt pb, pt = Z.max 0 (top - A) ->
            (pb = Z.max 0 (E - s + KD + 1 - top - H) \/ (pb = 0 /\ E + (ypad - top) <= H)) ->
            hw_tap b0 b1 pt pb (en - st) s (KD + 1) (r - st) J = ref_tap 0 H top s (r - woff) J).
  { intros pt pb Hpt Hpb.
    destruct (tap_core_tall A Q E E' J KD s top H ypad b0 b1 pt pb (E - A - s) (Q - A)) as [[Hp Hq]|(T1 & T2 & T3 & T4 & T5)];
      try lia; try reflexivity; try assumption.
    - rewrite hw_tap_pad by (rewrite M8, M9; exact Hp).
      rewrite ref_tap_pad by (fold Q; lia). reflexivity.
    - rewrite (hw_tap_src _ _ _ _ _ _ _ _ _ (Q + J - top)) by (rewrite ?M8, ?M9; lia).
      rewrite ref_tap_src by (fold Q; lia). f_equal; fold Q; lia. }
  destruct ((st =? woff) && (woff + Ho <=? en)) eqn:Efl.
  - apply andb_true_iff in Efl. destruct Efl as [E1 E2].
    apply Z.eqb_eq in E1. apply Z.leb_le in E2.
    assert (Hen' : en - woff = Ho) by lia.
    assert (HA : A = 0) by (unfold A; rewrite E1; ring).
    apply Hcore; [lia|]. left. rewrite Hbot.
    replace ((Ho - 1) * s) with (E - s) by (unfold E; rewrite Hen'; ring). lia.
  - apply Hcore; [lia|].
    destruct (Z.ltb_spec H (E + (ypad - top))); [left; lia | right; lia].
Qed.

(* ---------- geometry lemmas: what calc_padding_and_skirt produces is consistent with the TFLite output sizes ---------- *)
Definition geom_sane (g : geom) : Prop :=
  (g_out g - 1) * g_s g - g_top g < g_in g /\ g_top g < g_kd g.

Definition geom_of (H Ho k d s : Z) (pad skirt : pad4) : geom :=
  {| g_in := H; g_out := Ho; g_k := k; g_d := d; g_s := s; g_top := p_top pad; g_bottom := p_bottom pad;
     g_sk_t := p_top skirt; g_sk_b := p_bottom skirt |}.
Definition geom_of_w (W Wo k d s : Z) (pad skirt : pad4) : geom :=
  {| g_in := W; g_out := Wo; g_k := k; g_d := d; g_s := s; g_top := p_left pad; g_bottom := p_right pad;
     g_sk_t := p_left skirt; g_sk_b := p_right skirt |}.

Lemma ntp_cases H s kd : 1 <= s -> 1 <= H ->
  exists q m, H = q * s + m /\ 1 <= m <= s /\ 0 <= q /\ needed_total_padding H s kd = Z.max (kd - m) 0 /\
              (H + s - 1) / s = q + 1.
Proof.
  intros Hs HH. unfold needed_total_padding.
  pose proof (Z.div_mod H s ltac:(lia)) as Hdm. pose proof (Z.mod_pos_bound H s ltac:(lia)) as Hmb.
  assert (0 <= H / s) by (apply Z.div_pos; lia).
  destruct (Z.eqb_spec (H mod s) 0) as [E|E].
  - exists (H / s - 1), s. repeat split; try lia; try nia.
    replace (H + s - 1) with ((s - 1) + (H / s) * s) by nia. rewrite Z.div_add by lia.
    rewrite Z.div_small by lia. lia.
  - exists (H / s), (H mod s). repeat split; try lia.
    replace (H + s - 1) with ((H mod s + s - 1) + (H / s) * s) by nia. rewrite Z.div_add by lia.
    replace (H mod s + s - 1) with ((H mod s - 1) + 1 * s) by lia. rewrite Z.div_add by lia.
    rewrite Z.div_small by lia. lia.
Qed.

(* SAME: OFM = ceil(IFM / stride) *)
Lemma same_geom_ok H Ho k d s pad skirt kw sx W ep :
  1 <= s -> 1 <= d -> 1 <= k -> 1 <= H -> Ho = (H + s - 1) / s ->
  calc_padding_and_skirt PAD_SAME kw (d * (k - 1) + 1) sx s H W ep = Some (pad, skirt) ->
  geom_ok (geom_of H Ho k d s pad skirt) /\ geom_sane (geom_of H Ho k d s pad skirt).
Proof.
  intros Hs Hd Hk HH HHo Hc. unfold calc_padding_and_skirt in Hc. cbn in Hc. injection Hc as <- <-.
  destruct (ntp_cases H s (d * (k - 1) + 1) Hs HH) as (q & m & Hq & Hm & Hq0 & Hn & Hceil).
  unfold geom_ok, geom_sane, geom_of, g_kd. cbn [g_in g_out g_k g_d g_s g_top g_bottom g_sk_t g_sk_b p_top p_bottom].
  rewrite Hn. rewrite Hceil in HHo. subst Ho.
  set (kd := d * (k - 1) + 1) in *. assert (1 <= kd) by (unfold kd; nia).
  set (yp := Z.max (kd - m) 0) in *. rewrite !Z.add_0_r.
  pose proof (Z.div_mod yp 2 ltac:(lia)). pose proof (Z.mod_pos_bound yp 2 ltac:(lia)).
  assert ((yp + 1) / 2 = yp - yp / 2).
  { pose proof (Z.div_mod (yp + 1) 2 ltac:(lia)). pose proof (Z.mod_pos_bound (yp + 1) 2 ltac:(lia)). lia. }
  assert (0 <= yp / 2) by (apply Z.div_pos; lia).
  replace (q + 1 - 1) with q by lia.
  repeat split; try lia; try nia.
Qed.

(* VALID: OFM = floor((IFM - k_dilated) / stride) + 1 *)
Lemma valid_geom_ok H Ho k d s pad skirt kw sx W ep :
  1 <= s -> 1 <= d -> 1 <= k -> d * (k - 1) + 1 <= H -> Ho = (H - (d * (k - 1) + 1)) / s + 1 ->
  calc_padding_and_skirt PAD_VALID kw (d * (k - 1) + 1) sx s H W ep = Some (pad, skirt) ->
  geom_ok (geom_of H Ho k d s pad skirt) /\ geom_sane (geom_of H Ho k d s pad skirt).
Proof.
  intros Hs Hd Hk HH HHo Hc. unfold calc_padding_and_skirt in Hc. cbn in Hc. injection Hc as <- <-.
  unfold geom_ok, geom_sane, geom_of, g_kd. cbn [g_in g_out g_k g_d g_s g_top g_bottom g_sk_t g_sk_b p_top p_bottom].
  set (kd := d * (k - 1) + 1) in *. assert (1 <= kd) by (unfold kd; nia).
  pose proof (Z.div_mod (H - kd) s ltac:(lia)). pose proof (Z.mod_pos_bound (H - kd) s ltac:(lia)).
  assert (0 <= (H - kd) / s) by (apply Z.div_pos; lia).
  subst Ho. replace ((H - kd) / s + 1 - 1) with ((H - kd) / s) by lia.
  repeat split; try lia; try nia.
Qed.

(* the same statements hold along the width (calc_padding_and_skirt treats both axes alike) *)
Lemma same_geom_ok_w W Wo k d s pad skirt kh sy H ep :
  1 <= s -> 1 <= d -> 1 <= k -> 1 <= W -> Wo = (W + s - 1) / s ->
  calc_padding_and_skirt PAD_SAME (d * (k - 1) + 1) kh s sy H W ep = Some (pad, skirt) ->
  geom_ok (geom_of_w W Wo k d s pad skirt) /\ geom_sane (geom_of_w W Wo k d s pad skirt).
Proof.
  intros Hs Hd Hk HH HHo Hc.
  destruct (same_geom_ok W Wo k d s {| p_top := p_left pad; p_left := 0; p_bottom := p_right pad; p_right := 0 |}
              {| p_top := p_left skirt; p_left := 0; p_bottom := p_right skirt; p_right := 0 |} 1 1 1
              {| p_top := 0; p_left := 0; p_bottom := 0; p_right := 0 |}) as [G1 G2]; try assumption.
  - unfold calc_padding_and_skirt in *. cbn in *. injection Hc as <- <-. cbn. reflexivity.
  - split; assumption.
Qed.

Lemma valid_geom_ok_w W Wo k d s pad skirt kh sy H ep :
  1 <= s -> 1 <= d -> 1 <= k -> d * (k - 1) + 1 <= W -> Wo = (W - (d * (k - 1) + 1)) / s + 1 ->
  calc_padding_and_skirt PAD_VALID (d * (k - 1) + 1) kh s sy H W ep = Some (pad, skirt) ->
  geom_ok (geom_of_w W Wo k d s pad skirt) /\ geom_sane (geom_of_w W Wo k d s pad skirt).
Proof.
  intros Hs Hd Hk HH HHo Hc.
  destruct (valid_geom_ok W Wo k d s {| p_top := p_left pad; p_left := 0; p_bottom := p_right pad; p_right := 0 |}
              {| p_top := p_left skirt; p_left := 0; p_bottom := p_right skirt; p_right := 0 |} 1 1 1
              {| p_top := 0; p_left := 0; p_bottom := 0; p_right := 0 |}) as [G1 G2]; try assumption.
  - unfold calc_padding_and_skirt in *. cbn in *. injection Hc as <- <-. cbn. reflexivity.
  - split; assumption.
Qed.

(* ---------- the stripe of a convolution-like operator, through transform and create_padding ---------- *)
(* an OFM box of the operator: rows [st,en) of its output, the full width, any channels *)
Definition stripe_box_ok (o : convop) (b : box) : Prop :=
  cn (fst b) <= cn (snd b) /\
  ch (o_woff o) <= ch (fst b) /\ ch (fst b) < ch (snd b) /\ ch (snd b) <= ch (o_woff o) + ch (o_oshape o) /\
  cw (fst b) = cw (o_woff o) /\ cw (snd b) = cw (o_woff o) + cw (o_oshape o) /\
  (if is_dot_block (o_bt o) then 0 <= cc (o_ifm o)
   else cc (fst b) - cc (o_woff o) <= Z.min (cc (snd b) - cc (o_woff o)) (cc (o_ifm o))).

Lemma stripe_taps_equal_lemma o b :
  geom_ok (conv_geom_h o) -> geom_sane (conv_geom_h o) -> geom_ok (conv_geom_w o) -> geom_sane (conv_geom_w o) ->
  (o_bt o =? BT_VectorProduct) = false -> stripe_box_ok o b ->
  exists ib pt pb,
    transform (conv_tf o b) = Some (ib, pt, pb) /\
    let p := conv_hw_padding o b ib pt pb in
    forall r c ky kx,
      ch (fst b) <= r < ch (snd b) -> cw (fst b) <= c < cw (snd b) -> 0 <= ky < o_kh o -> 0 <= kx < o_kw o ->
      hw_tap (ch (fst ib)) (ch (snd ib)) (p_top p) (p_bottom p) (ch (snd b) - ch (fst b)) (o_sy o)
             (o_dy o * (o_kh o - 1) + 1) (r - ch (fst b)) (ky * o_dy o)
        = ref_tap 0 (ch (o_ifm o)) (p_top (o_pad o)) (o_sy o) (r - ch (o_woff o)) (ky * o_dy o)
      /\
      hw_tap (cw (fst ib)) (cw (snd ib)) (p_left p) (p_right p) (cw (snd b) - cw (fst b)) (o_sx o)
             (o_dx o * (o_kw o - 1) + 1) (c - cw (fst b)) (kx * o_dx o)
        = ref_tap 0 (cw (o_ifm o)) (p_left (o_pad o)) (o_sx o) (c - cw (o_woff o)) (kx * o_dx o).
Proof.
  intros Gh Sh Gw Sw Hvp (Bn & Bh0 & Bh1 & Bh2 & Bw0 & Bw1 & Bd).
  pose proof Gh as Gh'. pose proof Gw as Gw'.
  destruct Gh' as (Hs & Hd & Hk & HH & Ho1 & HoH & Htop & Hskt & Hskb & Hbot).
  destruct Gw' as (Ws & Wd & Wk & WW & Wo1 & WoW & Wtop & Wskt & Wskb & Wbot).
  destruct Sh as [Sh1 Sh2]. destruct Sw as [Sw1 Sw2].
  unfold conv_geom_h, conv_geom_w, g_kd in *.
  cbn [g_in g_out g_k g_d g_s g_top g_bottom g_sk_t g_sk_b] in *.
  (* the height and width parts as the 1-D model computes them *)
  pose proof (fun r ky => stripe_h_taps (conv_geom_h o) (ch (o_woff o)) (ch (fst b)) (ch (snd b)) r ky Gh Bh0 Bh1 Bh2) as TH.
  pose proof (fun c kx => stripe_h_taps (conv_geom_w o) (cw (o_woff o)) (cw (fst b)) (cw (snd b)) c kx Gw
                ltac:(lia) ltac:(lia) ltac:(unfold conv_geom_w; cbn [g_out]; lia)) as TW.
  unfold stripe_h, conv_geom_h, conv_geom_w, g_kd in TH, TW.
  cbn [g_in g_out g_k g_d g_s g_top g_bottom g_sk_t g_sk_b] in TH, TW.
  rewrite tf_height_up1 in TH, TW.
  destruct (needed_total_padding_ge (ch (o_ifm o)) (o_sy o) (o_dy o * (o_kh o - 1) + 1) ltac:(lia)) as [Hyp Hyp0].
  destruct (needed_total_padding_ge (cw (o_ifm o)) (o_sx o) (o_dx o * (o_kw o - 1) + 1) ltac:(lia)) as [Wyp Wyp0].
  (* evaluate the transform *)
  unfold transform, conv_tf.
  cbv beta iota zeta delta [t_s t_e t_has_ss t_sy t_sx t_skirt t_ifm t_dot t_concat t_kdh t_split t_up t_wrap tf_width].
  change (1 =? 0) with false. cbv iota.
  rewrite !Z.sub_0_r. rewrite tf_height_up1. rewrite !Z.mul_1_r, !Z.add_0_r.
  set (st := ch (fst b)) in *. set (en := ch (snd b)) in *. set (woff := ch (o_woff o)) in *.
  set (H := ch (o_ifm o)) in *. set (W := cw (o_ifm o)) in *.
  rewrite Bw0, Bw1 in *. replace (cw (o_woff o) - cw (o_woff o)) with 0 in * by lia.
  replace (cw (o_woff o) + cw (o_oshape o) - cw (o_woff o)) with (cw (o_oshape o)) in * by lia.
  rewrite (Z.min_l (cw (o_oshape o)) W) in * by lia.
  rewrite (Z.min_l (en - woff) H) in * by lia.
  rewrite Z.mul_0_l in *.
  assert (MA : 0 <= (st - woff) * o_sy o) by (apply Z.mul_nonneg_nonneg; lia).
  assert (MB : (st - woff + 1) * o_sy o <= (en - woff) * o_sy o) by (apply mul_mono_r; lia).
  assert (MC : (st - woff) * o_sy o <= (ch (o_oshape o) - 1) * o_sy o) by (apply mul_mono_r; lia).
  assert (MD : 1 * o_sx o <= cw (o_oshape o) * o_sx o) by (apply mul_mono_r; lia).
  rewrite Hskt, Hskb, Wskt, Wskb in *.
  (* the Box assertion does not fire *)
  unfold mk_box, c4_le. cbn [cn ch cw cc].
  assert (C1 : (cn (fst b) - cn (o_woff o) <=? cn (snd b) - cn (o_woff o)) = true) by (apply Z.leb_le; lia).
  assert (C2 : (Z.max ((st - woff) * o_sy o - p_top (o_pad o)) 0 <=?
                Z.max (Z.min ((en - woff) * o_sy o + (needed_total_padding H (o_sy o) (o_dy o * (o_kh o - 1) + 1) - p_top (o_pad o))) H) 1) = true)
    by (apply Z.leb_le; lia).
  assert (C3 : (Z.max (0 - p_left (o_pad o)) 0 <=?
                Z.min (cw (o_oshape o) * o_sx o + (needed_total_padding W (o_sx o) (o_dx o * (o_kw o - 1) + 1) - p_left (o_pad o))) W) = true)
    by (apply Z.leb_le; lia).
  destruct (is_dot_block (o_bt o)).
  - assert (C4 : (0 <=? Z.min (cc (o_ifm o)) (cc (o_ifm o))) = true) by (apply Z.leb_le; lia).
    rewrite C1, C2, C3, C4. cbn [andb].
    eexists _, _, _. split; [reflexivity|].
    cbv zeta. unfold conv_hw_padding, create_padding. rewrite Hvp. cbn [fst snd ch cw cn cc p_top p_bottom p_left p_right].
    fold st en woff.
    intros r c ky kx Hr Hc Hky Hkx.
    split.
    + specialize (TH r ky Hr Hky).
      destruct ((st =? woff) && (woff + ch (o_oshape o) <=? en)); exact TH.
    + specialize (TW c kx ltac:(lia) Hkx).
      rewrite Z.eqb_refl in TW. rewrite Z.leb_refl in TW. cbn [andb] in TW.
      replace (Z.max (0 - p_left (o_pad o)) 0) with 0 in * by lia.
      change (0 <? 0) with false. cbv iota.
      replace (cw (o_woff o) + cw (o_oshape o) - cw (o_woff o)) with (cw (o_oshape o)) by lia.
      rewrite (Z.max_l _ 1) in TW by lia. fold W.
      destruct (Z.ltb_spec (Z.min (cw (o_oshape o) * o_sx o + (needed_total_padding W (o_sx o) (o_dx o * (o_kw o - 1) + 1) - p_left (o_pad o))) W) W) as [Hlt|Hge].
      * (* the box stops short of the IFM width: no right padding is needed, and the original one is 0 *)
        assert (ME : (cw (o_oshape o) - 1) * o_sx o = cw (o_oshape o) * o_sx o - o_sx o) by ring.
        assert (p_right (o_pad o) = 0) by (rewrite Wbot; clear TW TH; lia).
        replace (p_right (o_pad o)) with 0 in TW by lia. exact TW.
      * exact TW.
  - assert (C4 : (cc (fst b) - cc (o_woff o) <=? Z.min (cc (snd b) - cc (o_woff o)) (cc (o_ifm o))) = true) by (apply Z.leb_le; lia).
    rewrite C1, C2, C3, C4. cbn [andb].
    eexists _, _, _. split; [reflexivity|].
    cbv zeta. unfold conv_hw_padding, create_padding. rewrite Hvp. cbn [fst snd ch cw cn cc p_top p_bottom p_left p_right].
    fold st en woff.
    intros r c ky kx Hr Hc Hky Hkx.
    split.
    + specialize (TH r ky Hr Hky).
      destruct ((st =? woff) && (woff + ch (o_oshape o) <=? en)); exact TH.
    + specialize (TW c kx ltac:(lia) Hkx).
      rewrite Z.eqb_refl in TW. rewrite Z.leb_refl in TW. cbn [andb] in TW.
      replace (Z.max (0 - p_left (o_pad o)) 0) with 0 in * by lia.
      change (0 <? 0) with false. cbv iota.
      replace (cw (o_woff o) + cw (o_oshape o) - cw (o_woff o)) with (cw (o_oshape o)) by lia.
      rewrite (Z.max_l _ 1) in TW by lia. fold W.
      destruct (Z.ltb_spec (Z.min (cw (o_oshape o) * o_sx o + (needed_total_padding W (o_sx o) (o_dx o * (o_kw o - 1) + 1) - p_left (o_pad o))) W) W) as [Hlt|Hge].
      * assert (ME : (cw (o_oshape o) - 1) * o_sx o = cw (o_oshape o) * o_sx o - o_sx o) by ring.
        assert (p_right (o_pad o) = 0) by (rewrite Wbot; clear TW TH; lia).
        replace (p_right (o_pad o)) with 0 in TW by lia. exact TW.
      * exact TW.
Qed.

(* the hypotheses of stripe_taps_equal_lemma are satisfiable by a non-trivial instance: 3x3 stride-2 SAME convolution
   with dilation 2 on a 11x9 input writing a 6x5 window at offset (2,1) of a larger OFM, stripe = rows [4,6) of it *)
Example stripe_taps_equal_example :
  exists o b pad skirt,
    calc_padding_and_skirt PAD_SAME 5 5 2 2 11 9 {| p_top := 0; p_left := 0; p_bottom := 0; p_right := 0 |} = Some (pad, skirt) /\
    o = {| o_ifm := {| cn := 1; ch := 11; cw := 9; cc := 8 |}; o_oshape := {| cn := 1; ch := 6; cw := 5; cc := 16 |};
           o_woff := {| cn := 0; ch := 2; cw := 1; cc := 0 |}; o_kh := 3; o_kw := 3; o_dy := 2; o_dx := 2; o_sy := 2; o_sx := 2;
           o_pad := pad; o_skirt := skirt; o_bt := BT_ConvolutionMxN |} /\
    b = ({| cn := 0; ch := 4; cw := 1; cc := 0 |}, {| cn := 1; ch := 6; cw := 6; cc := 16 |}) /\
    geom_ok (conv_geom_h o) /\ geom_sane (conv_geom_h o) /\ geom_ok (conv_geom_w o) /\ geom_sane (conv_geom_w o) /\
    (o_bt o =? BT_VectorProduct) = false /\ stripe_box_ok o b /\
    transform (conv_tf o b) = Some (({| cn := 0; ch := 2; cw := 0; cc := 0 |}, {| cn := 1; ch := 10; cw := 9; cc := 8 |}), 0, 0).
Proof.
  eexists _, _, _, _. split; [vm_compute; reflexivity|]. split; [reflexivity|]. split; [reflexivity|].
  assert (Gh := same_geom_ok 11 6 3 2 2 _ _ 5 2 9 {| p_top := 0; p_left := 0; p_bottom := 0; p_right := 0 |}
                  ltac:(lia) ltac:(lia) ltac:(lia) ltac:(lia) ltac:(reflexivity) ltac:(vm_compute; reflexivity)).
  assert (Gw := same_geom_ok_w 9 5 3 2 2 _ _ 5 2 11 {| p_top := 0; p_left := 0; p_bottom := 0; p_right := 0 |}
                  ltac:(lia) ltac:(lia) ltac:(lia) ltac:(lia) ltac:(reflexivity) ltac:(vm_compute; reflexivity)).
  destruct Gh as [Gh1 Gh2]. destruct Gw as [Gw1 Gw2].
  split; [exact Gh1|]. split; [exact Gh2|]. split; [exact Gw1|]. split; [exact Gw2|].
  split; [reflexivity|]. split; [unfold stripe_box_ok; cbn; lia|]. vm_compute. reflexivity.
Qed.

(* ---------- EXPLICIT padding (a PAD operator fused into the consumer) ---------- *)
Lemma mod_neq' a b s : 0 < a - b < s -> a mod s <> b mod s.
Proof.
  intros H E.
  assert (Hd : (a - b) mod s = 0) by (rewrite Zminus_mod, E, Z.sub_diag; apply Z.mod_0_l; lia).
  apply Z.mod_divide in Hd; [|lia]. destruct Hd as [q Hq].
  assert (Hq2 : 0 < q * s < s) by lia.
  destruct (Z.le_gt_cases q 0) as [Hq0|Hq0].
  - assert (q * s <= 0) by (apply Z.mul_nonpos_nonneg; lia). lia.
  - assert (1 * s <= q * s) by (apply Z.mul_le_mono_nonneg_r; lia). lia.
Qed.

(* the while loop of calc_explicit_padding: the largest value <= pad_after that is 0 or congruent to the target *)
Lemma explicit_after_spec s tmb : 0 < s -> forall fuel opa, 0 <= opa -> (Z.to_nat opa <= fuel)%nat ->
  let r := explicit_after fuel opa s tmb in
  0 <= r <= opa /\ (r = 0 \/ r mod s = tmb mod s) /\ (forall v, r < v <= opa -> v mod s <> tmb mod s).
Proof.
  intros Hs. induction fuel as [|fuel IH]; intros opa H0 Hf.
  - cbn. assert (opa = 0) by lia. subst. repeat split; try lia; try (left; reflexivity).
  - cbn [explicit_after].
    destruct (Z.ltb_spec 0 opa) as [Hpos|Hz]; cbn [andb].
    + destruct (Z.eqb_spec (opa mod s) (tmb mod s)) as [E|E]; cbn [negb].
      * repeat split; try lia; try (right; exact E).
      * specialize (IH (opa - 1) ltac:(lia) ltac:(lia)). cbv zeta in IH.
        destruct IH as (I1 & I2 & I3). split; [lia|]. split; [exact I2|].
        intros v Hv. destruct (Z.eq_dec v opa) as [->|Hne]; [exact E|]. apply I3. lia.
    + assert (opa = 0) by lia. subst. repeat split; try lia; try (left; reflexivity).
Qed.

(* calc_explicit_padding (as repaired in /repo 8267dad): the after-padding handed to the hardware is exactly the padding
   the last filter position needs -- max(0, (out-1)*stride + filter - pad_before - input) with
   out = (input + pad_before + pad_after - filter) / stride + 1 -- and never more than the PAD operator's pad_after *)
Lemma calc_explicit_padding_exact_lemma i s f pb pa :
  0 < s -> 0 < f -> 0 <= pb -> 0 <= pa -> f <= i + pb + pa ->
  let out := (i + pb + pa - f) / s + 1 in
  calc_explicit_padding i s f pb pa = (pb, Z.max 0 ((out - 1) * s + f - pb - i)) /\
  Z.max 0 ((out - 1) * s + f - pb - i) <= pa.
Proof.
  intros Hs Hf Hpb Hpa Hfit. cbv zeta. unfold calc_explicit_padding.
  pose proof (Z.div_mod (i + pb + pa - f) s ltac:(lia)) as Hdm. pose proof (Z.mod_pos_bound (i + pb + pa - f) s ltac:(lia)) as Hmb.
  set (n := (i + pb + pa - f) / s) in *. replace (n + 1 - 1) with n by lia.
  set (x := n * s + f - pb - i).
  assert (Hx1 : x <= pa) by (unfold x; lia). assert (Hx2 : pa - s < x) by (unfold x; lia).
  assert (Hxm : x mod s = (f - i - pb) mod s).
  { replace x with ((f - i - pb) + n * s) by (unfold x; lia). apply Z.mod_add. lia. }
  destruct (explicit_after_spec s (f - i - pb) Hs (Z.to_nat pa) pa Hpa ltac:(lia)) as (R1 & R2 & R3).
  set (r := explicit_after (Z.to_nat pa) pa s (f - i - pb)) in *.
  assert (Hr : r = Z.max 0 x).
  { destruct (Z.lt_ge_cases 0 x) as [Hxp|Hxn].
    - assert (x <= r). { destruct (Z.le_gt_cases x r); [assumption|]. exfalso. apply (R3 x); [lia|exact Hxm]. }
      destruct R2 as [R2|R2]; [lia|].
      destruct (Z.eq_dec r x) as [->|Hne]; [lia|]. exfalso. apply (mod_neq' r x s); [lia|]. rewrite R2, Hxm. reflexivity.
    - destruct R2 as [R2|R2]; [lia|].
      destruct (Z.eq_dec r 0) as [->|Hne]; [lia|]. exfalso. apply (mod_neq' r x s); [lia|]. rewrite R2, Hxm. reflexivity. }
  rewrite Hr. split; [reflexivity|lia].
Qed.

(* EXPLICIT: OFM = floor((IFM + before + after - k_dilated) / stride) + 1.  One class is excluded, a defect of the
   unchanged code (see StripeRefuteProofs): an OFM taller than the IFM (even kernel with full pads) *)
Lemma explicit_geom_ok H Ho k d s t b pad skirt kw sx W ep :
  1 <= s -> 1 <= d -> 1 <= k -> 1 <= H -> 0 <= t -> 0 <= b -> t < d * (k - 1) + 1 -> b < d * (k - 1) + 1 ->
  d * (k - 1) + 1 <= H + t + b -> Ho = (H + t + b - (d * (k - 1) + 1)) / s + 1 -> Ho <= H ->
  p_top ep = t -> p_bottom ep = b ->
  calc_padding_and_skirt PAD_EXPLICIT kw (d * (k - 1) + 1) sx s H W ep = Some (pad, skirt) ->
  geom_ok (geom_of H Ho k d s pad skirt) /\ geom_sane (geom_of H Ho k d s pad skirt) /\ p_top pad = t.
Proof.
  intros Hs Hd Hk HH Ht Hb Htk Hbk Hfit HHo HoH Ept Epb Hc.
  unfold calc_padding_and_skirt in Hc.
  change (PAD_EXPLICIT =? PAD_SAME) with false in Hc. change (PAD_EXPLICIT =? PAD_VALID) with false in Hc.
  change (PAD_EXPLICIT =? PAD_EXPLICIT) with true in Hc. cbv beta iota zeta in Hc. rewrite Ept, Epb in Hc.
  set (kd := d * (k - 1) + 1) in *. assert (1 <= kd) by (unfold kd; nia).
  destruct (calc_explicit_padding_exact_lemma H s kd t b ltac:(lia) ltac:(lia) Ht Hb Hfit) as [Ec Ele]. cbv zeta in Ec, Ele.
  rewrite Ec in Hc.
  destruct (calc_explicit_padding W sx kw (p_left ep) (p_right ep)) as [l r]. injection Hc as <- <-.
  pose proof (Z.div_mod (H + t + b - kd) s ltac:(lia)) as Hdm. pose proof (Z.mod_pos_bound (H + t + b - kd) s ltac:(lia)) as Hmb.
  assert (Hq1 : 0 <= (H + t + b - kd) / s) by (apply Z.div_pos; lia).
  set (n := (H + t + b - kd) / s) in *. assert (HoN : Ho - 1 = n) by lia.
  replace (n + 1 - 1) with n in * by lia.
  unfold geom_ok, geom_sane, geom_of, g_kd.
  cbn [g_in g_out g_k g_d g_s g_top g_bottom g_sk_t g_sk_b p_top p_bottom]. fold kd.
  rewrite HoN.
  repeat split; lia.
Qed.

(* satisfiable: PAD (1,1) fused into a 3x3 stride-2 convolution on 8 rows; and the class the repair covers: 2x2 stride 3 *)
Example explicit_geom_example :
  exists pad skirt,
    calc_padding_and_skirt PAD_EXPLICIT 3 3 2 2 8 8 {| p_top := 1; p_left := 1; p_bottom := 1; p_right := 1 |} = Some (pad, skirt) /\
    geom_ok (geom_of 8 4 3 1 2 pad skirt) /\ p_bottom pad = 0.
Proof.
  eexists _, _. split; [vm_compute; reflexivity|].
  split; [|vm_compute; reflexivity].
  eapply (explicit_geom_ok 8 4 3 1 2 1 1 _ _ 3 2 8 {| p_top := 1; p_left := 1; p_bottom := 1; p_right := 1 |});
    try lia; try reflexivity; vm_compute; try reflexivity; discriminate.
Qed.

(* ---------- the validator used on emitted stripes is sound ---------- *)
Lemma range_from_In n : forall a i, In i (range_from n a 1) <-> a <= i < a + Z.of_nat n.
Proof.
  induction n as [|n IH]; intros a i; cbn [range_from In].
  - split; [contradiction|lia].
  - rewrite IH. rewrite Nat2Z.inj_succ. split; [intros [<-|H]; lia | intros H; destruct (Z.eq_dec a i); [left; assumption | right; lia]].
Qed.

Lemma tap_eqb_eq a b : tap_eqb a b = true -> a = b.
Proof. destruct a, b; cbn; try discriminate; try reflexivity. intros H. apply Z.eqb_eq in H. subst. reflexivity. Qed.

Lemma check_stripe_taps_sound b0 b1 p0 p1 n s kd d k lo hi top r0 :
  check_stripe_taps b0 b1 p0 p1 n s kd d k lo hi top r0 = true ->
  forall i ky, 0 <= i < n -> 0 <= ky < k ->
    hw_tap b0 b1 p0 p1 n s kd i (ky * d) = ref_tap lo hi top s (r0 + i) (ky * d).
Proof.
  unfold check_stripe_taps. intros Hc i ky Hi Hk.
  rewrite forallb_forall in Hc. specialize (Hc i). rewrite range_from_In in Hc.
  specialize (Hc ltac:(lia)). rewrite forallb_forall in Hc. specialize (Hc ky). rewrite range_from_In in Hc.
  apply tap_eqb_eq. apply Hc. lia.
Qed.

(* satisfiable by the class that used to fail: PAD (1,1) folded into a 2x2 stride-1 VALID convolution, IFM 4 rows, OFM 5 rows *)
Example stripe_h_taps_tall_example :
  exists pad skirt,
    calc_padding_and_skirt PAD_EXPLICIT 2 2 1 1 4 4 {| p_top := 1; p_left := 1; p_bottom := 1; p_right := 1 |} = Some (pad, skirt) /\
    geom_ok_tall (geom_of 4 5 2 1 1 pad skirt) /\ g_in (geom_of 4 5 2 1 1 pad skirt) < g_out (geom_of 4 5 2 1 1 pad skirt).
Proof.
  eexists _, _. split; [vm_compute; reflexivity|]. split; [|cbn; lia].
  unfold geom_ok_tall, geom_of, g_kd. cbn [g_in g_out g_k g_d g_s g_top g_bottom g_sk_t g_sk_b p_top p_bottom].
  repeat split; try lia; vm_compute; try reflexivity; discriminate.
Qed.

