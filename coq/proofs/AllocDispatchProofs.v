(* The dispatcher tensor_allocation.allocate: whichever allocator is selected, and whatever alignment is
   requested, the run ends with addresses that keep co-live ranges disjoint, honour every range's alignment
   (LinearAlloc: the requested alignment itself) and stay below the reported total. *)
From Coq Require Import ZArith List Bool Lia Permutation.
From VV Require Import lib.PyInt model.Alloc proofs.AllocProofs proofs.AllocAlignProofs proofs.AllocGreedyProofs proofs.AllocLinearProofs
  proofs.AllocHillProofs proofs.AllocHillSearchProofs proofs.AllocHillPeakProofs proofs.AllocHillWalkProofs.
Import ListNotations.
Open Scope Z_scope.

(* the live ranges the dispatcher sees: alignment 16 or the requested one, both divide the requested one *)
Definition d_wf (A : Z) (r : lr) : Prop := 0 <= lr_start r /\ 0 < lr_size r /\ 0 < lr_align r /\ (lr_align r | A).

Definition pairs_ok (pairs : list (lr * Z)) (total : Z) : Prop :=
  (forall i j r1 a1 r2 a2, i <> j -> nth_error pairs i = Some (r1, a1) -> nth_error pairs j = Some (r2, a2) ->
     time_overlap r1 r2 -> disjoint a1 (lr_size r1) a2 (lr_size r2)) /\
  (forall r a, In (r, a) pairs -> (lr_align r | a) /\ 0 <= a /\ a + lr_size r <= total).

(* ---------- plain entries ---------- *)
Lemma lins_of_nth : forall lrs k i r, nth_error lrs i = Some r ->
  nth_error (lins_of lrs k) i = Some (mkLin (lr_size r) 0 0 0 (k + Z.of_nat i)).
Proof.
  induction lrs as [|x l IH]; intros k i r H; [destruct i; discriminate|]. destruct i as [|i]; cbn [lins_of nth_error] in *.
  - inversion H; subst. f_equal. f_equal. lia.
  - rewrite (IH (k + 1) i r H). f_equal. f_equal. lia.
Qed.

Lemma lins_of_in : forall lrs k e, In e (lins_of lrs k) ->
  exists i r, nth_error lrs i = Some r /\ e = mkLin (lr_size r) 0 0 0 (k + Z.of_nat i).
Proof.
  induction lrs as [|x l IH]; intros k e H; [destruct H|]. cbn [lins_of] in H. destruct H as [<-|H].
  - exists 0%nat, x. split; [reflexivity|]. f_equal. lia.
  - destruct (IH _ _ H) as [i [r [Hr ->]]]. exists (Datatypes.S i), r. split; [exact Hr|]. f_equal. lia.
Qed.

Lemma lins_of_length : forall lrs k, length (lins_of lrs k) = length lrs.
Proof. induction lrs as [|x l IH]; intros k; cbn [lins_of length]; [reflexivity|]. rewrite IH. reflexivity. Qed.

Lemma linear_run_plain : forall g es done total,
  (forall e, In e es -> l_wcc e = 0 /\ l_lut e = 0) ->
  exists out t, linear_run g es done total = Ok (out, t).
Proof.
  intros g. induction es as [|e rest IH]; intros done total H; cbn [linear_run]; [eauto|].
  destruct (H e (or_introl eq_refl)) as [Hw Hl]. unfold lin_address. rewrite Hw, Hl. cbn [Z.eqb].
  destruct (IH (done ++ [(e, total)]) (if total =? total then total + round_up (l_size e) g else total)
              (fun x Hx => H x (or_intror Hx))) as [out [t E]].
  rewrite E. eauto.
Qed.

Lemma allocate_nonempty : forall (S : Type) (next : S -> Z * S) tag A lrs mi limit s, lrs <> [] ->
  allocate S next tag A lrs mi limit s =
  if tag =? 2 then let '(out, m) := greedy lrs in InOrder out m
  else if tag =? 1 then ByIndex (linear A (lins_of lrs 0))
  else if tag =? 3 then
    ByIndex (match hillclimb S next lrs mi limit s with
             | Ok (addrs, _, _, _) => Ok (addrs, hc_total lrs addrs 0)
             | Err c => Err c
             end)
  else BadAllocator.
Proof. intros S next tag A [|r l] mi limit s H; [contradiction | reflexivity]. Qed.

Lemma allocate_ok_lemma : forall (S : Type) (next : S -> Z * S) tag A lrs mi limit s,
  0 < A -> Forall (d_wf A) lrs -> footprint_bound lrs <= 2 ^ 63 -> tag = 1 \/ tag = 2 \/ tag = 3 ->
  match allocate S next tag A lrs mi limit s with
  | InOrder out m => Permutation (map fst out) lrs /\ pairs_ok out m
  | ByIndex (Ok (addrs, total)) =>
      length addrs = length lrs /\ pairs_ok (combine lrs addrs) total /\ (tag = 1 -> forall a, In a addrs -> (A | a))
  | ByIndex (Err _) => False
  | BadAllocator => False
  end.
Proof.
  intros S next tag A lrs mi limit s HA Hwf Hfb Htag.
  assert (Hgw : Forall g_wf lrs).
  { rewrite Forall_forall in *. intros r Hr. destruct (Hwf r Hr) as (_ & ? & ? & _). split; assumption. }
  assert (Hhw : Forall hc_wf lrs).
  { rewrite Forall_forall in *. intros r Hr. destruct (Hwf r Hr) as (? & ? & ? & _). repeat split; auto; lia. }
  destruct (Nat.eq_dec (length lrs) 0) as [E0|E0].
  { apply length_zero_iff_nil in E0. subst lrs. cbn.
    split; [reflexivity|]. split; [split; [intros i j r1 a1 r2 a2 _ H; destruct i; discriminate | intros r a []]|].
    intros _ a []. }
  rewrite allocate_nonempty by (intros C; rewrite C in E0; apply E0; reflexivity).
  destruct (Z.eqb_spec tag 2) as [E2|N2].
  - (* Greedy *)
    destruct (greedy lrs) as [out m] eqn:Eg.
    destruct (greedy_no_overlap_lemma lrs out m Hgw Eg) as [Hperm Hdis].
    split; [exact Hperm|]. split; [exact Hdis|].
    intros r a Hin. destruct (greedy_aligned_lemma lrs out m r a Hgw Eg Hin) as [H1 H2].
    destruct (greedy_total_is_extent_lemma lrs out m Hgw Eg) as (Hub & _). specialize (Hub r a Hin).
    repeat split; auto; lia.
  - destruct (Z.eqb_spec tag 1) as [E1|N1].
    + (* LinearAlloc with the requested alignment as granularity *)
      set (es := lins_of lrs 0).
      assert (Hplain : forall e, In e es -> l_wcc e = 0 /\ l_lut e = 0).
      { intros e He. apply lins_of_in in He. destruct He as [i [r [_ ->]]]. cbn. auto. }
      unfold linear. destruct (linear_run_plain A es [] 0 Hplain) as [addrs [total Erun]]. rewrite Erun.
      assert (Hinj : forall e1 e2, In e1 es -> In e2 es -> l_eq e1 = l_eq e2 -> e1 = e2).
      { intros e1 e2 H1 H2 He. apply lins_of_in in H1. apply lins_of_in in H2.
        destruct H1 as [i1 [r1 [Hr1 ->]]]. destruct H2 as [i2 [r2 [Hr2 ->]]]. cbn in He.
        assert (i1 = i2) by lia. subst i2. rewrite Hr1 in Hr2. inversion Hr2; subst. reflexivity. }
      assert (Hlinked : forall a b, In a es -> In b es -> linked a b -> l_eq a = l_eq b).
      { intros a b Ha Hb [[Hw _]|Hl]; [destruct (Hplain a Ha); contradiction | exact Hl]. }
      destruct (linear_spec_lemma A HA (fun a b => l_eq a = l_eq b) (fun a => eq_refl) (fun a b H => eq_sym H)
                  (fun a b c H1 H2 => eq_trans H1 H2) es Hlinked addrs total) as (Hlen & Hdis & Hal & _).
      { intros e He. apply lins_of_in in He. destruct He as [i [r [Hr ->]]]. cbn.
        rewrite Forall_forall in Hgw. destruct (Hgw r (nth_error_In _ _ Hr)). lia. }
      { intros e1 e2 H1 H2 Hl. rewrite (Hinj e1 e2 H1 H2 (Hlinked e1 e2 H1 H2 Hl)). reflexivity. }
      { exact Erun. }
      unfold es in Hlen. rewrite lins_of_length in Hlen.
      split; [exact Hlen|]. split; [split|].
      * intros i j r1 a1 r2 a2 Hne H1 H2 Hov.
        apply nth_error_combine in H1. apply nth_error_combine in H2. destruct H1 as [Hr1 Ha1]. destruct H2 as [Hr2 Ha2].
        pose proof (lins_of_nth lrs 0 i r1 Hr1) as L1. pose proof (lins_of_nth lrs 0 j r2 Hr2) as L2.
        destruct (Hdis i j _ _ a1 a2 Hne L1 L2 Ha1 Ha2) as [Heq|Hd]; [cbn in Heq; lia | exact Hd].
      * intros r a Hin. apply In_nth_error in Hin. destruct Hin as [i Hi]. apply nth_error_combine in Hi. destruct Hi as [Hr Ha].
        destruct (Hal i _ a (lins_of_nth lrs 0 i r Hr) Ha) as (D1 & D2 & D3). cbn [l_size] in D3.
        rewrite Forall_forall in Hwf. destruct (Hwf r (nth_error_In _ _ Hr)) as (_ & _ & _ & Hdiv).
        split; [apply Z.divide_trans with A; assumption|]. split; [exact D2 | lia].
      * intros _ a Hin. apply In_nth_error in Hin. destruct Hin as [i Hi].
        assert (Hi' : (i < length lrs)%nat) by (rewrite <- Hlen; apply nth_error_Some; congruence).
        destruct (nth_error lrs i) as [r|] eqn:Hr; [|apply nth_error_None in Hr; lia].
        destruct (Hal i _ a (lins_of_nth lrs 0 i r Hr) Hi) as (D1 & _). exact D1.
    + (* HillClimb *)
      assert (E3 : tag = 3) by lia. destruct (Z.eqb_spec tag 3); [|contradiction].
      pose proof (hillclimb_no_error_lemma S next lrs mi limit s Hhw Hfb) as Hne.
      destruct (hillclimb S next lrs mi limit s) as [[[[addrs best] iters] draws]|c] eqn:Eh; [|exact Hne].
      destruct (hillclimb_valid_lemma S next lrs Hhw mi limit s addrs best iters draws Hfb Eh) as (Hlen & Hdis & Hal).
      destruct (hc_total_spec lrs addrs 0) as (_ & Hub & _).
      split; [exact Hlen|]. split; [split|].
      * intros i j r1 a1 r2 a2 Hne' H1 H2 Hov.
        apply nth_error_combine in H1. apply nth_error_combine in H2. destruct H1 as [Hr1 Ha1]. destruct H2 as [Hr2 Ha2].
        apply (Hdis i j r1 r2 a1 a2); auto.
      * intros r a Hin. apply In_nth_error in Hin. destruct Hin as [i Hi]. apply nth_error_combine in Hi. destruct Hi as [Hr Ha].
        destruct (Hal i r a Hr Ha). repeat split; auto. apply (Hub i r a Hr Ha).
      * intros C. lia.
Qed.

(* ---------- every alignment ever requested for a range is honoured ---------- *)
Definition result_pairs (lrs : list lr) (res : alloc_result) : list (lr * Z) :=
  match res with
  | InOrder out _ => out
  | ByIndex (Ok (addrs, _)) => combine lrs addrs
  | _ => []
  end.

Lemma allocate_honours_every_request_lemma : forall (S : Type) (next : S -> Z * S) tag A lrs mi limit s,
  0 < A -> Forall (d_wf A) lrs -> footprint_bound lrs <= 2 ^ 63 -> tag = 1 \/ tag = 2 \/ tag = 3 ->
  forall r a, In (r, a) (result_pairs lrs (allocate S next tag A lrs mi limit s)) ->
  forall first later q,
    lr_align r = range_alignment first later -> div_chain (first :: later) -> In q (first :: later) -> (q | a).
Proof.
  intros S next tag A lrs mi limit s HA Hwf Hfb Htag r a Hin first later q Hal Hc Hq.
  pose proof (allocate_ok_lemma S next tag A lrs mi limit s HA Hwf Hfb Htag) as H.
  apply honours_every_request_lemma with first later; auto. rewrite <- Hal.
  destruct (allocate S next tag A lrs mi limit s) as [[[addrs total]|c]|out m|]; cbn [result_pairs] in Hin.
  - destruct H as (_ & [_ Hp] & _). apply (Hp r a Hin).
  - destruct Hin.
  - destruct H as (_ & [_ Hp]). apply (Hp r a Hin).
  - destruct Hin.
Qed.
