From Coq Require Import ZArith List Bool Lia String.
From VV Require Import lib.PyInt lib.Bits gen.GenTables gen.GenDriver model.Driver.
Import ListNotations.
Open Scope Z_scope.

(* ---------- tie of the translated functions to the hand twins ---------- *)
Lemma gen_make_da_tag_eq id r p : GenDriver.make_da_tag id r p = da_tag id r p.
Proof. reflexivity. Qed.

Lemma for_range_append_repeat (n : nat) (i st x : Z) (acc : list Z) :
  for_range_aux n i st (fun _ d => d ++ [x]) acc = acc ++ repeat x n.
Proof.
  revert i acc. induction n as [|n IH]; intros i acc; cbn [for_range_aux repeat].
  - now rewrite app_nil_r.
  - rewrite IH. rewrite <- app_assoc. reflexivity.
Qed.

Lemma range_len_0_1 n : range_len 0 n 1 = Z.max 0 n.
Proof. unfold range_len. cbn. f_equal. rewrite Z.div_1_r. lia. Qed.

Lemma gen_emit_cmd_stream_header_eq data n :
  GenDriver.emit_cmd_stream_header data n = header data n.
Proof.
  unfold GenDriver.emit_cmd_stream_header, header, py_for_range.
  cbv zeta. rewrite for_range_append_repeat. rewrite range_len_0_1.
  rewrite <- app_assoc. unfold num_nops, nop_word, cmd_stream_tag.
  rewrite !gen_make_da_tag_eq. unfold DA_NOP, DA_CmdStream.
  f_equal. f_equal. f_equal. 
  pose proof (Z.mod_pos_bound (Z.of_nat (List.length data) + 1) 4 ltac:(lia)). lia.
Qed.

(* ---------- da_tag arithmetic ---------- *)
Lemma da_tag_add id r p :
  0 <= id < 256 -> 0 <= r < 256 -> 0 <= p ->
  da_tag id r p = id + r * 256 + p * 65536.
Proof.
  intros Hi Hr Hp. unfold da_tag.
  rewrite (lor_shiftl_add id r 8) by lia.
  rewrite (lor_shiftl_add _ p 16) by (change (2^16) with 65536; change (2^8) with 256; lia).
  change (2^8) with 256. change (2^16) with 65536. reflexivity.
Qed.

Lemma tag_id_add id r p :
  0 <= id < 256 -> tag_id (id + r * 256 + p * 65536) = id.
Proof.
  intros Hi. unfold tag_id. change 255 with (2^8 - 1). rewrite land_ones_mod by lia.
  change (2^8) with 256. 
  replace (id + r * 256 + p * 65536) with (id + (r + p * 256) * 256) by lia.
  rewrite Z.mod_add by lia. apply Z.mod_small; lia.
Qed.

Lemma tag_reserved_add id r p :
  0 <= id < 256 -> 0 <= r < 256 -> tag_reserved (id + r * 256 + p * 65536) = r.
Proof.
  intros Hi Hr. unfold tag_reserved. change 255 with (2^8 - 1). rewrite land_ones_mod by lia.
  rewrite shiftr_div by lia. change (2^8) with 256.
  replace (id + r * 256 + p * 65536) with (id + (r + p * 256) * 256) by lia.
  rewrite Z.div_add by lia. rewrite (Z.div_small id 256) by lia.
  replace (0 + (r + p * 256)) with (r + p * 256) by lia.
  rewrite Z.mod_add by lia. apply Z.mod_small; lia.
Qed.

Lemma tag_param_add id r p :
  0 <= id < 256 -> 0 <= r < 256 -> tag_param (id + r * 256 + p * 65536) = p.
Proof.
  intros Hi Hr. unfold tag_param. rewrite shiftr_div by lia. change (2^16) with 65536.
  rewrite Z.div_add by lia. rewrite Z.div_small by lia. lia.
Qed.

Lemma cmd_stream_tag_add n :
  0 <= n < 2^24 ->
  cmd_stream_tag n = 2 + (n / 65536) * 256 + (n mod 65536) * 65536.
Proof.
  intros Hn. unfold cmd_stream_tag, DA_CmdStream.
  assert (H1 : Z.shiftr (Z.land n 16711680) 16 = n / 65536).
  { rewrite Z.shiftr_land. change (Z.shiftr 16711680 16) with (2^8 - 1).
    rewrite land_ones_mod by lia. rewrite shiftr_div by lia. change (2^16) with 65536.
    change (2^8) with 256. apply Z.mod_small. change (2^24) with 16777216 in Hn.
    split; [apply Z.div_pos; lia | apply Z.div_lt_upper_bound; lia]. }
  assert (H2 : Z.land n 65535 = n mod 65536).
  { change 65535 with (2^16 - 1). rewrite land_ones_mod by lia. reflexivity. }
  rewrite H1, H2. change (2^24) with 16777216 in Hn.
  apply da_tag_add; try lia.
  - split; [apply Z.div_pos; lia | apply Z.div_lt_upper_bound; lia].
  - apply Z.mod_pos_bound; lia.
Qed.

(* ---------- bytes <-> words ---------- *)
Lemma le_bytes_roundtrip w r :
  word_ok w = true ->
  words_of_bytes (le_bytes w ++ r) =
    match words_of_bytes r with Some ws => Some (w :: ws) | None => None end.
Proof.
  intros Hw. unfold word_ok in Hw. apply andb_true_iff in Hw as [H0 H1].
  apply Z.leb_le in H0. apply Z.ltb_lt in H1. change (2^32) with 4294967296 in H1.
  unfold le_bytes. cbn [app words_of_bytes].
  destruct (words_of_bytes r) as [ws|]; [|reflexivity].
  f_equal. f_equal. clear ws.
  Z.div_mod_to_equations. lia.
Qed.

Lemma words_bytes_roundtrip ws :
  forallb word_ok ws = true -> words_of_bytes (bytes_of_words ws) = Some ws.
Proof.
  induction ws as [|w ws IH]; intros H; cbn [bytes_of_words forallb] in *.
  - reflexivity.
  - apply andb_true_iff in H as [Hw Hr]. rewrite le_bytes_roundtrip by exact Hw.
    rewrite IH by exact Hr. reflexivity.
Qed.

(* ---------- the reader on the producer's output ---------- *)
Lemma nop_word_val : nop_word = 5.
Proof. reflexivity. Qed.

Lemma parse_nops k rest pos cfg nops :
  parse_actions (repeat nop_word k ++ rest) pos cfg nops =
  parse_actions rest (pos + Z.of_nat k) cfg (nops + Z.of_nat k).
Proof.
  revert pos nops. induction k as [|k IH]; intros pos nops.
  - cbn [repeat app]. change (Z.of_nat 0) with 0. rewrite !Z.add_0_r. reflexivity.
  - cbn [repeat app]. rewrite nop_word_val at 1.
    cbn [parse_actions]. change (tag_id 5 =? 1) with false. change (tag_id 5 =? 5) with true.
    cbv iota. rewrite IH. rewrite Nat2Z.inj_succ.
    replace (pos + 1 + Z.of_nat k) with (pos + Z.succ (Z.of_nat k)) by lia.
    replace (nops + 1 + Z.of_nat k) with (nops + Z.succ (Z.of_nat k)) by lia.
    reflexivity.
Qed.

Lemma config_tag_id : tag_id config_tag = 1.
Proof. reflexivity. Qed.

Theorem payload_words_parse cfg idw ws :
  Z.of_nat (List.length ws) < 2^24 ->
  exists l, payload_words cfg idw ws = Some l /\
  parse_words l = Some {| p_cfg := cfg; p_id := idw; p_nops := 3;
                          p_cmd_word_index := 8;
                          p_declared_len := Z.of_nat (List.length ws); p_cmds := ws |}.
Proof.
  intros Hlen. unfold payload_words, driver_limit.
  destruct (Z.geb_spec (Z.of_nat (List.length ws)) (2^24)) as [Hge|Hlt]; [lia|].
  eexists; split; [reflexivity|].
  unfold header. cbn [List.length app]. change (Z.of_nat 4) with 4.
  change (Z.to_nat (num_nops 4)) with 3%nat.
  unfold parse_words. rewrite Z.eqb_refl.
  cbn [parse_actions]. rewrite config_tag_id. cbn [Z.eqb].
  rewrite <- app_assoc. cbn [app].
  change (nop_word :: nop_word :: nop_word :: cmd_stream_tag (Z.of_nat (List.length ws)) :: ws)
    with (repeat nop_word 3 ++ cmd_stream_tag (Z.of_nat (List.length ws)) :: ws).
  rewrite parse_nops.
  set (n := Z.of_nat (List.length ws)) in *.
  assert (Hn : 0 <= n < 2^24) by (unfold n; lia).
  cbn [parse_actions]. rewrite (cmd_stream_tag_add n Hn).
  assert (Hq : 0 <= n / 65536 < 256).
  { change (2^24) with 16777216 in Hn. split; [apply Z.div_pos; lia | apply Z.div_lt_upper_bound; lia]. }
  rewrite tag_id_add by lia. cbn [Z.eqb].
  rewrite tag_reserved_add by lia. rewrite tag_param_add by lia.
  replace (n / 65536 * 65536 + n mod 65536) with n
    by (pose proof (Z.div_mod n 65536 ltac:(lia)); lia).
  fold n. rewrite Z.eqb_refl. reflexivity.
Qed.

Definition row_matches_spec (a : accel_row) : bool :=
  match spec_lookup (a_name a) spec_table with
  | Some (prod, lg, kb) =>
      (cfg_product (a_cfg_word a) =? prod) && (cfg_macs_log2 (a_cfg_word a) =? lg) &&
      (cfg_shram_kb (a_cfg_word a) =? kb) && (cfg_stream_version (a_cfg_word a) =? 0) &&
      (let '(ma, mi, pa) := spec_arch_ver in
       (id_arch_major (a_id_word a) =? ma) && (id_arch_minor (a_id_word a) =? mi) &&
       (id_arch_patch (a_id_word a) =? pa)) &&
      word_ok (a_cfg_word a) && word_ok (a_id_word a)
  | None => false
  end.

(* finite fact about the six regenerated rows *)
Lemma accel_rows_match_spec : forallb row_matches_spec accel_table = true.
Proof. vm_compute. reflexivity. Qed.

Lemma accel_table_complete :
  map a_name accel_table = map fst spec_table.
Proof. vm_compute. reflexivity. Qed.

Lemma header_words_ok n : 0 <= n < 2^24 -> word_ok (cmd_stream_tag n) = true.
Proof.
  intros Hn. rewrite cmd_stream_tag_add by exact Hn. unfold word_ok.
  change (2^24) with 16777216 in Hn. change (2^32) with 4294967296.
  assert (0 <= n / 65536 < 256) by (split; [apply Z.div_pos; lia | apply Z.div_lt_upper_bound; lia]).
  pose proof (Z.mod_pos_bound n 65536 ltac:(lia)).
  apply andb_true_iff; split; [apply Z.leb_le | apply Z.ltb_lt]; lia.
Qed.

Theorem payload_parses_lemma (a : accel_row) (ws : list Z) :
  In a accel_table ->
  forallb word_ok ws = true ->
  Z.of_nat (List.length ws) < 2^24 ->
  exists bs p, payload_of a ws = Some bs /\ parse_bytes bs = Some p /\ frames_ok a ws p /\
               Z.of_nat (List.length bs) = 4 * (8 + Z.of_nat (List.length ws)).
Proof.
  intros Hin Hws Hlen.
  pose proof accel_rows_match_spec as Hall. rewrite forallb_forall in Hall.
  specialize (Hall a Hin). unfold row_matches_spec in Hall.
  destruct (spec_lookup (a_name a) spec_table) as [[[prod lg] kb]|] eqn:Hspec; [|discriminate].
  unfold spec_arch_ver in Hall.
  repeat match goal with H : (_ && _) = true |- _ => apply andb_true_iff in H as [? ?] end.
  destruct (payload_words_parse (a_cfg_word a) (a_id_word a) ws Hlen) as [l [Hl Hp]].
  unfold payload_of, payload_bytes. rewrite Hl.
  assert (Hok : forallb word_ok l = true).
  { unfold payload_words, driver_limit in Hl.
    destruct (Z.geb_spec (Z.of_nat (List.length ws)) (2^24)); [discriminate|].
    injection Hl as <-. unfold header. cbn [List.length app].
    change (Z.to_nat (num_nops (Z.of_nat 4))) with 3%nat. cbn [repeat app forallb].
    rewrite header_words_ok by lia.
    repeat match goal with H : word_ok _ = true |- _ => rewrite H; clear H end. rewrite Hws. reflexivity. }
  rewrite Hok. eexists; eexists; split; [reflexivity|].
  unfold parse_bytes. rewrite words_bytes_roundtrip by exact Hok. split; [exact Hp|].
  split.
  - unfold frames_ok; cbn [p_cfg p_id p_cmd_word_index p_declared_len p_cmds].
    repeat match goal with H : (_ =? _) = true |- _ => apply Z.eqb_eq in H end.
    repeat split; try congruence.
    unfold spec_arch_ver. congruence.
  - assert (Hbl : forall l0, Z.of_nat (List.length (bytes_of_words l0)) = 4 * Z.of_nat (List.length l0)).
    { induction l0 as [|w l0 IH]; [reflexivity|]. cbn [bytes_of_words]. rewrite app_length.
      cbn [le_bytes List.length]. lia. }
    rewrite Hbl. unfold payload_words, driver_limit in Hl.
    destruct (Z.geb_spec (Z.of_nat (List.length ws)) (2^24)); [discriminate|].
    injection Hl as <-. unfold header. cbn [List.length app].
    change (Z.to_nat (num_nops (Z.of_nat 4))) with 3%nat. cbn [repeat app List.length]. lia.
Qed.

Theorem payload_rejects_lemma cfg idw ws :
  2^24 <= Z.of_nat (List.length ws) -> payload_bytes cfg idw ws = None.
Proof.
  intros H. unfold payload_bytes, payload_words, driver_limit.
  destruct (Z.geb_spec (Z.of_nat (List.length ws)) (2^24)); [reflexivity|lia].
Qed.

(* non-vacuity *)
Example payload_example :
  exists a, In a accel_table /\
  match payload_of a [16388; 65537; 4294967295] with
  | Some bs => match parse_bytes bs with Some p => p_cmds p = [16388; 65537; 4294967295] | None => False end
  | None => False end.
Proof. eexists; split; [left; reflexivity|]. vm_compute. reflexivity. Qed.

(* ------------------------------------------------------------------ the hardware size guard of generate_command_stream *)
From VV Require Import gen.GenGuards.

Lemma emitter_size_fold (cmds : list (list Z)) (acc : Z) :
  fold_left (fun sz cmd => sz + Z.of_nat (List.length cmd) * emitter_word_size) cmds acc
  = acc + 4 * Z.of_nat (List.length (List.concat cmds)).
Proof.
  revert acc. induction cmds as [|c t IH]; intros acc; cbn [fold_left List.concat].
  - cbn. lia.
  - rewrite IH. rewrite app_length, Nat2Z.inj_add. unfold emitter_word_size. lia.
Qed.

Lemma emitter_size_is_4_words_lemma (cmds : list (list Z)) :
  emitter_size_in_bytes cmds = 4 * Z.of_nat (List.length (emitter_to_list cmds)).
Proof. unfold emitter_size_in_bytes, emitter_to_list. rewrite emitter_size_fold. lia. Qed.

Lemma hw_limit_guard_spec_lemma (cmds : list (list Z)) :
  hw_limit_guard (emitter_size_in_bytes cmds) = true <-> 2 ^ 22 <= Z.of_nat (List.length (emitter_to_list cmds)).
Proof.
  rewrite emitter_size_is_4_words_lemma. unfold hw_limit_guard. change (Z.shiftl 1 24) with 16777216.
  change (2 ^ 22) with 4194304. rewrite Z.geb_le. lia.
Qed.
