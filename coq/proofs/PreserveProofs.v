From Coq Require Import ZArith List Bool Lia.
From VV Require Import model.Preserve.
Import ListNotations.
Open Scope Z_scope.

Lemma zmem_In x l : zmem x l = true <-> In x l.
Proof.
  induction l as [|y t IH]; cbn; [split; [discriminate | tauto]|].
  rewrite orb_true_iff, IH, Z.eqb_eq. split; intros [H|H]; auto.
Qed.

Lemma znodup_NoDup l : znodup l = true -> NoDup l.
Proof.
  induction l as [|x t IH]; cbn; intros H; [constructor|].
  apply andb_true_iff in H as [H1 H2]. constructor; [|apply IH; exact H2].
  intros Hin. apply zmem_In in Hin. rewrite Hin in H1. discriminate.
Qed.

Lemma assoc_In m k v : assoc m k = Some v -> In (k, v) m.
Proof.
  induction m as [|[a b] t IH]; cbn; [discriminate|].
  destruct (Z.eqb_spec a k) as [Heq|Hne]; intros H; [injection H as Hv; subst; now left | right; auto].
Qed.

(* injectivity of a witness with distinct keys and distinct values *)
Lemma assoc_injective m k1 k2 v :
  NoDup (map snd m) -> assoc m k1 = Some v -> assoc m k2 = Some v -> k1 = k2.
Proof.
  induction m as [|[a b] t IH]; cbn; [discriminate|]. intros Hnd H1 H2.
  inversion Hnd as [|? ? Hnotin Hnd']; subst.
  destruct (Z.eqb_spec a k1) as [E1|Hn1]; destruct (Z.eqb_spec a k2) as [E2|Hn2].
  - congruence.
  - injection H1 as Hb. subst. apply assoc_In in H2. exfalso. apply Hnotin. apply in_map_iff. exists (k2, v). auto.
  - injection H2 as Hb. subst. apply assoc_In in H1. exfalso. apply Hnotin. apply in_map_iff. exists (k1, v). auto.
  - apply IH; assumption.
Qed.

(* ---------- declarative statement ---------- *)
Definition TensSame (src out : gsum) (psi : list (Z * Z)) (t u : Z) : Prop :=
  (t < 0 /\ u < 0) \/
  (0 <= t /\ 0 <= u /\ exists a b, nthZ (g_tens out) t = Some a /\ nthZ (g_tens src) u = Some b /\
     ts_sig a = ts_sig b /\
     ((ts_data a <> 0 /\ ts_data a = ts_data b) \/ (ts_data a = 0 /\ ts_data b = 0 /\ assoc psi t = Some u))).

Lemma tens_match_sound src out psi t u :
  tens_match src out psi t u = true -> TensSame src out psi t u.
Proof.
  unfold tens_match, TensSame. destruct ((t <? 0) || (u <? 0)) eqn:Hneg.
  - intros H. apply andb_true_iff in H as [H1 H2]. apply Z.ltb_lt in H1, H2. left. lia.
  - apply orb_false_iff in Hneg as [H1 H2]. apply Z.ltb_ge in H1, H2.
    destruct (nthZ (g_tens out) t) as [a|]; [|discriminate].
    destruct (nthZ (g_tens src) u) as [b|]; [|discriminate].
    intros H. right. split; [lia|]. split; [lia|]. exists a, b. split; [reflexivity|]. split; [reflexivity|].
    destruct (Z.eqb_spec (ts_data a) 0) as [Hz|Hnz]; cbn [negb] in H.
    + apply andb_true_iff in H as [H Hb]. apply andb_true_iff in H as [Hps Hsig].
      apply Z.eqb_eq in Hsig, Hb. split; [exact Hsig|]. right. split; [exact Hz|]. split; [exact Hb|].
      destruct (assoc psi t) as [u'|]; [|discriminate]. apply Z.eqb_eq in Hps. subst. reflexivity.
    + apply andb_true_iff in H as [Hd Hsig]. apply Z.eqb_eq in Hd, Hsig. split; [exact Hsig|]. left. split; assumption.
Qed.

Lemma list_match_sound src out psi ts us :
  list_match src out psi ts us = true -> Forall2 (TensSame src out psi) ts us.
Proof.
  revert us. induction ts as [|t ts IH]; intros [|u us] H; cbn in H; try discriminate; [constructor|].
  apply andb_true_iff in H as [H1 H2]. constructor; [apply tens_match_sound; exact H1 | apply IH; exact H2].
Qed.

Definition OpVerbatim (src out : gsum) (psi : list (Z * Z)) (o s : osum) : Prop :=
  os_sig o = os_sig s /\ os_npu o = false /\ os_npu s = false /\
  Forall2 (TensSame src out psi) (os_in o) (os_in s) /\ Forall2 (TensSame src out psi) (os_out o) (os_out s).

Lemma op_match_sound src out psi o s : op_match src out psi o s = true -> OpVerbatim src out psi o s.
Proof.
  unfold op_match, OpVerbatim. intros H.
  apply andb_true_iff in H as [H Ho]. apply andb_true_iff in H as [H Hi].
  apply andb_true_iff in H as [H Hs]. apply andb_true_iff in H as [Hsig Hn].
  apply Z.eqb_eq in Hsig. apply negb_true_iff in Hn, Hs.
  repeat split; try assumption; apply list_match_sound; assumption.
Qed.

Lemma ops_match_sound src out psi phi ops : forall i0,
  ops_match src out psi phi i0 ops = true ->
  forall k o, nth_error ops k = Some o -> os_npu o = false ->
  exists j s, assoc phi (i0 + Z.of_nat k) = Some j /\ nthZ (g_ops src) j = Some s /\ OpVerbatim src out psi o s.
Proof.
  induction ops as [|o0 t IH]; intros i0 H k o Hk Hn; [destruct k; discriminate|].
  cbn [ops_match] in H. apply andb_true_iff in H as [H0 Ht].
  destruct k as [|k]; cbn [nth_error] in Hk.
  - injection Hk as ->. rewrite Hn in H0. replace (i0 + Z.of_nat 0) with i0 by lia.
    destruct (assoc phi i0) as [j|]; [|discriminate].
    destruct (nthZ (g_ops src) j) as [s|] eqn:Hs; [|discriminate].
    exists j, s. split; [reflexivity|]. split; [exact Hs|]. apply op_match_sound. exact H0.
  - destruct (IH (i0 + 1) Ht k o Hk Hn) as (j & s & Ha & Hs & Hv).
    exists j, s. split; [|split; assumption]. rewrite <- Ha. f_equal. lia.
Qed.

Definition InputAvailable (g : gsum) (i : Z) (t : Z) : Prop :=
  t < 0 \/ is_const g t = true \/ In t (g_in g) \/ (exists p, producer g t = Some p /\ p < i) \/ producer g t = None.

Lemma order_ok_sound g ops : forall i0,
  order_ok_from g ops i0 = true ->
  forall k o, nth_error ops k = Some o -> forall t, In t (os_in o) -> InputAvailable g (i0 + Z.of_nat k) t.
Proof.
  induction ops as [|o0 r IH]; intros i0 H k o Hk t Ht; [destruct k; discriminate|].
  cbn [order_ok_from] in H. apply andb_true_iff in H as [H0 Hr].
  destruct k as [|k]; cbn [nth_error] in Hk.
  - injection Hk as <-. rewrite forallb_forall in H0. specialize (H0 t Ht).
    replace (i0 + Z.of_nat 0) with i0 by lia. unfold InputAvailable.
    apply orb_true_iff in H0 as [H0|H0]; [apply orb_true_iff in H0 as [H0|H0]; [apply orb_true_iff in H0 as [H0|H0]|]|].
    + left. apply Z.ltb_lt. exact H0.
    + right; left. exact H0.
    + right; right; left. apply zmem_In. exact H0.
    + right; right; right. destruct (producer g t) as [p|]; [left; exists p; split; [reflexivity|]; apply Z.ltb_lt; exact H0 | right; reflexivity].
  - specialize (IH (i0 + 1) Hr k o Hk t Ht). replace (i0 + Z.of_nat (S k)) with (i0 + 1 + Z.of_nat k) by lia. exact IH.
Qed.

Lemma unmapped_ok_sound src out psi phi img ops : forall j0,
  unmapped_ok src out psi phi img j0 ops = true ->
  forall k s, nth_error ops k = Some s -> ~ In (j0 + Z.of_nat k) img -> accounted src out psi s = true.
Proof.
  induction ops as [|s0 r IH]; intros j0 H k s Hk Hn; [destruct k; discriminate|].
  cbn [unmapped_ok] in H. apply andb_true_iff in H as [H0 Hr].
  destruct k as [|k]; cbn [nth_error] in Hk.
  - injection Hk as <-. replace (j0 + Z.of_nat 0) with j0 in Hn by lia.
    apply orb_true_iff in H0 as [H0|H0]; [apply zmem_In in H0; contradiction | exact H0].
  - apply (IH (j0 + 1) Hr k s Hk). replace (j0 + 1 + Z.of_nat k) with (j0 + Z.of_nat (S k)) by lia. exact Hn.
Qed.

Theorem check_preserved_sound_lemma src out psi phi :
  check_preserved src out psi phi = true ->
  (* same interface, in order *)
  Forall2 (TensSame src out psi) (g_in out) (g_in src) /\
  Forall2 (TensSame src out psi) (g_out out) (g_out src) /\
  (* every CPU-resident operator of the output is a source operator, verbatim, each source
     operator used at most once *)
  (forall k o, nth_error (g_ops out) k = Some o -> os_npu o = false ->
     exists j s, assoc phi (Z.of_nat k) = Some j /\ nthZ (g_ops src) j = Some s /\ OpVerbatim src out psi o s) /\
  (forall k1 k2 j, assoc phi k1 = Some j -> assoc phi k2 = Some j -> k1 = k2) /\
  (forall t1 t2 u, assoc psi t1 = Some u -> assoc psi t2 = Some u -> t1 = t2) /\
  (* the operator order of the output respects data dependencies *)
  (forall k o, nth_error (g_ops out) k = Some o -> forall t, In t (os_in o) -> InputAvailable out (Z.of_nat k) t) /\
  (* a source operator that does not reappear has every surviving output produced by an Ethos-U
     operator of the output model, or folded into a constant *)
  (forall k s, nth_error (g_ops src) k = Some s -> ~ In (Z.of_nat k) (map snd phi) -> accounted src out psi s = true).
Proof.
  unfold check_preserved. intros H.
  apply andb_true_iff in H as [H Hun]. apply andb_true_iff in H as [H Hord].
  apply andb_true_iff in H as [H Hops]. apply andb_true_iff in H as [H Hout].
  apply andb_true_iff in H as [H Hin]. apply andb_true_iff in H as [H Hphi2].
  apply andb_true_iff in H as [H Hphi1]. apply andb_true_iff in H as [Hpsi1 Hpsi2].
  apply znodup_NoDup in Hphi2, Hpsi2.
  split; [apply list_match_sound; assumption|]. split; [apply list_match_sound; assumption|].
  split; [|split; [|split; [|split]]].
  - intros k o Hk Hn.
    destruct (ops_match_sound src out psi phi (g_ops out) 0 Hops k o Hk Hn) as (j & s & Ha & Hs & Hv).
    exists j, s. split; [|split; assumption]. rewrite <- Ha. f_equal.
  - intros a b c Ha Hb. exact (assoc_injective phi a b c Hphi2 Ha Hb).
  - intros a b c Ha Hb. exact (assoc_injective psi a b c Hpsi2 Ha Hb).
  - intros k o Hk t Ht. exact (order_ok_sound out (g_ops out) 0 Hord k o Hk t Ht).
  - intros k s Hk Hn. exact (unmapped_ok_sound src out psi phi (map snd phi) (g_ops src) 0 Hun k s Hk Hn).
Qed.

(* ---------- whole model (every subgraph) ---------- *)
(* what acceptance of one (source subgraph, output subgraph) pair means *)
Definition SubgraphPreserved (src out : gsum) (psi phi : list (Z * Z)) : Prop :=
  Forall2 (TensSame src out psi) (g_in out) (g_in src) /\
  Forall2 (TensSame src out psi) (g_out out) (g_out src) /\
  (forall k o, nth_error (g_ops out) k = Some o -> os_npu o = false ->
     exists j s, assoc phi (Z.of_nat k) = Some j /\ nthZ (g_ops src) j = Some s /\ OpVerbatim src out psi o s) /\
  (forall k1 k2 j, assoc phi k1 = Some j -> assoc phi k2 = Some j -> k1 = k2) /\
  (forall t1 t2 u, assoc psi t1 = Some u -> assoc psi t2 = Some u -> t1 = t2) /\
  (forall k o, nth_error (g_ops out) k = Some o -> forall t, In t (os_in o) -> InputAvailable out (Z.of_nat k) t) /\
  (forall k s, nth_error (g_ops src) k = Some s -> ~ In (Z.of_nat k) (map snd phi) -> accounted src out psi s = true).

Lemma check_preserved_SubgraphPreserved src out psi phi :
  check_preserved src out psi phi = true -> SubgraphPreserved src out psi phi.
Proof. exact (check_preserved_sound_lemma src out psi phi). Qed.

Lemma forallb_check_sub_nth : forall (src out : list gsum) (wit : list witness),
  length src = length out -> length wit = length out ->
  forallb check_sub (combine (combine src out) wit) = true ->
  forall k s o, nth_error src k = Some s -> nth_error out k = Some o ->
  exists psi phi, nth_error wit k = Some (psi, phi) /\ check_preserved s o psi phi = true.
Proof.
  induction src as [|s0 src IH]; intros out wit Hl Hw H k s o Hs Ho.
  - destruct k; discriminate.
  - destruct out as [|o0 out]; [discriminate|]. destruct wit as [|[psi0 phi0] wit]; [discriminate|].
    cbn [combine forallb check_sub] in H. apply andb_true_iff in H as [H0 Ht].
    destruct k as [|k]; cbn [nth_error] in Hs, Ho |- *.
    + injection Hs as <-. injection Ho as <-. exists psi0, phi0. split; [reflexivity | exact H0].
    + cbn [length] in Hl, Hw. apply (IH out wit); try assumption; lia.
Qed.

Theorem check_preserved_model_sound_lemma (src out : list gsum) (wit : list witness) :
  check_preserved_model src out wit = true ->
  (* same number of subgraphs ... *)
  length out = length src /\
  (* ... and subgraph k of the output preserves subgraph k of the source, for every k *)
  (forall k s o, nth_error src k = Some s -> nth_error out k = Some o ->
     exists psi phi, nth_error wit k = Some (psi, phi) /\ SubgraphPreserved s o psi phi) /\
  (* (every subgraph of either model is covered by the previous clause) *)
  (forall k, (exists s, nth_error src k = Some s) <-> (exists o, nth_error out k = Some o)).
Proof.
  unfold check_preserved_model. intros H.
  apply andb_true_iff in H as [H Hall]. apply andb_true_iff in H as [Hl Hw].
  apply Nat.eqb_eq in Hl, Hw.
  split; [symmetry; exact Hl|]. split.
  - intros k s o Hs Ho.
    destruct (forallb_check_sub_nth src out wit Hl Hw Hall k s o Hs Ho) as (psi & phi & Hn & Hc).
    exists psi, phi. split; [exact Hn | apply check_preserved_SubgraphPreserved; exact Hc].
  - intros k. split; intros [x Hx].
    + destruct (nth_error out k) as [o|] eqn:E; [exists o; reflexivity|].
      apply nth_error_None in E. assert (k < length src)%nat by (apply nth_error_Some; congruence). lia.
    + destruct (nth_error src k) as [s|] eqn:E; [exists s; reflexivity|].
      apply nth_error_None in E. assert (k < length out)%nat by (apply nth_error_Some; congruence). lia.
Qed.

(* the hypotheses are satisfiable by a non-trivial instance: a two-subgraph model whose second subgraph
   keeps a CPU operator with a constant operand (data hash 77); emptying that constant in the output
   (data hash 0) is rejected *)
Example model_ok :
  let g0 := {| g_tens := [{| ts_sig := 5; ts_data := 0 |}; {| ts_sig := 6; ts_data := 0 |}];
               g_ops := [{| os_sig := 9; os_in := [0]; os_out := [1]; os_npu := false |}]; g_in := [0]; g_out := [1] |} in
  let g1 := {| g_tens := [{| ts_sig := 5; ts_data := 0 |}; {| ts_sig := 7; ts_data := 77 |}; {| ts_sig := 6; ts_data := 0 |}];
               g_ops := [{| os_sig := 11; os_in := [0; 1]; os_out := [2]; os_npu := false |}]; g_in := [0]; g_out := [2] |} in
  let g1' := {| g_tens := [{| ts_sig := 5; ts_data := 0 |}; {| ts_sig := 7; ts_data := 0 |}; {| ts_sig := 6; ts_data := 0 |}];
                g_ops := g_ops g1; g_in := [0]; g_out := [2] |} in
  check_preserved_model [g0; g1] [g0; g1] [([(0, 0); (1, 1)], [(0, 0)]); ([(0, 0); (2, 2)], [(0, 0)])] = true /\
  check_preserved_model [g1; g0] [g1'; g0] [([(0, 0); (1, 1); (2, 2)], [(0, 0)]); ([(0, 0); (1, 1)], [(0, 0)])] = false /\
  check_preserved_model [g0; g1] [g0] [([(0, 0); (1, 1)], [(0, 0)])] = false.
Proof. vm_compute. repeat split. Qed.
