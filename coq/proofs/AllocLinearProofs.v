(* Linear allocator (tensor_allocation.linear_allocate_live_ranges): distinct (non-equivalent)
   tensors get disjoint, granule-aligned blocks; total_sz is the aligned end of the last block. *)
From Coq Require Import ZArith List Bool Lia.
From VV Require Import lib.PyInt model.Alloc proofs.AllocProofs.
Import ListNotations.
Open Scope Z_scope.

(* what the input declares: equal weight-compression configs, or equal equivalence ids *)
Definition linked (e1 e2 : lin) : Prop :=
  (l_wcc e1 <> 0 /\ l_wcc e1 = l_wcc e2) \/ l_eq e1 = l_eq e2.

Lemma lin_find_some : forall p done d, lin_find p done = Some d -> In d done /\ p (fst d) = true.
Proof.
  induction done as [|x r IH]; intros d H; [discriminate|]. cbn [lin_find] in H.
  destruct (p (fst x)) eqn:E.
  - inversion H; subst. split; [left; reflexivity | exact E].
  - destruct (IH d H). split; [right|]; assumption.
Qed.

Section Linear.
  Variable g : Z.
  Hypothesis Hg : 0 < g.
  Variable R : lin -> lin -> Prop.
  Hypothesis Rrefl : forall a, R a a.
  Hypothesis Rsym : forall a b, R a b -> R b a.
  Hypothesis Rtrans : forall a b c, R a b -> R b c -> R a c.
  Hypothesis Rlinked : forall a b, linked a b -> R a b.

  Definition blk (d : lin * Z) : Z := snd d + round_up (l_size (fst d)) g.
  Definition sep (p q : lin * Z) : Prop := R (fst p) (fst q) \/ blk p <= snd q \/ blk q <= snd p.

  Definition lin_inv (done : list (lin * Z)) (total : Z) : Prop :=
    0 <= total /\ (g | total) /\
    (forall d, In d done -> 0 <= snd d /\ (g | snd d) /\ blk d <= total /\ 0 <= l_size (fst d)) /\
    (forall p q, In p done -> In q done -> linked (fst p) (fst q) -> l_size (fst p) = l_size (fst q)) /\
    (forall p q, In p done -> In q done -> p = q \/ sep p q) /\
    (done = [] /\ total = 0 \/ exists d, In d done /\ total = blk d).

  Lemma sep_sym : forall p q, sep p q -> sep q p.
  Proof. unfold sep; intros p q [H|[H|H]]; auto. Qed.

  Lemma lin_step : forall done total e a,
    lin_inv done total -> 0 <= l_size e ->
    (forall d, In d done -> linked (fst d) e -> l_size (fst d) = l_size e) ->
    lin_address e done total = Ok a ->
    lin_inv (done ++ [(e, a)]) (if a =? total then total + round_up (l_size e) g else total).
  Proof.
    intros done total e a (I0 & I1 & I2 & I3 & I4 & I6) Hsz Hsame Ha.
    (* the address is the running total or the address of a linked, already allocated entry *)
    assert (Hsrc : a = total \/ exists d, In d done /\ linked (fst d) e /\ a = snd d).
    { unfold lin_address in Ha.
      destruct (l_wcc e =? 0) eqn:Ew.
      - destruct (l_lut e =? 0); [inversion Ha; auto|].
        destruct (lin_find (fun d => l_eq d =? l_eq e) done) as [d|] eqn:Ef; inversion Ha; auto.
        right. destruct (lin_find_some _ _ _ Ef) as [Hin Hp]. apply Z.eqb_eq in Hp.
        exists d. repeat split; auto. right; exact Hp.
      - apply Z.eqb_neq in Ew.
        destruct (lin_find (fun d => l_wcc d =? l_wcc e) done) as [d|] eqn:Ef.
        + destruct (lin_find_some _ _ _ Ef) as [Hin Hp]. apply Z.eqb_eq in Hp.
          destruct (l_scc (fst d) =? l_scc e); [|discriminate].
          destruct (l_lut e =? 0).
          * inversion Ha; subst. right. exists d. repeat split; auto. left. split; [lia | exact Hp].
          * destruct (lin_find (fun d => l_eq d =? l_eq e) done) as [d2|] eqn:Ef2; inversion Ha; subst.
            -- right. destruct (lin_find_some _ _ _ Ef2) as [Hin2 Hp2]. apply Z.eqb_eq in Hp2.
               exists d2. repeat split; auto. right; exact Hp2.
            -- right. exists d. repeat split; auto. left. split; [lia | exact Hp].
        + destruct (l_lut e =? 0); [inversion Ha; auto|].
          destruct (lin_find (fun d => l_eq d =? l_eq e) done) as [d|] eqn:Ef2; inversion Ha; auto.
          right. destruct (lin_find_some _ _ _ Ef2) as [Hin Hp]. apply Z.eqb_eq in Hp.
          exists d. repeat split; auto. right; exact Hp. }
    pose proof (round_up_ge (l_size e) g Hg) as Hru.
    pose proof (round_up_divide (l_size e) g) as Hrd.
    set (total' := if a =? total then total + round_up (l_size e) g else total).
    assert (Ht' : total <= total') by (unfold total'; destruct (a =? total); lia).
    assert (Hblk : blk (e, a) <= total').
    { unfold blk, total'; cbn [fst snd]. destruct (Z.eqb_spec a total) as [->|Hne]; [lia|].
      destruct Hsrc as [->|[d [Hin [Hl ->]]]]; [contradiction|].
      destruct (I2 d Hin) as (_ & _ & Hb & _). unfold blk in Hb. rewrite <- (Hsame d Hin Hl). lia. }
    assert (Ha0 : 0 <= a /\ (g | a)).
    { destruct Hsrc as [->|[d [Hin [_ ->]]]]; [auto|]. destruct (I2 d Hin) as (? & ? & _). auto. }
    unfold lin_inv. split; [lia|]. split.
    { unfold total'. destruct (a =? total); [apply Z.divide_add_r; auto | auto]. }
    split.
    { intros d Hd. apply in_app_or in Hd. destruct Hd as [Hd|[<-|[]]].
      - destruct (I2 d Hd) as (? & ? & ? & ?). repeat split; auto; lia.
      - cbn [fst snd]. destruct Ha0. repeat split; auto. }
    split.
    { intros p q Hp Hq Hl. apply in_app_or in Hp. apply in_app_or in Hq.
      destruct Hp as [Hp|[<-|[]]]; destruct Hq as [Hq|[<-|[]]]; cbn [fst] in *.
      - apply I3; auto.
      - apply Hsame; auto.
      - symmetry. apply Hsame; auto. destruct Hl as [[H1 H2]|H1]; [left; split; congruence | right; congruence].
      - reflexivity. }
    split.
    { assert (Hnew : forall p, In p done -> sep p (e, a)).
      { intros p Hp. destruct Hsrc as [->|[d [Hin [Hl ->]]]].
        - right. left. cbn [snd]. destruct (I2 p Hp) as (_ & _ & Hb & _). exact Hb.
        - destruct (I4 p d Hp Hin) as [->|[Hs|Hs]].
          + left. cbn [fst]. apply Rlinked; exact Hl.
          + left. cbn [fst]. apply Rtrans with (fst d); [exact Hs | apply Rlinked; exact Hl].
          + right. unfold blk in *. cbn [fst snd]. rewrite <- (Hsame d Hin Hl). exact Hs. }
      intros p q Hp Hq. apply in_app_or in Hp. apply in_app_or in Hq.
      destruct Hp as [Hp|[<-|[]]]; destruct Hq as [Hq|[<-|[]]].
      - apply I4; auto.
      - right. apply Hnew; exact Hp.
      - right. apply sep_sym, Hnew; exact Hq.
      - left; reflexivity. }
    right. unfold total'. destruct (Z.eqb_spec a total) as [->|Hne].
    - exists (e, total). split; [apply in_or_app; right; left; reflexivity | reflexivity].
    - destruct I6 as [[-> ->]|[d [Hd Hb]]].
      + destruct Hsrc as [->|[d [[] _]]]. contradiction.
      + exists d. split; [apply in_or_app; left; exact Hd | exact Hb].
  Qed.

  Lemma linear_run_spec : forall es done total out t,
    lin_inv done total ->
    (forall e, In e es -> 0 <= l_size e) ->
    (forall e1 e2, In e1 (map fst done ++ es) -> In e2 (map fst done ++ es) -> linked e1 e2 -> l_size e1 = l_size e2) ->
    linear_run g es done total = Ok (out, t) ->
    length out = length es /\ lin_inv (done ++ combine es out) t.
  Proof.
    induction es as [|e rest IH]; intros done total out t Hinv Hsz Hsame Hrun.
    - cbn in Hrun. inversion Hrun; subst. cbn. rewrite app_nil_r. auto.
    - cbn [linear_run] in Hrun.
      destruct (lin_address e done total) as [a|c] eqn:Ea; [|discriminate].
      destruct (linear_run g rest (done ++ [(e, a)]) _) as [[out' t']|c] eqn:Er; [|discriminate].
      inversion Hrun; subst; clear Hrun.
      assert (Hstep : lin_inv (done ++ [(e, a)]) (if a =? total then total + round_up (l_size e) g else total)).
      { apply lin_step; auto.
        - apply Hsz; left; reflexivity.
        - intros d Hd Hl. apply Hsame; auto.
          + apply in_or_app; left. apply in_map; exact Hd.
          + apply in_or_app; right; left; reflexivity. }
      assert (Hsz' : forall x, In x rest -> 0 <= l_size x) by (intros x Hx; apply Hsz; right; exact Hx).
      assert (Hsame' : forall e1 e2, In e1 (map fst (done ++ [(e, a)]) ++ rest) ->
                 In e2 (map fst (done ++ [(e, a)]) ++ rest) -> linked e1 e2 -> l_size e1 = l_size e2).
      { intros e1 e2 H1 H2. apply Hsame.
        - rewrite map_app in H1. cbn in H1. rewrite <- app_assoc in H1. exact H1.
        - rewrite map_app in H2. cbn in H2. rewrite <- app_assoc in H2. exact H2. }
      destruct (IH _ _ _ _ Hstep Hsz' Hsame' Er) as [Hlen Hfin].
      split; [cbn; lia|]. cbn [combine]. rewrite <- app_assoc in Hfin. exact Hfin.
  Qed.

  Lemma lin_inv_nil : lin_inv [] 0.
  Proof.
    unfold lin_inv. split; [lia|]. split; [exists 0; lia|]. split; [intros d []|]. split; [intros p q []|].
    split; [intros p q []|]. left; auto.
  Qed.

  (* the exported facts *)
  Lemma linear_spec_lemma : forall es addrs total,
    (forall e, In e es -> 0 <= l_size e) ->
    (forall e1 e2, In e1 es -> In e2 es -> linked e1 e2 -> l_size e1 = l_size e2) ->
    linear g es = Ok (addrs, total) ->
    length addrs = length es /\
    (forall i j e1 e2 a1 a2, i <> j ->
       nth_error es i = Some e1 -> nth_error es j = Some e2 ->
       nth_error addrs i = Some a1 -> nth_error addrs j = Some a2 ->
       R e1 e2 \/ disjoint a1 (l_size e1) a2 (l_size e2)) /\
    (forall i e a, nth_error es i = Some e -> nth_error addrs i = Some a ->
       (g | a) /\ 0 <= a /\ a + l_size e <= a + round_up (l_size e) g <= total) /\
    (es = [] -> total = 0) /\
    (es <> [] -> exists i e a, nth_error es i = Some e /\ nth_error addrs i = Some a /\
                               total = a + round_up (l_size e) g /\ total < a + l_size e + g).
  Proof.
    intros es addrs total Hsz Hsame Hrun. unfold linear in Hrun.
    destruct (linear_run_spec es [] 0 addrs total lin_inv_nil Hsz Hsame Hrun) as [Hlen Hinv].
    cbn [app] in Hinv. destruct Hinv as (I0 & I1 & I2 & I3 & I4 & I6).
    assert (Hc : forall i e a, nth_error es i = Some e -> nth_error addrs i = Some a -> In (e, a) (combine es addrs)).
    { intros i e a He Ha. apply nth_error_In with (n := i).
      clear - He Ha. revert addrs i He Ha. induction es as [|x r IH]; intros addrs i He Ha; [destruct i; discriminate|].
      destruct addrs as [|y s]; [destruct i; discriminate|]. destruct i as [|i]; cbn in *.
      - congruence.
      - apply IH; assumption. }
    split; [exact Hlen|]. split; [|split; [|split]].
    - intros i j e1 e2 a1 a2 Hne H1 H2 A1 A2.
      pose proof (Hc _ _ _ H1 A1) as P1. pose proof (Hc _ _ _ H2 A2) as P2.
      destruct (I4 _ _ P1 P2) as [E|[S|[S|S]]].
      + inversion E; subst. left; apply Rrefl.
      + left; exact S.
      + right. unfold blk in S; cbn [fst snd] in S. pose proof (round_up_ge (l_size e1) g Hg). unfold disjoint. lia.
      + right. unfold blk in S; cbn [fst snd] in S. pose proof (round_up_ge (l_size e2) g Hg). unfold disjoint. lia.
    - intros i e a He Ha. destruct (I2 _ (Hc _ _ _ He Ha)) as (H1 & H2 & H3 & H4). cbn [fst snd] in *.
      unfold blk in H3; cbn [fst snd] in H3. pose proof (round_up_ge (l_size e) g Hg). repeat split; auto; lia.
    - intros ->. destruct addrs; [|discriminate]. cbn in I6. destruct I6 as [[_ H]|[d [[] _]]]. exact H.
    - intros Hne. destruct I6 as [[H _]|[[e a] [Hd Ht]]].
      + destruct es as [|x r]; [contradiction|]. destruct addrs; discriminate.
      + apply In_nth_error in Hd. destruct Hd as [i Hi].
        assert (nth_error es i = Some e /\ nth_error addrs i = Some a).
        { clear - Hi. revert addrs i Hi. induction es as [|x r IH]; intros addrs i Hi; [destruct i; discriminate|].
          destruct addrs as [|y s]; [destruct i; discriminate|]. destruct i as [|i]; cbn in *.
          - inversion Hi; auto.
          - apply IH; assumption. }
        destruct H as [He Ha]. exists i, e, a. unfold blk in Ht; cbn [fst snd] in Ht.
        pose proof (round_up_lt (l_size e) g Hg). repeat split; auto; lia.
  Qed.
End Linear.

(* ---------- tensors declared equivalent share one address ---------- *)
Lemma lin_find_app : forall p done x,
  lin_find p (done ++ [x]) =
  match lin_find p done with Some f => Some f | None => if p (fst x) then Some x else None end.
Proof.
  induction done as [|d r IH]; intros x; cbn [app lin_find]; [reflexivity|].
  destruct (p (fst d)); [reflexivity | apply IH].
Qed.

Definition share_inv (done : list (lin * Z)) : Prop :=
  (forall d, In d done -> l_lut (fst d) = 0 -> l_wcc (fst d) <> 0 ->
     exists f, lin_find (fun x => l_wcc x =? l_wcc (fst d)) done = Some f /\ snd d = snd f) /\
  (forall d, In d done -> l_lut (fst d) <> 0 ->
     exists f, lin_find (fun x => l_eq x =? l_eq (fst d)) done = Some f /\ snd d = snd f).

Lemma share_step : forall done total e a,
  share_inv done -> lin_address e done total = Ok a -> share_inv (done ++ [(e, a)]).
Proof.
  intros done total e a [J1 J2] Ha. split.
  - intros d Hd Hl Hw. apply in_app_or in Hd. destruct Hd as [Hd|[<-|[]]].
    + destruct (J1 d Hd Hl Hw) as [f [Hf Hs]]. exists f. rewrite lin_find_app, Hf. auto.
    + cbn [fst snd] in *. rewrite lin_find_app. unfold lin_address in Ha.
      destruct (Z.eqb_spec (l_wcc e) 0); [contradiction|].
      destruct (Z.eqb_spec (l_lut e) 0); [|contradiction].
      destruct (lin_find (fun x => l_wcc x =? l_wcc e) done) as [f|].
      * destruct (l_scc (fst f) =? l_scc e); [|discriminate]. inversion Ha; subst. exists f; auto.
      * inversion Ha; subst. cbn [fst]. rewrite Z.eqb_refl. eexists; split; [reflexivity | reflexivity].
  - intros d Hd Hl. apply in_app_or in Hd. destruct Hd as [Hd|[<-|[]]].
    + destruct (J2 d Hd Hl) as [f [Hf Hs]]. exists f. rewrite lin_find_app, Hf. auto.
    + cbn [fst snd] in *. rewrite lin_find_app. unfold lin_address in Ha.
      destruct (Z.eqb_spec (l_lut e) 0); [contradiction|].
      destruct (lin_find (fun x => l_eq x =? l_eq e) done) as [f|].
      * exists f. split; [reflexivity|].
        destruct (l_wcc e =? 0); [inversion Ha; reflexivity|].
        destruct (lin_find (fun x => l_wcc x =? l_wcc e) done) as [f2|].
        -- destruct (l_scc (fst f2) =? l_scc e); [inversion Ha; reflexivity | discriminate].
        -- inversion Ha; reflexivity.
      * cbn [fst]. rewrite Z.eqb_refl. exists (e, a); auto.
Qed.

Lemma linear_run_share : forall g es done total out t,
  share_inv done -> linear_run g es done total = Ok (out, t) -> share_inv (done ++ combine es out).
Proof.
  intros g. induction es as [|e rest IH]; intros done total out t Hinv Hrun.
  - cbn in Hrun. inversion Hrun; subst. cbn. rewrite app_nil_r. exact Hinv.
  - cbn [linear_run] in Hrun.
    destruct (lin_address e done total) as [a|c] eqn:Ea; [|discriminate].
    destruct (linear_run g rest (done ++ [(e, a)]) _) as [[out' t']|c] eqn:Er; [|discriminate].
    inversion Hrun; subst; clear Hrun.
    pose proof (IH _ _ _ _ (share_step _ _ _ _ Hinv Ea) Er) as H.
    cbn [combine]. rewrite <- app_assoc in H. exact H.
Qed.

Lemma In_combine_nth : forall (A B : Type) (l1 : list A) (l2 : list B) i x y,
  nth_error l1 i = Some x -> nth_error l2 i = Some y -> In (x, y) (combine l1 l2).
Proof.
  induction l1 as [|a r IH]; intros l2 i x y H1 H2; [destruct i; discriminate|].
  destruct l2 as [|b s]; [destruct i; discriminate|]. destruct i as [|i]; cbn in *.
  - left. congruence.
  - right. eapply IH; eauto.
Qed.

(* non-LUT tensors with the same weight compression config, and LUT tensors that are equivalent,
   get the same address *)
Lemma linear_share_lemma : forall g es addrs total i j e1 e2 a1 a2,
  linear g es = Ok (addrs, total) ->
  nth_error es i = Some e1 -> nth_error es j = Some e2 ->
  nth_error addrs i = Some a1 -> nth_error addrs j = Some a2 ->
  (l_lut e1 = 0 /\ l_lut e2 = 0 /\ l_wcc e1 <> 0 /\ l_wcc e1 = l_wcc e2) \/
  (l_lut e1 <> 0 /\ l_lut e2 <> 0 /\ l_eq e1 = l_eq e2) ->
  a1 = a2.
Proof.
  intros g es addrs total i j e1 e2 a1 a2 Hrun H1 H2 A1 A2 Hk. unfold linear in Hrun.
  assert (Hs : share_inv ([] ++ combine es addrs)).
  { eapply linear_run_share; [|exact Hrun]. split; intros d []. }
  cbn [app] in Hs. destruct Hs as [J1 J2].
  pose proof (In_combine_nth _ _ _ _ _ _ _ H1 A1) as P1. pose proof (In_combine_nth _ _ _ _ _ _ _ H2 A2) as P2.
  destruct Hk as [(L1 & L2 & W & E)|(L1 & L2 & E)].
  - destruct (J1 _ P1 L1 W) as [f1 [F1 S1]]. destruct (J1 _ P2 L2 ltac:(cbn; congruence)) as [f2 [F2 S2]].
    cbn [fst snd] in *. rewrite E in F1. rewrite F1 in F2. inversion F2; subst. congruence.
  - destruct (J2 _ P1 L1) as [f1 [F1 S1]]. destruct (J2 _ P2 L2) as [f2 [F2 S2]].
    cbn [fst snd] in *. rewrite E in F1. rewrite F1 in F2. inversion F2; subst. congruence.
Qed.
