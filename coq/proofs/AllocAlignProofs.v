(* The alignment of a live range is the strictest of all alignments ever requested for it
   (LiveRange.__init__ / set_alignment through LiveRangeGraph.get_or_create_range). *)
From Coq Require Import ZArith List Bool Lia.
From VV Require Import lib.PyInt model.Alloc proofs.AllocProofs.
Import ListNotations.
Open Scope Z_scope.

(* requests of one tensor form a divisibility chain, as powers of two do *)
Definition div_chain (l : list Z) : Prop := forall x y, In x l -> In y l -> x <= y -> (x | y).
Definition pow2 (a : Z) : Prop := exists k, 0 <= k /\ a = 2 ^ k.

Lemma pow2_le_divide : forall a b, pow2 a -> pow2 b -> a <= b -> (a | b).
Proof.
  intros a b [j [Hj ->]] [k [Hk ->]] Hle.
  assert (j <= k) by (apply (Z.pow_le_mono_r_iff 2); lia).
  exists (2 ^ (k - j)). rewrite <- Z.pow_add_r by lia. f_equal. lia.
Qed.

Lemma pow2_chain : forall l, (forall x, In x l -> pow2 x) -> div_chain l.
Proof. intros l H x y Hx Hy. apply pow2_le_divide; auto. Qed.

Lemma range_alignment_spec : forall later first,
  first <= range_alignment first later /\
  (forall a, In a later -> a <= range_alignment first later) /\
  In (range_alignment first later) (first :: later).
Proof.
  induction later as [|x r IH]; intros first; cbn [range_alignment fold_left].
  - split; [lia|]. split; [intros a []|left; reflexivity].
  - destruct (IH (set_alignment first x)) as (I1 & I2 & I3). fold (range_alignment (set_alignment first x) r) in *.
    unfold set_alignment in *. split; [lia|]. split.
    + intros a [<-|Ha]; [lia | apply I2; exact Ha].
    + destruct I3 as [I3|I3]; [|right; right; exact I3].
      rewrite <- I3. destruct (Z.max_spec first x) as [[_ ->]|[_ ->]]; [right; left | left]; reflexivity.
Qed.

(* every request divides the resulting alignment *)
Lemma range_alignment_divides : forall first later q,
  div_chain (first :: later) -> In q (first :: later) -> (q | range_alignment first later).
Proof.
  intros first later q Hc Hq. destruct (range_alignment_spec later first) as (I1 & I2 & I3).
  apply Hc; auto. destruct Hq as [<-|Hq]; [exact I1 | apply I2; exact Hq].
Qed.

(* hence an address that honours the range's alignment honours every alignment ever requested for it *)
Lemma honours_every_request_lemma : forall first later addr q,
  div_chain (first :: later) -> (range_alignment first later | addr) -> In q (first :: later) -> (q | addr).
Proof.
  intros first later addr q Hc Hd Hq. apply Z.divide_trans with (range_alignment first later); [|exact Hd].
  apply range_alignment_divides; assumption.
Qed.

(* ---------- the graph: one range per equivalence id ---------- *)
Definition requests_of (key : Z) (requests : list (Z * Z)) : list Z :=
  map snd (filter (fun q => fst q =? key) requests).

Lemma gocr_keys : forall ranges key al k, In k (map fst (get_or_create_range ranges key al)) <-> k = key \/ In k (map fst ranges).
Proof.
  induction ranges as [|[k0 a0] r IH]; intros key al k; cbn [get_or_create_range map fst In].
  - split; intros [H|[]]; left; congruence.
  - destruct (Z.eqb_spec k0 key) as [->|Hne]; cbn [map fst In].
    + split; [intros [H|H]; [left; congruence | right; right; exact H] | intros [H|[H|H]]; [left; congruence | left; exact H | right; exact H]].
    + rewrite IH. tauto.
Qed.

Lemma gocr_nodup : forall ranges key al, NoDup (map fst ranges) -> NoDup (map fst (get_or_create_range ranges key al)).
Proof.
  induction ranges as [|[k0 a0] r IH]; intros key al H; cbn [get_or_create_range map fst].
  - constructor; [intros []|constructor].
  - inversion H as [|? ? Hn Hr]; subst. destruct (Z.eqb_spec k0 key) as [->|Hne]; cbn [map fst]; [exact H|].
    constructor; [|apply IH; exact Hr]. intros C. apply gocr_keys in C. destruct C as [C|C]; [congruence | contradiction].
Qed.

(* state invariant: the stored alignment of key k is range_alignment of the requests for k so far *)
Definition ra_of (l : list Z) : option Z := match l with [] => None | f :: r => Some (range_alignment f r) end.

Lemma ra_of_snoc : forall l a, ra_of (l ++ [a]) = Some (match ra_of l with None => a | Some c => set_alignment c a end).
Proof.
  intros [|f r] a; cbn [app ra_of]; [reflexivity|]. unfold range_alignment. rewrite fold_left_app. reflexivity.
Qed.

Lemma gocr_lookup : forall ranges key al k a, NoDup (map fst ranges) ->
  (In (k, a) (get_or_create_range ranges key al) <->
   if k =? key then (exists c, In (k, c) ranges /\ a = set_alignment c al) \/ (~ In k (map fst ranges) /\ a = al)
   else In (k, a) ranges).
Proof.
  induction ranges as [|[k0 a0] r IH]; intros key al k a Hnd; cbn [get_or_create_range].
  - destruct (Z.eqb_spec k key) as [->|Hne]; cbn [In map].
    + split; [intros [H|[]]; inversion H; right; split; [tauto | reflexivity] | intros [[c [[] _]]|[_ ->]]; left; reflexivity].
    + split; [intros [H|[]]; inversion H; congruence | intros []].
  - inversion Hnd as [|? ? Hn Hr]; subst. cbn [map fst] in *.
    destruct (Z.eqb_spec k0 key) as [->|Hk0].
    + destruct (Z.eqb_spec k key) as [->|Hne]; cbn [In].
      * split.
        -- intros [H|H]; [inversion H; subst; left; exists a0; split; [left; reflexivity | reflexivity]|].
           exfalso. apply Hn. change key with (fst (key, a)). apply in_map; exact H.
        -- intros [[c [[H|H] ->]]|[Hni _]].
           ++ inversion H; subst. left; reflexivity.
           ++ exfalso. apply Hn. change key with (fst (key, c)). apply in_map; exact H.
           ++ exfalso. apply Hni. left; reflexivity.
      * split; [intros [H|H]; [inversion H; congruence | right; exact H] | intros [H|H]; [inversion H; congruence | right; exact H]].
    + cbn [In]. specialize (IH key al k a Hr). destruct (Z.eqb_spec k key) as [->|Hne].
      * split.
        -- intros [H|H]; [inversion H; congruence|]. apply IH in H. destruct H as [[c [Hc ->]]|[Hni ->]].
           ++ left. exists c. split; [right; exact Hc | reflexivity].
           ++ right. split; [|reflexivity]. intros [C|C]; [congruence | contradiction].
        -- intros [[c [[H|H] ->]]|[Hni ->]].
           ++ inversion H; congruence.
           ++ right. apply IH. left. exists c. split; [exact H | reflexivity].
           ++ right. apply IH. right. split; [|reflexivity]. intros C. apply Hni. right; exact C.
      * rewrite IH. tauto.
Qed.

Lemma range_alignments_spec : forall requests,
  NoDup (map fst (range_alignments requests)) /\
  forall k a, In (k, a) (range_alignments requests) <-> ra_of (requests_of k requests) = Some a.
Proof.
  intros requests. unfold range_alignments.
  assert (G : forall reqs done st,
            NoDup (map fst st) -> (forall k a, In (k, a) st <-> ra_of (requests_of k done) = Some a) ->
            let st' := fold_left (fun rs q => get_or_create_range rs (fst q) (snd q)) reqs st in
            NoDup (map fst st') /\ forall k a, In (k, a) st' <-> ra_of (requests_of k (done ++ reqs)) = Some a).
  { induction reqs as [|[key al] r IH]; intros done st Hnd Hst; cbn [fold_left].
    - rewrite app_nil_r. split; assumption.
    - specialize (IH (done ++ [(key, al)]) (get_or_create_range st key al) (gocr_nodup st key al Hnd)).
      cbn [fst snd]. rewrite <- app_assoc in IH. cbn [app] in IH. apply IH. clear IH.
      intros k a. rewrite (gocr_lookup st key al k a Hnd). unfold requests_of. rewrite filter_app, map_app. cbn [filter fst snd].
      destruct (Z.eqb_spec k key) as [->|Hne].
      + rewrite Z.eqb_refl. cbn [map snd]. fold (requests_of key done). rewrite ra_of_snoc.
        destruct (ra_of (requests_of key done)) as [c|] eqn:E.
        * split.
          -- intros [[c' [Hc' ->]]|[Hni _]].
             ++ apply Hst in Hc'. rewrite E in Hc'. inversion Hc'; reflexivity.
             ++ exfalso. apply Hni. apply (Hst key c) in E. change key with (fst (key, c)). apply in_map; exact E.
          -- intros H. inversion H; subst. left. exists c. split; [apply Hst; exact E | reflexivity].
        * split.
          -- intros [[c' [Hc' _]]|[_ ->]]; [apply Hst in Hc'; rewrite E in Hc'; discriminate | reflexivity].
          -- intros H. inversion H; subst. right. split; [|reflexivity].
             intros C. apply in_map_iff in C. destruct C as [[k' c'] [Hk Hin]]. cbn in Hk. subst k'.
             apply Hst in Hin. rewrite E in Hin. discriminate.
      + destruct (Z.eqb_spec key k); [congruence|]. cbn [map]. rewrite app_nil_r. apply Hst. }
  apply (G requests [] []); [constructor|]. intros k a. cbn. split; [intros [] | discriminate].
Qed.

(* the alignment stored for a tensor is a multiple of every alignment ever requested for it *)
Lemma graph_alignment_divides : forall requests k q,
  In (k, q) requests -> div_chain (requests_of k requests) ->
  exists a, In (k, a) (range_alignments requests) /\ (q | a) /\ q <= a.
Proof.
  intros requests k q Hin Hc. destruct (range_alignments_spec requests) as [_ Hs].
  assert (Hq : In q (requests_of k requests)).
  { unfold requests_of. apply in_map_iff. exists (k, q). split; [reflexivity|]. apply filter_In. split; [exact Hin|]. cbn. apply Z.eqb_refl. }
  destruct (requests_of k requests) as [|f r] eqn:E; [destruct Hq|].
  exists (range_alignment f r). split; [apply Hs; rewrite E; reflexivity|].
  split; [apply range_alignment_divides; assumption|].
  destruct (range_alignment_spec r f) as (I1 & I2 & _). destruct Hq as [<-|Hq]; [exact I1 | apply I2; exact Hq].
Qed.
