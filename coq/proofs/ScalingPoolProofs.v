(* Proofs about scaling.quantise_pooling_scale (C09, average-pool divisor). *)
From Coq Require Import ZArith List Bool Lia.
From VV Require Import lib.PyInt lib.PyFloat gen.GenScaling model.Scaling proofs.ScalingProofs.
Import ListNotations.
Open Scope Z_scope.

Lemma pool_k_spec n :
  1 <= n -> 0 <= pool_k n /\ n <= 2 ^ pool_k n /\ (2 <= n -> 2 ^ pool_k n < 2 * n).
Proof.
  intros Hn. unfold pool_k, frexp_exp_int. destruct (Z.leb_spec (n - 1) 0).
  - assert (n = 1) by lia. subst. cbn. lia.
  - pose proof (log2_bounds (n - 1) ltac:(lia)) as [A B]. pose proof (Z.log2_nonneg (n - 1)).
    rewrite pow2_succ by lia. lia.
Qed.

Lemma pool_k_le n b : 1 <= n -> 0 <= b -> n <= 2 ^ b -> pool_k n <= b.
Proof.
  intros Hn Hb H. unfold pool_k, frexp_exp_int. destruct (Z.leb_spec (n - 1) 0); [lia|].
  assert (Z.log2 (n - 1) < b); [|lia]. apply Z.log2_lt_pow2; lia.
Qed.

(* the arithmetic heart: scale * n = 2^31 * P + P - r with 0 <= r < n <= P *)
Lemma pool_core n acc scale r P j t H :
  0 < n -> 0 <= acc -> 0 < P -> n <= P ->
  n * scale + r = 2147483648 * P + P -> 0 <= r < n ->
  2 * acc + n = 2 * n * j + t -> 0 <= t < 2 * n ->
  (2 * acc < 2147483648 \/ (Z.even n = true /\ 2 * acc <= 2147483648)) ->
  2 * H = 2147483648 * P ->
  2147483648 * P * j <= acc * scale + H < 2147483648 * P * (j + 1).
Proof.
  intros Hn Hacc HP HnP Hs Hr Hj Ht Hb HH.
  set (T := 2147483648) in *.
  assert (E1 : 2 * n * (acc * scale + H) = 2 * acc * (T * P + P - r) + n * (T * P)).
  { replace (T * P + P - r) with (n * scale) by lia. rewrite <- HH. ring. }
  assert (E2 : 2 * n * (T * P * j) = (2 * acc + n - t) * (T * P)).
  { replace (2 * acc + n - t) with (2 * n * j) by lia. ring. }
  assert (E3 : 2 * n * (T * P * (j + 1)) = (2 * acc + n - t + 2 * n) * (T * P)).
  { replace (2 * acc + n - t) with (2 * n * j) by lia. ring. }
  assert (K : 2 * acc * (P - r) < (2 * n - t) * (T * P)).
  { assert (0 < T * P) by (unfold T; lia).
    assert (2 * acc * (P - r) <= 2 * acc * P) by (apply Z.mul_le_mono_nonneg_l; lia).
    destruct Hb as [Hb|[Hev Hb]].
    - assert (2 * acc * P <= (T - 1) * P) by (apply Z.mul_le_mono_nonneg_r; lia).
      assert (1 * (T * P) <= (2 * n - t) * (T * P)) by (apply Z.mul_le_mono_nonneg_r; lia).
      unfold T in *. lia.
    - apply Z.even_spec in Hev. destruct Hev as [n' ->].
      assert (2 * acc * P <= T * P) by (apply Z.mul_le_mono_nonneg_r; lia).
      assert (2 * (T * P) <= (2 * (2 * n') - t) * (T * P)).
      { apply Z.mul_le_mono_nonneg_r; [lia|]. 
        assert (t = 2 * (acc + n' - 2 * (n' * j))) by lia. lia. }
      unfold T in *. lia. }
  split.
  - apply (Zmult_le_reg_r _ _ (2 * n)); [lia|]. rewrite !(Z.mul_comm _ (2 * n)). rewrite E1, E2.
    assert (0 <= 2 * acc * (P - r)) by (apply Z.mul_nonneg_nonneg; lia).
    assert (0 <= t * (T * P)) by (apply Z.mul_nonneg_nonneg; unfold T; lia). lia.
  - apply (Zmult_lt_reg_r _ _ (2 * n)); [lia|]. rewrite !(Z.mul_comm _ (2 * n)). rewrite E1, E3. lia.
Qed.

Lemma apply_scale_div acc scale shift :
  0 < shift -> apply_scale acc scale shift = (acc * scale + 2 ^ (shift - 1)) / 2 ^ shift.
Proof.
  intros H. unfold apply_scale. destruct (Z.eqb_spec shift 0); [lia|].
  apply Z.shiftr_div_pow2. lia.
Qed.

Lemma pool_scale_0 n :
  1 <= n -> n <= 2 ^ 32 ->
  pool_scale n 0 = Some ((2 ^ (31 + pool_k n) + 2 ^ pool_k n) / n, 31 + pool_k n).
Proof.
  intros Hn Hb. unfold pool_scale. replace (31 - 0) with 31 by lia.
  pose proof (pool_k_le n 32 Hn ltac:(lia) Hb).
  destruct (Z.ltb_spec (31 + pool_k n) 64); [reflexivity|lia].
Qed.

(* round-half-up division for non-negative accumulators *)
Lemma pool_exact_core n acc :
  1 <= n -> 0 <= acc ->
  (2 * acc < 2 ^ 31 \/ (Z.even n = true /\ 2 * acc <= 2 ^ 31)) ->
  apply_scale acc ((2 ^ (31 + pool_k n) + 2 ^ pool_k n) / n) (31 + pool_k n) = div_half_up acc n.
Proof.
  intros Hn Hacc Hr.
  pose proof (pool_k_spec n Hn) as [Hk [HnP _]]. set (k := pool_k n) in *.
  rewrite apply_scale_div by lia. unfold div_half_up.
  replace (31 + k - 1) with (30 + k) by lia. rewrite !Z.pow_add_r by lia.
  set (P := 2 ^ k) in *. assert (0 < P) by (apply pow2_pos; lia).
  change (2 ^ 31) with 2147483648 in *. change (2 ^ 30) with 1073741824.
  pose proof (Z.div_mod (2147483648 * P + P) n ltac:(lia)) as E.
  pose proof (Z.mod_pos_bound (2147483648 * P + P) n ltac:(lia)) as R.
  pose proof (Z.div_mod (2 * acc + n) (2 * n) ltac:(lia)) as Ej.
  pose proof (Z.mod_pos_bound (2 * acc + n) (2 * n) ltac:(lia)) as Rj.
  apply div_unique_bounds; [lia|].
  apply (pool_core n acc _ ((2147483648 * P + P) mod n) P _ ((2 * acc + n) mod (2 * n))); try lia.
  exact Hr.
Qed.

Lemma pool_scale_bounds n :
  1 <= n <= 2 ^ 30 ->
  2 ^ 31 <= (2 ^ (31 + pool_k n) + 2 ^ pool_k n) / n < 2 ^ 32 /\ 31 <= 31 + pool_k n <= 62.
Proof.
  intros [Hn Hb].
  pose proof (pool_k_spec n Hn) as [Hk [HnP Hlow]].
  pose proof (pool_k_le n 30 Hn ltac:(lia) Hb). set (k := pool_k n) in *.
  split; [|lia].
  rewrite Z.pow_add_r by lia. set (P := 2 ^ k) in *. assert (0 < P) by (apply pow2_pos; lia).
  change (2 ^ 31) with 2147483648 in *. change (2 ^ 32) with 4294967296. change (2 ^ 30) with 1073741824 in *.
  split.
  - apply Z.div_le_lower_bound; [lia|]. nia.
  - apply Z.div_lt_upper_bound; [lia|].
    destruct (Z.eq_dec n 1) as [->|]; [unfold k, pool_k, frexp_exp_int in P; cbn in P; subst P; lia|].
    specialize (Hlow ltac:(lia)). nia.
Qed.

Lemma pooling_scale_exact_acc n acc :
  1 <= n -> n <= 2 ^ 32 -> 0 <= acc ->
  (2 * acc < 2 ^ 31 \/ (Z.even n = true /\ 2 * acc <= 2 ^ 31)) ->
  exists scale shift,
    GenScaling.quantise_pooling_scale n 0 = Some (scale, shift) /\
    apply_scale acc scale shift = div_half_up acc n.
Proof.
  intros Hn Hb Hacc Hr. rewrite gen_quantise_pooling_scale_eq, pool_scale_0 by assumption.
  eexists; eexists; split; [reflexivity|]. apply pool_exact_core; assumption.
Qed.

(* the statement of the property: every accumulator a window of n elements of magnitude <= A can
   produce, whenever 2 * n * A < 2^31: all n <= 65536 for 8-bit data, n <= 2^14 for 16-bit data *)
Lemma pooling_scale_exact_lemma n A acc :
  1 <= n -> 1 <= A -> 2 * n * A < 2 ^ 31 -> 0 <= acc <= n * A ->
  exists scale shift,
    GenScaling.quantise_pooling_scale n 0 = Some (scale, shift) /\
    2 ^ 31 <= scale < 2 ^ 32 /\ 31 <= shift <= 62 /\
    apply_scale acc scale shift = div_half_up acc n.
Proof.
  intros Hn HA1 HA Hacc.
  assert (n <= 2 ^ 30) by (change (2 ^ 31) with 2147483648 in *; change (2 ^ 30) with 1073741824; nia).
  rewrite gen_quantise_pooling_scale_eq, pool_scale_0
    by (try assumption; change (2^32) with 4294967296; change (2^30) with 1073741824 in *; lia).
  eexists; eexists; split; [reflexivity|].
  pose proof (pool_scale_bounds n ltac:(lia)) as [B1 B2].
  split; [exact B1|]. split; [exact B2|].
  apply pool_exact_core; try lia.
Qed.

Lemma pooling_scale_exact_8bit_lemma n acc :
  1 <= n <= 65536 -> 0 <= acc <= n * 255 ->
  exists scale shift,
    GenScaling.quantise_pooling_scale n 0 = Some (scale, shift) /\
    2 ^ 31 <= scale < 2 ^ 32 /\ 31 <= shift <= 62 /\
    apply_scale acc scale shift = div_half_up acc n.
Proof.
  intros Hn Hacc. apply (pooling_scale_exact_lemma n 255 acc); lia.
Qed.

Lemma pooling_scale_exact_16bit_lemma n acc :
  1 <= n <= 16384 -> 0 <= acc <= n * 65535 ->
  exists scale shift,
    GenScaling.quantise_pooling_scale n 0 = Some (scale, shift) /\
    2 ^ 31 <= scale < 2 ^ 32 /\ 31 <= shift <= 62 /\
    apply_scale acc scale shift = div_half_up acc n.
Proof.
  intros Hn Hacc. apply (pooling_scale_exact_lemma n 65535 acc); lia.
Qed.

(* beyond the proved bound the 32-bit multiplier is not precise enough (finding P9) *)
Lemma pooling_scale_16bit_refuted_lemma :
  exists n acc scale shift,
    1 <= n <= 65536 /\ 0 <= acc <= n * 65535 /\
    GenScaling.quantise_pooling_scale n 0 = Some (scale, shift) /\
    apply_scale acc scale shift = 32810 /\ div_half_up acc n = 32809.
Proof.
  exists 65536, 2150203391, 2147483649, 47. vm_compute. repeat split; congruence.
Qed.

(* ---------- negative accumulators: round half away from zero ---------- *)
Lemma pool_core_strict n acc scale r P j t H :
  0 < n -> 0 < acc -> 0 < P -> n <= P ->
  n * scale + r = 2147483648 * P + P -> 0 <= r < n ->
  2 * acc + n = 2 * n * j + t -> 0 <= t < 2 * n ->
  2 * H = 2147483648 * P ->
  2147483648 * P * j < acc * scale + H.
Proof.
  intros Hn Hacc HP HnP Hs Hr Hj Ht HH.
  set (T := 2147483648) in *.
  assert (E1 : 2 * n * (acc * scale + H) = 2 * acc * (T * P + P - r) + n * (T * P)).
  { replace (T * P + P - r) with (n * scale) by lia. rewrite <- HH. ring. }
  assert (E2 : 2 * n * (T * P * j) = (2 * acc + n - t) * (T * P)).
  { replace (2 * acc + n - t) with (2 * n * j) by lia. ring. }
  apply (Zmult_lt_reg_r _ _ (2 * n)); [lia|]. rewrite !(Z.mul_comm _ (2 * n)). rewrite E1, E2.
  assert (0 < 2 * acc * (P - r)) by (apply Z.mul_pos_pos; lia).
  assert (0 <= t * (T * P)) by (apply Z.mul_nonneg_nonneg; unfold T; lia). lia.
Qed.

Lemma pooling_scale_negative_lemma n A acc :
  1 <= n -> 1 <= A -> 2 * n * A < 2 ^ 31 -> 0 < acc <= n * A ->
  exists scale shift,
    GenScaling.quantise_pooling_scale n 0 = Some (scale, shift) /\
    apply_scale (- acc) scale shift = - div_half_up acc n.
Proof.
  intros Hn HA1 HA Hacc.
  assert (n <= 2 ^ 30) by (change (2 ^ 31) with 2147483648 in *; change (2 ^ 30) with 1073741824; nia).
  rewrite gen_quantise_pooling_scale_eq, pool_scale_0
    by (try assumption; change (2^32) with 4294967296; change (2^30) with 1073741824 in *; lia).
  eexists; eexists; split; [reflexivity|].
  pose proof (pool_k_spec n Hn) as [Hk [HnP _]]. set (k := pool_k n) in *.
  rewrite apply_scale_div by lia. unfold div_half_up.
  replace (31 + k - 1) with (30 + k) by lia. rewrite !Z.pow_add_r by lia.
  set (P := 2 ^ k) in *. assert (0 < P) by (apply pow2_pos; lia).
  change (2 ^ 31) with 2147483648 in *. change (2 ^ 30) with 1073741824.
  pose proof (Z.div_mod (2147483648 * P + P) n ltac:(lia)) as E.
  pose proof (Z.mod_pos_bound (2147483648 * P + P) n ltac:(lia)) as R.
  pose proof (Z.div_mod (2 * acc + n) (2 * n) ltac:(lia)) as Ej.
  pose proof (Z.mod_pos_bound (2 * acc + n) (2 * n) ltac:(lia)) as Rj.
  set (scale := (2147483648 * P + P) / n) in *. set (j := (2 * acc + n) / (2 * n)) in *.
  assert (B : 2147483648 * P * j <= acc * scale + 1073741824 * P < 2147483648 * P * (j + 1)).
  { apply (pool_core n acc scale ((2147483648 * P + P) mod n) P j ((2 * acc + n) mod (2 * n))); lia. }
  assert (S : 2147483648 * P * j < acc * scale + 1073741824 * P).
  { apply (pool_core_strict n acc scale ((2147483648 * P + P) mod n) P j ((2 * acc + n) mod (2 * n))); lia. }
  apply div_unique_bounds; [lia|]. lia.
Qed.

(* signed 16-bit data (|x| <= 32768, the only 16-bit type of the TFLite front end): exact up to
   n <= 2^15 by pool_exact_core; first window size h*w (h, w <= 256) that fails: 135 x 247 *)
Lemma pooling_scale_int16_refuted_lemma :
  exists n acc scale shift,
    n = 135 * 247 /\ 0 <= acc <= n * 32767 /\
    GenScaling.quantise_pooling_scale n 0 = Some (scale, shift) /\
    apply_scale acc scale shift = 32647 /\ div_half_up acc n = 32646.
Proof.
  exists 33345, 1088597542, 4220647426, 47. vm_compute. repeat split; congruence.
Qed.

Lemma pooling_scale_exact_int16_lemma n acc :
  1 <= n <= 32768 -> 0 <= acc <= n * 32768 ->
  exists scale shift,
    GenScaling.quantise_pooling_scale n 0 = Some (scale, shift) /\
    apply_scale acc scale shift = div_half_up acc n /\
    (0 < acc -> apply_scale (- acc) scale shift = - div_half_up acc n).
Proof.
  intros Hn Hacc.
  destruct (Z.eq_dec n 32768) as [->|Hne].
  - (* the even boundary case 2 * acc <= 2^31 *)
    rewrite gen_quantise_pooling_scale_eq. eexists; eexists; split; [vm_compute; reflexivity|].
    split.
    + change 2147483649 with ((2 ^ (31 + pool_k 32768) + 2 ^ pool_k 32768) / 32768).
      change 46 with (31 + pool_k 32768).
      apply pool_exact_core; [lia | lia |]. right. split; [reflexivity|]. change (2 ^ 31) with 2147483648. lia.
    + intros Hpos. rewrite apply_scale_div by lia. unfold div_half_up.
      change (2 ^ (46 - 1)) with 35184372088832. change (2 ^ 46) with 70368744177664.
      apply div_unique_bounds; [lia|].
      pose proof (Z.div_mod (2 * acc + 32768) (2 * 32768) ltac:(lia)).
      pose proof (Z.mod_pos_bound (2 * acc + 32768) (2 * 32768) ltac:(lia)). lia.
  - destruct (pooling_scale_exact_lemma n 32768 acc) as [scale [shift [E [_ [_ X]]]]]; try lia.
    exists scale, shift. split; [exact E|]. split; [exact X|].
    intros Hpos. destruct (pooling_scale_negative_lemma n 32768 acc) as [scale' [shift' [E' X']]]; try lia.
    rewrite E in E'. injection E' as <- <-. exact X'.
Qed.

(* ---------- the assert in quantise_pooling_scale ---------- *)
(* windows up to 65536 elements (k <= 16): the assert holds for every rescale_bits >= -16; the
   call sites of register_command_stream_generator.generate_ofm_scaling_for_pooling pass
   rescale_bits >= 0 for every window larger than 1x1, and for 1x1 (k = 0) any value >= -32 passes *)
Lemma pooling_assert_holds_lemma n rb :
  (1 <= n <= 65536 /\ -16 <= rb) \/ (n = 1 /\ -32 <= rb) ->
  exists scale, GenScaling.quantise_pooling_scale n rb = Some (scale, 31 - rb + pool_k n) /\
                31 - rb + pool_k n <= 63.
Proof.
  intros H. rewrite gen_quantise_pooling_scale_eq. unfold pool_scale.
  assert (31 - rb + pool_k n < 64) as K.
  { destruct H as [[Hn Hr]|[-> Hr]].
    - pose proof (pool_k_le n 16 ltac:(lia) ltac:(lia) ltac:(change (2^16) with 65536; lia)). lia.
    - change (pool_k 1) with 0. lia. }
  destruct (Z.ltb_spec (31 - rb + pool_k n) 64); [|lia].
  eexists. split; [reflexivity|lia].
Qed.

(* with rescale_bits bits of headroom the divisor stays below 2^(32 - rescale_bits) *)
Lemma pooling_scale_headroom_lemma n rb :
  1 <= n <= 65536 -> 0 <= rb <= 14 ->
  exists scale shift, GenScaling.quantise_pooling_scale n rb = Some (scale, shift) /\
                      2 ^ (31 - rb) <= scale < 2 ^ (32 - rb).
Proof.
  intros Hn Hr. rewrite gen_quantise_pooling_scale_eq. unfold pool_scale.
  pose proof (pool_k_spec n ltac:(lia)) as [Hk [HnP Hlow]].
  pose proof (pool_k_le n 16 ltac:(lia) ltac:(lia) ltac:(change (2^16) with 65536; lia)).
  set (k := pool_k n) in *.
  destruct (Z.ltb_spec (31 - rb + k) 64); [|lia].
  eexists; eexists; split; [reflexivity|].
  rewrite Z.pow_add_r by lia. replace (32 - rb) with (31 - rb + 1) by lia. rewrite pow2_succ by lia.
  set (P := 2 ^ k) in *. assert (0 < P) by (apply pow2_pos; lia).
  assert (131072 <= 2 ^ (31 - rb)).
  { change 131072 with (2 ^ 17). apply Z.pow_le_mono_r; lia. }
  set (Q := 2 ^ (31 - rb)) in *.
  split.
  - apply Z.div_le_lower_bound; [lia|]. nia.
  - apply Z.div_lt_upper_bound; [lia|].
    destruct (Z.eq_dec n 1) as [->|]; [unfold k, pool_k, frexp_exp_int in P; cbn in P; subst P; lia|].
    specialize (Hlow ltac:(lia)). nia.
Qed.

(* under TFLite-style double rounding the same pair is not exact for every 8-bit window: which of
   the two the NPU applies to the pooling scale is part of the modelled hardware semantics *)
Lemma pooling_scale_double_round_differs_lemma :
  exists n acc scale shift,
    1 <= n <= 65536 /\ 0 <= acc <= n * 255 /\
    GenScaling.quantise_pooling_scale n 0 = Some (scale, shift) /\
    apply_scale acc scale shift = div_half_up acc n /\
    apply_scale_double acc scale shift <> div_half_up acc n.
Proof.
  exists 65535, 98302, 2147516417, 47. vm_compute. repeat split; congruence.
Qed.

(* ---------- instances ---------- *)
Example pooling_scale_ex_3x3 :
  2 * 9 * 255 < 2 ^ 31 /\ 0 <= 1147 <= 9 * 255 /\
  GenScaling.quantise_pooling_scale 9 0 = Some (3817748709, 35) /\
  apply_scale 1147 3817748709 35 = 127 /\ div_half_up 1147 9 = 127 /\
  apply_scale (-1147) 3817748709 35 = -127.
Proof. vm_compute. repeat split; congruence. Qed.

Example pooling_scale_ex_16bit_edge :
  2 * 16384 * 65535 < 2 ^ 31 /\
  GenScaling.quantise_pooling_scale 16384 0 = Some (2147483649, 45) /\
  apply_scale (16384 * 65535 - 8192) 2147483649 45 = div_half_up (16384 * 65535 - 8192) 16384.
Proof. vm_compute. repeat split; congruence. Qed.

Example pooling_assert_ex :
  GenScaling.quantise_pooling_scale 65536 (-16) = Some ((2 ^ 63 + 2 ^ 16) / 65536, 63) /\
  GenScaling.quantise_pooling_scale 65536 (-17) = None /\
  GenScaling.quantise_pooling_scale 1 (-32) = Some (2 ^ 63 + 1, 63).
Proof. vm_compute. repeat split; reflexivity. Qed.
