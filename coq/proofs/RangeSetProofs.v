(* C04: specification of the range-set classes (model/RangeSet.v).
   Class invariant of RangeSet: ranges sorted by start, every range non-empty (start < end).
   It is established by the constructor and preserved by `|`.  Under it the two-pointer scan of
   RangeSet.intersects decides "some range of a and some range of b share a byte", never trips
   its assertion, and MemoryAccessSet.conflicts decides "some byte is written by one set and
   read or written by the other". *)
From Coq Require Import ZArith List Bool Lia Sorted Permutation.
From VV Require Import model.RangeSet.
Import ListNotations.
Open Scope Z_scope.

(* an optional Boolean result decides a proposition (and is not an assertion failure) *)
Definition decides (o : option bool) (P : Prop) : Prop :=
  (o = Some true /\ P) \/ (o = Some false /\ ~ P).

Lemma decides_iff o P Q : (P <-> Q) -> decides o P -> decides o Q.
Proof. intros H [[? ?]|[? ?]]; [left | right]; split; tauto. Qed.

Lemma decides_true o P : decides o P -> (o = Some true <-> P).
Proof. intros [[-> H]|[-> H]]; split; intros; try assumption; try reflexivity; try discriminate; contradiction. Qed.

Lemma decides_some o P : decides o P -> o <> None.
Proof. intros [[-> _]|[-> _]]; discriminate. Qed.

Lemma decides_eq o1 o2 P : decides o1 P -> decides o2 P -> o1 = o2.
Proof. intros [[-> H1]|[-> H1]] [[-> H2]|[-> H2]]; try reflexivity; contradiction. Qed.

(* ---------------------------------------------------------------- the invariant *)
Definition nonempty (r : range) : Prop := fst r < snd r.
Definition start_le (a b : range) : Prop := fst a <= fst b.
Definition rs_wf (l : rset) : Prop := StronglySorted start_le l /\ Forall nonempty l.

(* max lo < min hi *)
Definition meet (ra rb : range) : Prop := Z.max (fst ra) (fst rb) < Z.min (snd ra) (snd rb).
Definition rs_meets (a b : rset) : Prop := exists ra rb, In ra a /\ In rb b /\ meet ra rb.

Lemma ranges_meet_iff ra rb : ranges_meet ra rb = true <-> meet ra rb.
Proof. unfold ranges_meet, meet. apply Z.ltb_lt. Qed.

Lemma rs_wf_nil : rs_wf [].
Proof. split; constructor. Qed.

Lemma rs_wf_inv r l :
  rs_wf (r :: l) -> rs_wf l /\ nonempty r /\ (forall x, In x l -> fst r <= fst x).
Proof.
  intros [Hs Hn]. apply StronglySorted_inv in Hs as [Hs Hall]. inversion Hn; subst.
  split; [split; assumption|]. split; [assumption|].
  intros x Hx. rewrite Forall_forall in Hall. apply Hall. exact Hx.
Qed.

Lemma rs_new_wf s e l : rs_new s e = Some l -> rs_wf l.
Proof.
  unfold rs_new. destruct (s =? e); [intros [= <-]; apply rs_wf_nil|].
  destruct (Z.ltb_spec s e); [|discriminate]. intros [= <-].
  split; [repeat constructor | constructor; [exact H | constructor]].
Qed.

(* ---------------------------------------------------------------- RangeSet.intersects *)
Lemma rs_intersects_nil_l b : rs_intersects [] b = Some false.
Proof. destruct b; reflexivity. Qed.
Lemma rs_intersects_nil_r a : rs_intersects a [] = Some false.
Proof. destruct a; reflexivity. Qed.
Lemma rs_intersects_cons ar a' br b' :
  rs_intersects (ar :: a') (br :: b') =
  if ranges_meet ar br then Some true
  else if fst ar <? fst br then rs_intersects a' (br :: b')
  else if fst ar =? fst br then None
  else rs_intersects (ar :: a') b'.
Proof. reflexivity. Qed.

Lemma rs_intersects_decides a :
  rs_wf a -> forall b, rs_wf b -> decides (rs_intersects a b) (rs_meets a b).
Proof.
  induction a as [|ar a' IHa]; intros Hwa b Hwb.
  - rewrite rs_intersects_nil_l. right. split; [reflexivity|]. intros (ra & rb & [] & _).
  - induction b as [|br b' IHb].
    + rewrite rs_intersects_nil_r. right. split; [reflexivity|]. intros (ra & rb & _ & [] & _).
    + rewrite rs_intersects_cons.
      destruct (rs_wf_inv _ _ Hwa) as (Hwa' & Hna & Hsa).
      destruct (rs_wf_inv _ _ Hwb) as (Hwb' & Hnb & Hsb).
      destruct (ranges_meet ar br) eqn:Hm.
      * left. split; [reflexivity|]. exists ar, br. split; [now left|]. split; [now left|].
        apply ranges_meet_iff. exact Hm.
      * assert (Hnm : ~ meet ar br) by (rewrite <- ranges_meet_iff, Hm; discriminate).
        unfold meet, nonempty in *.
        destruct (Z.ltb_spec (fst ar) (fst br)) as [Hlt|Hge].
        -- (* ar ends before br (and every later b) starts: drop ar *)
           eapply decides_iff; [|apply (IHa Hwa' (br :: b') Hwb)].
           split.
           ++ intros (ra & rb & Hra & Hrb & Hmt). exists ra, rb. split; [now right|]. split; assumption.
           ++ intros (ra & rb & [<-|Hra] & Hrb & Hmt).
              ** exfalso. unfold meet in Hmt.
                 assert (fst br <= fst rb) by (destruct Hrb as [<-|Hrb]; [lia | apply Hsb; exact Hrb]).
                 lia.
              ** exists ra, rb. split; [assumption|]. split; assumption.
        -- destruct (Z.eqb_spec (fst ar) (fst br)) as [Heq|Hne]; [exfalso; lia|].
           (* br ends before ar (and every later a) starts: drop br *)
           eapply decides_iff; [|apply (IHb Hwb')].
           split.
           ++ intros (ra & rb & Hra & Hrb & Hmt). exists ra, rb. split; [assumption|]. split; [now right | assumption].
           ++ intros (ra & rb & Hra & [<-|Hrb] & Hmt).
              ** exfalso. unfold meet in Hmt.
                 assert (fst ar <= fst ra) by (destruct Hra as [<-|Hra]; [lia | apply Hsa; exact Hra]).
                 lia.
              ** exists ra, rb. split; [assumption|]. split; assumption.
Qed.

(* ---------------------------------------------------------------- sorted() and `|` *)
Lemma range_leb_true x y : range_leb x y = true -> fst x <= fst y.
Proof.
  unfold range_leb. intros H. apply orb_true_iff in H as [H|H].
  - apply Z.ltb_lt in H. lia.
  - apply andb_true_iff in H as [H _]. apply Z.eqb_eq in H. lia.
Qed.

Lemma range_leb_false x y : range_leb x y = false -> fst y <= fst x.
Proof.
  unfold range_leb. intros H. apply orb_false_iff in H as [H _]. apply Z.ltb_ge in H. exact H.
Qed.

Lemma insert_sorted_in x y l : In x (insert_sorted y l) <-> x = y \/ In x l.
Proof.
  induction l as [|z t IH]; cbn [insert_sorted].
  - cbn. intuition.
  - destruct (range_leb y z).
    + cbn. intuition.
    + cbn [In]. rewrite IH. intuition.
Qed.

Lemma insert_sorted_sorted x l :
  StronglySorted start_le l -> StronglySorted start_le (insert_sorted x l).
Proof.
  induction l as [|y t IH]; intros Hs; cbn [insert_sorted].
  - repeat constructor.
  - apply StronglySorted_inv in Hs as [Hs Hall]. destruct (range_leb x y) eqn:Hl.
    + constructor; [constructor; assumption|].
      apply range_leb_true in Hl. constructor; [exact Hl|].
      rewrite Forall_forall in *. intros z Hz. specialize (Hall z Hz). unfold start_le in *. lia.
    + constructor; [apply IH; exact Hs|].
      apply range_leb_false in Hl. rewrite Forall_forall in *. intros z Hz.
      apply insert_sorted_in in Hz as [->|Hz]; [exact Hl | apply Hall; exact Hz].
Qed.

Lemma sort_ranges_in x l : In x (sort_ranges l) <-> In x l.
Proof.
  induction l as [|y t IH]; [reflexivity|].
  cbn [sort_ranges fold_right]. rewrite insert_sorted_in. fold (sort_ranges t). rewrite IH. cbn. intuition.
Qed.

Lemma sort_ranges_sorted l : StronglySorted start_le (sort_ranges l).
Proof.
  induction l as [|y t IH]; [constructor|]. cbn [sort_ranges fold_right].
  apply insert_sorted_sorted. exact IH.
Qed.

Lemma insert_sorted_perm x l : Permutation (x :: l) (insert_sorted x l).
Proof.
  induction l as [|y t IH]; cbn [insert_sorted]; [reflexivity|].
  destruct (range_leb x y); [reflexivity|].
  eapply perm_trans; [apply perm_swap|]. apply perm_skip. exact IH.
Qed.

(* sorted() returns a permutation of its argument ... *)
Lemma sort_ranges_perm l : Permutation l (sort_ranges l).
Proof.
  induction l as [|y t IH]; [reflexivity|]. cbn [sort_ranges fold_right].
  eapply perm_trans; [apply perm_skip; exact IH | apply insert_sorted_perm].
Qed.

(* ... ordered by the tuple order *)
Lemma range_leb_total x y : range_leb x y = false -> range_leb y x = true.
Proof.
  unfold range_leb. intros H. apply orb_false_iff in H as [H1 H2]. apply Z.ltb_ge in H1.
  destruct (Z.ltb_spec (fst y) (fst x)); [reflexivity|]. cbn [orb].
  assert (E : fst x = fst y) by lia. rewrite E, Z.eqb_refl in H2. cbn [andb] in H2.
  rewrite E, Z.eqb_refl. cbn [andb]. apply Z.leb_gt in H2. apply Z.leb_le. lia.
Qed.

Lemma range_leb_trans x y z : range_leb x y = true -> range_leb y z = true -> range_leb x z = true.
Proof.
  unfold range_leb. intros H1 H2.
  apply orb_true_iff in H1. apply orb_true_iff in H2. apply orb_true_iff.
  rewrite !andb_true_iff, !Z.ltb_lt, !Z.eqb_eq, !Z.leb_le in *. lia.
Qed.

Lemma insert_sorted_lex x l :
  StronglySorted (fun a b => range_leb a b = true) l ->
  StronglySorted (fun a b => range_leb a b = true) (insert_sorted x l).
Proof.
  induction l as [|y t IH]; intros Hs; cbn [insert_sorted].
  - repeat constructor.
  - apply StronglySorted_inv in Hs as [Hs Hall]. destruct (range_leb x y) eqn:Hl.
    + constructor; [constructor; assumption|]. constructor; [exact Hl|].
      rewrite Forall_forall in *. intros z Hz. eapply range_leb_trans; [exact Hl | apply Hall; exact Hz].
    + constructor; [apply IH; exact Hs|].
      apply range_leb_total in Hl. rewrite Forall_forall in *. intros z Hz.
      apply insert_sorted_in in Hz as [->|Hz]; [exact Hl | apply Hall; exact Hz].
Qed.

Lemma sort_ranges_lex l : StronglySorted (fun a b => range_leb a b = true) (sort_ranges l).
Proof.
  induction l as [|y t IH]; [constructor|]. cbn [sort_ranges fold_right].
  apply insert_sorted_lex. exact IH.
Qed.

Lemma rs_or_in x a b : In x (rs_or a b) <-> In x a \/ In x b.
Proof. unfold rs_or. rewrite sort_ranges_in. apply in_app_iff. Qed.

(* the class invariant is preserved by `|` (the operands need not even be sorted) *)
Lemma rs_or_wf a b : Forall nonempty a -> Forall nonempty b -> rs_wf (rs_or a b).
Proof.
  intros Ha Hb. split; [apply sort_ranges_sorted|].
  rewrite Forall_forall in *. intros x Hx. apply rs_or_in in Hx as [Hx|Hx]; auto.
Qed.

(* ---------------------------------------------------------------- bytes *)
Definition rs_has (l : rset) (x : Z) : Prop := exists r, In r l /\ fst r <= x < snd r.

Lemma meet_common ra rb : meet ra rb <-> exists x, (fst ra <= x < snd ra) /\ (fst rb <= x < snd rb).
Proof.
  unfold meet. split.
  - intros H. exists (Z.max (fst ra) (fst rb)). lia.
  - intros (x & H1 & H2). lia.
Qed.

Lemma rs_meets_common a b : rs_meets a b <-> exists x, rs_has a x /\ rs_has b x.
Proof.
  split.
  - intros (ra & rb & Ha & Hb & Hm). apply meet_common in Hm as (x & H1 & H2).
    exists x. split; [exists ra | exists rb]; split; assumption.
  - intros (x & (ra & Ha & H1) & (rb & Hb & H2)). exists ra, rb. split; [assumption|]. split; [assumption|].
    apply meet_common. exists x. split; assumption.
Qed.

Lemma rs_or_has a b x : rs_has (rs_or a b) x <-> rs_has a x \/ rs_has b x.
Proof.
  unfold rs_has. split.
  - intros (r & Hr & H). apply rs_or_in in Hr as [Hr|Hr]; [left | right]; exists r; split; assumption.
  - intros [(r & Hr & H)|(r & Hr & H)]; exists r; (split; [apply rs_or_in|exact H]); auto.
Qed.

(* ---------------------------------------------------------------- MemoryRangeSet *)
Definition keys (m : mrs) : list Z := map fst m.
Definition mrs_wf (m : mrs) : Prop := NoDup (keys m) /\ Forall (fun kv => rs_wf (snd kv)) m.
Definition mrs_has (m : mrs) (k x : Z) : Prop := exists l, mget m k = Some l /\ rs_has l x.
Definition mrs_common (a b : mrs) : Prop := exists k x, mrs_has a k x /\ mrs_has b k x.

Lemma mget_in m k l : mget m k = Some l -> In (k, l) m.
Proof.
  induction m as [|[k' r] t IH]; [discriminate|]. cbn [mget].
  destruct (Z.eqb_spec k' k) as [->|Hne].
  - intros [= ->]. now left.
  - intros H. right. apply IH. exact H.
Qed.

Lemma mget_key m k l : mget m k = Some l -> In k (keys m).
Proof. intros H. apply mget_in in H. unfold keys. apply in_map_iff. exists (k, l). split; [reflexivity | exact H]. Qed.

Lemma mget_none m k : ~ In k (keys m) -> mget m k = None.
Proof.
  induction m as [|[k' r] t IH]; [reflexivity|]. cbn [mget keys map fst In]. intros H.
  destruct (Z.eqb_spec k' k) as [->|Hne]; [exfalso; apply H; now left|].
  apply IH. intros Hin. apply H. now right.
Qed.

Lemma mrs_wf_get m k l : mrs_wf m -> mget m k = Some l -> rs_wf l.
Proof.
  intros [_ H] Hg. apply mget_in in Hg. rewrite Forall_forall in H. apply (H _ Hg).
Qed.

Lemma mrs_wf_inv k r t : mrs_wf ((k, r) :: t) -> mrs_wf t /\ rs_wf r /\ ~ In k (keys t).
Proof.
  intros [Hnd Hall]. cbn [keys map fst] in Hnd. inversion Hnd; subst. inversion Hall; subst.
  split; [split; assumption|]. split; assumption.
Qed.

Lemma mrs_new_wf area s e m : mrs_new area s e = Some m -> mrs_wf m.
Proof.
  unfold mrs_new. destruct (rs_new s e) as [r|] eqn:Hr; [|discriminate]. intros [= <-].
  split; [cbn; constructor; [intros []|constructor]|].
  constructor; [|constructor]. cbn [snd]. eapply rs_new_wf. exact Hr.
Qed.

Lemma mrs_intersects_decides a :
  mrs_wf a -> forall b, mrs_wf b -> decides (mrs_intersects a b) (mrs_common a b).
Proof.
  induction a as [|[k ra] t IH]; intros Hwa b Hwb.
  - right. split; [reflexivity|]. intros (k & x & (l & Hl & _) & _). discriminate.
  - destruct (mrs_wf_inv _ _ _ Hwa) as (Hwt & Hwr & Hnk).
    assert (Htail : forall k' x, mrs_has t k' x -> mrs_has ((k, ra) :: t) k' x).
    { intros k' x (l & Hl & Hx). exists l. split; [|exact Hx]. cbn [mget].
      destruct (Z.eqb_spec k k') as [->|_]; [|exact Hl].
      exfalso. apply Hnk. eapply mget_key. exact Hl. }
    assert (Hsplit : forall k' x, mrs_has ((k, ra) :: t) k' x -> (k' = k /\ rs_has ra x) \/ mrs_has t k' x).
    { intros k' x (l & Hl & Hx). cbn [mget] in Hl. destruct (Z.eqb_spec k k') as [->|_].
      - injection Hl as <-. left. split; [reflexivity | exact Hx].
      - right. exists l. split; assumption. }
    cbn [mrs_intersects]. destruct (mget b k) as [rb|] eqn:Hb.
    + pose proof (mrs_wf_get _ _ _ Hwb Hb) as Hwrb.
      destruct (rs_intersects_decides ra Hwr rb Hwrb) as [[-> Hm]|[-> Hm]].
      * left. split; [reflexivity|]. apply rs_meets_common in Hm as (x & Hx1 & Hx2).
        exists k, x. split.
        -- exists ra. split; [cbn [mget]; now rewrite Z.eqb_refl | exact Hx1].
        -- exists rb. split; assumption.
      * eapply decides_iff; [|apply (IH Hwt b Hwb)]. split.
        -- intros (k' & x & H1 & H2). exists k', x. split; [apply Htail; exact H1 | exact H2].
        -- intros (k' & x & H1 & H2). apply Hsplit in H1 as [[-> Hx]|H1].
           ++ exfalso. apply Hm. apply rs_meets_common. exists x. split; [exact Hx|].
              destruct H2 as (l & Hl & Hx2). rewrite Hb in Hl. injection Hl as <-. exact Hx2.
           ++ exists k', x. split; assumption.
    + eapply decides_iff; [|apply (IH Hwt b Hwb)]. split.
      * intros (k' & x & H1 & H2). exists k', x. split; [apply Htail; exact H1 | exact H2].
      * intros (k' & x & H1 & H2). apply Hsplit in H1 as [[-> Hx]|H1].
        -- exfalso. destruct H2 as (l & Hl & _). rewrite Hb in Hl. discriminate.
        -- exists k', x. split; assumption.
Qed.

(* ---- `|` on MemoryRangeSet *)
Lemma mget_map_l (f : Z -> rset -> rset) (a : mrs) rest k :
  mget (map (fun kv => (fst kv, f (fst kv) (snd kv))) a ++ rest) k =
  match mget a k with Some r => Some (f k r) | None => mget rest k end.
Proof.
  induction a as [|[k' r] t IH]; [reflexivity|]. cbn [map app mget fst snd].
  destruct (Z.eqb_spec k' k) as [->|_]; [reflexivity | exact IH].
Qed.

Lemma mget_filter_other (p : Z -> bool) (b : mrs) k :
  p k = true -> mget (filter (fun kv => p (fst kv)) b) k = mget b k.
Proof.
  intros Hp. induction b as [|[k' r] t IH]; [reflexivity|]. cbn [filter fst].
  destruct (p k') eqn:Hpk; cbn [mget].
  - destruct (k' =? k); [reflexivity | exact IH].
  - destruct (Z.eqb_spec k' k) as [->|_]; [congruence | exact IH].
Qed.

Lemma mget_map_r (g : rset -> rset) (b : mrs) k :
  mget (map (fun kv => (fst kv, g (snd kv))) b) k = match mget b k with Some r => Some (g r) | None => None end.
Proof.
  induction b as [|[k' r] t IH]; [reflexivity|]. cbn [map mget fst snd].
  destruct (k' =? k); [reflexivity | exact IH].
Qed.

Lemma mrs_or_get a b k :
  mget (mrs_or a b) k =
  match mget a k with
  | Some ra => Some (rs_or ra (mgetd b k))
  | None => match mget b k with Some rb => Some (rs_or [] rb) | None => None end
  end.
Proof.
  unfold mrs_or.
  rewrite (mget_map_l (fun k r => rs_or r (mgetd b k))).
  destruct (mget a k) as [ra|] eqn:Ha; [reflexivity|].
  rewrite mget_map_r.
  rewrite (mget_filter_other (fun k => negb (mhas a k))); [reflexivity|].
  unfold mhas. now rewrite Ha.
Qed.

Lemma rs_has_nil x : ~ rs_has [] x.
Proof. intros (r & [] & _). Qed.

Lemma mrs_or_has a b k x : mrs_has (mrs_or a b) k x <-> mrs_has a k x \/ mrs_has b k x.
Proof.
  unfold mrs_has. rewrite mrs_or_get. unfold mgetd.
  destruct (mget a k) as [ra|] eqn:Ha; destruct (mget b k) as [rb|] eqn:Hb.
  - split.
    + intros (l & [= <-] & H). apply rs_or_has in H as [H|H]; [left; exists ra | right; exists rb]; auto.
    + intros [(l & [= <-] & H)|(l & [= <-] & H)]; eexists; (split; [reflexivity|]); apply rs_or_has; auto.
  - split.
    + intros (l & [= <-] & H). apply rs_or_has in H as [H|H]; [left; exists ra; auto | exfalso; eapply rs_has_nil; exact H].
    + intros [(l & [= <-] & H)|(l & [=] & _)]. eexists; (split; [reflexivity|]); apply rs_or_has; auto.
  - split.
    + intros (l & [= <-] & H). apply rs_or_has in H as [H|H]; [exfalso; eapply rs_has_nil; exact H | right; exists rb; auto].
    + intros [(l & [=] & _)|(l & [= <-] & H)]. eexists; (split; [reflexivity|]); apply rs_or_has; auto.
  - split.
    + intros (l & [=] & _).
    + intros [(l & [=] & _)|(l & [=] & _)].
Qed.

Lemma rs_wf_nonempty l : rs_wf l -> Forall nonempty l.
Proof. intros [_ H]. exact H. Qed.

Lemma keys_map_fst (f : Z * rset -> rset) (m : mrs) : keys (map (fun kv => (fst kv, f kv)) m) = keys m.
Proof. unfold keys. rewrite map_map. apply map_ext. reflexivity. Qed.

Lemma NoDup_filter {A} (p : A -> bool) l : NoDup l -> NoDup (filter p l).
Proof.
  induction 1 as [|x l Hx Hnd IH]; cbn [filter]; [constructor|].
  destruct (p x); [|exact IH]. constructor; [|exact IH].
  intros Hin. apply filter_In in Hin as [Hin _]. contradiction.
Qed.

Lemma keys_filter (p : Z -> bool) (m : mrs) : keys (filter (fun kv => p (fst kv)) m) = filter p (keys m).
Proof.
  induction m as [|[k r] t IH]; [reflexivity|]. cbn [filter keys map fst].
  destruct (p k); cbn [map fst]; [f_equal|]; exact IH.
Qed.

Lemma mhas_key a k : mhas a k = true <-> In k (keys a).
Proof.
  unfold mhas. split.
  - destruct (mget a k) eqn:H; [|discriminate]. intros _. eapply mget_key. exact H.
  - intros H. destruct (mget a k) eqn:Hg; [reflexivity|]. exfalso.
    induction a as [|[k' r] t IH]; [destruct H|]. cbn [mget] in Hg. cbn [keys map fst In] in H.
    destruct (Z.eqb_spec k' k) as [->|Hne]; [discriminate|]. destruct H as [->|H]; [congruence|]. apply IH; assumption.
Qed.

Lemma NoDup_app_disj {A} (l1 l2 : list A) :
  NoDup l1 -> NoDup l2 -> (forall x, In x l1 -> In x l2 -> False) -> NoDup (l1 ++ l2).
Proof.
  induction 1 as [|x l Hx Hnd IH]; intros H2 Hd; [exact H2|].
  cbn [app]. constructor.
  - intros Hin. apply in_app_or in Hin as [Hin|Hin]; [contradiction|]. apply (Hd x); [now left | exact Hin].
  - apply IH; [exact H2|]. intros y Hy1 Hy2. apply (Hd y); [now right | exact Hy2].
Qed.

(* the class invariant of MemoryRangeSet is preserved by `|` *)
Lemma mrs_or_wf a b : mrs_wf a -> mrs_wf b -> mrs_wf (mrs_or a b).
Proof.
  intros [Hna Hfa] [Hnb Hfb]. unfold mrs_or. split.
  - unfold keys. rewrite map_app. fold (keys (map (fun kv => (fst kv, rs_or (snd kv) (mgetd b (fst kv)))) a)).
    fold (keys (map (fun kv : Z * rset => (fst kv, rs_or [] (snd kv))) (filter (fun kv => negb (mhas a (fst kv))) b))).
    rewrite (keys_map_fst (fun kv => rs_or (snd kv) (mgetd b (fst kv)))).
    rewrite (keys_map_fst (fun kv => rs_or [] (snd kv))).
    rewrite (keys_filter (fun k => negb (mhas a k))).
    apply NoDup_app_disj; [exact Hna | apply NoDup_filter; exact Hnb |].
    intros k Hka Hkb. apply filter_In in Hkb as [_ Hkb]. apply negb_true_iff in Hkb.
    apply mhas_key in Hka. congruence.
  - apply Forall_app. split; apply Forall_forall; intros kv Hkv; apply in_map_iff in Hkv as ([k r] & <- & Hin); cbn [fst snd].
    + rewrite Forall_forall in Hfa. specialize (Hfa _ Hin). cbn [snd] in Hfa.
      apply rs_or_wf; [apply rs_wf_nonempty; exact Hfa|].
      unfold mgetd. destruct (mget b k) as [rb|] eqn:Hb; [|constructor].
      apply rs_wf_nonempty. eapply mrs_wf_get; [split; eassumption | exact Hb].
    + apply filter_In in Hin as [Hin _]. rewrite Forall_forall in Hfb. specialize (Hfb _ Hin). cbn [snd] in Hfb.
      apply rs_or_wf; [constructor | apply rs_wf_nonempty; exact Hfb].
Qed.

(* ---------------------------------------------------------------- MemoryAccessSet *)
Definition ma_wf (x : maset) : Prop := mrs_wf (ma_read x) /\ mrs_wf (ma_write x).
Definition reads (x : maset) (k a : Z) : Prop := mrs_has (ma_read x) k a.
Definition writes (x : maset) (k a : Z) : Prop := mrs_has (ma_write x) k a.

(* some byte (region k, address a) is written by one set and read or written by the other *)
Definition byte_conflict (x y : maset) : Prop :=
  exists k a, (writes x k a /\ reads y k a) \/ (reads x k a /\ writes y k a) \/ (writes x k a /\ writes y k a).

Lemma mrs_wf_nil : mrs_wf [].
Proof. split; constructor. Qed.

Lemma ma_empty_wf : ma_wf ma_empty.
Proof. split; apply mrs_wf_nil. Qed.

Lemma ma_add_wf x m w : ma_wf x -> mrs_wf m -> ma_wf (ma_add x m w).
Proof.
  intros [Hr Hw] Hm. unfold ma_add. destruct w; split; cbn [ma_read ma_write]; try assumption; apply mrs_or_wf; assumption.
Qed.

Lemma ma_add_reads x m w k a : reads (ma_add x m w) k a <-> reads x k a \/ (w = false /\ mrs_has m k a).
Proof.
  unfold reads, ma_add. destruct w; cbn [ma_read].
  - split; [now left | intros [H|[[=] _]]; exact H].
  - rewrite mrs_or_has. split; intros [H|H]; auto. destruct H as [_ H]. now right.
Qed.

Lemma ma_add_writes x m w k a : writes (ma_add x m w) k a <-> writes x k a \/ (w = true /\ mrs_has m k a).
Proof.
  unfold writes, ma_add. destruct w; cbn [ma_write].
  - rewrite mrs_or_has. split; intros [H|H]; auto. destruct H as [_ H]. now right.
  - split; [now left | intros [H|[[=] _]]; exact H].
Qed.

Lemma ma_conflicts_decides x y : ma_wf x -> ma_wf y -> decides (ma_conflicts x y) (byte_conflict x y).
Proof.
  intros [Hrx Hwx] [Hry Hwy]. unfold ma_conflicts, byte_conflict, reads, writes.
  destruct (mrs_intersects_decides _ Hwx _ Hry) as [[-> (k & a & H1 & H2)]|[-> N1]].
  { left. split; [reflexivity|]. exists k, a. left. split; assumption. }
  destruct (mrs_intersects_decides _ Hrx _ Hwy) as [[-> (k & a & H1 & H2)]|[-> N2]].
  { left. split; [reflexivity|]. exists k, a. right. left. split; assumption. }
  destruct (mrs_intersects_decides _ Hwx _ Hwy) as [[-> (k & a & H1 & H2)]|[-> N3]].
  { left. split; [reflexivity|]. exists k, a. right. right. split; assumption. }
  right. split; [reflexivity|]. intros (k & a & [[H1 H2]|[[H1 H2]|[H1 H2]]]).
  - apply N1. exists k, a. split; assumption.
  - apply N2. exists k, a. split; assumption.
  - apply N3. exists k, a. split; assumption.
Qed.

Lemma byte_conflict_sym x y : byte_conflict x y -> byte_conflict y x.
Proof.
  intros (k & a & [[H1 H2]|[[H1 H2]|[H1 H2]]]); exists k, a.
  - right. left. split; assumption.
  - left. split; assumption.
  - right. right. split; assumption.
Qed.

Lemma ma_conflicts_sym_lemma x y : ma_wf x -> ma_wf y -> ma_conflicts x y = ma_conflicts y x.
Proof.
  intros Hx Hy. eapply decides_eq; [apply ma_conflicts_decides; assumption|].
  eapply decides_iff; [|apply ma_conflicts_decides; assumption].
  split; apply byte_conflict_sym.
Qed.

(* ---------------------------------------------------------------- statements exported by props/C04.v *)
Lemma rangeset_intersects_spec_lemma a b :
  rs_wf a -> rs_wf b ->
  (rs_intersects a b = Some true <->
   exists ra rb, In ra a /\ In rb b /\ Z.max (fst ra) (fst rb) < Z.min (snd ra) (snd rb)) /\
  rs_intersects a b <> None.
Proof.
  intros Ha Hb. pose proof (rs_intersects_decides a Ha b Hb) as H.
  split; [exact (decides_true _ _ H) | exact (decides_some _ _ H)].
Qed.

Lemma rangeset_or_invariant_lemma a b :
  rs_wf a -> rs_wf b -> rs_wf (rs_or a b) /\ forall r, In r (rs_or a b) <-> In r a \/ In r b.
Proof.
  intros Ha Hb. split; [apply rs_or_wf; apply rs_wf_nonempty; assumption | intros r; apply rs_or_in].
Qed.

Lemma conflicts_spec_lemma x y :
  ma_wf x -> ma_wf y ->
  (ma_conflicts x y = Some true <-> byte_conflict x y) /\
  ma_conflicts x y <> None /\
  ma_conflicts x y = ma_conflicts y x.
Proof.
  intros Hx Hy. pose proof (ma_conflicts_decides x y Hx Hy) as H.
  split; [exact (decides_true _ _ H)|]. split; [exact (decides_some _ _ H) | apply ma_conflicts_sym_lemma; assumption].
Qed.

Lemma access_set_add_lemma x m w :
  ma_wf x -> mrs_wf m ->
  ma_wf (ma_add x m w) /\
  (forall k a, reads (ma_add x m w) k a <-> reads x k a \/ (w = false /\ mrs_has m k a)) /\
  (forall k a, writes (ma_add x m w) k a <-> writes x k a \/ (w = true /\ mrs_has m k a)).
Proof.
  intros Hx Hm. split; [apply ma_add_wf; assumption|].
  split; intros k a; [apply ma_add_reads | apply ma_add_writes].
Qed.

(* the hypotheses are satisfiable by non-trivial instances *)
Example rs_example :
  rs_wf (rs_or [(0, 4); (10, 12)] [(3, 6)]) /\
  rs_intersects (rs_or [(0, 4); (10, 12)] [(3, 6)]) [(5, 10)] = Some true /\
  rs_intersects (rs_or [(0, 4); (10, 12)] [(3, 6)]) [(6, 10); (12, 20)] = Some false.
Proof.
  split; [apply rs_or_wf; repeat constructor|]. split; vm_compute; reflexivity.
Qed.

Example ma_example :
  let dma := ma_add (ma_add ma_empty [(0, [(0, 208)])] false) [(1, [(1000, 1208)])] true in
  let conv := ma_add (ma_add ma_empty [(1, [(1100, 1200)])] false) [(1, [(0, 500)]); (259, [(0, 16384)])] true in
  ma_wf dma /\ ma_wf conv /\ ma_conflicts dma conv = Some true /\ ma_conflicts conv dma = Some true.
Proof.
  assert (W : forall k s e, s < e -> mrs_wf [(k, [(s, e)])]).
  { intros k s e H. split; [repeat constructor; intros []|]. constructor; [|constructor].
    split; [repeat constructor | constructor; [exact H | constructor]]. }
  cbv zeta. split; [|split; [|split; vm_compute; reflexivity]].
  - apply ma_add_wf; [apply ma_add_wf; [apply ma_empty_wf|]|]; apply W; lia.
  - apply ma_add_wf; [apply ma_add_wf; [apply ma_empty_wf | apply W; lia]|].
    split; [repeat constructor; cbn; intuition discriminate|].
    repeat constructor; cbn; lia.
Qed.
