(* C03, whole inference: the last-writer discipline of hw/Defuse.v applied to the operator sequence of the
   output model.  The tensor arena of the output file is region ARENA; every non-constant tensor of the file is
   an object (id = its index + 1, delta = its arena offset).  A CPU operator demands the bytes of its inputs and
   tags the bytes of its outputs; an Ethos-U custom operator demands the bytes of its inputs, then every arena byte
   its command stream writes (write footprints of hw/Npu.v, all operations of the stream) loses its identity
   (scratch tag of that operator), and finally its outputs are tagged - provided the stream's writes cover them.
   No proofs in this file. *)
From Coq Require Import ZArith List Bool.
From VV Require Import lib.PyInt gen.GenTables hw.Npu hw.Defuse.
Import ListNotations.
Open Scope Z_scope.

Definition ARENA : Z := 1.

(* write footprints of all operations of a decoded stream, in program order *)
Fixpoint stream_writes (hw : hwcfg) (evs : list event) : list seg :=
  match evs with
  | [] => []
  | EOp c p r :: t => fp_writes (op_footprint hw c p r) ++ stream_writes hw t
  | _ :: t => stream_writes hw t
  end.

(* the part that lands in the arena: region 1 is the scratch tensor, placed at arena offset b1; region 2 (fast
   scratch) is part of the arena only when b2 >= 0 (the compiler uses region 2 only for a separate memory) *)
Definition arena_iv (b1 b2 : Z) (s : seg) : list (Z * Z) :=
  let '(rg, lo, hi) := s in
  if rg =? 1 then [(b1 + lo, b1 + hi)]
  else if (rg =? 2) && (0 <=? b2) then [(b2 + lo, b2 + hi)] else [].

Definition arena_ivs (b1 b2 : Z) (l : list seg) : list (Z * Z) := flat_map (arena_iv b1 b2) l.

Definition scratch_tag (k : Z) : tag := Tag (- (k + 1)) 0.

Definition clobbers (k : Z) (ivs : list (Z * Z)) : list tseg :=
  map (fun w => (ARENA, fst w, snd w, scratch_tag k)) ivs.

(* [lo,hi) of the arena lies inside the union of the intervals *)
Definition written_by (k : Z) (ivs : list (Z * Z)) (o : tseg) : bool :=
  let '(rg, lo, hi, _) := o in
  (rg =? ARENA) && covered (fold_left hwrite (clobbers k ivs) []) ARENA lo hi (scratch_tag k).

(* an output that occupies exactly the bytes of one of the operator's own inputs: the plan lets a tensor that is only
   re-interpreted (a RESHAPE between a graph input and a graph output) share the place of its source, and the stream
   has nothing to copy.  Its bytes are those of the input, which the operator demands. *)
Definition aliases_input (ins : list tseg) (o : tseg) : bool :=
  let '(rg, lo, hi, _) := o in
  (rg =? ARENA) && existsb (fun i => let '(rg', lo', hi', _) := i in (rg' =? rg) && (lo' =? lo) && (hi' =? hi)) ins.

(* the (reads, writes) pair of Ethos-U custom operator number k: None when an output is neither written by its stream
   nor such an alias *)
Definition npu_top_op (hw : hwcfg) (evs : list event) (b1 b2 k : Z) (ins outs : list tseg)
  : option (list tseg * list tseg) :=
  let ivs := arena_ivs b1 b2 (stream_writes hw evs) in
  if forallb (fun o => written_by k ivs o || aliases_input ins o) outs then Some (ins, clobbers k ivs ++ outs) else None.

Inductive top :=
| TCpu (rs ws : list tseg)
| TNpu (b1 b2 : Z) (ins outs : list tseg) (evs : list event).

Fixpoint top_ops (hw : hwcfg) (k : Z) (l : list top) : option (list (list tseg * list tseg)) :=
  match l with
  | [] => Some []
  | TCpu rs ws :: t =>
      match top_ops hw (k + 1) t with Some r => Some ((rs, ws) :: r) | None => None end
  | TNpu b1 b2 ins outs evs :: t =>
      match npu_top_op hw evs b1 b2 k ins outs with
      | Some o => match top_ops hw (k + 1) t with Some r => Some (o :: r) | None => None end
      | None => None
      end
  end.

(* the validator: the network inputs are the initial definitions; the last entry of the operator list is a
   pseudo operator that demands the network outputs *)
Definition check_inference (hw : hwcfg) (init : list tseg) (l : list top) : bool :=
  match top_ops hw 0 l with
  | Some ops => run_ops (fold_left hwrite init []) ops
  | None => false
  end.

Definition inference_first_bad (hw : hwcfg) (init : list tseg) (l : list top) : Z :=
  match top_ops hw 0 l with
  | Some ops => first_bad (fold_left hwrite init []) ops 0
  | None => -2
  end.

(* index of the first custom operator whose stream does not write all of its outputs *)
Fixpoint first_unwritten (hw : hwcfg) (k : Z) (l : list top) : Z :=
  match l with
  | [] => -1
  | TCpu _ _ :: t => first_unwritten hw (k + 1) t
  | TNpu b1 b2 ins outs evs :: t =>
      match npu_top_op hw evs b1 b2 k ins outs with
      | Some _ => first_unwritten hw (k + 1) t
      | None => k
      end
  end.
