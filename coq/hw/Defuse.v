(* C03: per-byte last-writer discipline of a decoded command stream (executable checker).
   A tag (id, delta) on byte address a of a region means: "this byte holds the byte at logical
   offset (a - delta) of object id" (a tensor's storage in its own stride system, or the byte
   string of a constant).  Writers tag, readers demand.  No proofs in this file. *)
From Coq Require Import ZArith List Bool.
From VV Require Import lib.PyInt gen.GenTables hw.Npu.
Import ListNotations.
Open Scope Z_scope.

Record tag := Tag { t_id : Z; t_delta : Z }.
Definition tag_eqb (a b : tag) : bool := (t_id a =? t_id b) && (t_delta a =? t_delta b).

Definition tseg := (Z * Z * Z * tag)%type.          (* region, lo, hi, tag *)
Definition hist := list tseg.                        (* most recent write first *)

Fixpoint lookup (h : hist) (rg a : Z) : option tag :=
  match h with
  | [] => None
  | (rg0, l0, h0, t0) :: r =>
      if (rg0 =? rg) && (l0 <=? a) && (a <? h0) then Some t0 else lookup r rg a
  end.

(* every byte of [lo,hi) of region rg resolves to tag t *)
Fixpoint covered (h : hist) (rg lo hi : Z) (t : tag) : bool :=
  match h with
  | [] => hi <=? lo
  | (rg0, l0, h0, t0) :: r =>
      if hi <=? lo then true
      else if negb (rg0 =? rg) || (h0 <=? lo) || (hi <=? l0) || (h0 <=? l0) then covered r rg lo hi t
      else tag_eqb t0 t && covered r rg lo (Z.min hi l0) t && covered r rg (Z.max lo h0) hi t
  end.

Definition shadowed (s e : tseg) : bool :=          (* e lies completely under the new write s *)
  let '(rg, lo, hi, _) := s in let '(rg0, l0, h0, _) := e in
  (rg0 =? rg) && (lo <=? l0) && (h0 <=? hi).

Definition hwrite (h : hist) (s : tseg) : hist :=
  let '(rg, lo, hi, _) := s in
  if hi <=? lo then h else s :: filter (fun e => negb (shadowed s e)) h.

Definition read_ok (h : hist) (s : tseg) : bool :=
  let '(rg, lo, hi, t) := s in covered h rg lo hi t.

(* one operation: all reads are checked against the state before, then all writes are applied *)
Definition step (h : hist) (rs ws : list tseg) : option hist :=
  if forallb (read_ok h) rs then Some (fold_left hwrite ws h) else None.

Fixpoint run_ops (h : hist) (ops : list (list tseg * list tseg)) : bool :=
  match ops with
  | [] => true
  | (rs, ws) :: t => match step h rs ws with Some h' => run_ops h' t | None => false end
  end.

Fixpoint first_bad (h : hist) (ops : list (list tseg * list tseg)) (i : Z) : Z :=
  match ops with
  | [] => -1
  | (rs, ws) :: t => match step h rs ws with Some h' => first_bad h' t (i + 1) | None => i end
  end.

(* ------------------------------------------------------------ tagged footprints of an op *)
(* identity of a feature-map operand as the compiler intends it: object id and the coordinates
   (in the tensor's own coordinate system) of element (0,0,0) of the operation's box *)
Record fmid := { i_id : Z; i_y0 : Z; i_x0 : Z; i_c0 : Z }.

Definition logical_off (v : fmview) (i : fmid) (y x c : Z) : Z :=
  if fv_b16 v then
    (i_y0 i + y) * fv_sy v + (i_x0 i + x) * (16 * fv_elem v) + ((i_c0 i + c) / 16) * fv_sc v
    + ((i_c0 i + c) mod 16) * fv_elem v
  else (i_y0 i + y) * fv_sy v + (i_x0 i + x) * fv_sx v + (i_c0 i + c) * fv_elem v.

Fixpoint brick_tsegs (v : fmview) (i : fmid) (y x : Z) (nb : nat) (s : Z) : list tseg :=
  match nb with
  | O => []
  | S nb' =>
      let lo := elem_addr v y x (16 * s) in
      (fv_region v, lo, lo + Z.min 16 (fv_d v - 16 * s) * fv_elem v,
       Tag (i_id i) (lo - logical_off v i y x (16 * s))) :: brick_tsegs v i y x nb' (s + 1)
  end.

Definition pixel_tsegs (v : fmview) (i : fmid) (y x : Z) : list tseg :=
  if fv_b16 v then brick_tsegs v i y x (Z.to_nat ((fv_d v + 15) / 16)) 0
  else let lo := elem_addr v y x 0 in
       [(fv_region v, lo, lo + fv_d v * fv_elem v, Tag (i_id i) (lo - logical_off v i y x 0))].

Fixpoint row_tsegs (v : fmview) (i : fmid) (y : Z) (nx : nat) (x : Z) : list tseg :=
  match nx with O => [] | S n' => pixel_tsegs v i y x ++ row_tsegs v i y n' (x + 1) end.
Fixpoint box_tsegs (v : fmview) (i : fmid) (ny : nat) (y : Z) : list tseg :=
  match ny with O => [] | S n' => row_tsegs v i y (Z.to_nat (fv_w v)) 0 ++ box_tsegs v i n' (y + 1) end.

(* merge adjacent segments of equal region and tag (well-formed segments only) *)
Fixpoint tmerge (l : list tseg) : list tseg :=
  match l with
  | [] => []
  | (rg, lo, hi, t) :: r =>
      match tmerge r with
      | (rg2, lo2, hi2, t2) :: r2 =>
          if (rg =? rg2) && (hi =? lo2) && tag_eqb t t2 && (lo <=? hi) && (lo2 <=? hi2)
          then (rg, lo, hi2, t) :: r2 else (rg, lo, hi, t) :: (rg2, lo2, hi2, t2) :: r2
      | [] => [(rg, lo, hi, t)]
      end
  end.

Definition fm_tsegs (v : fmview) (i : fmid) : list tseg := tmerge (box_tsegs v i (Z.to_nat (fv_h v)) 0).

(* byte-string operands (weights, scales, LUT, DMA): object id and the logical offset of the
   first byte read *)
Record rgid := { g_id : Z; g_off : Z }.
Definition range_tseg (rg base len : Z) (g : rgid) : list tseg :=
  if len <=? 0 then [] else [(rg, base, base + len, Tag (g_id g) (base - g_off g))].

(* identities supplied (by the harness, from the compiler's own high-level command) for one op:
   ifm, ifm2, ofm ; weight and scale ranges per core ; lut ; for a DMA: source object *)
Record opid := {
  o_ifm : fmid; o_ifm2 : fmid; o_ofm : fmid;
  o_w0 : rgid; o_s0 : rgid; o_w1 : rgid; o_s1 : rgid; o_lut : rgid; o_dma : rgid;
  o_ifm_const : bool; o_ifm2_const : bool       (* operand is a constant of the output file *) }.

(* a constant feature map is demanded as a byte string of the constants region: id only,
   delta = address of the tensor's first byte, supplied as i_y0 (convention of the harness) *)
Definition const_fm_tsegs (v : fmview) (i : fmid) : list tseg :=
  map (fun p => (fv_region v, fst p, snd p, Tag (i_id i) (i_y0 i))) (fm_segs v).

Definition op_tagged (hw : hwcfg) (code param : Z) (r : regs) (o : opid) : list tseg * list tseg :=
  if code =? cmd0_NPU_OP_DMA_START then
    let n := r1 r cmd1_NPU_SET_DMA0_LEN in
    let sreg := r0 r cmd0_NPU_SET_DMA0_SRC_REGION in
    let dreg := r0 r cmd0_NPU_SET_DMA0_DST_REGION in
    (range_tseg (if 256 <=? sreg then SHRAM else sreg) (r1 r cmd1_NPU_SET_DMA0_SRC) n (o_dma o),
     range_tseg (if 256 <=? dreg then SHRAM else dreg) (r1 r cmd1_NPU_SET_DMA0_DST) n (o_dma o))
  else
    let iv := ifm_view code r in
    let ov := ofm_view r in
    let wr := r0 r cmd0_NPU_SET_WEIGHT_REGION in
    let sr := r0 r cmd0_NPU_SET_SCALE_REGION in
    ((if o_ifm_const o then const_fm_tsegs iv (o_ifm o) else fm_tsegs iv (o_ifm o)) ++
     (if uses_ifm2 code param r then
        (if o_ifm2_const o then const_fm_tsegs (ifm2_view r) (o_ifm2 o) else fm_tsegs (ifm2_view r) (o_ifm2 o))
      else []) ++
     (if (code =? cmd0_NPU_OP_CONV) || (code =? cmd0_NPU_OP_DEPTHWISE) then
        range_tseg wr (r1 r cmd1_NPU_SET_WEIGHT_BASE) (r1 r cmd1_NPU_SET_WEIGHT_LENGTH mod 4294967296) (o_w0 o) ++
        range_tseg sr (r1 r cmd1_NPU_SET_SCALE_BASE) (r1 r cmd1_NPU_SET_SCALE_LENGTH mod 4294967296) (o_s0 o) ++
        (if hw_ncores hw >? 1 then
           range_tseg wr (r1 r cmd1_NPU_SET_WEIGHT1_BASE) (r1 r cmd1_NPU_SET_WEIGHT1_LENGTH mod 4294967296) (o_w1 o) ++
           range_tseg sr (r1 r cmd1_NPU_SET_SCALE1_BASE) (r1 r cmd1_NPU_SET_SCALE1_LENGTH mod 4294967296) (o_s1 o)
         else [])
      else []) ++
     (match lut_index r with
      | Some k => range_tseg SHRAM (hw_lut_addr hw + k * 256) (lut_read_bytes (fv_elem ov) k) (o_lut o)
      | None => [] end),
     fm_tsegs ov (o_ofm o)).

(* NHCWB16 views must start on a brick boundary of the tensor (otherwise the brick arithmetic of the
   hardware and the tensor's logical offsets do not line up and the model does not apply) *)
Definition fmid_ok (v : fmview) (i : fmid) : bool := negb (fv_b16 v) || (i_c0 i mod 16 =? 0).
Definition opid_ok (code param : Z) (r : regs) (o : opid) : bool :=
  if code =? cmd0_NPU_OP_DMA_START then true
  else fmid_ok (ifm_view code r) (o_ifm o) && fmid_ok (ofm_view r) (o_ofm o) &&
       (if uses_ifm2 code param r then fmid_ok (ifm2_view r) (o_ifm2 o) else true).

Fixpoint stream_tagged (hw : hwcfg) (evs : list event) (ids : list opid) : option (list (list tseg * list tseg)) :=
  match evs with
  | [] => match ids with [] => Some [] | _ => None end
  | EOp c p r :: t =>
      match ids with
      | o :: ids' => if opid_ok c p r o then
                       match stream_tagged hw t ids' with
                       | Some l => Some (op_tagged hw c p r o :: l) | None => None end
                     else None
      | [] => None
      end
  | _ :: t => stream_tagged hw t ids
  end.

(* the validator: initial definitions (constants of the file, tensors written by the CPU before
   the custom operator runs), then the operations in program order *)
Definition check_defuse (hw : hwcfg) (init : list tseg) (evs : list event) (ids : list opid) : bool :=
  match stream_tagged hw evs ids with
  | Some ops => run_ops (fold_left hwrite init []) ops
  | None => false
  end.

Definition defuse_first_bad (hw : hwcfg) (init : list tseg) (evs : list event) (ids : list opid) : Z :=
  match stream_tagged hw evs ids with
  | Some ops => first_bad (fold_left hwrite init []) ops 0
  | None => -2
  end.
