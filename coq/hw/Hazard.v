(* C04, D2: hazard validator for a decoded command stream (events of hw/Npu.v).
   Executable definitions only; the semantics it is sound against and the proofs are in
   proofs/HazardProofs.v.

   (1) Cross-queue hazards (DMA <-> kernel).  The stream is replayed in the queue machine of
       hw/Queues.v: every EOp is issued to its queue, KERNEL_WAIT n / DMA_WAIT n are the waits,
       the outstanding limits are the accelerator's (a_max_dma, a_max_kern of gen/GenTables.v).
       A newly issued operation must have no byte-level RAW / WAR / WAW overlap (exact footprints
       of Npu.op_footprint: (region, lo, hi) segments) with any possibly-unfinished operation of
       the other queue.
       NOTE on SHRAM: the hwcfg handed to the validator must carry, as hw_shram_size, the number of
       SHRAM bytes a kernel operation WITHOUT activation LUT may use (Vela:
       arch.available_shram_banks(False) * bank size = a_total_banks * a_bank_size); on the
       accelerators with reserved banks the LUT lives above that.

   (2) Consecutive kernel operations A ; B (no KERNEL_WAIT 0 in between), BLOCKDEP_B = k > 0.
       MODELLED block traversal (from Vela's own get_offset_block_coords / get_first_job_input_volume,
       stated on the decoded registers):
         * the OFM is produced in blocks of OFM_BLK_{HEIGHT,WIDTH,DEPTH}, depth innermost, then
           width, then height; block i writes exactly the OFM elements of its (clipped) box;
         * a convolution spends [ifm_slices] jobs on every OFM block, one per IFM depth slice of
           min(256 / ifm_bits, round_up(ifm_depth, 8)) channels; depthwise / pooling / elementwise
           operations spend ceil(ifm_depth / ofm_depth) jobs (1 when the depths agree);
           job f belongs to OFM block f / ifm_slices;
         * job f reads exactly the IFM elements its OFM block depends on: rows
           [y0*stride_y - pad_top, (y1-1)*stride_y - pad_top + dilated kernel height) clipped to the
           IFM (halved under 2x upscaling), the same for columns; channels: the job's depth slice
           (convolution; also depthwise / pooling operations whose IFM and OFM depths differ, e.g.
           REDUCE_SUM, whose jobs partition the IFM depth in slices of ofm_depth channels -- the jobs of
           one OFM block never all read the whole depth), the block's own channels (other operations);
           binary elementwise operations also read the IFM2 elements of the block's box (broadcast
           dimensions collapse to index 0);
         * job f of B may run while the b-th last block of A is unfinished only if f + b < k.
       Checked: for all f, b with f + b < k, no byte read by job f of B is written by the b-th last
       block of A; and, at operation level, B's weight / scale reads do not overlap A's OFM and B
       does not overwrite the SHRAM bytes A reads its activation LUT from (only BLOCKDEP 0 allows
       those).
       NOT covered (assumptions of DESIGN.md section 4): hazards between non-adjacent kernel
       operations, WAR / WAW between kernel operations (in-order pipeline), a kernel operation
       reading its LUT from SHRAM bytes the previous kernel operation used as accumulators (a
       functional question of LUT residency, not of timing). *)
From Coq Require Import ZArith List Bool.
From VV Require Import lib.PyInt gen.GenTables hw.Npu hw.Queues.
Import ListNotations.
Open Scope Z_scope.

(* ------------------------------------------------------------------ segment overlap *)
Definition seg_meet (s t : seg) : bool :=
  let '(rg, lo, hi) := s in let '(rg', lo', hi') := t in
  (rg =? rg') && (Z.max lo lo' <? Z.min hi hi').

Definition segs_meet (l1 l2 : list seg) : bool := existsb (fun s => existsb (seg_meet s) l2) l1.

(* write->read, read->write, write->write *)
Definition fp_conflict (a b : footprint) : bool :=
  segs_meet (fp_writes a) (fp_reads b) || segs_meet (fp_reads a) (fp_writes b) ||
  segs_meet (fp_writes a) (fp_writes b).

(* ------------------------------------------------------------------ (1) cross-queue *)
Record hzcfg := { hz_hw : hwcfg; hz_max_dma : Z; hz_max_kern : Z }.

Record hop := HOp { h_idx : Z; h_isdma : bool; h_fp : footprint }.
Definition hop_conflict (a b : hop) : bool := fp_conflict (h_fp a) (h_fp b).

Fixpoint hz_prog (c : hzcfg) (evs : list event) (i : Z) : list (qcmd hop) :=
  match evs with
  | [] => []
  | EOp code param r :: t =>
      QIssue (HOp i (code =? cmd0_NPU_OP_DMA_START) (op_footprint (hz_hw c) code param r)) :: hz_prog c t (i + 1)
  | EWait code n :: t =>
      (if code =? cmd0_NPU_OP_KERNEL_WAIT then QWaitK n else QWaitD n) :: hz_prog c t i
  | _ :: t => hz_prog c t i
  end.

Definition check_cross (c : hzcfg) (evs : list event) : bool :=
  qcheck hop h_isdma (hz_max_dma c) (hz_max_kern c) hop_conflict q_init (hz_prog c evs 0).

(* ------------------------------------------------------------------ (2) block geometry *)
Definition cdiv (a b : Z) : Z := (a + b - 1) / b.

Record box := Box { b_y0 : Z; b_y1 : Z; b_x0 : Z; b_x1 : Z; b_c0 : Z; b_c1 : Z }.   (* half-open *)

Definition blk_h (r : regs) : Z := r0 r cmd0_NPU_SET_OFM_BLK_HEIGHT_M1 + 1.
Definition blk_w (r : regs) : Z := r0 r cmd0_NPU_SET_OFM_BLK_WIDTH_M1 + 1.
Definition blk_d (r : regs) : Z := r0 r cmd0_NPU_SET_OFM_BLK_DEPTH_M1 + 1.

Definition nblocks (r : regs) : Z :=
  let ov := ofm_view r in
  cdiv (fv_w ov) (blk_w r) * cdiv (fv_h ov) (blk_h r) * cdiv (fv_d ov) (blk_d r).

Definition ofm_block (r : regs) (i : Z) : box :=
  let ov := ofm_view r in
  let wbs := cdiv (fv_w ov) (blk_w r) in
  let dbs := cdiv (fv_d ov) (blk_d r) in
  let z := blk_d r * (i mod dbs) in
  let x := blk_w r * ((i / dbs) mod wbs) in
  let y := blk_h r * (i / (dbs * wbs)) in
  Box y (Z.min (y + blk_h r) (fv_h ov)) x (Z.min (x + blk_w r) (fv_w ov)) z (Z.min (z + blk_d r) (fv_d ov)).

(* channels per IFM depth slice *)
Definition slice_depth (code : Z) (r : regs) : Z :=
  let iv := ifm_view code r in
  if code =? cmd0_NPU_OP_CONV then Z.min (256 / (8 * fv_elem iv)) (cdiv (fv_d iv) 8 * 8)
  else fv_d (ofm_view r).

Definition ifm_slices (code : Z) (r : regs) : Z :=
  Z.max 1 (cdiv (fv_d (ifm_view code r)) (slice_depth code r)).

Definition njobs (code : Z) (r : regs) : Z := nblocks r * ifm_slices code r.

Definition span (up lo hi : Z) : Z * Z := if up =? 0 then (lo, hi) else (lo / 2, (hi + 1) / 2).

Definition ifm_box (code : Z) (r : regs) (ob : box) (s : Z) : box :=
  let iv := ifm_view code r in
  let ov := ofm_view r in
  if code =? cmd0_NPU_OP_ELEMENTWISE then
    Box (b_y0 ob) (Z.min (b_y1 ob) (fv_h iv)) (b_x0 ob) (Z.min (b_x1 ob) (fv_w iv))
        (b_c0 ob) (Z.min (b_c1 ob) (fv_d iv))
  else
    let st := r0 r cmd0_NPU_SET_KERNEL_STRIDE in
    let up := r0 r cmd0_NPU_SET_IFM_UPSCALE in
    let sy := k_stride_y st in
    let sx := k_stride_x st in
    let kh := r0 r cmd0_NPU_SET_KERNEL_HEIGHT_M1 + 1 in
    let kw := r0 r cmd0_NPU_SET_KERNEL_WIDTH_M1 + 1 in
    let pt := r0 r cmd0_NPU_SET_IFM_PAD_TOP in
    let pl := r0 r cmd0_NPU_SET_IFM_PAD_LEFT in
    let hup := Z.max 0 ((fv_h ov - 1) * sy + kh - pt - r0 r cmd0_NPU_SET_IFM_PAD_BOTTOM) in
    let wup := Z.max 0 ((fv_w ov - 1) * sx + kw - pl - r0 r cmd0_NPU_SET_IFM_PAD_RIGHT) in
    let '(y0, y1) := span up (Z.max 0 (b_y0 ob * sy - pt)) (Z.min hup ((b_y1 ob - 1) * sy - pt + kh)) in
    let '(x0, x1) := span up (Z.max 0 (b_x0 ob * sx - pl)) (Z.min wup ((b_x1 ob - 1) * sx - pl + kw)) in
    let '(c0, c1) :=
      if (code =? cmd0_NPU_OP_CONV) || negb (fv_d iv =? fv_d ov)
      then (s * slice_depth code r, Z.min (fv_d iv) ((s + 1) * slice_depth code r))
      else (b_c0 ob, b_c1 ob) in
    Box y0 (Z.min y1 (fv_h iv)) x0 (Z.min x1 (fv_w iv)) c0 c1.

Definition ifm2_box (r : regs) (ob : box) : box :=
  let v2 := ifm2_view r in
  let bc := r0 r cmd0_NPU_SET_IFM2_BROADCAST in
  let bh := (bc mod 2) =? 1 in
  let bw := ((bc / 2) mod 2) =? 1 in
  let bd := ((bc / 4) mod 2) =? 1 in
  Box (if bh then 0 else b_y0 ob) (if bh then 1 else b_y1 ob)
      (if bw then 0 else b_x0 ob) (if bw then 1 else b_x1 ob)
      (if bd then 0 else b_c0 ob) (if bd then 1 else b_c1 ob).

(* ------------------------------------------------------------------ byte segments of a box *)
Fixpoint zrange (n : nat) (a : Z) : list Z :=
  match n with O => [] | S n' => a :: zrange n' (a + 1) end.
Definition zspan (lo hi : Z) : list Z := zrange (Z.to_nat (hi - lo)) lo.

Definition box_segs (v : fmview) (b : box) : list (Z * Z) :=
  if b_c1 b <=? b_c0 b then []
  else if fv_b16 v then
    flat_map (fun y =>
      flat_map (fun s =>
        let ca := Z.max (b_c0 b) (16 * s) in
        let cb := Z.min (b_c1 b) (16 * s + 16) in
        map (fun x => let lo := elem_addr v y x ca in (lo, lo + (cb - ca) * fv_elem v))
            (zspan (b_x0 b) (b_x1 b)))
      (zspan (b_c0 b / 16) ((b_c1 b - 1) / 16 + 1)))
    (zspan (b_y0 b) (b_y1 b))
  else
    flat_map (fun y =>
      map (fun x => let lo := elem_addr v y x (b_c0 b) in (lo, lo + (b_c1 b - b_c0 b) * fv_elem v))
          (zspan (b_x0 b) (b_x1 b)))
    (zspan (b_y0 b) (b_y1 b)).

Definition box_msegs (v : fmview) (b : box) : list (Z * Z) := merge_adj (box_segs v b).

(* bounding interval of a segment list *)
Fixpoint seg_bounds (l : list (Z * Z)) : option (Z * Z) :=
  match l with
  | [] => None
  | (lo, hi) :: t =>
      match seg_bounds t with
      | Some (a, b) => Some (Z.min lo a, Z.max hi b)
      | None => Some (lo, hi)
      end
  end.

Definition iv_meet (s t : Z * Z) : bool := Z.max (fst s) (fst t) <? Z.min (snd s) (snd t).

Definition lists_meet (l1 l2 : list (Z * Z)) : bool :=
  match seg_bounds l1, seg_bounds l2 with
  | Some b1, Some b2 =>
      iv_meet b1 b2 && existsb (fun s => iv_meet s b2 && existsb (iv_meet s) l2) l1
  | _, _ => false
  end.

(* ------------------------------------------------------------------ (2) the checks *)
Definition kop := (Z * Z * regs)%type.          (* code, param, register snapshot *)

Definition job_clash (A B : kop) (f b : Z) : bool :=
  let '(ca, pa, ra) := A in
  let '(cb, pb, rb) := B in
  let na := nblocks ra in
  if (f <? njobs cb rb) && (b <? na) then
    let ova := ofm_view ra in
    let wsegs := box_msegs ova (ofm_block ra (na - 1 - b)) in
    let sl := ifm_slices cb rb in
    let ob := ofm_block rb (f / sl) in
    let iv := ifm_view cb rb in
    ((fv_region iv =? fv_region ova) && lists_meet (box_msegs iv (ifm_box cb rb ob (f mod sl))) wsegs) ||
    (uses_ifm2 cb pb rb &&
     (let v2 := ifm2_view rb in
      (fv_region v2 =? fv_region ova) && lists_meet (box_msegs v2 (ifm2_box rb ob)) wsegs))
  else false.

Fixpoint upto (n : nat) : list Z :=
  match n with O => [] | S n' => upto n' ++ [Z.of_nat n'] end.

Definition jobs_ok (A B : kop) (k : Z) : bool :=
  forallb (fun f => forallb (fun b => negb (job_clash A B f b)) (upto (Z.to_nat (k - f)))) (upto (Z.to_nat k)).

Definition is_weighted (code : Z) : bool := (code =? cmd0_NPU_OP_CONV) || (code =? cmd0_NPU_OP_DEPTHWISE).

Definition wt_reads (hw : hwcfg) (code : Z) (r : regs) : list seg :=
  if is_weighted code then weight_reads hw r else [].

Definition lut_reads (hw : hwcfg) (code : Z) (r : regs) : list seg :=
  match lut_index r with
  | Some i => range_seg SHRAM (hw_lut_addr hw + i * 256) (if fv_elem (ifm_view code r) =? 1 then 256 else 2048 - i * 256)
  | None => []
  end.

Definition ofm_writes (r : regs) : list seg := let ov := ofm_view r in tag_region (fv_region ov) (fm_segs ov).

Definition shram_writes (hw : hwcfg) (r : regs) : list seg :=
  range_seg SHRAM 0 (match lut_index r with Some _ => hw_lut_addr hw | None => hw_shram_size hw end).

Definition op_clash (hw : hwcfg) (A B : kop) : bool :=
  let '(ca, pa, ra) := A in
  let '(cb, pb, rb) := B in
  segs_meet (wt_reads hw cb rb) (ofm_writes ra) || segs_meet (lut_reads hw ca ra) (shram_writes hw rb).

Definition blockdep_of (B : kop) : Z := r0 (snd B) cmd0_NPU_SET_BLOCKDEP.

Definition blockdep_ok (hw : hwcfg) (A B : kop) : bool :=
  let k := blockdep_of B in
  (k <=? 0) || (negb (op_clash hw A B) && jobs_ok A B k).

(* walk the events; [prev] = the latest kernel operation if it may still be unfinished *)
Fixpoint check_blockdeps (hw : hwcfg) (prev : option kop) (evs : list event) : bool :=
  match evs with
  | [] => true
  | EOp code param r :: t =>
      if code =? cmd0_NPU_OP_DMA_START then check_blockdeps hw prev t
      else (match prev with Some A => blockdep_ok hw A (code, param, r) | None => true end) &&
           check_blockdeps hw (Some (code, param, r)) t
  | EWait code n :: t =>
      if (code =? cmd0_NPU_OP_KERNEL_WAIT) && (n <=? 0) then check_blockdeps hw None t
      else check_blockdeps hw prev t
  | _ :: t => check_blockdeps hw prev t
  end.

(* ------------------------------------------------------------------ the validator *)
Definition check_hazards (c : hzcfg) (evs : list event) : bool :=
  check_cross c evs && check_blockdeps (hz_hw c) None evs.

(* diagnostics for the replay file: index (among EOp events) of the first operation rejected by the
   cross-queue test / by the BLOCKDEP test; -1 if none *)
Fixpoint prog_op_index (p : list (qcmd hop)) (n : nat) : Z :=
  match p, n with
  | QIssue o :: _, O => h_idx o
  | _ :: t, S n' => prog_op_index t n'
  | _, _ => -1
  end.

Definition first_cross_bad (c : hzcfg) (evs : list event) : Z :=
  let p := hz_prog c evs 0 in
  let i := qfirst_bad hop h_isdma (hz_max_dma c) (hz_max_kern c) hop_conflict q_init p 0 in
  if i <? 0 then -1 else prog_op_index p (Z.to_nat i).

Fixpoint first_blockdep_bad (hw : hwcfg) (prev : option kop) (evs : list event) (i : Z) : Z :=
  match evs with
  | [] => -1
  | EOp code param r :: t =>
      if code =? cmd0_NPU_OP_DMA_START then first_blockdep_bad hw prev t (i + 1)
      else if (match prev with Some A => blockdep_ok hw A (code, param, r) | None => true end)
           then first_blockdep_bad hw (Some (code, param, r)) t (i + 1) else i
  | EWait code n :: t =>
      if (code =? cmd0_NPU_OP_KERNEL_WAIT) && (n <=? 0) then first_blockdep_bad hw None t i
      else first_blockdep_bad hw prev t i
  | _ :: t => first_blockdep_bad hw prev t i
  end.

(* ------------------------------------------------------------------ statistics for the evidence *)
(* consecutive kernel pairs seen / with BLOCKDEP > 0 / with BLOCKDEP > 0 and an operation-level
   overlap of B's IFM or IFM2 with A's OFM (the pairs for which the job-level test decides) *)
Definition pair_overlap (A B : kop) : bool :=
  let '(ca, pa, ra) := A in
  let '(cb, pb, rb) := B in
  let ova := ofm_view ra in
  let iv := ifm_view cb rb in
  ((fv_region iv =? fv_region ova) && lists_meet (fm_segs iv) (fm_segs ova)) ||
  (uses_ifm2 cb pb rb && (let v2 := ifm2_view rb in (fv_region v2 =? fv_region ova) && lists_meet (fm_segs v2) (fm_segs ova))).

Fixpoint bd_stats (prev : option kop) (evs : list event) (acc : Z * Z * Z) : Z * Z * Z :=
  match evs with
  | [] => acc
  | EOp code param r :: t =>
      if code =? cmd0_NPU_OP_DMA_START then bd_stats prev t acc
      else
        let B := (code, param, r) in
        let '(n, np, no) := acc in
        let acc' := match prev with
                    | Some A => (n + 1, (if 0 <? blockdep_of B then np + 1 else np),
                                 (if (0 <? blockdep_of B) && pair_overlap A B then no + 1 else no))
                    | None => acc end in
        bd_stats (Some B) t acc'
  | EWait code n :: t =>
      if (code =? cmd0_NPU_OP_KERNEL_WAIT) && (n <=? 0) then bd_stats None t acc else bd_stats prev t acc
  | _ :: t => bd_stats prev t acc
  end.

(* cross-queue: (operation, possibly unfinished operation of the other queue) pairs tested, waits seen *)
Fixpoint cross_stats (c : hzcfg) (s : qstate hop) (p : list (qcmd hop)) (acc : Z * Z) : Z * Z :=
  match p with
  | [] => acc
  | cmd :: t =>
      let s' := qsim hop h_isdma (hz_max_dma c) (hz_max_kern c) s cmd in
      match cmd with
      | QIssue o => cross_stats c s' t (fst acc + Z.of_nat (length (if h_isdma o then q_kern s else q_dma s)), snd acc)
      | _ => cross_stats c s' t (fst acc, snd acc + 1)
      end
  end.
