(* Formal model of the Ethos-U command stream as far as the properties need it (DESIGN.md
   section 4): words -> commands -> register machine -> operations -> byte footprints.
   MODELLED, TRUSTED: taken from the register documentation embedded in ethos_u55_regs.py and
   from Vela's own address arithmetic; opcode numbers come from gen/GenTables.v (regenerated).
   Executable definitions only; proofs are in proofs/NpuProofs.v. *)
From Coq Require Import ZArith List Bool.
From VV Require Import lib.PyInt gen.GenTables.
Import ListNotations.
Open Scope Z_scope.

(* ------------------------------------------------------------------ words -> commands *)
Record cmd := Cmd { c_pay : bool; c_code : Z; c_param : Z; c_data : Z }.

Definition w_code (w : Z) : Z := w mod 1024.
Definition w_resv (w : Z) : Z := (w / 1024) mod 16.
Definition w_mode (w : Z) : Z := (w / 16384) mod 4.
Definition w_param (w : Z) : Z := (w / 65536) mod 65536.

Fixpoint decode (ws : list Z) : option (list cmd) :=
  match ws with
  | [] => Some []
  | w :: r =>
      if negb (w_resv w =? 0) then None
      else if w_mode w =? 1 then
        match r with
        | d :: r2 => match decode r2 with
                     | Some cs => Some (Cmd true (w_code w) (w_param w) d :: cs)
                     | None => None end
        | [] => None
        end
      else if w_mode w =? 0 then
        match decode r with
        | Some cs => Some (Cmd false (w_code w) (w_param w) 0 :: cs)
        | None => None end
      else None
  end.

(* ------------------------------------------------------------------ register machine *)
(* key: cmd0 code c -> c ; cmd1 code c -> 1024 + c.  value: cmd0 param ; cmd1 data + param*2^32 *)
Definition regs := list (Z * Z).
Fixpoint rget (k : Z) (r : regs) : Z :=
  match r with [] => 0 | (k', v) :: t => if k' =? k then v else rget k t end.
Fixpoint rset (k v : Z) (r : regs) : regs :=
  match r with
  | [] => [(k, v)]
  | (k', v') :: t => if k' =? k then (k, v) :: t else (k', v') :: rset k v t
  end.
Definition r0 (r : regs) (code : Z) : Z := rget code r.
Definition r1 (r : regs) (code : Z) : Z := rget (1024 + code) r.

Inductive event :=
| EOp (code param : Z) (snap : regs)      (* NPU_OP_CONV/DEPTHWISE/POOL/ELEMENTWISE/DMA_START *)
| EWait (code param : Z)                  (* NPU_OP_KERNEL_WAIT / NPU_OP_DMA_WAIT *)
| EStop (param : Z)
| EOther (code param : Z).                (* IRQ, PMU_MASK, unknown operation codes *)

Definition is_block_op (code : Z) : bool :=
  (code =? cmd0_NPU_OP_CONV) || (code =? cmd0_NPU_OP_DEPTHWISE) || (code =? cmd0_NPU_OP_POOL) ||
  (code =? cmd0_NPU_OP_ELEMENTWISE).

Fixpoint exec (r : regs) (cs : list cmd) : list event :=
  match cs with
  | [] => []
  | c :: t =>
      if c_pay c then exec (rset (1024 + c_code c) (c_data c + c_param c * 4294967296) r) t
      else if 256 <=? c_code c then exec (rset (c_code c) (c_param c) r) t
      else if is_block_op (c_code c) || (c_code c =? cmd0_NPU_OP_DMA_START) then
        EOp (c_code c) (c_param c) r :: exec r t
      else if (c_code c =? cmd0_NPU_OP_KERNEL_WAIT) || (c_code c =? cmd0_NPU_OP_DMA_WAIT) then
        EWait (c_code c) (c_param c) :: exec r t
      else if c_code c =? cmd0_NPU_OP_STOP then EStop (c_param c) :: exec r t
      else EOther (c_code c) (c_param c) :: exec r t
  end.

Definition run_stream (ws : list Z) : option (list event) :=
  match decode ws with Some cs => Some (exec [] cs) | None => None end.

(* ------------------------------------------------------------------ feature-map views *)
Record fmview := {
  fv_region : Z; fv_b0 : Z; fv_b1 : Z; fv_b2 : Z; fv_b3 : Z;
  fv_h0 : Z; fv_h1 : Z; fv_w0 : Z;
  fv_sx : Z; fv_sy : Z; fv_sc : Z;
  fv_elem : Z; fv_b16 : bool;
  fv_h : Z; fv_w : Z; fv_d : Z }.

(* signed 16-bit view of a cmd0 parameter (zero points, activation min/max, scalar) *)
Definition s16 (p : Z) : Z := if p <? 32768 then p else p - 65536.

Definition tile_of (v : fmview) (y x : Z) : Z * Z * Z :=    (* base, local y, local x *)
  if fv_w0 v <=? x then
    (if fv_h1 v <=? y then (fv_b3 v, y - fv_h1 v, x - fv_w0 v) else (fv_b1 v, y, x - fv_w0 v))
  else
    (if fv_h0 v <=? y then (fv_b2 v, y - fv_h0 v, x) else (fv_b0 v, y, x)).

Definition elem_addr (v : fmview) (y x c : Z) : Z :=
  let '(b, ly, lx) := tile_of v y x in
  if fv_b16 v then b + ly * fv_sy v + lx * (16 * fv_elem v) + (c / 16) * fv_sc v + (c mod 16) * fv_elem v
  else b + ly * fv_sy v + lx * fv_sx v + c * fv_elem v.

(* contiguous byte segments of one pixel (y,x): NHWC one segment of d elements;
   NHCWB16 one segment per 16-channel brick *)
Fixpoint brick_segs (v : fmview) (y x : Z) (nb : nat) (s : Z) : list (Z * Z) :=
  match nb with
  | O => []
  | S nb' =>
      let lo := elem_addr v y x (16 * s) in
      (lo, lo + Z.min 16 (fv_d v - 16 * s) * fv_elem v) :: brick_segs v y x nb' (s + 1)
  end.

Definition pixel_segs (v : fmview) (y x : Z) : list (Z * Z) :=
  if fv_b16 v then brick_segs v y x (Z.to_nat ((fv_d v + 15) / 16)) 0
  else let lo := elem_addr v y x 0 in [(lo, lo + fv_d v * fv_elem v)].

Fixpoint row_segs (v : fmview) (y : Z) (nx : nat) (x : Z) : list (Z * Z) :=
  match nx with O => [] | S n' => pixel_segs v y x ++ row_segs v y n' (x + 1) end.
Fixpoint box_segs (v : fmview) (ny : nat) (y : Z) : list (Z * Z) :=
  match ny with O => [] | S n' => row_segs v y (Z.to_nat (fv_w v)) 0 ++ box_segs v n' (y + 1) end.

(* merge directly adjacent segments (keeps lists short; does not change the byte set) *)
Fixpoint merge_adj (l : list (Z * Z)) : list (Z * Z) :=
  match l with
  | [] => []
  | (lo, hi) :: t =>
      match merge_adj t with
      | (lo2, hi2) :: t2 => if hi =? lo2 then (Z.min lo lo2, Z.max hi hi2) :: t2 else (lo, hi) :: (lo2, hi2) :: t2
      | [] => [(lo, hi)]
      end
  end.

Definition fm_segs (v : fmview) : list (Z * Z) := merge_adj (box_segs v (Z.to_nat (fv_h v)) 0).

(* ------------------------------------------------------------------ operations *)
Definition prec_elem_ifm (p : Z) : Z := 2 ^ ((p / 4) mod 4).
Definition prec_elem_ofm (p : Z) : Z := 2 ^ ((p / 2) mod 4).
Definition prec_b16 (p : Z) : bool := ((p / 64) mod 2) =? 1.

Definition k_stride_x (s : Z) : Z := 1 + s mod 2 + 2 * ((s / 64) mod 8).
Definition k_stride_y (s : Z) : Z := 1 + (s / 2) mod 2 + 2 * ((s / 512) mod 8).

Definition up_div (a : Z) (up : Z) : Z := if up =? 0 then a else (a + 1) / 2.

Definition ofm_view (r : regs) : fmview :=
  let p := r0 r cmd0_NPU_SET_OFM_PRECISION in
  {| fv_region := r0 r cmd0_NPU_SET_OFM_REGION;
     fv_b0 := r1 r cmd1_NPU_SET_OFM_BASE0; fv_b1 := r1 r cmd1_NPU_SET_OFM_BASE1;
     fv_b2 := r1 r cmd1_NPU_SET_OFM_BASE2; fv_b3 := r1 r cmd1_NPU_SET_OFM_BASE3;
     fv_h0 := r0 r cmd0_NPU_SET_OFM_HEIGHT0_M1 + 1; fv_h1 := r0 r cmd0_NPU_SET_OFM_HEIGHT1_M1 + 1;
     fv_w0 := r0 r cmd0_NPU_SET_OFM_WIDTH0_M1 + 1;
     fv_sx := r1 r cmd1_NPU_SET_OFM_STRIDE_X; fv_sy := r1 r cmd1_NPU_SET_OFM_STRIDE_Y;
     fv_sc := r1 r cmd1_NPU_SET_OFM_STRIDE_C;
     fv_elem := prec_elem_ofm p; fv_b16 := prec_b16 p;
     fv_h := r0 r cmd0_NPU_SET_OFM_HEIGHT_M1 + 1; fv_w := r0 r cmd0_NPU_SET_OFM_WIDTH_M1 + 1;
     fv_d := r0 r cmd0_NPU_SET_OFM_DEPTH_M1 + 1 |}.

(* IFM extent seen by a kernel operation: rows (ofm_h-1)*sy + dilated kernel height minus the
   padding rows, in the upscaled coordinate space; halved (rounded up) under 2x upscaling *)
Definition ifm_dims (code : Z) (r : regs) : Z * Z :=
  let oh := r0 r cmd0_NPU_SET_OFM_HEIGHT_M1 + 1 in
  let ow := r0 r cmd0_NPU_SET_OFM_WIDTH_M1 + 1 in
  if code =? cmd0_NPU_OP_ELEMENTWISE then (oh, ow)
  else
    let s := r0 r cmd0_NPU_SET_KERNEL_STRIDE in
    let up := r0 r cmd0_NPU_SET_IFM_UPSCALE in
    let h := (oh - 1) * k_stride_y s + r0 r cmd0_NPU_SET_KERNEL_HEIGHT_M1 + 1
             - r0 r cmd0_NPU_SET_IFM_PAD_TOP - r0 r cmd0_NPU_SET_IFM_PAD_BOTTOM in
    let w := (ow - 1) * k_stride_x s + r0 r cmd0_NPU_SET_KERNEL_WIDTH_M1 + 1
             - r0 r cmd0_NPU_SET_IFM_PAD_LEFT - r0 r cmd0_NPU_SET_IFM_PAD_RIGHT in
    (up_div (Z.max 0 h) up, up_div (Z.max 0 w) up).

Definition ifm_view (code : Z) (r : regs) : fmview :=
  let p := r0 r cmd0_NPU_SET_IFM_PRECISION in
  let '(h, w) := ifm_dims code r in
  {| fv_region := r0 r cmd0_NPU_SET_IFM_REGION;
     fv_b0 := r1 r cmd1_NPU_SET_IFM_BASE0; fv_b1 := r1 r cmd1_NPU_SET_IFM_BASE1;
     fv_b2 := r1 r cmd1_NPU_SET_IFM_BASE2; fv_b3 := r1 r cmd1_NPU_SET_IFM_BASE3;
     fv_h0 := r0 r cmd0_NPU_SET_IFM_HEIGHT0_M1 + 1; fv_h1 := r0 r cmd0_NPU_SET_IFM_HEIGHT1_M1 + 1;
     fv_w0 := r0 r cmd0_NPU_SET_IFM_WIDTH0_M1 + 1;
     fv_sx := r1 r cmd1_NPU_SET_IFM_STRIDE_X; fv_sy := r1 r cmd1_NPU_SET_IFM_STRIDE_Y;
     fv_sc := r1 r cmd1_NPU_SET_IFM_STRIDE_C;
     fv_elem := prec_elem_ifm p; fv_b16 := prec_b16 p;
     fv_h := h; fv_w := w; fv_d := r0 r cmd0_NPU_SET_IFM_DEPTH_M1 + 1 |}.

(* elementwise modes with one operand: LRELU 5, ABS 6, CLZ 7 *)
Definition unary_ew (mode : Z) : bool := (mode =? 5) || (mode =? 6) || (mode =? 7).

Definition ifm2_view (r : regs) : fmview :=
  let p := r0 r cmd0_NPU_SET_IFM2_PRECISION in
  let bc := r0 r cmd0_NPU_SET_IFM2_BROADCAST in
  let oh := r0 r cmd0_NPU_SET_OFM_HEIGHT_M1 + 1 in
  let ow := r0 r cmd0_NPU_SET_OFM_WIDTH_M1 + 1 in
  let od := r0 r cmd0_NPU_SET_OFM_DEPTH_M1 + 1 in
  {| fv_region := r0 r cmd0_NPU_SET_IFM2_REGION;
     fv_b0 := r1 r cmd1_NPU_SET_IFM2_BASE0; fv_b1 := r1 r cmd1_NPU_SET_IFM2_BASE1;
     fv_b2 := r1 r cmd1_NPU_SET_IFM2_BASE2; fv_b3 := r1 r cmd1_NPU_SET_IFM2_BASE3;
     fv_h0 := r0 r cmd0_NPU_SET_IFM2_HEIGHT0_M1 + 1; fv_h1 := r0 r cmd0_NPU_SET_IFM2_HEIGHT1_M1 + 1;
     fv_w0 := r0 r cmd0_NPU_SET_IFM2_WIDTH0_M1 + 1;
     fv_sx := r1 r cmd1_NPU_SET_IFM2_STRIDE_X; fv_sy := r1 r cmd1_NPU_SET_IFM2_STRIDE_Y;
     fv_sc := r1 r cmd1_NPU_SET_IFM2_STRIDE_C;
     fv_elem := prec_elem_ifm p; fv_b16 := prec_b16 p;
     fv_h := if (bc mod 2) =? 1 then 1 else oh;
     fv_w := if ((bc / 2) mod 2) =? 1 then 1 else ow;
     fv_d := if ((bc / 4) mod 2) =? 1 then 1 else od |}.

Definition uses_ifm2 (code param : Z) (r : regs) : bool :=
  (code =? cmd0_NPU_OP_ELEMENTWISE) && negb (unary_ew param) &&
  negb (((r0 r cmd0_NPU_SET_IFM2_BROADCAST) / 128) mod 2 =? 1).    (* bit 7: scalar operand *)

(* region identifiers of footprints: 0..7 external base pointers; 259 = on-chip SHRAM *)
Definition SHRAM : Z := 259.
Definition seg := (Z * Z * Z)%type.   (* region, lo, hi (exclusive) *)

Definition tag_region (rg : Z) (l : list (Z * Z)) : list seg := map (fun p => (rg, fst p, snd p)) l.

Definition range_seg (rg base len : Z) : list seg := if len <=? 0 then [] else [(rg, base, base + len)].

Record hwcfg := { hw_ncores : Z; hw_lut_addr : Z; hw_shram_size : Z }.

Record footprint := { fp_reads : list seg; fp_writes : list seg }.

Definition weight_reads (hw : hwcfg) (r : regs) : list seg :=
  let wr := r0 r cmd0_NPU_SET_WEIGHT_REGION in
  let sr := r0 r cmd0_NPU_SET_SCALE_REGION in
  range_seg wr (r1 r cmd1_NPU_SET_WEIGHT_BASE) (r1 r cmd1_NPU_SET_WEIGHT_LENGTH mod 4294967296) ++
  range_seg sr (r1 r cmd1_NPU_SET_SCALE_BASE) (r1 r cmd1_NPU_SET_SCALE_LENGTH mod 4294967296) ++
  (if hw_ncores hw >? 1 then
     range_seg wr (r1 r cmd1_NPU_SET_WEIGHT1_BASE) (r1 r cmd1_NPU_SET_WEIGHT1_LENGTH mod 4294967296) ++
     range_seg sr (r1 r cmd1_NPU_SET_SCALE1_BASE) (r1 r cmd1_NPU_SET_SCALE1_LENGTH mod 4294967296)
   else []).

(* bytes of the look-up table an operation with a TABLE_LOOKUP activation reads, from the slot it names to at most the end
   of the 2 KB LUT area. The table belongs to the output side: 256 one-byte entries for an 8-bit OFM, 512 four-byte
   (base, slope) entries for a 16-bit OFM, 256 four-byte entries for a 32-bit OFM (the int8 softmax exponent table) -
   the three table shapes Vela creates (lut.py, softmax.py) - whatever the IFM precision is (a requantising operation
   with a fused table reads the table of its OFM type) *)
Definition lut_read_bytes (ofm_elem i : Z) : Z :=
  Z.min (2048 - i * 256) (if ofm_elem =? 1 then 256 else if ofm_elem =? 2 then 2048 else 1024).

Definition lut_index (r : regs) : option Z :=
  let a := (r0 r cmd0_NPU_SET_ACTIVATION) mod 4096 in
  if (16 <=? a) && (a <=? 23) then Some (a - 16) else None.

Definition op_footprint (hw : hwcfg) (code param : Z) (r : regs) : footprint :=
  if code =? cmd0_NPU_OP_DMA_START then
    let n := r1 r cmd1_NPU_SET_DMA0_LEN in
    let sreg := r0 r cmd0_NPU_SET_DMA0_SRC_REGION in
    let dreg := r0 r cmd0_NPU_SET_DMA0_DST_REGION in
    {| fp_reads := range_seg (if 256 <=? sreg then SHRAM else sreg) (r1 r cmd1_NPU_SET_DMA0_SRC) n;
       fp_writes := range_seg (if 256 <=? dreg then SHRAM else dreg) (r1 r cmd1_NPU_SET_DMA0_DST) n |}
  else
    let iv := ifm_view code r in
    let ov := ofm_view r in
    let lut := lut_index r in
    {| fp_reads :=
         tag_region (fv_region iv) (fm_segs iv) ++
         (if uses_ifm2 code param r then let v2 := ifm2_view r in tag_region (fv_region v2) (fm_segs v2) else []) ++
         (if (code =? cmd0_NPU_OP_CONV) || (code =? cmd0_NPU_OP_DEPTHWISE) then weight_reads hw r else []) ++
         (match lut with
          | Some i => range_seg SHRAM (hw_lut_addr hw + i * 256) (lut_read_bytes (fv_elem ov) i)
          | None => [] end);
       fp_writes :=
         tag_region (fv_region ov) (fm_segs ov) ++
         range_seg SHRAM 0 (match lut with Some _ => hw_lut_addr hw | None => hw_shram_size hw end) |}.

(* ------------------------------------------------------------------ C02: bounds checker *)
(* region sizes as published by the output file: list of (region, size); writable flag *)
Definition region_size (sizes : list (Z * Z)) (rg : Z) : option Z :=
  match find (fun p => fst p =? rg) sizes with Some p => Some (snd p) | None => None end.

Definition seg_in (sizes : list (Z * Z)) (s : seg) : bool :=
  let '(rg, lo, hi) := s in
  match region_size sizes rg with
  | Some sz => (0 <=? lo) && (lo <=? hi) && (hi <=? sz)
  | None => false
  end.

Definition strides_ok (v : fmview) : bool :=
  (0 <=? fv_sx v) && (0 <=? fv_sy v) && (0 <=? fv_sc v) && (0 <? fv_elem v).

Definition op_bounds_ok (hw : hwcfg) (sizes : list (Z * Z)) (ro : list Z) (code param : Z) (r : regs) : bool :=
  let fp := op_footprint hw code param r in
  forallb (seg_in sizes) (fp_reads fp) && forallb (seg_in sizes) (fp_writes fp) &&
  forallb (fun s => negb (existsb (Z.eqb (fst (fst s))) ro)) (fp_writes fp).

Fixpoint check_bounds (hw : hwcfg) (sizes : list (Z * Z)) (ro : list Z) (evs : list event) : bool :=
  match evs with
  | [] => true
  | EOp code param r :: t => op_bounds_ok hw sizes ro code param r && check_bounds hw sizes ro t
  | _ :: t => check_bounds hw sizes ro t
  end.

(* index (among EOp events) of the first operation failing the bounds check, for the replay *)
Fixpoint first_bad_op (hw : hwcfg) (sizes : list (Z * Z)) (ro : list Z) (evs : list event) (i : Z) : Z :=
  match evs with
  | [] => -1
  | EOp code param r :: t => if op_bounds_ok hw sizes ro code param r then first_bad_op hw sizes ro t (i + 1) else i
  | _ :: t => first_bad_op hw sizes ro t i
  end.
