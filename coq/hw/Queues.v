(* The concurrency model of DESIGN.md section 4, stated once and used by C04's D1 theorem
   (proofs/WaitsProofs.v) and by the D2 validator (hw/Hazard.v): two in-order queues, kernel and
   DMA.  MODELLED, TRUSTED (this is the meaning the property text gives to "in flight together").

   A hardware state is the pair of lists of issued-but-unfinished operations of each queue, oldest
   first.  The command sequence is consumed in program order:
     * an operation can retire at any moment, oldest of its queue first (in-order completion);
     * QIssue o   is taken only while fewer than max_outstanding operations of o's queue are
                  unfinished; o then becomes the newest unfinished operation of its queue;
     * QWaitK n   (KERNEL_WAIT n) is passed only while at most n kernel operations are unfinished;
       QWaitD n   (DMA_WAIT n)    likewise for the DMA queue.
   [qsim]/[qcheck] is the deterministic over-approximation "sets of possibly unfinished operations"
   (an issue keeps the newest max_outstanding, a wait keeps the newest n) together with a conflict
   test of every newly issued operation against the possibly unfinished operations of the OTHER
   queue.  Executable definitions only; proofs are in proofs/QueuesProofs.v. *)
From Coq Require Import ZArith List Bool.
Import ListNotations.
Open Scope Z_scope.

Section Queues.
  Variable op : Type.
  Variable is_dma : op -> bool.
  Variable max_dma : Z.
  Variable max_kern : Z.

  Inductive qcmd := QWaitK (n : Z) | QWaitD (n : Z) | QIssue (o : op).

  Record qstate := QS { q_kern : list op; q_dma : list op }.

  Definition q_init : qstate := QS [] [].

  Definition qlen (l : list op) : Z := Z.of_nat (length l).

  (* ---------------------------------------------------------------- the hardware, small step *)
  Inductive qstep : qstate * list qcmd -> qstate * list qcmd -> Prop :=
  | QS_retire_kern : forall o k d p, qstep (QS (o :: k) d, p) (QS k d, p)
  | QS_retire_dma : forall o k d p, qstep (QS k (o :: d), p) (QS k d, p)
  | QS_issue_kern : forall o k d p,
      is_dma o = false -> qlen k < max_kern -> qstep (QS k d, QIssue o :: p) (QS (k ++ [o]) d, p)
  | QS_issue_dma : forall o k d p,
      is_dma o = true -> qlen d < max_dma -> qstep (QS k d, QIssue o :: p) (QS k (d ++ [o]), p)
  | QS_wait_kern : forall n k d p, qlen k <= n -> qstep (QS k d, QWaitK n :: p) (QS k d, p)
  | QS_wait_dma : forall n k d p, qlen d <= n -> qstep (QS k d, QWaitD n :: p) (QS k d, p).

  Inductive qsteps : qstate * list qcmd -> qstate * list qcmd -> Prop :=
  | QS_refl : forall c, qsteps c c
  | QS_trans : forall c1 c2 c3, qstep c1 c2 -> qsteps c2 c3 -> qsteps c1 c3.

  (* ---------------------------------------------------------------- possibly-unfinished sets *)
  Definition lastn (n : nat) (l : list op) : list op := skipn (length l - n) l.

  Definition qsim_issue (mx : Z) (l : list op) (o : op) : list op := lastn (Z.to_nat mx) (l ++ [o]).

  Definition qsim (s : qstate) (c : qcmd) : qstate :=
    match c with
    | QWaitK n => QS (lastn (Z.to_nat n) (q_kern s)) (q_dma s)
    | QWaitD n => QS (q_kern s) (lastn (Z.to_nat n) (q_dma s))
    | QIssue o => if is_dma o then QS (q_kern s) (qsim_issue max_dma (q_dma s) o)
                  else QS (qsim_issue max_kern (q_kern s) o) (q_dma s)
    end.

  (* conflict older newer : the test applied when [newer] is issued *)
  Variable conflict : op -> op -> bool.

  Definition qcmd_ok (s : qstate) (c : qcmd) : bool :=
    match c with
    | QIssue o => forallb (fun x => negb (conflict x o)) (if is_dma o then q_kern s else q_dma s)
    | _ => true
    end.

  Fixpoint qcheck (s : qstate) (p : list qcmd) : bool :=
    match p with
    | [] => true
    | c :: t => qcmd_ok s c && qcheck (qsim s c) t
    end.

  (* index (in the command list) of the first command at which the test fails; -1 if none *)
  Fixpoint qfirst_bad (s : qstate) (p : list qcmd) (i : Z) : Z :=
    match p with
    | [] => -1
    | c :: t => if qcmd_ok s c then qfirst_bad (qsim s c) t (i + 1) else i
    end.
End Queues.

Arguments QWaitK {op} n.
Arguments QWaitD {op} n.
Arguments QIssue {op} o.
Arguments QS {op} q_kern q_dma.
Arguments q_kern {op} q.
Arguments q_dma {op} q.
Arguments q_init {op}.
Arguments lastn {op} n l.
