(* C01: an executable semantics of the kernel operations of a command stream on byte memory:
   DMA, convolution, depthwise convolution, max / average pooling, with the weight stream decoded
   by the reference-decoder model (model/MlwDecode.v), put back into (oc, ky, kx, ic) order through
   the brick-traversal model (model/Reorder.v), and the scale stream read as 10-byte records.
   MODELLED, TRUSTED: the arithmetic of the datapath (accumulate, bias, scale with the selected
   rounding mode, zero point, clamp) is written from the register documentation and from the way
   Vela's own reference helpers describe it; it is not verified against silicon.
   Operations outside the modelled subset make `exec_stream` return None (the harness then does
   not judge that network).  No proofs in this file. *)
From Coq Require Import ZArith List Bool FMapPositive.
From VV Require Import lib.PyInt gen.GenTables hw.Npu model.Reorder model.MlwDecode.
Import ListNotations.
Open Scope Z_scope.

(* ------------------------------------------------------------------ memory *)
Definition bank := PositiveMap.t Z.
Definition mem := list (Z * bank).

Definition key (a : Z) : positive := Z.to_pos (a + 1).

Fixpoint get_bank (m : mem) (rg : Z) : bank :=
  match m with [] => PositiveMap.empty Z | (r, b) :: t => if r =? rg then b else get_bank t rg end.
Fixpoint set_bank (m : mem) (rg : Z) (b : bank) : mem :=
  match m with
  | [] => [(rg, b)]
  | (r, b0) :: t => if r =? rg then (rg, b) :: t else (r, b0) :: set_bank t rg b
  end.

(* unwritten bytes read as 0xCD so that a read of undefined memory is very unlikely to agree with
   the reference by accident *)
Definition rd8 (b : bank) (a : Z) : Z := match PositiveMap.find (key a) b with Some v => v | None => 205 end.
Definition wr8 (b : bank) (a v : Z) : bank := PositiveMap.add (key a) (v mod 256) b.

Definition rd_le (b : bank) (a n : Z) : Z :=       (* unsigned little endian, n bytes (1, 2, 4) *)
  if n =? 1 then rd8 b a
  else if n =? 2 then rd8 b a + 256 * rd8 b (a + 1)
  else rd8 b a + 256 * rd8 b (a + 1) + 65536 * rd8 b (a + 2) + 16777216 * rd8 b (a + 3).
Definition to_signed (bits v : Z) : Z := if v <? 2 ^ (bits - 1) then v else v - 2 ^ bits.
Definition rd_elem (b : bank) (a n : Z) (signed : bool) : Z :=
  let v := rd_le b a n in if signed then to_signed (8 * n) v else v.
Definition wr_elem (b : bank) (a n v : Z) : bank :=
  let u := v mod 2 ^ (8 * n) in
  if n =? 1 then wr8 b a u
  else if n =? 2 then wr8 (wr8 b a u) (a + 1) (u / 256)
  else wr8 (wr8 (wr8 (wr8 b a u) (a + 1) (u / 256)) (a + 2) (u / 65536)) (a + 3) (u / 16777216).

Fixpoint rd_bytes (b : bank) (a : Z) (n : nat) : list Z :=
  match n with O => [] | S n' => rd8 b a :: rd_bytes b (a + 1) n' end.
Fixpoint wr_bytes (b : bank) (a : Z) (l : list Z) : bank :=
  match l with [] => b | x :: t => wr_bytes (wr8 b a x) (a + 1) t end.

(* ------------------------------------------------------------------ parameters of an op *)
Record xcfg := { x_ncores : Z; x_ofm_ublock : Z; x_ifm_ublock : Z; x_lut_addr : Z }.

Definition ifm_signed (r : regs) : bool := (r0 r cmd0_NPU_SET_IFM_PRECISION) mod 2 =? 1.
Definition ofm_signed (r : regs) : bool := (r0 r cmd0_NPU_SET_OFM_PRECISION) mod 2 =? 1.
Definition rounding_mode (r : regs) : Z := ((r0 r cmd0_NPU_SET_OFM_PRECISION) / 16384) mod 4.   (* 0 TFL 1 TRUNCATE 2 NATURAL *)
Definition global_scale (r : regs) : bool := ((r0 r cmd0_NPU_SET_OFM_PRECISION) / 256) mod 2 =? 1.
Definition dil_x (r : regs) : Z := 1 + ((r0 r cmd0_NPU_SET_KERNEL_STRIDE) / 8) mod 2.
Definition dil_y (r : regs) : Z := 1 + ((r0 r cmd0_NPU_SET_KERNEL_STRIDE) / 16) mod 2.
Definition part_kernel (r : regs) : bool := ((r0 r cmd0_NPU_SET_KERNEL_STRIDE) / 4) mod 2 =? 1.
Definition kern_h (r : regs) : Z := (r0 r cmd0_NPU_SET_KERNEL_HEIGHT_M1) / dil_y r + 1.
Definition kern_w (r : regs) : Z := (r0 r cmd0_NPU_SET_KERNEL_WIDTH_M1) / dil_x r + 1.

(* ------------------------------------------------------------------ scaling *)
(* TFL rounding: gemmlowp's SaturatingRoundingDoublingHighMul followed by RoundingDivideByPOT, with
   the (scale, shift) convention of the scale stream: value = scale * 2^-shift *)
Definition srdhm (a b : Z) : Z :=
  if (a =? b) && (a =? - 2147483648) then 2147483647
  else let ab := a * b in
       let nudge := if 0 <=? ab then 1073741824 else 1 - 1073741824 in
       Z.quot (ab + nudge) 2147483648.
Definition rdbpot (x e : Z) : Z :=
  if e <=? 0 then x else
  let mask := 2 ^ e - 1 in
  let rem := Z.land x mask in
  let thr := Z.shiftr mask 1 + (if x <? 0 then 1 else 0) in
  Z.shiftr x e + (if thr <? rem then 1 else 0).
Definition scale_tfl (x scale shift : Z) : Z :=
  let s := 31 - shift in
  let left := if 0 <? s then s else 0 in
  let right := if s <? 0 then - s else 0 in
  rdbpot (srdhm (x * 2 ^ left) scale) right.
Definition scale_natural (x scale shift : Z) : Z :=
  if shift <=? 0 then x * scale else (x * scale + 2 ^ (shift - 1)) / 2 ^ shift.
Definition scale_trunc (x scale shift : Z) : Z := (x * scale) / 2 ^ shift.
Definition apply_scale (mode x scale shift : Z) : Z :=
  if mode =? 0 then scale_tfl x scale shift
  else if mode =? 2 then scale_natural x scale shift
  else scale_trunc x scale shift.

Definition clampz (lo hi v : Z) : Z := Z.max lo (Z.min hi v).

(* ------------------------------------------------------------------ weights and scales *)
Definition nth_z {A} (l : list A) (i : Z) (d : A) : A := nth (Z.to_nat i) l d.

(* the weights of one core as a flat OHWI volume over that core's channels *)
(* core k of an n-core NPU traverses its channels k, k + n, ... in OFM blocks of its share of the programmed block depth *)
Definition core_block_depth (ncores k blk : Z) : Z := (blk + ncores - 1 - k) / ncores.

Definition core_weights (x : xcfg) (r : regs) (depthwise : bool) (k nch ifm_d : Z) (stream : list Z)
  : option (list Z) :=
  match decode false stream with
  | DOk ws =>
      let c := {| ofm_depth := nch; kernel_h := kern_h r; kernel_w := kern_w r;
                  ifm_depth := if depthwise then 1 else ifm_d;
                  ofm_ublock := x_ofm_ublock x; ifm_ublock := x_ifm_ublock x;
                  ofm_block := core_block_depth (x_ncores x) k (r0 r cmd0_NPU_SET_OFM_BLK_DEPTH_M1 + 1);
                  is_dw := depthwise; is_pk := part_kernel r;
                  bitdepth := 8 * prec_elem_ifm (r0 r cmd0_NPU_SET_IFM_PRECISION);
                  decomp_h := 8 / dil_y r; decomp_w := 8 / dil_x r |} in
      let order := reorder_flat c in
      (* scatter: volume[p] := ws[i] for the i-th stream position holding source index p *)
      let vol := PositiveMap.empty Z in
      let fix go (o : list (option Z)) (w : list Z) (v : PositiveMap.t Z) : PositiveMap.t Z :=
          match o, w with
          | Some p :: o', wv :: w' => go o' w' (PositiveMap.add (key p) wv v)
          | None :: o', _ :: w' => go o' w' v
          | _, _ => v
          end in
      let v := go order ws vol in
      Some (map (fun p => match PositiveMap.find (key p) v with Some wv => wv | None => 0 end)
                (zrange (volume c)))
  | _ => None
  end.

(* 10-byte records: bias (40 bit signed), scale (32 bit), shift (6 bit) *)
Fixpoint scale_records (l : list Z) (n : nat) : list (Z * Z * Z) :=
  match n, l with
  | S n', b0 :: b1 :: b2 :: b3 :: b4 :: s0 :: s1 :: s2 :: s3 :: sh :: t =>
      (to_signed 40 (b0 + 256 * b1 + 65536 * b2 + 16777216 * b3 + 4294967296 * b4),
       s0 + 256 * s1 + 65536 * s2 + 16777216 * s3, sh mod 64) :: scale_records t n'
  | _, _ => []
  end.

(* channels of core k among d output channels: k, k + ncores, ... *)
Definition core_channels (ncores k d : Z) : Z := (d - k + ncores - 1) / ncores.

Record wpack := { wp_w : list (list Z); wp_s : list (list (Z * Z * Z)) }.   (* per core *)

Definition load_weights (x : xcfg) (m : mem) (r : regs) (depthwise : bool) (ofm_d ifm_d : Z) : option wpack :=
  let wb := get_bank m (r0 r cmd0_NPU_SET_WEIGHT_REGION) in
  let sb := get_bank m (r0 r cmd0_NPU_SET_SCALE_REGION) in
  let one (k base len sbase slen : Z) : option (list Z * list (Z * Z * Z)) :=
      let nch := core_channels (x_ncores x) k ofm_d in
      if nch <=? 0 then Some ([], []) else
      match core_weights x r depthwise k nch ifm_d (rd_bytes wb base (Z.to_nat len)) with
      | Some w => Some (w, scale_records (rd_bytes sb sbase (Z.to_nat slen)) (Z.to_nat nch))
      | None => None
      end in
  match one 0 (r1 r cmd1_NPU_SET_WEIGHT_BASE) (r1 r cmd1_NPU_SET_WEIGHT_LENGTH mod 4294967296)
            (r1 r cmd1_NPU_SET_SCALE_BASE) (r1 r cmd1_NPU_SET_SCALE_LENGTH mod 4294967296) with
  | Some (w0, s0) =>
      if x_ncores x >? 1 then
        match one 1 (r1 r cmd1_NPU_SET_WEIGHT1_BASE) (r1 r cmd1_NPU_SET_WEIGHT1_LENGTH mod 4294967296)
                  (r1 r cmd1_NPU_SET_SCALE1_BASE) (r1 r cmd1_NPU_SET_SCALE1_LENGTH mod 4294967296) with
        | Some (w1, s1) => Some {| wp_w := [w0; w1]; wp_s := [s0; s1] |}
        | None => None
        end
      else Some {| wp_w := [w0]; wp_s := [s0] |}
  | None => None
  end.

(* ------------------------------------------------------------------ the datapath *)
(* IFM resampling (NPU_SET_IFM_UPSCALE): 0 none; 1 NEAREST - every IFM element is seen twice in each direction; 2 TRANSPOSE -
   the IFM elements sit at the even positions of a grid twice as large, the other positions hold the zero point.
   Kernel coordinates (y, x) are in that upscaled space; its extent is twice the IFM extent. *)
Definition up_factor (up : Z) : Z := if up =? 0 then 1 else 2.
Definition ifm_inside (up : Z) (iv : fmview) (y x : Z) : bool :=
  (0 <=? y) && (y <? up_factor up * fv_h iv) && (0 <=? x) && (x <? up_factor up * fv_w iv).
Definition ifm_raw (up : Z) (b : bank) (iv : fmview) (signed : bool) (zp : Z) (y x c : Z) : Z :=
  if up =? 0 then rd_elem b (elem_addr iv y x c) (fv_elem iv) signed
  else if up =? 1 then rd_elem b (elem_addr iv (y / 2) (x / 2) c) (fv_elem iv) signed
  else if (y mod 2 =? 0) && (x mod 2 =? 0) then rd_elem b (elem_addr iv (y / 2) (x / 2) c) (fv_elem iv) signed
  else zp.
Definition ifm_at (up : Z) (b : bank) (iv : fmview) (signed : bool) (zp : Z) (y x c : Z) : Z :=
  if ifm_inside up iv y x then ifm_raw up b iv signed zp y x c - zp
  else 0.   (* padding contributes (zp - zp) *)

Definition sumz (l : list Z) : Z := fold_left Z.add l 0.

(* a list as a finite map from its indices (the interpreter looks weights up once per multiply) *)
Fixpoint pm_fill {A} (l : list A) (i : Z) (m : PositiveMap.t A) : PositiveMap.t A :=
  match l with [] => m | v :: t => pm_fill t (i + 1) (PositiveMap.add (key i) v m) end.
Definition pm_of_list {A} (l : list A) : PositiveMap.t A := pm_fill l 0 (PositiveMap.empty A).
Definition pm_get {A} (m : PositiveMap.t A) (i : Z) (d : A) : A :=
  match PositiveMap.find (key i) m with Some v => v | None => d end.

Definition conv_acc (b : bank) (iv : fmview) (r : regs) (signed : bool) (zp : Z) (depthwise : bool)
           (w : PositiveMap.t Z) (oy ox ch lc ifm_d : Z) : Z :=
  (* lc = index of the channel inside its core's volume *)
  let s := r0 r cmd0_NPU_SET_KERNEL_STRIDE in
  let kh := kern_h r in let kw := kern_w r in
  let y0 := oy * k_stride_y s - r0 r cmd0_NPU_SET_IFM_PAD_TOP in
  let x0 := ox * k_stride_x s - r0 r cmd0_NPU_SET_IFM_PAD_LEFT in
  let idp := if depthwise then 1 else ifm_d in
  sumz (flat_map (fun ky => flat_map (fun kx =>
          map (fun ic =>
                 ifm_at (r0 r cmd0_NPU_SET_IFM_UPSCALE) b iv signed zp (y0 + ky * dil_y r) (x0 + kx * dil_x r) (if depthwise then ch else ic)
                 * pm_get w (((lc * kh + ky) * kw + kx) * idp + ic) 0)
              (zrange idp)) (zrange kw)) (zrange kh)).

(* zero points belong to 8- and 16-bit feature maps: for a 32-bit OFM the OFM_ZERO_POINT register is not applied (Vela
   itself programs zero point 0 for every 32-bit IFM and reads such intermediates back without an offset) - unless the
   ACTIVATION register names an explicit clip range (bits 12-13), as Vela's softmax does for the subtraction whose clipped
   result, offset by the zero point 127, indexes the exponential table *)
Definition ofm_zp (r : regs) : Z :=
  if (prec_elem_ofm (r0 r cmd0_NPU_SET_OFM_PRECISION) =? 4) && (((r0 r cmd0_NPU_SET_ACTIVATION) / 4096) mod 4 =? 0)
  then 0 else s16 (r0 r cmd0_NPU_SET_OFM_ZERO_POINT).
Definition finish_raw (r : regs) (acc bias scale shift : Z) : Z :=
  apply_scale (rounding_mode r) (acc + bias) scale shift + ofm_zp r.
Definition finish (r : regs) (acc bias scale shift : Z) : Z :=
  clampz (s16 (r0 r cmd0_NPU_SET_ACTIVATION_MIN)) (s16 (r0 r cmd0_NPU_SET_ACTIVATION_MAX)) (finish_raw r acc bias scale shift).

(* the activation range registers are 16 bits wide: a 32-bit OFM is clamped only when the ACTIVATION register names an explicit
   clip range (bits 12-13, which Vela sets for table look-ups into a 32-bit OFM), otherwise the 32-bit result is written as it is *)
Definition wide_unclamped (r : regs) (ofm_elem : Z) : bool :=
  (ofm_elem =? 4) && (((r0 r cmd0_NPU_SET_ACTIVATION) / 4096) mod 4 =? 0).
Definition out_clamp (r : regs) (ofm_elem v : Z) : Z :=
  if wide_unclamped r ofm_elem then v
  else clampz (s16 (r0 r cmd0_NPU_SET_ACTIVATION_MIN)) (s16 (r0 r cmd0_NPU_SET_ACTIVATION_MAX)) v.

(* activation function: 0 = none; 16 + i = look-up in the 256-entry 8-bit table in LUT slot i of the SHRAM, indexed by the
   clamped 8-bit result counted from the lowest value of the output type (the order in which Vela writes its tables);
   TANH / SIGMOID (16-bit native) and the 16-bit interpolating tables are not modelled *)
Definition act_ok (r : regs) (ifm_elem ofm_elem : Z) : bool :=
  let a := (r0 r cmd0_NPU_SET_ACTIVATION) mod 4096 in
  (a =? 0) || ((16 <=? a) && (a <=? 23) && (ifm_elem =? 1) && ((ofm_elem =? 1) || (ofm_elem =? 4)))
           || ((16 <=? a) && (a <=? 23) && (ifm_elem =? 2) && (ofm_elem =? 2)).
(* a 32-bit OFM takes 256 four-byte entries (the exponential table of the 8-bit softmax), indexed like the 8-bit tables by
   the clipped result counted from -128 *)
(* one entry e = slope << 16 | base of a 16-bit table, applied to the value u counted from -32768 *)
Definition lut16_interp (e u : Z) : Z :=
  let base := to_signed 16 (e mod 65536) in
  let slope := to_signed 16 (e / 65536) in
  clampz (-32768) 32767 (base + (slope * (u mod 128) + 64) / 128).

Definition activate (x : xcfg) (m : mem) (r : regs) (v : Z) : Z :=
  match lut_index r with
  | Some i =>
      if prec_elem_ofm (r0 r cmd0_NPU_SET_OFM_PRECISION) =? 4
      then to_signed 32 (rd_le (get_bank m SHRAM) (x_lut_addr x + i * 256 + 4 * (v + 128)) 4)
      else if prec_elem_ofm (r0 r cmd0_NPU_SET_OFM_PRECISION) =? 2
      then (* 16-bit: 512 entries of (slope << 16 | base), indexed by the upper nine bits of the value counted from -32768,
              interpolated with the lower seven: base + (slope * fraction + 64) >> 7 (the reference kernels' lut_lookup,
              which Vela's tables are built for) *)
           let u := v + 32768 in
           lut16_interp (rd_le (get_bank m SHRAM) (x_lut_addr x + i * 256 + 4 * (u / 128)) 4) u
      else rd8 (get_bank m SHRAM) (x_lut_addr x + i * 256 + (v - (if ofm_signed r then -128 else 0)))
  | None => v
  end.

Definition write_ofm (m : mem) (ov : fmview) (vals : list (Z * Z * Z * Z)) : mem :=
  let b := fold_left (fun b p => let '(y, x, c, v) := p in wr_elem b (elem_addr ov y x c) (fv_elem ov) v)
                     vals (get_bank m (fv_region ov)) in
  set_bank m (fv_region ov) b.

Definition positions (ov : fmview) : list (Z * Z * Z) :=
  flat_map (fun y => flat_map (fun x => map (fun c => (y, x, c)) (zrange (fv_d ov))) (zrange (fv_w ov)))
           (zrange (fv_h ov)).

Definition exec_conv (x : xcfg) (m : mem) (code : Z) (r : regs) : option mem :=
  let depthwise := code =? cmd0_NPU_OP_DEPTHWISE in
  let iv := ifm_view code r in
  let ov := ofm_view r in
  if negb (act_ok r (fv_elem iv) (fv_elem ov)) || negb (r0 r cmd0_NPU_SET_IFM_UPSCALE <=? 2) then None else
  match load_weights x m r depthwise (fv_d ov) (fv_d iv) with
  | None => None
  | Some wp =>
      let b := get_bank m (fv_region iv) in
      let sg := ifm_signed r in
      let zp := s16 (r0 r cmd0_NPU_SET_IFM_ZERO_POINT) in
      let nc := x_ncores x in
      let wms := map pm_of_list (wp_w wp) in
      let sms := map pm_of_list (wp_s wp) in
      Some (write_ofm m ov
        (map (fun p => let '(y, xx, c) := p in
                let k := c mod nc in let lc := c / nc in
                let w := nth_z wms k (PositiveMap.empty Z) in
                let '(bias, sc, sh) := pm_get (nth_z sms k (PositiveMap.empty (Z * Z * Z))) lc (0, 0, 0) in
                (y, xx, c, activate x m r (if wide_unclamped r (fv_elem ov)
                                            then finish_raw r (conv_acc b iv r sg zp depthwise w y xx c lc (fv_d iv)) bias sc sh
                                            else finish r (conv_acc b iv r sg zp depthwise w y xx c lc (fv_d iv)) bias sc sh)))
             (positions ov)))
  end.

(* pooling: param 0 = MAX, 1 = AVERAGE, 2 = REDUCE_SUM *)
Definition exec_pool (x : xcfg) (m : mem) (param : Z) (r : regs) : option mem :=
  let iv := ifm_view cmd0_NPU_OP_POOL r in
  let ov := ofm_view r in
  if negb (act_ok r (fv_elem iv) (fv_elem ov)) || negb (r0 r cmd0_NPU_SET_IFM_UPSCALE <=? 2) then None else
  let up := r0 r cmd0_NPU_SET_IFM_UPSCALE in
  let b := get_bank m (fv_region iv) in
  let sg := ifm_signed r in
  let s := r0 r cmd0_NPU_SET_KERNEL_STRIDE in
  let kh := kern_h r in let kw := kern_w r in
  let window (y xx : Z) : list (Z * Z) :=
      flat_map (fun ky => map (fun kx => (y * k_stride_y s - r0 r cmd0_NPU_SET_IFM_PAD_TOP + ky,
                                          xx * k_stride_x s - r0 r cmd0_NPU_SET_IFM_PAD_LEFT + kx)) (zrange kw)) (zrange kh) in
  let inb (p : Z * Z) : bool := ifm_inside up iv (fst p) (snd p) in
  let zpi0 := s16 (r0 r cmd0_NPU_SET_IFM_ZERO_POINT) in
  let rdv (q : Z * Z) (c : Z) : Z := ifm_raw up b iv sg zpi0 (fst q) (snd q) c in
  let lo := s16 (r0 r cmd0_NPU_SET_ACTIVATION_MIN) in
  let hi := s16 (r0 r cmd0_NPU_SET_ACTIVATION_MAX) in
  if param =? 0 then
    Some (write_ofm m ov
      (map (fun p => let '(y, xx, c) := p in
              let vs := map (fun q => rdv q c) (filter inb (window y xx)) in
              (* the maximum goes through the output stage like every result: IFM zero point off, OFM zero point on (no
                 difference for an ordinary max pool, whose two zero points agree; Vela's ARG_MAX relies on it) *)
              (y, xx, c, activate x m r (out_clamp r (fv_elem ov) (fold_left Z.max vs (- 2 ^ 40) - zpi0 + ofm_zp r))))
           (positions ov)))
  else if (param =? 1) && global_scale r then
    let zpi := s16 (r0 r cmd0_NPU_SET_IFM_ZERO_POINT) in
    let zpo := ofm_zp r in
    let sc := (r1 r cmd1_NPU_SET_OFM_SCALE) mod 4294967296 in
    let sh := (r1 r cmd1_NPU_SET_OFM_SCALE) / 4294967296 in
    Some (write_ofm m ov
      (map (fun p => let '(y, xx, c) := p in
              let acc := sumz (map (fun q => rdv q c - zpi) (filter inb (window y xx))) in
              (y, xx, c, activate x m r (out_clamp r (fv_elem ov) (apply_scale (rounding_mode r) acc sc sh + zpo))))
           (positions ov)))
  else if (param =? 2) && global_scale r then
    (* REDUCE_SUM: the window summed over all input channels into one output channel *)
    let zpi := s16 (r0 r cmd0_NPU_SET_IFM_ZERO_POINT) in
    let zpo := ofm_zp r in
    let sc := (r1 r cmd1_NPU_SET_OFM_SCALE) mod 4294967296 in
    let sh := (r1 r cmd1_NPU_SET_OFM_SCALE) / 4294967296 in
    Some (write_ofm m ov
      (map (fun p => let '(y, xx, c) := p in
              let acc := sumz (flat_map (fun ic => map (fun q => rdv q ic - zpi) (filter inb (window y xx))) (zrange (fv_d iv))) in
              (y, xx, c, activate x m r (out_clamp r (fv_elem ov) (apply_scale (rounding_mode r) acc sc sh + zpo))))
           (positions ov)))
  else if param =? 1 then
    (* average pool without a global scale (padding present): modelled as the mean over the valid
       (non-padding) elements of the window, rounded half up; the property allows one step here *)
    let zpi := s16 (r0 r cmd0_NPU_SET_IFM_ZERO_POINT) in
    let zpo := ofm_zp r in
    Some (write_ofm m ov
      (map (fun p => let '(y, xx, c) := p in
              let win := filter inb (window y xx) in
              let cnt := Z.max 1 (Z.of_nat (List.length win)) in
              let acc := sumz (map (fun q => rdv q c - zpi) win) in
              (y, xx, c, activate x m r (out_clamp r (fv_elem ov) ((2 * acc + cnt) / (2 * cnt) + zpo))))
           (positions ov)))
  else None.

(* elementwise: param = MUL 0, ADD 1, SUB 2, MIN 3, MAX 4, LRELU 5 (16-bit operands only), ABS 6, CLZ 7, SHR 8, SHL 9.
   Operand A is the IFM, operand B the IFM2 (or the IFM2 scalar), exchanged when bit 6 of IFM2_BROADCAST is set.
   ADD/SUB operand scaling (bits 8-9 of IFM_PRECISION): 0 = both operands multiplied by their 16-bit scales;
   1 / 2 = operand A / B is shifted left by the input shift (20 for 8-bit, 15 for 16-bit operands) and scaled by the
   32-bit OPA scale with double rounding, the other operand is shifted left by one bit less. *)
Definition ew_input_shift (elem : Z) : Z := if elem =? 1 then 20 else 15.
Definition scale_reg (v : Z) : Z * Z := (v mod 4294967296, v / 4294967296).

(* CLZ: leading zero bits of the 32-bit two's complement operand; SHR: arithmetic shift right of operand A by operand B,
   rounded as the rounding mode says (natural = half up, which Vela selects for the softmax's rescale; TFL = half away from
   zero; truncate = towards minus infinity); SHL: shift left (no saturation modelled) *)
Definition clz32 (a : Z) : Z :=
  if a <? 0 then 0 else if a =? 0 then 32 else 32 - Z.log2 a - 1.
Definition shr_round (rmode a b : Z) : Z :=
  if b <=? 0 then a
  else if rmode =? 0 then rdbpot a b
  else if rmode =? 2 then (a + 2 ^ (b - 1)) / 2 ^ b
  else a / 2 ^ b.

(* the value of one output element before zero point and clamp; a, b are operands A, B minus their zero points *)
Definition ew_value (elem mode smode rmode : Z) (gs : bool) (opa_s opa_sh opb_s ofm_s ofm_sh a b : Z) : Z :=
  let ish := ew_input_shift elem in
  let wide (v : Z) := scale_tfl (v * 2 ^ ish) opa_s (opa_sh + ish) in
  let narrow (v : Z) := v * 2 ^ (ish - 1) in
  let pre_a := if smode =? 0 then a * (opa_s mod 65536) else if smode =? 1 then wide a else narrow a in
  let pre_b := if smode =? 0 then b * opb_s else if smode =? 2 then wide b else narrow b in
  let out (v : Z) := if gs then apply_scale rmode v ofm_s ofm_sh else v in
  (* a 32-bit MUL does not scale its product: only the shift of OFM_SCALE applies (reading taken from Vela's squared
     difference and softmax rewrites: "32 bit Mul op do not scale the value ... multiplier not actually used for int32") *)
  let shift_only (v : Z) :=
      if negb gs then v
      else if rmode =? 0 then rdbpot v ofm_sh
      else if rmode =? 2 then (if ofm_sh <=? 0 then v else (v + 2 ^ (ofm_sh - 1)) / 2 ^ ofm_sh)
      else v / 2 ^ ofm_sh in
  if mode =? 0 then (if elem =? 4 then shift_only (a * b) else out (a * b))
  else if mode =? 1 then out (pre_a + pre_b)
  else if mode =? 2 then out (pre_a - pre_b)
  else if mode =? 3 then out (Z.min a b)
  else if mode =? 4 then out (Z.max a b)
  else if mode =? 5 then (if a <? 0 then apply_scale rmode a ofm_s ofm_sh else a)
       (* LRELU (5), unary, 16-bit: a negative operand is multiplied by OFM_SCALE (Vela programs it with alpha), others pass *)
  else if mode =? 7 then clz32 a
  else if mode =? 8 then shr_round rmode a b
  else if mode =? 9 then a * 2 ^ (Z.max 0 b)
  else Z.abs a.        (* ABS (6), unary: |operand A|, no output scaling (reading: Vela programs OFM_SCALE with the bare output
                          scale for it, which cannot be a factor of the result) *)

(* a 32-bit elementwise result saturates (the fixed-point recipes Vela emits rely on it: 2^30 doubled is 2^31 - 1) *)
Definition sat32 (ofm_elem v : Z) : Z :=
  if ofm_elem =? 4 then clampz (- 2147483648) 2147483647 v else v.

Definition exec_elementwise (x : xcfg) (m : mem) (mode : Z) (r : regs) : option mem :=
  let iv := ifm_view cmd0_NPU_OP_ELEMENTWISE r in
  let v2 := ifm2_view r in
  let ov := ofm_view r in
  let bc := r0 r cmd0_NPU_SET_IFM2_BROADCAST in
  let rev := (bc / 64) mod 2 =? 1 in
  let scalar := (bc / 128) mod 2 =? 1 in
  if negb (act_ok r (fv_elem iv) (fv_elem ov)) || negb (r0 r cmd0_NPU_SET_IFM_UPSCALE =? 0)
     || negb (mode <=? 9) || ((mode =? 5) && negb (fv_elem iv =? 2)) then None else
  let b1 := get_bank m (fv_region iv) in
  let b2 := get_bank m (fv_region v2) in
  let sg1 := ifm_signed r in
  let sg2 := (r0 r cmd0_NPU_SET_IFM2_PRECISION) mod 2 =? 1 in
  let zp1 := s16 (r0 r cmd0_NPU_SET_IFM_ZERO_POINT) in
  let zp2 := s16 (r0 r cmd0_NPU_SET_IFM2_ZERO_POINT) in
  let zpo := ofm_zp r in
  let lo := s16 (r0 r cmd0_NPU_SET_ACTIVATION_MIN) in
  let hi := s16 (r0 r cmd0_NPU_SET_ACTIVATION_MAX) in
  let sc_imm := let v := r0 r cmd0_NPU_SET_IFM2_SCALAR in
                if sg2 then to_signed (8 * fv_elem v2) (v mod 2 ^ (8 * fv_elem v2)) else v mod 2 ^ (8 * fv_elem v2) in
  let val1 (y xx c : Z) := rd_elem b1 (elem_addr iv y xx c) (fv_elem iv) sg1 - zp1 in
  let val2 (y xx c : Z) :=
      (if scalar then sc_imm
       else rd_elem b2 (elem_addr v2 (if fv_h v2 =? 1 then 0 else y) (if fv_w v2 =? 1 then 0 else xx)
                                     (if fv_d v2 =? 1 then 0 else c)) (fv_elem v2) sg2) - zp2 in
  let smode := ((r0 r cmd0_NPU_SET_IFM_PRECISION) / 256) mod 4 in
  let '(opa_s, opa_sh) := scale_reg (r1 r cmd1_NPU_SET_OPA_SCALE) in
  let opb_s := (r1 r cmd1_NPU_SET_OPB_SCALE) mod 65536 in
  let '(ofm_s, ofm_sh) := scale_reg (r1 r cmd1_NPU_SET_OFM_SCALE) in
  Some (write_ofm m ov
    (map (fun p => let '(y, xx, c) := p in
            let a := if rev then val2 y xx c else val1 y xx c in
            let b := if rev then val1 y xx c else val2 y xx c in
            let v := ew_value (fv_elem iv) mode smode (rounding_mode r) (global_scale r)
                              opa_s opa_sh opb_s ofm_s ofm_sh a b in
            (y, xx, c, activate x m r (out_clamp r (fv_elem ov) (sat32 (fv_elem ov) (v + zpo)))))
         (positions ov))).

Definition exec_dma (m : mem) (r : regs) : option mem :=
  let n := r1 r cmd1_NPU_SET_DMA0_LEN in
  let sreg := r0 r cmd0_NPU_SET_DMA0_SRC_REGION in
  let dreg := r0 r cmd0_NPU_SET_DMA0_DST_REGION in
  let srg := if 256 <=? sreg then SHRAM else sreg in
  let drg := if 256 <=? dreg then SHRAM else dreg in
  let data := rd_bytes (get_bank m srg) (r1 r cmd1_NPU_SET_DMA0_SRC) (Z.to_nat n) in
  Some (set_bank m drg (wr_bytes (get_bank m drg) (r1 r cmd1_NPU_SET_DMA0_DST) data)).

Definition exec_op (x : xcfg) (m : mem) (code param : Z) (r : regs) : option mem :=
  if code =? cmd0_NPU_OP_DMA_START then exec_dma m r
  else if (code =? cmd0_NPU_OP_CONV) || (code =? cmd0_NPU_OP_DEPTHWISE) then exec_conv x m code r
  else if code =? cmd0_NPU_OP_POOL then exec_pool x m param r
  else if code =? cmd0_NPU_OP_ELEMENTWISE then exec_elementwise x m param r
  else None.

Fixpoint exec_events (x : xcfg) (m : mem) (evs : list event) : option mem :=
  match evs with
  | [] => Some m
  | EOp c p r :: t => match exec_op x m c p r with Some m' => exec_events x m' t | None => None end
  | _ :: t => exec_events x m t
  end.

Definition exec_stream (x : xcfg) (m : mem) (ws : list Z) : option mem :=
  match run_stream ws with Some evs => exec_events x m evs | None => None end.
