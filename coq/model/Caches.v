(* C14: process-wide memo stores as state machines.  A store answers a request either from its
   table (looked up by the request's KEY) or by computing FRESH on the full request. *)
From Coq Require Import ZArith List Bool.
Import ListNotations.
Open Scope Z_scope.

Section Memo.
  Variable fresh : list Z -> Z.        (* the uncached computation, a function of the FULL request *)
  Variable key : list Z -> list Z.     (* what the store looks the request up by *)

  Fixpoint lz_eqb (a b : list Z) : bool :=
    match a, b with
    | [], [] => true
    | x :: a', y :: b' => (x =? y) && lz_eqb a' b'
    | _, _ => false
    end.

  Fixpoint find (t : list (list Z * Z)) (k : list Z) : option Z :=
    match t with [] => None | (k', v) :: r => if lz_eqb k' k then Some v else find r k end.

  Definition step (t : list (list Z * Z)) (req : list Z) : list (list Z * Z) * Z :=
    match find t (key req) with
    | Some v => (t, v)
    | None => ((key req, fresh req) :: t, fresh req)
    end.

  Fixpoint run (t : list (list Z * Z)) (reqs : list (list Z)) : list Z :=
    match reqs with
    | [] => []
    | r :: rest => let '(t', v) := step t r in v :: run t' rest
    end.
End Memo.

(* TensorAddressMap.set_address_for_tens: (equivalence id, memory type) -> address; a second,
   different address for the same key trips the assertion *)
Fixpoint amap_find (m : list (Z * Z * Z)) (id mt : Z) : option Z :=
  match m with [] => None | (i, t, a) :: r => if (i =? id) && (t =? mt) then Some a else amap_find r id mt end.
Definition amap_set (m : list (Z * Z * Z)) (id mt a : Z) : option (list (Z * Z * Z)) :=
  match amap_find m id mt with
  | Some a' => if a' =? a then Some m else None           (* AssertionError *)
  | None => Some ((id, mt, a) :: m)
  end.
Fixpoint amap_run (m : list (Z * Z * Z)) (sets : list (Z * Z * Z)) : option (list (Z * Z * Z)) :=
  match sets with
  | [] => Some m
  | (id, mt, a) :: r => match amap_set m id mt a with Some m' => amap_run m' r | None => None end
  end.
