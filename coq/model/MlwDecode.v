(* C07 -- hand model (device H) of the reference weight-stream decoder
   /repo/ethosu/mlw_codec/mlw_decode.c (mlw_decode, bitbuf_get, bitbuf_getbit) and of the bit
   writer of mlw_encode.c (bitbuf_putbit, bitbuf_put).

   * The bit reader is LSB first.  A read of a bit outside the buffer is the C `exit(1)` after
     "bitbuf_getbit: underrun": result DUnderrun.
   * `strict = true` models the C source with assertions enabled (a failing assert: DAssert n);
     `strict = false` models the extension as setup.py builds it (-DNDEBUG: the asserts vanish
     and decoding goes on).  On streams produced by the encoder both agree.
   * Loops: `iter2 step k s` runs `step` at most 2^k times (structural recursion on the fuel k);
     running out of fuel is the result DFuel, which `decode_total` (proofs/MlwDecodeProofs.v)
     excludes for every input.
   * C `int` overflow is not modelled (it needs a stream of more than 2^20 bytes); the stored
     int16_t output value is modelled (to_int16).
   NO proofs in this file. *)
From Coq Require Import ZArith List Bool.
Import ListNotations.
Open Scope Z_scope.

(* ---------------------------------------------------------------- bit reader *)
(* r_rest is the buffer from byte r_pos/8 on (an access path, see reader_ok in the proofs);
   all decisions are taken on r_pos and the buffer size exactly as in C *)
Record reader := { r_rest : list Z; r_pos : Z }.

Definition getbit (size : Z) (r : reader) : option (Z * reader) :=
  let byte_pos := r_pos r / 8 in
  let bit_pos := r_pos r mod 8 in
  if (byte_pos <? 0) || (size <=? byte_pos) then None
  else match r_rest r with
       | [] => None
       | b :: t => Some ((if Z.testbit b bit_pos then 1 else 0),
                         {| r_rest := if bit_pos =? 7 then t else r_rest r; r_pos := r_pos r + 1 |})
       end.

(* bitbuf_get: data |= getbit << i, i = 0 .. len-1 *)
Fixpoint get_bits (size : Z) (n : nat) (r : reader) : option (Z * reader) :=
  match n with
  | O => Some (0, r)
  | S n' =>
      match getbit size r with
      | None => None
      | Some (b, r1) =>
          match get_bits size n' r1 with
          | None => None
          | Some (d, r2) => Some (b + 2 * d, r2)
          end
      end
  end.

Definition get (size len : Z) (r : reader) : option (Z * reader) := get_bits size (Z.to_nat len) r.

(* literal reading of bit `pos` of a byte buffer: buf[pos>>3] & (1 << (pos&7)) *)
Definition getbit_lit (buf : list Z) (pos : Z) : option Z :=
  if (pos / 8 <? 0) || (Z.of_nat (length buf) <=? pos / 8) then None
  else Some (if Z.testbit (nth (Z.to_nat (pos / 8)) buf 0) (pos mod 8) then 1 else 0).

Definition mk_reader (buf : list Z) (pos : Z) : reader :=
  {| r_rest := skipn (Z.to_nat (pos / 8)) buf; r_pos := pos |}.

(* ---------------------------------------------------------------- bit writer (mlw_encode.c) *)
Fixpoint upd (l : list Z) (n : nat) (v : Z) : list Z :=
  match l, n with
  | [], _ => []
  | _ :: t, O => v :: t
  | h :: t, S n' => h :: upd t n' v
  end.

(* bb->buf[byte_pos] = ((buf[byte_pos] & ~(1U<<bit_pos)) | ((bit<<bit_pos) & 0xff)) & 0xff *)
Definition putbit (buf : list Z) (pos bit : Z) : list Z :=
  let bp := Z.to_nat (pos / 8) in
  let k := pos mod 8 in
  upd buf bp (Z.land (Z.lor (Z.land (nth bp buf 0) (Z.lnot (Z.shiftl 1 k))) (Z.land (Z.shiftl bit k) 255)) 255).

Fixpoint put_bits (buf : list Z) (pos : Z) (n : nat) (data : Z) : list Z :=
  match n with
  | O => buf
  | S n' => put_bits (putbit buf pos (Z.land data 1)) (pos + 1) n' (Z.shiftr data 1)
  end.

(* ---------------------------------------------------------------- bounded iteration *)
Fixpoint iter2 {S R : Type} (step : S -> S + R) (k : nat) (s : S) : S + R :=
  match k with
  | O => step s
  | Datatypes.S k' =>
      match iter2 step k' s with
      | inr r => inr r
      | inl s' => iter2 step k' s'
      end
  end.

Definition fuel_of (m : Z) : nat := S (Z.to_nat (Z.log2 (Z.max 1 m))).

(* ---------------------------------------------------------------- results *)
Inductive dres :=
| DOk (out : list Z)
| DUnderrun
| DAssert (code : Z)
| DFuel.

Definition to_int16 (x : Z) : Z := (x + 32768) mod 65536 - 32768.

(* ---------------------------------------------------------------- chunk decoding *)
(* zero-run unary: a set bit extends the count, a clear bit ends a symbol *)
Fixpoint z_syms (n : nat) (i u cnt : Z) : list Z * Z :=
  match n with
  | O => ([], cnt)
  | S n' =>
      if Z.testbit u i then z_syms n' (i + 1) u (cnt + 1)
      else let '(l, c) := z_syms n' (i + 1) u 0 in (cnt :: l, c)
  end.

Fixpoint popcount (n : nat) (i u : Z) : Z :=
  match n with
  | O => 0
  | S n' => (if Z.testbit u i then 1 else 0) + popcount n' (i + 1) u
  end.

(* weight unary: unary0 bit i says code >= 1, the next unused bit of unary1 says code = 2 *)
Fixpoint w_syms (trunc : bool) (n : nat) (i u0 u1 cnt : Z) : list Z * Z :=
  match n with
  | O => ([], cnt)
  | S n' =>
      let has := Z.testbit u0 i in
      let code := if has then (if Z.testbit u1 0 then 2 else 1) else 0 in
      let u1' := if has then Z.shiftr u1 1 else u1 in
      let cnt' := cnt + code in
      if (code <? 2) || trunc
      then let '(l, c) := w_syms trunc n' (i + 1) u0 u1' 0 in (cnt' :: l, c)
      else w_syms trunc n' (i + 1) u0 u1' cnt'
  end.

(* for(i=0; i<prev_nsymbols && prev_pos<limit; i++, prev_pos++) value = (q<<div) + get(div);
   acc is the reversed value array, also returns the sum of the values read *)
Fixpoint read_remains (size div : Z) (qs : list Z) (room : Z) (r : reader) (acc : list Z) (sum : Z)
  : option (list Z * Z * Z * reader) :=
  match qs with
  | [] => Some (acc, room, sum, r)
  | q :: t =>
      if room <=? 0 then Some (acc, room, sum, r)
      else match get size div r with
           | None => None
           | Some (rem, r1) =>
               let v := Z.shiftl q div + rem in
               read_remains size div t (room - 1) r1 (v :: acc) (sum + v)
           end
  end.

Record slice_par := {
  sp_size : Z; sp_nvalues : Z; sp_znvalues : Z; sp_use_zero_run : bool; sp_w_unc : bool;
  sp_wdiv : Z; sp_wtrunc : bool; sp_zdiv : Z }.

Record cst := {
  c_r : reader;
  c_wpos : Z; c_zpos : Z;
  c_wcarry : Z; c_zcarry : Z;
  c_wprev : bool; c_wq : list Z;       (* w_prev_enable, w_prev_q[0..w_prev_nsymbols) *)
  c_zprev : bool; c_zq : list Z;
  c_wroom : Z; c_zroom : Z;            (* nvalues - w_prev_pos, z_nvalues - z_prev_pos *)
  c_wvals : list Z; c_zvals : list Z;  (* w_value[0..w_prev_pos), z_value[0..z_prev_pos) reversed *)
  c_zcnt : Z }.

(* one iteration of the  do { ... } while( w_prev_enable || z_prev_enable )  loop;
   inr None is an underrun *)
Definition chunk_step (p : slice_par) (s : cst) : cst + option cst :=
  let size := sp_size p in
  let balance := if sp_use_zero_run p then c_wpos s - c_zpos s else 0 in
  let w_enable := ((balance <? 8) || negb (sp_use_zero_run p)) && (c_wpos s <? sp_nvalues p) in
  let z_enable := (0 <=? balance) && sp_use_zero_run p && (c_zpos s <? sp_znvalues p) in
  let z_unary_len := if sp_zdiv p <? 3 then 12 else 8 in
  match (if w_enable && negb (sp_w_unc p) then get size 12 (c_r s) else Some (0, c_r s)) with
  | None => inr None
  | Some (w_unary0, r1) =>
  match (if z_enable then get size z_unary_len r1 else Some (0, r1)) with
  | None => inr None
  | Some (z_unary, r2) =>
  let '(zq, zcarry) := if z_enable then z_syms (Z.to_nat z_unary_len) 0 z_unary (c_zcarry s)
                       else (c_zq s, c_zcarry s) in
  let zpos := if z_enable then c_zpos s + Z.of_nat (length zq) else c_zpos s in
  let max_symbols := if sp_w_unc p && (5 <? sp_wdiv p) then 8 else 12 in
  let w_unary1_len := if w_enable then popcount (Z.to_nat max_symbols) 0 w_unary0 else 0 in
  match (if w_enable then get size w_unary1_len r2 else Some (0, r2)) with
  | None => inr None
  | Some (w_unary1, r3) =>
  let '(wq, wcarry) := if w_enable then w_syms (sp_wtrunc p) (Z.to_nat max_symbols) 0 w_unary0 w_unary1 (c_wcarry s)
                       else (c_wq s, c_wcarry s) in
  let wpos := if w_enable then c_wpos s + Z.of_nat (length wq) else c_wpos s in
  match (if c_wprev s then read_remains size (sp_wdiv p) (c_wq s) (c_wroom s) r3 (c_wvals s) 0
         else Some (c_wvals s, c_wroom s, 0, r3)) with
  | None => inr None
  | Some (wvals, wroom, _, r4) =>
  match (if c_zprev s then read_remains size (sp_zdiv p) (c_zq s) (c_zroom s) r4 (c_zvals s) 0
         else Some (c_zvals s, c_zroom s, 0, r4)) with
  | None => inr None
  | Some (zvals, zroom, zsum, r5) =>
      let s' := {| c_r := r5; c_wpos := wpos; c_zpos := zpos; c_wcarry := wcarry; c_zcarry := zcarry;
                   c_wprev := w_enable; c_wq := wq; c_zprev := z_enable; c_zq := zq;
                   c_wroom := wroom; c_zroom := zroom; c_wvals := wvals; c_zvals := zvals;
                   c_zcnt := c_zcnt s + zsum |} in
      if w_enable || z_enable then inl s' else inr (Some s')
  end end end end end.

(* ---------------------------------------------------------------- slice output *)
Fixpoint zeros (n : nat) (acc : list Z) : list Z :=
  match n with O => acc | S n' => zeros n' (0 :: acc) end.

(* the interleave loop; wv and zv in stream order, out reversed; inr = assert(w_value<512) *)
Fixpoint emit (strict use_zero_run : bool) (palsize dofs : Z) (palette : list Z)
              (wv zv : list Z) (out : list Z) : option (list Z) :=
  match wv with
  | [] => Some out
  | w :: wt =>
      if strict && negb (w <? 512) then None
      else
        let val := if w <? palsize then nth (Z.to_nat w) palette 0 else w - palsize + dofs in
        let mag := Z.shiftr val 1 in
        let o := to_int16 (if Z.testbit val 0 then - mag else mag) in
        let out1 := o :: out in
        let out2 := if use_zero_run then zeros (Z.to_nat (hd 0 zv)) out1 else out1 in
        emit strict use_zero_run palsize dofs palette wt (tl zv) out2
  end.

Fixpoint read_palette (size palbits : Z) (n : nat) (r : reader) : option (list Z * reader) :=
  match n with
  | O => Some ([], r)
  | S n' =>
      match get size palbits r with
      | None => None
      | Some (v, r1) =>
          match read_palette size palbits n' r1 with
          | None => None
          | Some (l, r2) => Some (v :: l, r2)
          end
      end
  end.

Fixpoint ceil_log2_aux (n : nat) (bits palsize : Z) : Z :=
  match n with
  | O => bits
  | S n' => if Z.shiftl 1 bits <? palsize then ceil_log2_aux n' (bits + 1) palsize else bits
  end.
(* uncompressed_bits=0; while( (1<<uncompressed_bits) < palsize ) uncompressed_bits++;  (palsize <= 32) *)
Definition ceil_log2 (palsize : Z) : Z := ceil_log2_aux 8 0 palsize.

(* ---------------------------------------------------------------- slice loop *)
Record sst := {
  s_r : reader; s_first : bool; s_zprev : Z;
  s_palsize : Z; s_palbits : Z; s_dofs : Z; s_palette : list Z;
  s_out : list Z;          (* reversed *)
  s_trace : list Z }.      (* reversed slice headers, for coverage measurement only *)

(* if (new_palette) { DIROFS 5, PALSIZE 5 (+1 if >0), PALBITS 3 (+2), palsize x PALETTE palbits }
   else the palette state of the previous slice stays *)
Definition read_hdr_pal (size : Z) (s : sst) (newpal : Z) (r5 : reader)
  : option (Z * Z * Z * list Z * reader) :=
    if newpal =? 0 then Some (s_dofs s, s_palsize s, s_palbits s, s_palette s, r5)
    else match get size 5 r5 with
         | None => None
         | Some (dofs, r6) =>
         match get size 5 r6 with
         | None => None
         | Some (ps, r7) =>
         let palsize := if 0 <? ps then ps + 1 else ps in
         match get size 3 r7 with
         | None => None
         | Some (pb, r8) =>
         let palbits := pb + 2 in
         match read_palette size palbits (Z.to_nat palsize) r8 with
         | None => None
         | Some (pal, r9) => Some (dofs, palsize, palbits, pal, r9)
         end end end end.

(* while(z_grc_div==ZDIV_EOS) { byte align; first=1; if at end break; z_grc_div = get 3 } *)
Definition eos_step (size : Z) (s : reader * Z * bool) : (reader * Z * bool) + option (reader * Z * bool) :=
  let '(r, z, first) := s in
  if z =? 7 then
    match get size (Z.land (8 - Z.land (r_pos r) 7) 7) r with
    | None => inr None
    | Some (_, r1) =>
        if r_pos r1 / 8 =? size then inr (Some (r1, z, true))
        else match get size 3 r1 with
             | None => inr None
             | Some (z', r2) => inl (r2, z', true)
             end
    end
  else inr (Some (r, z, first)).

Definition bind (o : option (Z * reader)) (f : Z -> reader -> sst + (dres * list Z)) (tr : list Z)
  : sst + (dres * list Z) :=
  match o with None => inr (DUnderrun, tr) | Some (v, r) => f v r end.

(* one iteration of the slice loop; inr (result, reversed trace) *)
Definition slice_step (strict : bool) (size : Z) (k : nat) (s : sst) : sst + (dres * list Z) :=
  let tr := s_trace s in
  bind (get size 3 (s_r s)) (fun z0 r0 =>
  match iter2 (eos_step size) k (r0, z0, s_first s) with
  | inl _ => inr (DFuel, tr)
  | inr None => inr (DUnderrun, tr)
  | inr (Some (r1, z, first)) =>
  if r_pos r1 / 8 =? size then inr (DOk (rev' (s_out s)), tr)
  else if strict && negb ((z <? 4) || (z =? 6)) then inr (DAssert 1, tr)
  else
  let use_zero_run := negb (z =? 6) in
  bind (get size 15 r1) (fun nv r2 =>
  let nvalues := nv + 1 in
  bind (get size 3 r2) (fun wdiv r3 =>
  bind (get size 1 r3) (fun wtrunc r4 =>
  bind (get size 1 r4) (fun newpal r5 =>
  if strict && first && (newpal =? 0) then inr (DAssert 2, tr)
  else if strict && (newpal =? 0) && negb (Bool.eqb use_zero_run (negb (s_zprev s =? 6))) then inr (DAssert 3, tr)
  else
  match read_hdr_pal size s newpal r5 with
  | None => inr (DUnderrun, tr)
  | Some (dofs, palsize, palbits, pal, r9) =>
  let w_unc := wdiv =? 7 in
  if strict && negb w_unc && negb (wdiv <? 6) then inr (DAssert 4, tr)
  else
  let w_grc_div := if w_unc then (if 0 <? palsize then ceil_log2 palsize else palbits) else wdiv in
  let znvalues := nvalues + (if newpal =? 0 then 0 else 1) in
  let tr' := dofs :: palbits :: palsize :: newpal :: wtrunc :: wdiv :: nvalues :: z :: tr in
  let p := {| sp_size := size; sp_nvalues := nvalues; sp_znvalues := znvalues; sp_use_zero_run := use_zero_run;
              sp_w_unc := w_unc; sp_wdiv := w_grc_div; sp_wtrunc := negb (wtrunc =? 0); sp_zdiv := z |} in
  let c0 := {| c_r := r9; c_wpos := 0; c_zpos := 0; c_wcarry := 0; c_zcarry := 0;
               c_wprev := false; c_wq := []; c_zprev := false; c_zq := [];
               c_wroom := nvalues; c_zroom := znvalues; c_wvals := []; c_zvals := []; c_zcnt := 0 |} in
  match iter2 (chunk_step p) k c0 with
  | inl _ => inr (DFuel, tr')
  | inr None => inr (DUnderrun, tr')
  | inr (Some c) =>
      let wv := rev' (c_wvals c) in
      let zv := rev' (c_zvals c) in
      let out0 := if negb (newpal =? 0) && use_zero_run then zeros (Z.to_nat (hd 0 zv)) (s_out s) else s_out s in
      let zv' := if newpal =? 0 then zv else tl zv in
      match emit strict use_zero_run palsize dofs pal wv zv' out0 with
      | None => inr (DAssert 5, tr')
      | Some out =>
          inl {| s_r := c_r c; s_first := false; s_zprev := z; s_palsize := palsize; s_palbits := palbits;
                 s_dofs := dofs; s_palette := pal; s_out := out; s_trace := tr' |}
      end
  end
  end) tr) tr) tr) tr
  end) tr.

Definition decode_fuel (k : nat) (strict : bool) (buf : list Z) : dres * list Z :=
  let size := Z.of_nat (length buf) in
  let s0 := {| s_r := {| r_rest := buf; r_pos := 0 |}; s_first := true; s_zprev := 0; s_palsize := 0;
               s_palbits := 0; s_dofs := 0; s_palette := []; s_out := []; s_trace := [] |} in
  match iter2 (slice_step strict size k) k s0 with
  | inl _ => (DFuel, [])
  | inr (d, tr) => (d, rev' tr)
  end.

(* enough for every loop: each continuing iteration consumes a bit or moves w_pos towards nvalues <= 32768 *)
Definition default_fuel (buf : list Z) : nat := fuel_of (8 * Z.of_nat (length buf) + 32768 + 2).

Definition decode (strict : bool) (buf : list Z) : dres := fst (decode_fuel (default_fuel buf) strict buf).
Definition decode_trace (buf : list Z) : list Z := snd (decode_fuel (default_fuel buf) false buf).
