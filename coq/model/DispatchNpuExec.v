(* Flat integer interface of the command-stream interpreter (hw/NpuExec.v) for C01. *)
From Coq Require Import ZArith List Bool FMapPositive.
From VV Require Import lib.PyInt gen.GenTables hw.Npu hw.NpuExec.
Import ListNotations.
Open Scope Z_scope.

Fixpoint take_n (n : nat) (a : list Z) : list Z * list Z :=
  match n, a with
  | S n', x :: t => let '(xs, r) := take_n n' t in (x :: xs, r)
  | _, _ => ([], a)
  end.

(* runs: repeated [region addr len bytes...] *)
Fixpoint load_runs (n : nat) (a : list Z) (m : mem) : mem * list Z :=
  match n, a with
  | S n', rg :: addr :: len :: t =>
      let '(bytes, rest) := take_n (Z.to_nat len) t in
      load_runs n' rest (set_bank m rg (wr_bytes (get_bank m rg) addr bytes))
  | _, _ => (m, a)
  end.

Fixpoint take_outs (n : nat) (a : list Z) : list (Z * Z * Z) * list Z :=
  match n, a with
  | S n', rg :: addr :: len :: t => let '(l, r) := take_outs n' t in ((rg, addr, len) :: l, r)
  | _, _ => ([], a)
  end.

(* streams: repeated [nwords w...] executed in order on the same memory *)
Fixpoint run_streams (x : xcfg) (n : nat) (a : list Z) (m : mem) : option mem :=
  match n, a with
  | O, _ => Some m
  | S n', nw :: t =>
      let '(ws, rest) := take_n (Z.to_nat nw) t in
      match exec_stream x m ws with Some m' => run_streams x n' rest m' | None => None end
  | _, [] => None
  end.

(* CMD exec = 1 : ncores ofm_ublock ifm_ublock lut_address nruns [rg addr len bytes..].. nouts [rg addr len].. nstreams [nwords w..]..
   gives 1 output-bytes.. or 0 (an operation outside the modelled subset / malformed stream) *)
Definition run_exec (a : list Z) : list Z :=
  match a with
  | nc :: ou :: iu :: la :: nruns :: t =>
      let '(m, t1) := load_runs (Z.to_nat nruns) t [] in
      match t1 with
      | nouts :: t2 =>
          let '(outs, t3) := take_outs (Z.to_nat nouts) t2 in
          match t3 with
          | ns :: t4 =>
              match run_streams {| x_ncores := nc; x_ofm_ublock := ou; x_ifm_ublock := iu; x_lut_addr := la |} (Z.to_nat ns) t4 m with
              | Some m' => 1 :: flat_map (fun o => let '(rg, addr, len) := o in rd_bytes (get_bank m' rg) addr (Z.to_nat len)) outs
              | None => [0]
              end
          | [] => [-1]
          end
      | [] => [-1]
      end
  | _ => [-1]
  end.

Definition run (cmd : Z) (a : list Z) : list Z := if cmd =? 1 then run_exec a else [-1].
