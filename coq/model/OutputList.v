(* The subgraph output list through the compiler (repo commit 972b4ce):
   tflite_reader.TFLiteSubgraph keeps one entry per output tensor (get_tensors_from_indices_remove_duplicates) and
   records, for every position of the original list, the entry it refers to (output_positions =
   [outputs.index(tensors[idx]) for idx in Outputs]); the passes replace entries elementwise (rewrite_graph,
   extract_npu_subgraphs) and the reader appends virtual outputs behind them; tflite_writer restores the original
   list as [output_tensors[pos] for pos in positions].  Tensors are their indices (Z).  Definitions only. *)
From Coq Require Import ZArith List Bool.
Import ListNotations.
Open Scope Z_scope.

Fixpoint memZ (x : Z) (l : list Z) : bool :=
  match l with [] => false | y :: t => (x =? y) || memZ x t end.

(* `if tensor not in tensors: tensors.append(tensor)` *)
Fixpoint dedup_acc (acc l : list Z) : list Z :=
  match l with
  | [] => acc
  | x :: t => if memZ x acc then dedup_acc acc t else dedup_acc (acc ++ [x]) t
  end.
Definition dedup (l : list Z) : list Z := dedup_acc [] l.

(* list.index; None = ValueError *)
Fixpoint indexZ (x : Z) (l : list Z) : option nat :=
  match l with
  | [] => None
  | y :: t => if x =? y then Some O else option_map S (indexZ x t)
  end.

Definition positions (l : list Z) : list (option nat) := map (fun x => indexZ x (dedup l)) l.

(* the writer: every position must be inside the list (otherwise the writer keeps the list as it is: None here) *)
Definition restore {A} (d : list A) (ps : list (option nat)) : list (option A) :=
  map (fun p => match p with Some i => nth_error d i | None => None end) ps.
