(* Flat integer interface of model/Reorder.v and model/MlwDecode.v for the correspondence harness
   (tools/checks/c07.py).  Status of decode: 1 values.. (ok) | 0 (underrun = C exit(1)) |
   2 code (assert) | 3 (out of fuel). *)
From Coq Require Import ZArith List Bool.
From VV Require Import model.Reorder model.MlwDecode.
Import ListNotations.
Open Scope Z_scope.

Definition mk_cfg (a : list Z) : option cfg :=
  match a with
  | [ofd; kh; kw; ifd; oud; iud; obd; dw; pk; bd; dh; dw_] =>
      Some {| ofm_depth := ofd; kernel_h := kh; kernel_w := kw; ifm_depth := ifd; ofm_ublock := oud;
              ifm_ublock := iud; ofm_block := obd; is_dw := negb (dw =? 0); is_pk := negb (pk =? 0);
              bitdepth := bd; decomp_h := dh; decomp_w := dw_ |}
  | _ => None
  end.

(* CMD reorder = 1 : ofm_depth kh kw ifm_depth ofm_ublock ifm_ublock ofm_block dw pk bitdepth decomp_h decomp_w
                     -> per stream position the flat source index, or -1 for zero padding *)
Definition run_reorder (a : list Z) : list Z :=
  match mk_cfg a with
  | Some c => map (fun o => match o with Some p => p | None => -1 end) (reorder_flat c)
  | None => [-2]
  end.

Definition enc_dres (d : dres) : list Z :=
  match d with
  | DOk out => 1 :: out
  | DUnderrun => [0]
  | DAssert n => [2; n]
  | DFuel => [3]
  end.

(* CMD decode = 2 : strict bytes.. -> status values.. *)
Definition run_decode (a : list Z) : list Z :=
  match a with
  | strict :: bytes => enc_dres (decode (negb (strict =? 0)) bytes)
  | [] => [-2]
  end.

(* CMD decode_trace = 3 : bytes.. -> per slice: zdiv nvalues wdiv wtrunc newpal palsize palbits direct_offset *)
Definition run_decode_trace (a : list Z) : list Z := decode_trace a.

(* CMD put_get = 4 : pos len data nbytes -> the value read back at pos after writing (len, data) at pos
                     into a zero buffer of nbytes, and the buffer *)
Definition run_put_get (a : list Z) : list Z :=
  match a with
  | [pos; len; data; nbytes] =>
      let buf := put_bits (repeat 0 (Z.to_nat nbytes)) pos (Z.to_nat len) data in
      match get (Z.of_nat (length buf)) len (mk_reader buf pos) with
      | Some (v, _) => 1 :: v :: buf
      | None => 0 :: buf
      end
  | _ => [-2]
  end.

Definition run (cmd : Z) (a : list Z) : list Z :=
  if cmd =? 1 then run_reorder a
  else if cmd =? 2 then run_decode a
  else if cmd =? 3 then run_decode_trace a
  else if cmd =? 4 then run_put_get a
  else [-3].
