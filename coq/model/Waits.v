(* C04 model (device H): register_command_stream_util.get_wait_dependency as a step function, and
   the wait commands register_command_stream_generator.generate_command_stream emits around each
   operation (generate_cmd_waits, then the NPU_OP_* word).  The conflict relation is ABSTRACT
   ([conflict other cur] stands for  memory_accesses[other_op].conflicts(memory_accesses[npu_op]) ),
   so everything proved holds for every memory layout.  Executable definitions, no proofs.

   Python (register_command_stream_util.py:343):
       if isinstance(npu_op, NpuDmaOperation):
           outstanding_ops = outstanding_npu_ops
           outstanding_dma_ops.append(npu_op)
           if len(outstanding_dma_ops) > arch.max_outstanding_dma: outstanding_dma_ops.pop(0)
       else: (the same with dma/npu exchanged and max_outstanding_kernels)
       waits = -1
       for idx in range(len(outstanding_ops) - 1, -1, -1):
           waits += 1
           if memory_accesses[outstanding_ops[idx]].conflicts(op_accesses):
               kern_wait (DMA op) / dma_wait (kernel op) = waits
               for i in range(idx + 1): outstanding_ops.pop(0)
               break
       return Watermark(kern_wait, dma_wait)                                              *)
From Coq Require Import ZArith List Bool.
From VV Require Import hw.Queues.
Import ListNotations.
Open Scope Z_scope.

Section Waits.
  Variable op : Type.
  Variable is_dma : op -> bool.              (* isinstance(npu_op, NpuDmaOperation) *)
  Variable conflict : op -> op -> bool.      (* conflict other cur *)
  Variable max_dma : Z.                      (* arch.max_outstanding_dma *)
  Variable max_kern : Z.                     (* arch.max_outstanding_kernels *)

  (* the two lists generate_command_stream threads through the calls, oldest first *)
  Record wstate := WS { o_dma : list op; o_kern : list op }.
  Definition w_init : wstate := WS [] [].

  (* l.append(x); if len(l) > mx: l.pop(0) *)
  Definition push_bounded (l : list op) (x : op) (mx : Z) : list op :=
    let l' := l ++ [x] in
    if Z.of_nat (length l') >? mx then tl l' else l'.

  (* the loop over outstanding_ops from the newest to the oldest entry; [r] is the reversed list,
     [w] the value [waits] will have at the head of r *)
  Fixpoint scan (cur : op) (r : list op) (w : Z) : option Z :=
    match r with
    | [] => None
    | o :: t => if conflict o cur then Some w else scan cur t (w + 1)
    end.

  (* for i in range(idx + 1): pop(0)   with idx = len - 1 - waits : the newest [waits] entries stay *)
  Definition keep_newest (w : Z) (l : list op) : list op := skipn (length l - Z.to_nat w) l.

  (* returns the new state and Watermark(npu = kern_wait, dma = dma_wait) *)
  Definition step (s : wstate) (cur : op) : wstate * (Z * Z) :=
    if is_dma cur then
      let d := push_bounded (o_dma s) cur max_dma in
      match scan cur (rev (o_kern s)) 0 with
      | Some w => (WS d (keep_newest w (o_kern s)), (w, -1))
      | None => (WS d (o_kern s), (-1, -1))
      end
    else
      let k := push_bounded (o_kern s) cur max_kern in
      match scan cur (rev (o_dma s)) 0 with
      | Some w => (WS (keep_newest w (o_dma s)) k, (-1, w))
      | None => (WS (o_dma s) k, (-1, -1))
      end.

  (* generate_cmd_waits: KERNEL_WAIT if npu >= 0, then DMA_WAIT if dma >= 0 *)
  Definition wait_cmds (w : Z * Z) : list (qcmd op) :=
    (if 0 <=? fst w then [QWaitK (fst w)] else []) ++ (if 0 <=? snd w then [QWaitD (snd w)] else []).

  (* the wait / operation skeleton of the stream generate_command_stream emits for an op list *)
  Fixpoint emit (s : wstate) (ops : list op) : list (qcmd op) :=
    match ops with
    | [] => []
    | o :: t => let '(s', w) := step s o in wait_cmds w ++ QIssue o :: emit s' t
    end.

  (* the same run, returning the watermarks (for the correspondence harness) *)
  Fixpoint run_waits (s : wstate) (ops : list op) : list (Z * Z) :=
    match ops with
    | [] => []
    | o :: t => let '(s', w) := step s o in w :: run_waits s' t
    end.

  Fixpoint final_state (s : wstate) (ops : list op) : wstate :=
    match ops with
    | [] => s
    | o :: t => final_state (fst (step s o)) t
    end.
End Waits.

Arguments WS {op} o_dma o_kern.
Arguments o_dma {op} w.
Arguments o_kern {op} w.
Arguments w_init {op}.
