(* C07 -- hand model (device H) of the brick traversal `reorder` of
   /repo/ethosu/mlw_codec/mlw_encode.c (static int16_t* reorder(...), ~line 951).

   The C function walks ten nested loops and appends, for every visited position, either the
   source weight at (ofm_z, wy, wx, ifm_z) (read through the NumPy strides) or the constant 0.
   The model returns, in stream order, `Some (ofm_z, wy, wx, ifm_z)` for a position that is a
   copy of a source weight and `None` for a zero-padding position.  The loops, the clipping
   rules, the padding of the element count (part-kernel 16 bit: to 2, part-kernel 8 bit: to 4,
   depthwise: to 4) and the validity test of the innermost body are the ones of the C source,
   in the same order.  All integers are non-negative where C `/` and `%` are applied, so the
   floor division of Z coincides with the C operators.  NO proofs in this file. *)
From Coq Require Import ZArith List Bool.
Import ListNotations.
Open Scope Z_scope.

Record cfg := {
  ofm_depth : Z;        (* shape[0] of the OHWI volume *)
  kernel_h : Z;         (* shape[1] *)
  kernel_w : Z;         (* shape[2] *)
  ifm_depth : Z;        (* shape[3] *)
  ofm_ublock : Z;       (* ofm_ublock_depth *)
  ifm_ublock : Z;       (* ifm_ublock_depth *)
  ofm_block : Z;        (* ofm_block_depth *)
  is_dw : bool;         (* is_depthwise *)
  is_pk : bool;         (* is_partkernel *)
  bitdepth : Z;         (* ifm_bitdepth *)
  decomp_h : Z;
  decomp_w : Z }.

(* source position (ofm_z, wy, wx, ifm_z) *)
Definition idx := (Z * Z * Z * Z)%type.

(* 0, 1, ..., n-1 *)
Definition zrange (n : Z) : list Z := map Z.of_nat (seq 0 (Z.to_nat n)).

Definition cdiv (a b : Z) : Z := (a + b - 1) / b.          (* round_up_divide *)
Definition round_up (a b : Z) : Z := cdiv a b * b.

(* the values of x in  for (x = 0; x < n; x += s)  (s > 0) *)
Definition steps (n s : Z) : list Z := map (fun i => i * s) (zrange (cdiv n s)).

Definition ifm_block_depth (c : cfg) : Z := if is_pk c || (bitdepth c =? 16) then 16 else 32.

(* subkernel_elements after the padding rules *)
Definition sub_elements (c : cfg) (se : Z) : Z :=
  if is_pk c then
    if (bitdepth c =? 16) && negb (se mod 2 =? 0) then round_up se 2
    else if (bitdepth c =? 8) && negb (se mod 4 =? 0) then round_up se 4
    else se
  else if is_dw c then round_up se 4
  else se.

(* innermost body *)
Definition cell (c : cfg) (obz ibz sy sx sub_w sub_h iuo ou el iui ozz izz : Z) : option idx :=
  let kx := el mod sub_w in
  let ky := el / sub_w in
  let wx := sx + kx in
  let wy := sy + ky in
  let ifm_ublk := iui + iuo in
  let ifm_z := ibz + ifm_ublk + izz in
  let ofm_z := obz + ou + ozz in
  if (ifm_z <? ifm_depth c) && (ofm_z <? ofm_depth c) && (ky <? sub_h)
  then Some (ofm_z, wy, wx, ifm_z) else None.

(* for ifm_ublock_z *)
Definition lv_izz c obz ibz sy sx sub_w sub_h iuo ou el iui ozz : list (option idx) :=
  map (cell c obz ibz sy sx sub_w sub_h iuo ou el iui ozz) (zrange (if is_dw c then 1 else ifm_ublock c)).
(* for ofm_ublock_z *)
Definition lv_ozz c obz ibz sy sx sub_w sub_h iuo ou el iui : list (option idx) :=
  flat_map (lv_izz c obz ibz sy sx sub_w sub_h iuo ou el iui) (zrange (ofm_ublock c)).
(* for ifm_ublk_inner *)
Definition lv_iui c obz ibz sy sx sub_w sub_h inner iuo ou el : list (option idx) :=
  flat_map (lv_ozz c obz ibz sy sx sub_w sub_h iuo ou el) (steps inner (ifm_ublock c)).
(* for element *)
Definition lv_el c obz ibz sy sx sub_w sub_h se inner iuo ou : list (option idx) :=
  flat_map (lv_iui c obz ibz sy sx sub_w sub_h inner iuo ou) (zrange se).
(* for ofm_ublk *)
Definition lv_ou c obz cobd ibz sy sx sub_w sub_h se inner iuo : list (option idx) :=
  flat_map (lv_el c obz ibz sy sx sub_w sub_h se inner iuo) (steps cobd (ofm_ublock c)).
(* for ifm_ublk_outer *)
Definition lv_iuo c obz cobd ibz sy sx sub_w sub_h se outer inner : list (option idx) :=
  flat_map (lv_ou c obz cobd ibz sy sx sub_w sub_h se inner) (steps outer (ifm_ublock c)).
(* for subkernel_x *)
Definition lv_sx c obz cobd ibz cibd sy sub_h : list (option idx) :=
  flat_map (fun sx =>
    let sub_w := Z.min (kernel_w c - sx) (decomp_w c) in
    let se := sub_elements c (sub_w * sub_h) in
    let outer := if is_pk c then cibd else 1 in
    let inner := if is_pk c then 1 else cibd in
    lv_iuo c obz cobd ibz sy sx sub_w sub_h se outer inner) (steps (kernel_w c) (decomp_w c)).
(* for subkernel_y *)
Definition lv_sy c obz cobd ibz cibd : list (option idx) :=
  flat_map (fun sy => lv_sx c obz cobd ibz cibd sy (Z.min (kernel_h c - sy) (decomp_h c)))
           (steps (kernel_h c) (decomp_h c)).
(* for ifm_block_z *)
Definition lv_ibz c obz cobd : list (option idx) :=
  flat_map (fun ibz =>
    let cibd := if is_dw c then ifm_ublock c
                else if is_pk c then Z.min (ifm_block_depth c) (ifm_depth c - ibz)
                else ifm_block_depth c in
    lv_sy c obz cobd ibz cibd) (steps (if is_dw c then 1 else ifm_depth c) (ifm_block_depth c)).
(* for ofm_block_z : the whole function *)
Definition reorder (c : cfg) : list (option idx) :=
  flat_map (fun obz => lv_ibz c obz (Z.min (ofm_block c) (ofm_depth c - obz)))
           (steps (ofm_depth c) (ofm_block c)).

(* position of a source weight in a C-contiguous OHWI volume *)
Definition flat_index (c : cfg) (i : idx) : Z :=
  let '(oz, wy, wx, iz) := i in ((oz * kernel_h c + wy) * kernel_w c + wx) * ifm_depth c + iz.

Definition volume (c : cfg) : Z := ofm_depth c * kernel_h c * kernel_w c * ifm_depth c.

Definition reorder_flat (c : cfg) : list (option Z) := map (option_map (flat_index c)) (reorder c).

(* the reordered weight stream of a source volume given as its flat list of values *)
Definition apply_reorder (c : cfg) (w : list Z) : list Z :=
  map (fun o => match o with Some p => nth (Z.to_nat p) w 0 | None => 0 end) (reorder_flat c).

Definition in_volume (c : cfg) (i : idx) : Prop :=
  let '(oz, wy, wx, iz) := i in
  0 <= oz < ofm_depth c /\ 0 <= wy < kernel_h c /\ 0 <= wx < kernel_w c /\ 0 <= iz < ifm_depth c.

(* what the callers guarantee (weight_compressor.encode_weights, architecture_features):
   positive sizes; the ofm block depth is a multiple of the ofm micro-block depth, or there is a
   single ofm block (per-core block depth 4 on a two-core U65 occurs only for ofm depth <= 4);
   the ifm block depth (16 / 32) is a multiple of the ifm micro-block depth; depthwise volumes
   have ifm depth 1 and are never part-kernel-first *)
Definition valid_cfg (c : cfg) : Prop :=
  0 < ofm_depth c /\ 0 < kernel_h c /\ 0 < kernel_w c /\ 0 < ifm_depth c /\
  0 < ofm_ublock c /\ 0 < ifm_ublock c /\ 0 < ofm_block c /\ 0 < decomp_h c /\ 0 < decomp_w c /\
  (ofm_block c mod ofm_ublock c = 0 \/ ofm_depth c <= ofm_block c) /\ ifm_block_depth c mod ifm_ublock c = 0 /\
  (is_dw c = true -> ifm_depth c = 1 /\ is_pk c = false).

(* the documented nesting as a sort key of a source position, outermost loop first:
   [start of the ofm block; start of the ifm block; start of the sub-kernel in y; in x;
    ifm micro-block inside the ifm block (part-kernel-first only, else 0); ofm micro-block inside the
    ofm block; element number inside the sub-kernel (row-major over the clipped sub-kernel width);
    ifm micro-block inside the ifm block (depth-first only, else 0); ofm channel inside the
    micro-block; ifm channel inside the micro-block] *)
Definition order_key (c : cfg) (i : idx) : list Z :=
  let '(oz, wy, wx, iz) := i in
  let ibd := ifm_block_depth c in
  let sx := decomp_w c * (wx / decomp_w c) in
  let sub_w := Z.min (kernel_w c - sx) (decomp_w c) in
  let ro := oz mod ofm_block c in
  let ri := iz mod ibd in
  let iub := ifm_ublock c * (ri / ifm_ublock c) in
  [ ofm_block c * (oz / ofm_block c); ibd * (iz / ibd);
    decomp_h c * (wy / decomp_h c); sx;
    (if is_pk c then iub else 0);
    ofm_ublock c * (ro / ofm_ublock c);
    (wy mod decomp_h c) * sub_w + (wx mod decomp_w c);
    (if is_pk c then 0 else iub);
    ro mod ofm_ublock c; ri mod ifm_ublock c ].

Fixpoint lex_lt (a b : list Z) : Prop :=
  match a, b with
  | x :: a', y :: b' => x < y \/ (x = y /\ lex_lt a' b')
  | _, _ => False
  end.

Fixpoint lex_ltb (a b : list Z) : bool :=
  match a, b with
  | x :: a', y :: b' => (x <? y) || ((x =? y) && lex_ltb a' b')
  | _, _ => false
  end.

Fixpoint somes {A : Type} (l : list (option A)) : list A :=
  match l with
  | [] => []
  | Some a :: t => a :: somes t
  | None :: t => somes t
  end.
