(* Flat integer interface of the WLayout model for the correspondence harness (build/wLayout).
   Results of partial functions start with 1 (Some) or 0 (None = the Python raises). *)
From Coq Require Import ZArith List Bool.
From VV Require Import lib.PyInt gen.GenWLayout model.WLayout.
Import ListNotations.
Open Scope Z_scope.

Fixpoint take_n (n : nat) (a : list Z) : list Z * list Z :=
  match n, a with
  | S n', x :: t => let '(xs, r) := take_n n' t in (x :: xs, r)
  | _, _ => ([], a)
  end.
Fixpoint take_pairs (n : nat) (a : list Z) : list (Z * Z) * list Z :=
  match n, a with
  | S n', x :: y :: t => let '(ps, r) := take_pairs n' t in ((x, y) :: ps, r)
  | _, _ => ([], a)
  end.
(* counted list: n x1 .. xn *)
Definition take_list (a : list Z) : list Z * list Z :=
  match a with n :: t => take_n (Z.to_nat n) t | [] => ([], []) end.
Definition take_plist (a : list Z) : list (Z * Z) * list Z :=
  match a with n :: t => take_pairs (Z.to_nat n) t | [] => ([], []) end.

Definition opt_list (o : option (list Z)) : list Z := match o with Some l => 1 :: l | None => [0] end.

(* CMD encode_bias = 1 : bias scale shift -> 1 b0 .. b9 | 0 *)
Definition run_encode_bias (a : list Z) : list Z :=
  match a with [b; s; sh] => opt_list (encode_bias b s sh) | _ => [-1] end.

(* CMD decode_bias = 2 : b0 .. b9 -> 1 bias scale shift | 0 *)
Definition run_decode_bias (a : list Z) : list Z :=
  match decode_bias a with Some (b, s, sh) => [1; b; s; sh] | None => [0] end.

(* CMD gen_encode_bias = 3 : bias scale shift -> the same through the translated source function *)
Definition run_gen_encode_bias (a : list Z) : list Z :=
  match a with [b; s; sh] => opt_list (GenWLayout.encode_bias b s sh) | _ => [-1] end.

Definition flat_range (r : wrange) : list Z :=
  [r_core r; r_depth r; r_offset r; r_scale_bytes r; r_weight_offset r; r_weight_bytes r; r_index r].
Fixpoint take_ranges (n : nat) (a : list Z) : list wrange * list Z :=
  match n, a with
  | S n', c :: d :: o :: sb :: wo :: wb :: i :: t => let '(rs, r) := take_ranges n' t in (mkR c d o sb wo wb i :: rs, r)
  | _, _ => ([], a)
  end.
Definition take_rlist (a : list Z) : list wrange * list Z :=
  match a with n :: t => take_ranges (Z.to_nat n) t | [] => ([], []) end.

(* codec table: (core d len nbytes byte* )* *)
Fixpoint take_tab (n : nat) (a : list Z) : list (Z * Z * Z * list Z) * list Z :=
  match n, a with
  | S n', c :: d :: len :: nb :: t =>
      let '(bs, t1) := take_n (Z.to_nat nb) t in
      let '(tab, r) := take_tab n' t1 in ((c, d, len, bs) :: tab, r)
  | _, _ => ([], a)
  end.
Fixpoint tab_get (tab : list (Z * Z * Z * list Z)) (core d len : Z) : list Z :=
  match tab with
  | [] => []
  | (c, d', len', bs) :: t => if (c =? core) && (d' =? d) && (len' =? len) then bs else tab_get t core d len
  end.

(* CMD layout = 4 : ncores N bd do_w away nbias | nb b* | nq (m s)* | noffs o* | ntab (core d len nbytes byte* )*
   -> 0 | 1 len db0 db1 nranges (core depth offset scale_bytes weight_offset weight_bytes index)* buffer *)
Definition run_layout (a : list Z) : list Z :=
  match a with
  | ncores :: n :: bd :: dow :: away :: nbias :: t =>
      let '(bs, t1) := take_list t in
      let '(q, t2) := take_plist t1 in
      let '(offs, t3) := take_list t2 in
      let '(tab, _) := match t3 with nt :: t4 => take_tab (Z.to_nat nt) t4 | [] => ([], []) end in
      let qs := prepare_scales q (negb (away =? 0)) nbias in
      match encode_layout (fun c d len _ => tab_get tab c d len) ncores n bd (negb (dow =? 0)) bs qs offs with
      | None => [0]
      | Some t =>
          1 :: zlen (t_buffer t) :: fst (t_db t) :: snd (t_db t) :: zlen (t_ranges t) ::
            flat_map flat_range (t_ranges t) ++ t_buffer t
      end
  | _ => [-1]
  end.

Definition flat_pairs (l : list (Z * Z)) : list Z := flat_map (fun p => [fst p; snd p]) l.

(* CMD create_weights = 5 : ncores d buffered w_addr has_scale_tensor s_addr | nwr (range)* | nsr (range)*
   -> 0 | 1 nw (addr len)* nb (addr len)* *)
Definition run_create_weights (a : list Z) : list Z :=
  match a with
  | ncores :: d :: buffered :: w_addr :: has_sc :: s_addr :: t =>
      let '(wr, t1) := take_rlist t in
      let '(sr, _) := take_rlist t1 in
      match create_weights ncores wr d (negb (buffered =? 0)) w_addr
                           (if has_sc =? 0 then None else Some (sr, s_addr)) with
      | None => [0]
      | Some (ws, bs) => 1 :: zlen ws :: flat_pairs ws ++ zlen bs :: flat_pairs bs
      end
  | _ => [-1]
  end.

(* CMD create_dma = 6 : ncores d in_addr | nwr (range)* -> 0 | 1 src sz *)
Definition run_create_dma (a : list Z) : list Z :=
  match a with
  | ncores :: d :: in_addr :: t =>
      let '(wr, _) := take_rlist t in
      match create_dma ncores wr d in_addr with Some (src, sz) => [1; src; sz] | None => [0] end
  | _ => [-1]
  end.

(* one request: block_type bd N dilx dily ncores ifm_bits accel flip weights_id wvid svid ifm_scale ofm_scale
                | noffs o* | nb b* | nq (m s)* *)
Definition take_request (a : list Z) : option request * list Z :=
  match a with
  | bt :: bd :: n :: dx :: dy :: nc :: ib :: acc :: fl :: wid :: wvid :: svid :: isc :: osc :: t =>
      let '(offs, t1) := take_list t in
      let '(bs, t2) := take_list t1 in
      let '(q, t3) := take_plist t2 in
      (Some (mkQ (mkWP bt bd n offs dx dy nc ib acc (negb (fl =? 0)) wid) wvid svid isc osc bs q), t3)
  | _ => (None, a)
  end.
Fixpoint take_requests (n : nat) (a : list Z) : list request :=
  match n with
  | O => []
  | S n' => match take_request a with (Some q, t) => q :: take_requests n' t | (None, _) => [] end
  end.

(* the codec of the history runs stamps every weight section with the content id of the request that
   produced it (16 bytes), so the origin of a reused tensor is visible in the result *)
Definition stamp_codec (w : wparams) (_ _ _ _ : Z) : list Z := repeat (wp_weights w) 16.

Definition flat_eff (e : Z * Z * option (list Z) * list Z) : list Z :=
  let '(c, d, s, w) := e in
  c :: d :: match s with Some bs => zlen bs :: bs | None => [-1] end ++ [match w with x :: _ => x | [] => -1 end].

(* kind: 1 = encoded (miss), 2 = hit with equal scale config, 3 = hit + fresh scale-only tensor *)
Fixpoint run_hist (c : cache) (h : list request) : list Z :=
  match h with
  | [] => []
  | q :: t =>
      let kind := match cache_get c (wkey_of q) with
                  | Some e => if skey_eqb (e_scc e) (skey_of q) then 2 else 3
                  | None => 1
                  end in
      match respond stamp_codec wkey_of c q with
      | None => [0]
      | Some (c', r) =>
          let eff := effective r in
          kind :: zlen eff :: flat_map flat_eff eff ++ run_hist c' t
      end
  end.

(* CMD cache_run = 7 : nreq (request)* -> per response: kind nkeys (core depth nscale scale_bytes* first_weight_byte)*,
   a failing request ends the output with 0 *)
Definition run_cache_run (a : list Z) : list Z :=
  match a with
  | n :: t => run_hist [] (take_requests (Z.to_nat n) t)
  | _ => [-1]
  end.

(* CMD channels = 8 : ncores N bd nchan | noffs o* -> per section: core d len | ncode code_channels* | nspec spec_channels* *)
Definition run_channels (a : list Z) : list Z :=
  match a with
  | ncores :: n :: bd :: nchan :: t =>
      let '(offs, _) := take_list t in
      flat_map (fun sec =>
                  let '(c, d, len) := sec in
                  let cc := code_channels ncores nchan sec in
                  let sc := spec_channels ncores sec in
                  c :: d :: len :: zlen cc :: cc ++ zlen sc :: sc)
               (sections ncores n bd offs)
  | _ => [-1]
  end.

(* CMD buffer_sizes = 9 : buflen db0 db1 -> max_range_bytes single_buffer_size *)
Definition run_buffer_sizes (a : list Z) : list Z :=
  match a with
  | [buflen; d0; d1] => [max_range_bytes (d0, d1); single_buffer_size buflen (d0, d1)]
  | _ => [-1]
  end.

Definition run (cmd : Z) (a : list Z) : list Z :=
  if cmd =? 1 then run_encode_bias a
  else if cmd =? 2 then run_decode_bias a
  else if cmd =? 3 then run_gen_encode_bias a
  else if cmd =? 4 then run_layout a
  else if cmd =? 5 then run_create_weights a
  else if cmd =? 6 then run_create_dma a
  else if cmd =? 7 then run_cache_run a
  else if cmd =? 8 then run_channels a
  else if cmd =? 9 then run_buffer_sizes a
  else [-1].
