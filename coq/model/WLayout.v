(* C08 -- executable model of the weight/scale tensor layout of ethosu/vela/weight_compressor.py
   (encode_bias, the slice/core loop of encode_weight_and_scale_tensor, the tail of _prepare_scale_and_bias,
   CompressedWeightCache + create_weight_compression_config) and of the address derivation in
   high_level_command_to_npu_op.py (create_weights, create_dma_op).  NO proofs in this file.

   The weight codec (encode_weights -> mlw_codec.reorder_encode) is NOT modelled: it is the Section
   variable `enc`, of which the theorems assume only that the returned length is a multiple of 16
   (C07's subject).  Errors (AssertionError, IndexError, KeyError, UnboundLocalError) are `None`. *)
From Coq Require Import ZArith List Bool.
From VV Require Import lib.PyInt.
Import ListNotations.
Open Scope Z_scope.

Definition zlen {A : Type} (l : list A) : Z := Z.of_nat (length l).
Definition round_up (a b : Z) : Z := ((a + b - 1) / b) * b.

(* ------------------------------------------------------------------ encode_bias (hand twin of gen/GenWLayout.v) *)
Definition byte_at (x k : Z) : Z := Z.land (Z.shiftr x (k * 8)) 255.

Definition encode_bias (bias scale shift : Z) : option (list Z) :=
  if (-549755813888 <=? bias) && (bias <? 549755813888) then
    if (0 <=? scale) && (scale <? 4294967296) then
      if (0 <=? shift) && (shift <? 64) then
        Some [byte_at bias 0; byte_at bias 1; byte_at bias 2; byte_at bias 3; byte_at bias 4;
              byte_at scale 0; byte_at scale 1; byte_at scale 2; byte_at scale 3; Z.land shift 63]
      else None
    else None
  else None.

(* the reader of a record as the hardware documentation states it:
   [0 (2 bits), shift (6 bits), scale (32 bits), bias (40 bits, two's complement)], little endian *)
Definition le_bytes (bs : list Z) : Z := fold_right (fun b acc => b + 256 * acc) 0 bs.
Definition decode_bias (bs : list Z) : option (Z * Z * Z) :=
  match bs with
  | [b0; b1; b2; b3; b4; s0; s1; s2; s3; sh] =>
      let u := le_bytes [b0; b1; b2; b3; b4] in
      Some (if u <? 549755813888 then u else u - 1099511627776, le_bytes [s0; s1; s2; s3], Z.land sh 63)
  | _ => None
  end.

(* ------------------------------------------------------------------ Python slicing  l[a:b:n]  (n > 0) *)
Definition zrange (lo hi st : Z) : list Z :=
  map (fun k => lo + Z.of_nat k * st) (seq 0 (Z.to_nat (range_len lo hi st))).
Definition zseq (lo n : Z) : list Z := zrange lo (lo + n) 1.
(* slice.indices(): a negative bound counts from the end, then both are clamped into [0, len] *)
Definition py_norm (x len : Z) : Z := if x <? 0 then Z.max 0 (x + len) else Z.min x len.
Definition slice_idx (a b n len : Z) : list Z := zrange (py_norm a len) (py_norm b len) n.
Definition nth_list {A : Type} (l : list A) (i : Z) : list A :=
  match nth_error l (Z.to_nat i) with Some x => [x] | None => [] end.
Definition py_slice {A : Type} (l : list A) (a b n : Z) : list A :=
  flat_map (nth_list l) (slice_idx a b n (zlen l)).

(* ------------------------------------------------------------------ tail of _prepare_scale_and_bias *)
(* qscales: the (scale, shift) pairs from quantise_scale / reduced_quantise_scale / explicit scaling (C09's subject) *)
Definition prepare_scales (qscales : list (Z * Z)) (away_zero : bool) (nbias : Z) : list (Z * Z) :=
  let q1 := if away_zero then map (fun p => (fst p + 1, snd p)) qscales else qscales in
  match q1 with
  | [x] => repeat x (Z.to_nat nbias)
  | _ => q1
  end.

(* ------------------------------------------------------------------ WeightRange, encoded_ranges (OrderedDict) *)
Record wrange := mkR { r_core : Z; r_depth : Z; r_offset : Z; r_scale_bytes : Z; r_weight_offset : Z;
                       r_weight_bytes : Z; r_index : Z }.

Definition key_eqb (x : wrange) (core depth : Z) : bool := (r_core x =? core) && (r_depth x =? depth).

(* d[key] = value : replaces in place when the key exists, else appends *)
Fixpoint od_set (rs : list wrange) (r : wrange) : list wrange :=
  match rs with
  | [] => [r]
  | x :: t => if key_eqb x (r_core r) (r_depth r) then r :: t else x :: od_set t r
  end.
Fixpoint od_get (rs : list wrange) (core depth : Z) : option wrange :=
  match rs with
  | [] => None
  | x :: t => if key_eqb x core depth then Some x else od_get t core depth
  end.

(* for j, core_bias in enumerate(core_biases): scale_stream.extend(encode_bias(np.int64(core_bias), *core_scales[j])) *)
Fixpoint scale_stream (cb : list Z) (cs : list (Z * Z)) : option (list Z) :=
  match cb with
  | [] => Some []
  | b :: cb' =>
      match cs with
      | [] => None
      | (m, sh) :: cs' =>
          match encode_bias b m sh with
          | None => None
          | Some r => match scale_stream cb' cs' with None => None | Some t => Some (r ++ t) end
          end
      end
  end.

Definition pad16 (s : list Z) : list Z :=
  let r := zlen s mod 16 in if r >? 0 then s ++ repeat 0 (Z.to_nat (16 - r)) else s.

Record st := mkSt { s_stream : list Z; s_ranges : list wrange; s_index : Z }.
Record tensor := mkT { t_buffer : list Z; t_ranges : list wrange; t_db : Z * Z }.

Definition db_update (db : Z * Z) (idx sz : Z) : Z * Z :=
  if idx mod 2 =? 0 then (Z.max (fst db) sz, snd db) else (fst db, Z.max (snd db) sz).
Definition db_get (db : Z * Z) (idx : Z) : Z := if idx mod 2 =? 0 then fst db else snd db.

(* NpuWeightTensor.max_range_bytes() and the size scheduler.propose_weight_buffering gives a SINGLE (not double) weight
   buffer since repo commit 375f89a: min(len(buffer), max_range_bytes()); a double buffer i has double_buffer_sizes[i] *)
Definition max_range_bytes (db : Z * Z) : Z := Z.max (fst db) (snd db).
Definition single_buffer_size (buflen : Z) (db : Z * Z) : Z := Z.min buflen (max_range_bytes db).

Definition core_block_depth (ncores bd core : Z) : Z := (bd + ncores - 1 - core) / ncores.

Section Layout.
  (* the codec: (core, depth_offset, depth_length, core_block_depth) -> encoded substream *)
  Variable enc : Z -> Z -> Z -> Z -> list Z.
  Variables (ncores full_depth bd : Z) (do_w : bool) (biases : list Z) (qs : list (Z * Z)).

  Definition core_step (d len core : Z) (s : st) : option st :=
    let cbd := core_block_depth ncores bd core in
    if cbd =? 0 then Some s
    else
      let off := zlen (s_stream s) in
      let cs := py_slice qs (d + core) (d + core + len) ncores in
      let cb := py_slice biases (d + core) (d + core + len) ncores in
      match scale_stream cb cs with
      | None => None
      | Some ss =>
          let s1 := pad16 (s_stream s ++ ss) in
          if do_w then
            let e := enc core d len cbd in
            let s2 := s1 ++ e in
            if zlen s2 mod 16 =? 0 then
              Some (mkSt s2 (od_set (s_ranges s) (mkR core d off (zlen ss) (zlen s1 - off) (zlen e) (s_index s)))
                         (s_index s + 1))
            else None
          else
            Some (mkSt s1 (od_set (s_ranges s) (mkR core d off (zlen ss) 0 0 (s_index s))) (s_index s + 1))
      end.

  Fixpoint cores_loop (d len : Z) (cores : list Z) (s : st) : option st :=
    match cores with
    | [] => Some s
    | c :: t => match core_step d len c s with Some s' => cores_loop d len t s' | None => None end
    end.

  Definition cores : list Z := zseq 0 (Z.min ncores full_depth).

  Definition slice_step (idx d dnext : Z) (s : st) (db : Z * Z) : option (st * (Z * Z)) :=
    if (0 <=? d) && (d <? full_depth) then
      let start := zlen (s_stream s) in
      match cores_loop d (dnext - d) cores s with
      | None => None
      | Some s' => Some (s', db_update db idx (zlen (s_stream s') - start))
      end
    else None.

  Fixpoint slices_loop (offs : list Z) (idx : Z) (s : st) (db : Z * Z) : option (st * (Z * Z)) :=
    match offs with
    | d :: rest =>
        match rest with
        | dnext :: _ =>
            match slice_step idx d dnext s db with
            | None => None
            | Some (s', db') => slices_loop rest (idx + 1) s' db'
            end
        | [] => Some (s, db)
        end
    | [] => Some (s, db)
    end.

  Definition encode_layout (offs : list Z) : option tensor :=
    if zlen offs <=? 1 then None
    else match slices_loop offs 0 (mkSt [] [] 0) (0, 0) with
         | None => None
         | Some (s, db) => Some (mkT (s_stream s) (s_ranges s) db)
         end.
End Layout.

(* ------------------------------------------------------------------ specification vocabulary (used by the theorems) *)
(* the (core, slice) sections in stream order *)
Definition active_cores (ncores full_depth bd : Z) : list Z :=
  filter (fun c => negb (core_block_depth ncores bd c =? 0)) (cores ncores full_depth).
Fixpoint slice_pairs (offs : list Z) : list (Z * Z) :=
  match offs with
  | d :: rest => match rest with dnext :: _ => (d, dnext - d) :: slice_pairs rest | [] => [] end
  | [] => []
  end.
Definition slice_sections (ncores full_depth bd : Z) (p : Z * Z) : list (Z * Z * Z) :=
  map (fun c => (c, fst p, snd p)) (active_cores ncores full_depth bd).
Definition sections (ncores full_depth bd : Z) (offs : list Z) : list (Z * Z * Z) :=
  flat_map (slice_sections ncores full_depth bd) (slice_pairs offs).
(* channels the property assigns to (core, slice [d, d+len)): d+core, d+core+ncores, ... below d+len *)
Definition spec_channels (ncores : Z) (sec : Z * Z * Z) : list Z :=
  let '(core, d, len) := sec in filter (fun c => (c - d) mod ncores =? core) (zseq d len).
(* channels the code takes: indices of the Python slice [d+core : d+core+len : ncores] of a list of n elements *)
Definition code_channels (ncores n : Z) (sec : Z * Z * Z) : list Z :=
  let '(core, d, len) := sec in slice_idx (d + core) (d + core + len) ncores n.
Definition records (biases : list Z) (qs : list (Z * Z)) (chans : list Z) : option (list Z) :=
  scale_stream (flat_map (nth_list biases) chans) (flat_map (nth_list qs) chans).
Definition sub (s : list Z) (off n : Z) : list Z := firstn (Z.to_nat n) (skipn (Z.to_nat off) s).
Definition ext (r : wrange) : Z := round_up (r_scale_bytes r) 16 + r_weight_bytes r.
Definition total_ext (rs : list wrange) : Z := fold_right (fun r a => ext r + a) 0 rs.
Fixpoint strictly_increasing (l : list Z) : Prop :=
  match l with
  | a :: t => match t with b :: _ => a < b /\ strictly_increasing t | [] => True end
  | [] => True
  end.
Fixpoint strictly_increasing_b (l : list Z) : bool :=
  match l with
  | a :: t => match t with b :: _ => (a <? b) && strictly_increasing_b t | [] => true end
  | [] => true
  end.

(* ------------------------------------------------------------------ create_weights / create_dma_op *)
Section Addr.
  Variables (wr : list wrange) (d : Z).

  (* returns (weights ranges, bias ranges) as (address, length) per core that has a range *)
  Fixpoint cw_loop (cs : list Z) (buffered : bool) (w_addr : Z) (sc : option (list wrange * Z)) (core_offset : Z)
    : option (list (Z * Z) * list (Z * Z)) :=
    match cs with
    | [] => Some ([], [])
    | c :: t =>
        match od_get wr c d with
        | None => cw_loop t buffered w_addr sc core_offset
        | Some r =>
            let address := if buffered then w_addr + core_offset else w_addr + r_offset r in
            let core_offset' := if buffered then core_offset + round_up (r_scale_bytes r + r_weight_bytes r) 16
                                else core_offset in
            let w := (address + r_weight_offset r, round_up (r_weight_bytes r) 16) in
            let b := match sc with
                     | Some (srs, s_addr) =>
                         match od_get srs c d with
                         | Some sr => Some (s_addr + r_offset sr, round_up (r_scale_bytes sr) 16)
                         | None => None
                         end
                     | None => Some (address, round_up (r_scale_bytes r) 16)
                     end in
            match b with
            | None => None
            | Some b' =>
                match cw_loop t buffered w_addr sc core_offset' with
                | Some (ws, bs) => Some (w :: ws, b' :: bs)
                | None => None
                end
            end
        end
    end.

  Fixpoint dma_loop (cs : list Z) (in_addr : Z) (sz : Z) (src : option Z) : Z * option Z :=
    match cs with
    | [] => (sz, src)
    | c :: t =>
        match od_get wr c d with
        | None => dma_loop t in_addr sz src
        | Some r =>
            dma_loop t in_addr (sz + round_up (r_scale_bytes r + r_weight_bytes r) 16)
                     (if c =? 0 then Some (in_addr + r_offset r) else src)
        end
    end.
End Addr.

Definition create_weights (ncores : Z) (wr : list wrange) (d : Z) (buffered : bool) (w_addr : Z)
           (sc : option (list wrange * Z)) : option (list (Z * Z) * list (Z * Z)) :=
  cw_loop wr d (zseq 0 ncores) buffered w_addr sc 0.

(* (src address, length) of the weight DMA of the slice starting at channel d *)
Definition create_dma (ncores : Z) (wr : list wrange) (d : Z) (in_addr : Z) : option (Z * Z) :=
  match dma_loop wr d (zseq 0 ncores) in_addr 0 None with
  | (sz, Some src) => Some (src, sz)
  | (_, None) => None
  end.

(* ------------------------------------------------------------------ CompressedWeightCache *)
(* Everything the weight stream of a request depends on.  wp_weights stands for the weight values, their
   shape and zero point (one integer per distinct content); wp_accel for the accelerator configuration
   (micro-block depths); floats are identified with an integer code (their bit pattern). *)
Record wparams := mkWP { wp_block_type : Z; wp_block_depth : Z; wp_ofm_depth : Z; wp_slices : list Z;
                         wp_dil_x : Z; wp_dil_y : Z; wp_ncores : Z; wp_ifm_bits : Z; wp_accel : Z;
                         wp_flip : bool; wp_weights : Z }.
Record request := mkQ { q_wp : wparams; q_weight_vid : Z;
                        q_scale_vid : Z; q_ifm_scale : Z; q_ofm_scale : Z;
                        q_biases : list Z; q_qscales : list (Z * Z) }.

(* WeightCompressionConfig(npu_block_type, min(block depth, ofm depth), hash(str(depth_offsets)), dilation, value_id,
                           ifm_bitdepth, flipped)   [the last two fields since repo commit 845322f];
   the string hash is modelled as injective (the list itself) *)
Definition wkey : Type := (Z * Z * list Z * (Z * Z) * Z * Z * bool)%type.
Definition wkey_of (q : request) : wkey :=
  let w := q_wp q in
  (wp_block_type w, Z.min (wp_block_depth w) (wp_ofm_depth w), wp_slices w, (wp_dil_x w, wp_dil_y w), q_weight_vid q,
   wp_ifm_bits w, wp_flip w).
(* the key function before 845322f (no IFM bit depth, no flip): kept for the refutation that motivated the repair *)
Definition wkey_of_old (q : request) : wkey :=
  let w := q_wp q in
  (wp_block_type w, Z.min (wp_block_depth w) (wp_ofm_depth w), wp_slices w, (wp_dil_x w, wp_dil_y w), q_weight_vid q,
   0, false).
(* ScaleCompressionConfig(scale value_id, ifm_scale, ofm_scale) *)
Definition skey : Type := (Z * Z * Z)%type.
Definition skey_of (q : request) : skey := (q_scale_vid q, q_ifm_scale q, q_ofm_scale q).

Fixpoint list_eqb (a b : list Z) : bool :=
  match a, b with
  | [], [] => true
  | x :: a', y :: b' => (x =? y) && list_eqb a' b'
  | _, _ => false
  end.
Definition wkey_eqb (a b : wkey) : bool :=
  let '(a1, a2, a3, (a4, a5), a6, a7, a8) := a in
  let '(b1, b2, b3, (b4, b5), b6, b7, b8) := b in
  (a1 =? b1) && (a2 =? b2) && list_eqb a3 b3 && (a4 =? b4) && (a5 =? b5) && (a6 =? b6) && (a7 =? b7) && Bool.eqb a8 b8.
Definition skey_eqb (a b : skey) : bool :=
  let '(a1, a2, a3) := a in let '(b1, b2, b3) := b in (a1 =? b1) && (a2 =? b2) && (a3 =? b3).

Record centry := mkE { e_key : wkey; e_tensor : tensor; e_scc : skey }.
Definition cache := list centry.
Fixpoint cache_get (c : cache) (k : wkey) : option centry :=
  match c with
  | [] => None
  | e :: t => if wkey_eqb (e_key e) k then Some e else cache_get t k
  end.
Fixpoint cache_set (c : cache) (e : centry) : cache :=
  match c with
  | [] => [e]
  | x :: t => if wkey_eqb (e_key x) (e_key e) then e :: t else x :: cache_set t e
  end.

Section Cache.
  (* the codec as a function of the true inputs of the weight stream *)
  Variable codec : wparams -> Z -> Z -> Z -> Z -> list Z.
  (* the key function: wkey_of for the code that exists *)
  Variable keyf : request -> wkey.

  Definition encode_req (q : request) (do_w : bool) : option tensor :=
    let w := q_wp q in
    encode_layout (codec w) (wp_ncores w) (wp_ofm_depth w) (wp_block_depth w) do_w (q_biases q) (q_qscales q)
                  (wp_slices w).

  (* (weights tensor, optional scale-only tensor) as returned by encode_weight_and_scale_tensor *)
  Definition response : Type := (tensor * option tensor)%type.

  Definition respond (c : cache) (q : request) : option (cache * response) :=
    match cache_get c (keyf q) with
    | Some e =>
        if skey_eqb (e_scc e) (skey_of q) then Some (c, (e_tensor e, None))
        else match encode_req q false with
             | Some t => Some (c, (e_tensor e, Some t))
             | None => None
             end
    | None =>
        match encode_req q true with
        | Some t => Some (cache_set c (mkE (keyf q) t (skey_of q)), (t, None))
        | None => None
        end
    end.

  Fixpoint run (c : cache) (h : list request) : option (list response) :=
    match h with
    | [] => Some []
    | q :: t =>
        match respond c q with
        | None => None
        | Some (c', r) => match run c' t with Some rs => Some (r :: rs) | None => None end
        end
    end.

  (* what a fresh encoding (empty cache) returns *)
  Definition fresh (q : request) : option response :=
    match encode_req q true with Some t => Some (t, None) | None => None end.

  (* the bytes the NPU will be pointed at, per (core, depth) key of the weights tensor, following create_weights:
     weight section from the weights tensor, scale section from the scale tensor when there is one *)
  Definition effective (r : response) : list (Z * Z * option (list Z) * list Z) :=
    let '(tw, ts) := r in
    map (fun x =>
           (r_core x, r_depth x,
            match ts with
            | None => Some (sub (t_buffer tw) (r_offset x) (r_scale_bytes x))
            | Some t' => match od_get (t_ranges t') (r_core x) (r_depth x) with
                         | Some y => Some (sub (t_buffer t') (r_offset y) (r_scale_bytes y))
                         | None => None
                         end
            end,
            sub (t_buffer tw) (r_offset x + r_weight_offset x) (r_weight_bytes x)))
        (t_ranges tw).
End Cache.
