(* C06 -- executable model of CommandStreamEmitter / RegisterMachine
   (ethosu/vela/register_command_stream_generator.py lines 99-225), of the framing of
   generate_command_stream (lines 1041-1113), of the derived register fields written by the generate_*
   functions and of the check_* alignment guards (register_command_stream_util.py).
   Hand model (device H): tied to the source by the correspondence runs of tools/checks/c06.py; the opcode
   classification ("DMA" in cmd.name), the payload bit, the word size and n_banks come from
   gen/GenEmitTables.v, regenerated from the source by introspection on every run.
   Executable definitions only; proofs are in proofs/EmitProofs.v. *)
From Coq Require Import ZArith List Bool.
From VV Require Import lib.PyInt gen.GenTables gen.GenEmitTables hw.Npu.
Import ListNotations.
Open Scope Z_scope.

Definition word := Z.

(* ------------------------------------------------------------------ RegisterMachine *)
(* keys of the `registers` dict are enum members: cmd0.X and cmd1.Y never compare equal *)
Inductive rkey := K0 (code : Z) | K1 (code : Z).
Definition rkey_eqb (a b : rkey) : bool :=
  match a, b with
  | K0 x, K0 y => x =? y
  | K1 x, K1 y => x =? y
  | _, _ => false
  end.

(* the value kept per register is the tuple (command word, param-or-offset) *)
Definition rval := (Z * Z)%type.
Definition rval_eqb (a b : rval) : bool := (fst a =? fst b) && (snd a =? snd b).

(* defaultdict(lambda: None): an absent key reads None *)
Definition regmap := list (rkey * rval).
Fixpoint rm_get (k : rkey) (m : regmap) : option rval :=
  match m with
  | [] => None
  | (k', v) :: t => if rkey_eqb k' k then Some v else rm_get k t
  end.
Fixpoint rm_put (k : rkey) (v : rval) (m : regmap) : regmap :=
  match m with
  | [] => [(k, v)]
  | (k', v') :: t => if rkey_eqb k' k then (k, v) :: t else (k', v') :: rm_put k v t
  end.

Record regmachine := { rm_banks : list regmap; rm_idx : Z }.

Definition n_banks : Z := emit_n_banks.
Definition rm_init : regmachine := {| rm_banks := repeat [] (Z.to_nat n_banks); rm_idx := 0 |}.

Fixpoint set_nth {A : Type} (n : nat) (x : A) (l : list A) : list A :=
  match l, n with
  | [], _ => []
  | _ :: t, O => x :: t
  | h :: t, S n' => h :: set_nth n' x t
  end.

Definition cur_bank (rm : regmachine) : regmap := nth (Z.to_nat (rm_idx rm)) (rm_banks rm) [].

(* set_register: is_changed = registers[bank_idx][reg] != value; registers[bank_idx][reg] = value *)
Definition set_register (rm : regmachine) (k : rkey) (v : rval) : regmachine * bool :=
  let changed := match rm_get k (cur_bank rm) with Some old => negb (rval_eqb old v) | None => true end in
  ({| rm_banks := set_nth (Z.to_nat (rm_idx rm)) (rm_put k v (cur_bank rm)) (rm_banks rm); rm_idx := rm_idx rm |},
   changed).

(* switch_bank: bank_idx = (bank_idx + 1) % n_banks *)
Definition switch_bank (rm : regmachine) : regmachine :=
  {| rm_banks := rm_banks rm; rm_idx := (rm_idx rm + 1) mod n_banks |}.

(* ------------------------------------------------------------------ CommandStreamEmitter *)
(* reg_machine = [RegisterMachine(), RegisterMachine()]; get_reg_machine: index 1 iff "DMA" in cmd.name *)
Record est := { e_rm0 : regmachine; e_rm1 : regmachine; e_offset : Z }.
Definition est_init : est := {| e_rm0 := rm_init; e_rm1 := rm_init; e_offset := 0 |}.

Fixpoint tab_get (c : Z) (t : list (Z * bool)) : bool :=
  match t with [] => false | (c', b) :: r => if c' =? c then b else tab_get c r end.
Definition is_dma0 (code : Z) : bool := tab_get code cmd0_dma_table.
Definition is_dma1 (code : Z) : bool := tab_get code cmd1_dma_table.

Inductive call :=
| Cmd0 (code param : Z)                 (* cmd0_with_param(cmd, param), param already int *)
| Cmd1Offset (code offset param : Z)    (* cmd1_with_offset(cmd, offset, param) *)
| Cmd1Address (code addr : Z)           (* cmd1_with_address(cmd, offset) *)
| Wait (code channel count : Z)         (* cmd_wait(cmd, channel, outstanding_count) *)
| DoOp (code param : Z).                (* cmd_do_operation(cmd, param) *)

Definition sel_machine (s : est) (dma : bool) : regmachine := if dma then e_rm1 s else e_rm0 s.
Definition upd_machine (s : est) (dma : bool) (rm : regmachine) : est :=
  if dma then {| e_rm0 := e_rm0 s; e_rm1 := rm; e_offset := e_offset s |}
  else {| e_rm0 := rm; e_rm1 := e_rm1 s; e_offset := e_offset s |}.
Definition bump (s : est) (nwords : Z) : est :=
  {| e_rm0 := e_rm0 s; e_rm1 := e_rm1 s; e_offset := e_offset s + emit_word_size * nwords |}.

Section Emitter.
  (* the classification of opcodes is a parameter of the generic emitter; the real one is
     (is_dma0, is_dma1) below *)
  Variable d0 d1 : Z -> bool.

  Definition emit_cmd0 (s : est) (code p : Z) : est * list word :=
    let param := Z.land p 65535 in
    let command := Z.lor code (Z.shiftl param 16) in
    let '(rm, changed) := set_register (sel_machine s (d0 code)) (K0 code) (command, param) in
    let s' := upd_machine s (d0 code) rm in
    if changed then (bump s' 1, [command]) else (s', []).

  Definition emit_cmd1 (s : est) (code off p : Z) : est * list word :=
    let offset := Z.land off 4294967295 in
    let param := Z.land p 65535 in
    let command := Z.lor (Z.lor code emit_payload32) (Z.shiftl param 16) in
    let '(rm, changed) := set_register (sel_machine s (d1 code)) (K1 code) (command, offset) in
    let s' := upd_machine s (d1 code) rm in
    if changed then (bump s' 2, [command; offset]) else (s', []).

  Definition emit_gen (s : est) (c : call) : est * list word :=
    match c with
    | Cmd0 code p => emit_cmd0 s code p
    | Cmd1Offset code off p => emit_cmd1 s code off p
    | Cmd1Address code a => emit_cmd1 s code a (Z.shiftr a 32)
    | Wait code ch cnt =>
        let param := 16 * ch + cnt in
        let command := Z.lor (Z.shiftl (Z.land param 65535) 16) code in
        (bump s 1, [command])
    | DoOp code p =>
        let command := Z.lor (Z.shiftl (Z.land p 65535) 16) code in
        let s1 := bump s 1 in
        (upd_machine s1 (d0 code) (switch_bank (sel_machine s1 (d0 code))), [command])
    end.

  Fixpoint emit_all_gen (s : est) (cs : list call) : est * list word :=
    match cs with
    | [] => (s, [])
    | c :: t => let '(s1, w1) := emit_gen s c in
                let '(s2, w2) := emit_all_gen s1 t in (s2, w1 ++ w2)
    end.
End Emitter.

Definition emit : est -> call -> est * list word := emit_gen is_dma0 is_dma1.
Definition emit_all : est -> list call -> est * list word := emit_all_gen is_dma0 is_dma1.
Definition emitted (cs : list call) : list word := snd (emit_all est_init cs).

(* the emitter of the source comment "# is_changed = True # force command": every write is emitted *)
Definition emit_plain (c : call) : list word :=
  match c with
  | Cmd0 code p => [Z.lor code (Z.shiftl (Z.land p 65535) 16)]
  | Cmd1Offset code off p =>
      [Z.lor (Z.lor code emit_payload32) (Z.shiftl (Z.land p 65535) 16); Z.land off 4294967295]
  | Cmd1Address code a =>
      [Z.lor (Z.lor code emit_payload32) (Z.shiftl (Z.land (Z.shiftr a 32) 65535) 16); Z.land a 4294967295]
  | Wait code ch cnt => [Z.lor (Z.shiftl (Z.land (16 * ch + cnt) 65535) 16) code]
  | DoOp code p => [Z.lor (Z.shiftl (Z.land p 65535) 16) code]
  end.
Definition emitted_plain (cs : list call) : list word := flat_map emit_plain cs.

(* ------------------------------------------------------------------ framing of generate_command_stream *)
(* one operation: register writes (generate_registers_for_op), BLOCKDEP for block operations,
   generate_cmd_waits (KERNEL_WAIT when npu >= 0, DMA_WAIT when dma >= 0), the NPU_OP command *)
Record opframe := {
  f_regs : list call;
  f_blockdep : option Z;
  f_kwait : Z;
  f_dwait : Z;
  f_opcode : Z;
  f_opparam : Z }.

Definition frame_waits (f : opframe) : list call :=
  (if 0 <=? f_kwait f then [Wait cmd0_NPU_OP_KERNEL_WAIT 0 (f_kwait f)] else []) ++
  (if 0 <=? f_dwait f then [Wait cmd0_NPU_OP_DMA_WAIT 0 (f_dwait f)] else []).

Definition frame_calls (f : opframe) : list call :=
  f_regs f ++
  (match f_blockdep f with Some b => [Cmd0 cmd0_NPU_SET_BLOCKDEP b] | None => [] end) ++
  frame_waits f ++ [DoOp (f_opcode f) (f_opparam f)].

(* parallel = Some (ncores - 1) on Ethos-U65 *)
Definition stream_calls (parallel : option Z) (fs : list opframe) : list call :=
  (match parallel with Some n => [Cmd0 cmd0_NPU_SET_PARALLEL_MODE n] | None => [] end) ++
  flat_map frame_calls fs ++ [DoOp cmd0_NPU_OP_STOP 65535].

(* ------------------------------------------------------------------ derived register fields *)
(* generate_kernel: KERNEL_HEIGHT_M1 / KERNEL_WIDTH_M1 / KERNEL_STRIDE *)
Definition kernel_size_field (dilation size : Z) : Z := dilation * (size - 1).
Definition kernel_stride_field (sx sy dx dy : Z) (part_kernel : bool) : Z :=
  let s0 := Z.land (sx - 1) 1 in
  let s1 := Z.lor s0 (Z.shiftl (Z.land (sy - 1) 1) 1) in
  let s2 := Z.lor s1 (Z.shiftl (Z.shiftr (sx - 1) 1) 6) in
  let s3 := Z.lor s2 (Z.shiftl (Z.shiftr (sy - 1) 1) 9) in
  let s4 := Z.lor s3 (Z.shiftl (dx - 1) 3) in
  let s5 := Z.lor s4 (Z.shiftl (dy - 1) 4) in
  if part_kernel then Z.lor s5 (Z.shiftl 1 2) else s5.

(* precision_map = {8: 0, 16: 1, 32: 2} *)
Definition precision_of_bits (bits : Z) : Z := if bits =? 8 then 0 else if bits =? 16 then 1 else 2.

(* generate_ifm_precision *)
Definition ifm_precision_field (signed : bool) (bits : Z) (nhcwb16 : bool) (op_to_scale : Z) : Z :=
  let p0 := (if signed then 1 else 0) + Z.shiftl (precision_of_bits bits) 2 in
  let p1 := if nhcwb16 then Z.lor p0 (Z.shiftl 1 6) else p0 in
  Z.lor p1 (Z.shiftl op_to_scale 8).

(* generate_ofm_precision *)
Definition ofm_precision_field (signed : bool) (bits : Z) (global_scale nhcwb16 : bool) (rounding : Z) : Z :=
  let p0 := (if signed then 1 else 0) + Z.shiftl (precision_of_bits bits) 1 in
  let p1 := if global_scale then Z.lor p0 (Z.shiftl 1 8) else p0 in
  let p2 := if nhcwb16 then Z.lor p1 (Z.shiftl 1 6) else p1 in
  Z.lor p2 (Z.shiftl rounding 14).

(* generate_activation: the ACTIVATION register for a table lookup *)
Definition activation_lut_field (index : Z) (ofm_int32 : bool) : Z :=
  let a := 16 + index in if ofm_int32 then Z.lor a (Z.shiftl 3 12) else a.

(* generate_ifm2_broadcast *)
Definition broadcast_field (reversed scalar bh bw bc : bool) : Z :=
  let b0 := if reversed then 64 else 0 in
  if scalar then Z.lor b0 128
  else
    let b1 := if bh then Z.lor b0 1 else b0 in
    let b2 := if bw then Z.lor b1 2 else b1 in
    if bc then Z.lor b2 4 else b2.

(* what cmd1_with_address puts in the payload word and in the parameter field *)
Definition addr_lo (a : Z) : Z := Z.land a 4294967295.
Definition addr_hi (a : Z) : Z := Z.land (Z.shiftr a 32) 65535.

(* generate_scaling_for_elementwise, "advanced" ADD/SUB branch: scaling.advanced_elementwise_add_sub_scale answers
   OPa when input1 = IFM has the smaller scale, else OPb; for reversed operands the generator swaps the answer
   (`if op_to_scale == OPa: OPb else: OPa`); the result goes to IFM_PRECISION[9:8]. *)
Definition op_to_scale_ref (ifm_smaller : bool) : Z := if ifm_smaller then scale_OPa else scale_OPb.
Definition swap_operand (m : Z) : Z := if m =? scale_OPa then scale_OPb else scale_OPa.
Definition scale_mode (reversed : bool) (m : Z) : Z := if reversed then swap_operand m else m.
(* decoder side (register documentation): IFM2_BROADCAST bit 6 set makes IFM2 operand A; scale mode 1 rescales
   operand A with the 32-bit OPA_SCALE, scale mode 2 operand B.  true = the rescaled feature map is IFM *)
Definition rescaled_is_ifm (operand_order : bool) (mode : Z) : bool :=
  if operand_order then mode =? 2 else mode =? 1.

(* get_strides (default strides): (stride_c, stride_y, stride_x) *)
Definition default_strides (nhcwb16 : bool) (elem w d : Z) : Z * Z * Z :=
  if nhcwb16 then
    let sx := 16 * elem in (sx * w, elem * w * (((d + 15) / 16) * 16), sx)
  else
    let sc := elem in let sx := d * sc in (sc, w * sx, sx).

(* ------------------------------------------------------------------ check_* guards (true = no exception) *)
Definition check_alignment_ok (payload required : Z) : bool := payload mod required =? 0.
Definition check_size_ok (payload required : Z) : bool := payload mod required =? 0.

(* check_strides(fm, strides) *)
Definition check_strides_ok (nhcwb16 : bool) (elem sc sy sx : Z) : bool :=
  if nhcwb16 then check_size_ok sc 16 && check_size_ok sy 16
  else check_size_ok sy elem && check_size_ok sx elem.

(* check_addresses(addresses, layout, element_size, arch); q16 = storage_rounding_quantums[NHCWB16][-1] *)
Definition check_addresses_ok (nhcwb16 : bool) (elem q16 : Z) (addrs : list Z) : bool :=
  forallb (fun a => check_alignment_ok a (if nhcwb16 then q16 else elem)) addrs.

(* check_dma_op; mem2mem = BASE_PTR_INDEX_MEM2MEM = 259 *)
Definition MEM2MEM : Z := 259.
Definition check_dma_ok (u65 : bool) (src_region src_addr dst_region dst_addr len : Z) : bool :=
  if u65 then
    (if src_region =? MEM2MEM then check_alignment_ok src_addr 16 else true) &&
    (if dst_region =? MEM2MEM then check_alignment_ok dst_addr 16 && check_size_ok len 16 else true)
  else check_alignment_ok src_addr 16 && check_alignment_ok dst_addr 16 && check_size_ok len 16.

(* generate_weights: per present core check_alignment(address,16), check_length(length,16) *)
Definition check_weight_ok (addr len : Z) : bool := check_alignment_ok addr 16 && check_size_ok len 16.
(* generate_biases: check_length(length, 16) only *)
Definition check_bias_ok (len : Z) : bool := check_size_ok len 16.

(* ------------------------------------------------------------------ specification side (C06) *)
(* The reference meaning of a call sequence: EVERY register write is applied (no elision) to a
   register file with the decoder's keys (cmd0 code c -> c, cmd1 code c -> 1024 + c) and the masked
   values; waits and operations are recorded with the register file at that point. *)
Definition write_of (c : call) : option (Z * Z) :=
  match c with
  | Cmd0 code p => Some (code, p mod 65536)
  | Cmd1Offset code off p => Some (1024 + code, off mod 4294967296 + (p mod 65536) * 4294967296)
  | Cmd1Address code a => Some (1024 + code, a mod 4294967296 + ((a / 4294967296) mod 65536) * 4294967296)
  | Wait _ _ _ | DoOp _ _ => None
  end.

Definition op_of (c : call) : option (Z * Z) :=
  match c with
  | Wait code ch cnt => Some (code, (16 * ch + cnt) mod 65536)
  | DoOp code p => Some (code, p mod 65536)
  | _ => None
  end.

(* how hw/Npu.v's exec records a command without payload whose code is below 256 *)
Definition classify (code param : Z) (r : regs) : event :=
  if is_block_op code || (code =? cmd0_NPU_OP_DMA_START) then EOp code param r
  else if (code =? cmd0_NPU_OP_KERNEL_WAIT) || (code =? cmd0_NPU_OP_DMA_WAIT) then EWait code param
  else if code =? cmd0_NPU_OP_STOP then EStop param
  else EOther code param.

Definition step_regs (r : regs) (c : call) : regs :=
  match write_of c with Some (k, v) => rset k v r | None => r end.
Definition step_events (r : regs) (c : call) : list event :=
  match op_of c with Some (code, param) => [classify code param r] | None => [] end.

Fixpoint ref_events (r : regs) (cs : list call) : list event :=
  match cs with
  | [] => []
  | c :: t => step_events r c ++ ref_events (step_regs r c) t
  end.

Definition regs_after (r : regs) (cs : list call) : regs := fold_left step_regs cs r.

(* the last (masked) value written to key k by the calls cs, dflt when there is none *)
Fixpoint last_written (k : Z) (cs : list call) (dflt : Z) : Z :=
  match cs with
  | [] => dflt
  | c :: t =>
      match write_of c with
      | Some (k', v) => if k' =? k then last_written k t v else last_written k t dflt
      | None => last_written k t dflt
      end
  end.

Definition count_ops (cs : list call) : nat :=
  List.length (filter (fun c => match op_of c with Some _ => true | None => false end) cs).

(* legality of a call: the opcode is in the range of its command class (every member of cmd0 / cmd1 is;
   see EmitProofs.cmd0_table_codes_ok) and cmd0_with_param is used on NPU_SET_* registers only *)
Definition call_ok (c : call) : Prop :=
  match c with
  | Cmd0 code _ => 256 <= code < 1024
  | Cmd1Offset code _ _ => 0 <= code < 1024
  | Cmd1Address code _ => 0 <= code < 1024
  | Wait code _ _ => 0 <= code < 256
  | DoOp code _ => 0 <= code < 256
  end.
Definition call_okb (c : call) : bool :=
  match c with
  | Cmd0 code _ => (256 <=? code) && (code <? 1024)
  | Cmd1Offset code _ _ => (0 <=? code) && (code <? 1024)
  | Cmd1Address code _ => (0 <=? code) && (code <? 1024)
  | Wait code _ _ => (0 <=? code) && (code <? 256)
  | DoOp code _ => (0 <=? code) && (code <? 256)
  end.

Definition is_write_call (c : call) : bool :=
  match c with Cmd0 _ _ | Cmd1Offset _ _ _ | Cmd1Address _ _ => true | _ => false end.

(* a frame as generate_command_stream produces it *)
Definition op_code_ok (code : Z) : bool :=
  is_block_op code || (code =? cmd0_NPU_OP_DMA_START).
Definition frame_ok (f : opframe) : Prop :=
  Forall call_ok (f_regs f) /\ forallb is_write_call (f_regs f) = true /\ op_code_ok (f_opcode f) = true.

(* decoded commands *)
Definition cmd_is_write (c : cmd) : bool := c_pay c || (256 <=? c_code c).
Definition cmd_is_stop (c : cmd) : bool := negb (c_pay c) && (c_code c =? cmd0_NPU_OP_STOP).
Definition wait_cmds (f : opframe) : list cmd :=
  (if 0 <=? f_kwait f then [Cmd false cmd0_NPU_OP_KERNEL_WAIT (f_kwait f mod 65536) 0] else []) ++
  (if 0 <=? f_dwait f then [Cmd false cmd0_NPU_OP_DMA_WAIT (f_dwait f mod 65536) 0] else []).
Definition op_cmd (f : opframe) : cmd := Cmd false (f_opcode f) (f_opparam f mod 65536) 0.

(* cmds is, frame by frame: register writes only, then the frame's waits, then its operation command *)
Inductive framed : list cmd -> list opframe -> Prop :=
| framed_nil : framed [] []
| framed_cons : forall ws f rest fs,
    forallb cmd_is_write ws = true -> framed rest fs ->
    framed (ws ++ wait_cmds f ++ op_cmd f :: rest) (f :: fs).
