(* C16 -- hand model around the generated gen/GenConstraints.v.  Executable definitions only; proofs are in
   proofs/ConstraintsProofs.v.

   1. The DOCUMENTED reading of each numeric constraint: a predicate written from the sentence the report prints, whose
      numbers are the integer literals the generator extracted from the formatted docstring (the doc_nums_ constants), never the
      class constants.  The translated predicates (gen) are compared with these in the proofs.
   2. Models of the two drivers TFLiteSupportedOperators.is_operator_supported and
      TFLiteSemantic.is_operator_semantic_valid over the introspected lists (generic, exceptions, specific): the loop
      with its early return, as a function of the answers `res c` of the constraint functions.
   3. What the report must print for an operator if it lists exactly what is enforced.
   Tie: T for the predicates and every table (regenerated from the working tree on each run); the driver models are
   compared in the proofs with the evaluation order recorded from the real drivers (table `traced`). *)
From Coq Require Import ZArith List Bool.
From VV Require Import lib.PyInt gen.GenConstraints.
Import ListNotations.
Open Scope Z_scope.

(* ------------------------------------------------------------------------------------------------------------ *)
(* documented readings                                                                                           *)
Definition in_range (lo hi x : Z) : bool := (lo <=? x) && (x <=? hi).
Definition dn (l : list Z) (k : nat) : Z := nth k l 0.           (* k-th number of a docstring *)
Definition impb (a b : bool) : bool := negb a || b.

(* "Tensor dimensions must be in the range [{}, {}]" *)
Definition doc_tens_dimension (shapes : list (list Z)) : bool :=
  forallb (forallb (in_range (dn doc_nums_constraint_tens_dimension 0) (dn doc_nums_constraint_tens_dimension 1))) shapes.

(* "Stride values for both width and height must be in the range [{}, {}]" *)
Definition doc_stride_range (w h : Z) : bool :=
  in_range (dn doc_nums_constraint_stride_range 0) (dn doc_nums_constraint_stride_range 1) w &&
  in_range (dn doc_nums_constraint_stride_range 0) (dn doc_nums_constraint_stride_range 1) h.

(* dilated kernel extent: (k - 1) * dilation + 1 *)
Definition dilated (k d : Z) : Z := (k - 1) * d + 1.
(* "Dilated kernel height must be in the range [{}, {}]" *)
Definition doc_dilated_height_range (kh dh : Z) : bool :=
  in_range (dn doc_nums_constraint_dilated_height_range 0) (dn doc_nums_constraint_dilated_height_range 1) (dilated kh dh).
(* "Product of dilated kernel width and height must be in the range [{}, {}]" *)
Definition doc_dilated_product_range (kw kh dw dh : Z) : bool :=
  in_range (dn doc_nums_constraint_dilated_product_range 0) (dn doc_nums_constraint_dilated_product_range 1)
           (dilated kw dw * dilated kh dh).

(* "The sum of the weights cannot exceed {}" *)
Definition doc_weights_limit (s : Z) : bool := s <=? dn doc_nums_constraint_weights_limit 0.

(* "Optional Bias tensor values must fit within 40-bits": the values a 40-bit two's complement field holds *)
Definition doc_bias_40bit (has_bias is_int64 has_values : bool) (vals : list Z) : bool :=
  impb (has_bias && is_int64 && has_values) (forallb (in_int (dn doc_nums_constraint_bias_40bit 0)) vals).

(* "IFM Tensor batch size must be 1": the batch of a shape is its first dimension once it is padded to 4D with 1s *)
Definition batch_of (s : list Z) : Z := if py_len s <? 4 then 1 else nth 0 s 0.
Definition doc_batch_size (ifm ifm2 : list Z) (has_ifm has_ifm2 : bool) : bool :=
  impb has_ifm (batch_of ifm =? dn doc_nums_constraint_batch_size 0) &&
  impb has_ifm2 (batch_of ifm2 =? dn doc_nums_constraint_batch_size 0).

(* "For depth multipliers > 1, IFM channels must be 1 and OFM channels must be equal to the depth multiplier" *)
Definition doc_depth_multiplier (dm : Z) (ifm ofm : list Z) : bool :=
  impb (dm >? dn doc_nums_constraint_depth_multiplier 0)
       ((py_nth ifm 3 =? dn doc_nums_constraint_depth_multiplier 1) && (py_nth ofm 3 =? dm)).

(* "Stride values for both width and height must be between 1 and 3" *)
Definition doc_depthwise_conv_stride (w h : Z) : bool :=
  in_range (dn doc_nums_constraint_depthwise_conv_stride 0) (dn doc_nums_constraint_depthwise_conv_stride 1) w &&
  in_range (dn doc_nums_constraint_depthwise_conv_stride 0) (dn doc_nums_constraint_depthwise_conv_stride 1) h.

(* "Strides must fulfil the following criteria:
     - Stride h must be between 1 and 3 when ofm height is greater than 1
     - Stride w must be between 1 and 3 when ofm height is greater than 1 or
       stride w must be divisible by 2 or 3 and ifm width must be divisible by stride_w/2 or stride_w/3"
   Reading (the one most favourable to the code): the condition of the second item is about the OFM *width*; the
   divisibility alternative pairs 2 with stride_w/2 and 3 with stride_w/3.  Numbers: positions 0..9 of the docstring. *)
Definition divides (d n : Z) : bool := n mod d =? 0.
Definition doc_stride_w_alternative (sw ifm_w : Z) : bool :=
  let n := doc_nums_constraint_stride_width_no_upper_limit in
  (divides (dn n 6) sw && divides (sw / dn n 8) ifm_w) || (divides (dn n 7) sw && divides (sw / dn n 9) ifm_w).
Definition doc_stride_width_no_upper_limit (sw sh ifm_w ofm_h ofm_w : Z) : bool :=
  let n := doc_nums_constraint_stride_width_no_upper_limit in
  impb (ofm_h >? 1) (in_range (dn n 0) (dn n 1) sh) &&
  impb (ofm_w >? 1) (in_range (dn n 3) (dn n 4) sw || ((dn n 3 <=? sw) && doc_stride_w_alternative sw ifm_w)).

(* "Stride width must be greater than or equal to 1.
    For stride width greater than 3, valid padding needs to be used."  (padding code -1 = attribute absent) *)
Definition doc_stride_range_no_padding (sw padding : Z) : bool :=
  (dn doc_nums_constraint_stride_range_no_padding 0 <=? sw) &&
  impb (sw >? dn doc_nums_constraint_stride_range_no_padding 1) ((padding =? K_Padding_VALID) || (padding =? -1)).

(* "Stride values for width and height must match one of the following criteria:
    Stride values WxH must be 1x1 or 2x2
    Stride WxH 2x1 supported if ifm height and kernel height = 1" *)
Definition doc_tconv_stride (sw sh kh ifm_h : Z) : bool :=
  let n := doc_nums_constraint_tconv_stride in
  ((sw =? dn n 0) && (sh =? dn n 1)) || ((sw =? dn n 2) && (sh =? dn n 3)) ||
  ((sw =? dn n 4) && (sh =? dn n 5) && (ifm_h =? dn n 6) && (kh =? dn n 6)).

(* "SAME padding: OFM dimensions must equal IFM dimensions multiplied by stride" *)
Definition doc_tconv_same (sw sh padding : Z) (ifm ofm : list Z) : bool :=
  impb (padding =? K_Padding_SAME) ((py_nth ofm 1 =? py_nth ifm 1 * sh) && (py_nth ofm 2 =? py_nth ifm 2 * sw)).
(* "VALID padding: OFM dimensions must equal IFM dimensions multiplied by stride,
    minus difference between kernel size and stride": taken literally *)
Definition doc_tconv_valid_literal (sw sh kw kh padding : Z) (ifm ofm : list Z) : bool :=
  impb (padding =? K_Padding_VALID)
       ((py_nth ofm 1 =? py_nth ifm 1 * sh - (kh - sh)) && (py_nth ofm 2 =? py_nth ifm 2 * sw - (kw - sw))).
(* what TFLite computes for a VALID transpose convolution, and what the code accepts *)
Definition spec_tconv_valid (sw sh kw kh padding : Z) (ifm ofm : list Z) : bool :=
  impb (padding =? K_Padding_VALID)
       ((py_nth ofm 1 =? py_nth ifm 1 * sh + Z.max (kh - sh) 0) && (py_nth ofm 2 =? py_nth ifm 2 * sw + Z.max (kw - sw) 0)).

(* "Kernel filter values for both width and height must be in the range [{}, {}]" *)
Definition doc_filter_range (kw kh : Z) : bool :=
  in_range (dn doc_nums_constraint_filter_range 0) (dn doc_nums_constraint_filter_range 1) kw &&
  in_range (dn doc_nums_constraint_filter_range 0) (dn doc_nums_constraint_filter_range 1) kh.
(* "Kernel filter height must be in the range [{}, {}]" *)
Definition doc_filter_height_range (kh : Z) : bool :=
  in_range (dn doc_nums_constraint_filter_height_range 0) (dn doc_nums_constraint_filter_height_range 1) kh.
(* "Product of kernel filter width and height must be in the range [{}, {}]" *)
Definition doc_filter_product_range (kw kh : Z) : bool :=
  in_range (dn doc_nums_constraint_filter_product_range 0) (dn doc_nums_constraint_filter_product_range 1) (kw * kh).
(* "VALID padding: Kernel filter height must be in the range [{}, {}]" *)
Definition doc_filter_height_range_valid_pad (kh padding : Z) : bool :=
  impb (padding =? K_Padding_VALID)
       (in_range (dn doc_nums_constraint_filter_height_range_valid_pad 0) (dn doc_nums_constraint_filter_height_range_valid_pad 1) kh).
(* "VALID padding: Product of kernel filter width and height must be in the range [{}, {}]" *)
Definition doc_filter_product_range_valid_pad (kw kh padding : Z) : bool :=
  impb (padding =? K_Padding_VALID)
       (in_range (dn doc_nums_constraint_filter_product_range_valid_pad 0) (dn doc_nums_constraint_filter_product_range_valid_pad 1) (kw * kh)).

(* "The width and height of the IFM and OFM must match one of the following criteria:
    IFM W and H must both be 1
    IFM must match OFM
    W and H scaling must be equal and OFM W-1 and H-1 must be 2x/4x/8x IFM W-1 and H-1, if align_corners is True
    W and H scaling must be equal and OFM W and H must be 2x/4x/8x IFM W and H, if align_corners is False"
   (stated for 4D shapes; k ranges over the factors 2, 4, 8 = numbers 3..5 of the docstring) *)
Definition scaled_by (k ih iw oh ow : Z) : bool := (oh =? k * ih) && (ow =? k * iw).
Definition doc_resize (ifm ofm : list Z) (align : bool) : bool :=
  let n := doc_nums_constraint_resize in
  let ih := py_nth ifm 1 in let iw := py_nth ifm 2 in let oh := py_nth ofm 1 in let ow := py_nth ofm 2 in
  (py_len ifm =? 4) &&
  (((ih =? dn n 0) && (iw =? dn n 0)) || list_eqb ifm ofm ||
   (if align
    then (* a scaling (OFM-1)/(IFM-1) exists only when no IFM dimension is 1 *)
         negb (ih - 1 =? 0) && negb (iw - 1 =? 0) &&
         existsb (fun k => scaled_by k (ih - 1) (iw - 1) (oh - 1) (ow - 1)) [dn n 3; dn n 4; dn n 5]
    else negb (ih =? 0) && negb (iw =? 0) && existsb (fun k => scaled_by k ih iw oh ow) [dn n 3; dn n 4; dn n 5])).

(* "For half_pixel_centers the width and height of the IFM and OFM must match one of the following criteria:
    IFM W and H are both 1
    OFM W and H is 2x IFM W and H" *)
Definition doc_resizebi_half_pixel_centers_dims (ifm ofm : list Z) (half : bool) : bool :=
  let n := doc_nums_constraint_resizebi_half_pixel_centers_dims in
  let ih := py_nth ifm (-3) in let iw := py_nth ifm (-2) in let oh := py_nth ofm (-3) in let ow := py_nth ofm (-2) in
  impb half ((3 <=? py_len ifm) && (((ih =? dn n 0) && (iw =? dn n 0)) || scaled_by (dn n 1) ih iw oh ow)).

(* "Product of reduced axes must be no greater than:
    - {} for signed 8-bit inputs.  - {} for unsigned 8-bit inputs.  - {} for signed 16-bit inputs." *)
Definition reduced_product (shape axis : list Z) : Z := py_prod (map (fun ax => py_nth shape ax) axis).
Definition doc_mean_height_width_product (shape axis : list Z) (is_int16 is_uint8 : bool) : bool :=
  let n := doc_nums_constraint_mean_height_width_product in
  reduced_product shape axis <=? (if is_int16 then dn n 4 else if is_uint8 then dn n 2 else dn n 0).

(* "If Width axis is reduced its shape must be no greater than {}."  The width axis of a shape of rank r is index
   1 for r < 4 and 2 for r >= 4 (the same convention the code uses to find the width). *)
Definition width_index (shape : list Z) : Z := if py_len shape <? 4 then 1 else 2.
Definition doc_mean_width (shape axis : list Z) : bool :=
  (* the width axis may be named by its index or by its negative alias (index - rank) *)
  impb (py_in (width_index shape) axis || py_in (width_index shape - py_len shape) axis)
       (py_nth shape (width_index shape) <=? dn doc_nums_constraint_mean_width 0).
(* "If Depth axis is reduced its shape must be no greater than {}." *)
Definition doc_mean_depth (shape axis : list Z) : bool :=
  impb (py_in (py_len shape - 1) axis) (py_nth shape (-1) <=? dn doc_nums_constraint_mean_depth 0).

(* "IFM depth must be no greater than 127" *)
Definition doc_argmax_depth (shape : list Z) : bool := py_nth shape (-1) <=? dn doc_nums_constraint_argmax_depth 0.

(* ------------------------------------------------------------------------------------------------------------ *)
(* the drivers                                                                                                   *)
Definition mem (x : Z) (l : list Z) : bool := existsb (Z.eqb x) l.
(* defaultdict(list) / dict.get(key, []) *)
Fixpoint assoc (k : Z) (t : list (Z * list Z)) : list Z :=
  match t with
  | [] => []
  | (k', v) :: r => if k =? k' then v else assoc k r
  end.

(* generic constraints that are not excepted for the operator, then its specific constraints *)
Definition sup_list (op : Z) : list Z :=
  filter (fun c => negb (mem c (assoc op sup_exceptions))) sup_generic ++ assoc op sup_specific.
Definition sem_list (op : Z) : list Z :=
  filter (fun c => negb (mem c (assoc op sem_exclude))) sem_generic ++ assoc op sem_specific.

(* `for constraint in ...: valid, extra = constraint(op); if not valid: return False` ... `return True`;
   the list of constraints that were called is returned too *)
Fixpoint run_constraints (res : Z -> bool) (l : list Z) : bool * list Z :=
  match l with
  | [] => (true, [])
  | c :: r => if res c then let '(b, called) := run_constraints res r in (b, c :: called) else (false, [c])
  end.

Definition is_operator_supported (res : Z -> bool) (op : Z) : bool * list Z :=
  if negb (mem op supported_operators) then (false, []) else run_constraints res (sup_list op).

Definition is_operator_semantic_valid (res : Z -> bool) (op : Z) : bool * list Z :=
  if mem op [op_id_Placeholder; op_id_SubgraphInput; op_id_Const] then (true, []) else run_constraints res (sem_list op).

(* ------------------------------------------------------------------------------------------------------------ *)
(* the report                                                                                                    *)
Fixpoint lookup3 (k : Z) (t : list (Z * list Z * list Z)) : list Z * list Z :=
  match t with
  | [] => ([], [])
  | (k', n, d) :: r => if k =? k' then (n, d) else lookup3 k r
  end.
Definition doc_of (c : Z) : list Z := snd (lookup3 c constraint_fns).
Definition name_of (c : Z) : list Z := fst (lookup3 c constraint_fns).

Fixpoint list_list_eqb (a b : list (list Z)) : bool :=
  match a, b with
  | [], [] => true
  | x :: a', y :: b' => list_eqb x y && list_list_eqb a' b'
  | _, _ => false
  end.

(* the lines the report has to print for an operator if it lists exactly what the two drivers evaluate: the report puts
   the generic constraints of both checkers first (semantic, then supported-operator), then the specific ones *)
Definition enforced_generic (op : Z) : list Z :=
  filter (fun c => negb (mem c (assoc op sem_exclude))) sem_generic ++
  filter (fun c => negb (mem c (assoc op sup_exceptions))) sup_generic.
Definition enforced_specific (op : Z) : list Z := assoc op sem_specific ++ assoc op sup_specific.
Definition report_expected (op : Z) : list (list Z) := map doc_of (enforced_generic op ++ enforced_specific op).

Definition report_text (idx : list Z) : list (list Z) := map (fun i => nth (Z.to_nat i) report_lines []) idx.

Definition row_ok (row : Z * Z * Z * list Z) : bool :=
  let '(code, op, ngen, idx) := row in
  list_list_eqb (report_text idx) (report_expected op) &&
  (ngen =? Z.of_nat (List.length (enforced_generic op))) &&
  mem op supported_operators.

(* the rows of the report are the TFLite builtin operators whose internal type is a supported operator, in name order *)
Definition expected_rows : list (Z * Z) :=
  map (fun b => let '(code, _, op) := b in (code, op))
      (filter (fun b => let '(_, _, op) := b in mem op supported_operators) builtins).
Definition rows_head : list (Z * Z) := map (fun r => let '(code, op, _, _) := r in (code, op)) report_rows.
Fixpoint pairs_eqb (a b : list (Z * Z)) : bool :=
  match a, b with
  | [], [] => true
  | (x1, x2) :: a', (y1, y2) :: b' => (x1 =? y1) && (x2 =? y2) && pairs_eqb a' b'
  | _, _ => false
  end.

(* agreement of the driver models with what the real drivers did on a stub operator of each type with every
   constraint answering True *)
Definition traced_ok (row : Z * bool * list Z * bool * list Z) : bool :=
  let '(op, rsup, lsup, rsem, lsem) := row in
  let '(b1, c1) := is_operator_supported (fun _ => true) op in
  let '(b2, c2) := is_operator_semantic_valid (fun _ => true) op in
  Bool.eqb b1 rsup && list_eqb c1 lsup && Bool.eqb b2 rsem && list_eqb c2 lsem.

(* ------------------------------------------------------------------------------------------------------------ *)
(* value lists printed by the report (data types, operator types) against the sets the predicates read            *)
Fixpoint join_comma (l : list (list Z)) : list Z :=
  match l with
  | [] => []
  | x :: r => match r with [] => x | _ => x ++ [44; 32] ++ join_comma r end
  end.
(* adjacent duplicates removed (the printed list is sorted) *)
Fixpoint dedup_adjacent (l : list (list Z)) : list (list Z) :=
  match l with
  | [] => []
  | x :: r => match r with
              | y :: _ => if list_eqb x y then dedup_adjacent r else x :: dedup_adjacent r
              | [] => [x]
              end
  end.
(* a row is right when the sentence of the constraint is the prefix followed by the printed values, and the printed values
   are exactly the enforced ones *)
Definition value_list_ok (row : Z * list Z * list (list Z) * list (list Z)) : bool :=
  let '(c, prefix, printed, enforced) := row in
  list_eqb (doc_of c) (prefix ++ join_comma printed) && list_list_eqb (dedup_adjacent printed) enforced.

(* ------------------------------------------------------------------------------------------------------------ *)
(* UNIDIRECTIONAL_SEQUENCE_LSTM: hand model of the structural constraints (tie: correspondence with the real methods on
   real Operation objects, CMD lstm).  An operator is described by
     present : for each of its inputs 1 (a tensor) or 0 (None), ranks : the rank of each input (-1 for None),
     vars    : is_variable of each input (1 / 0, -1 for None).
   Results are 1 (True), 0 (False), 2 (the method raises: it reads an attribute of None). *)
Definition py_slice (l : list Z) (a b : Z) : list Z := firstn (Z.to_nat (b - a)) (skipn (Z.to_nat a) l).   (* l[a:b], 0 <= a <= b *)
Definition none_in (present : list Z) (a b : Z) : bool := existsb (fun x => x =? 0) (py_slice present a b).
Definition all_none (present : list Z) (a b : Z) : bool := forallb (fun x => x =? 0) (py_slice present a b).
Definition is_none (present : list Z) (k : Z) : bool := nth (Z.to_nat k) present 0 =? 0.

(* TFLiteSupportedOperators.constraint_lstm_* *)
Definition lstm_no_cifg (present : list Z) : bool :=
  let cifg := negb (none_in present 2 5 || none_in present 6 9) && is_none present 1 && is_none present 5 in negb cifg.
Definition lstm_no_peep_hole (present : list Z) : bool := all_none present 9 12.
Definition lstm_no_projection (present : list Z) : bool := all_none present 16 18.
Definition lstm_no_normalisation (present : list Z) : bool := all_none present 20 24.
Definition lstm_weights (present : list Z) : bool := negb (none_in present 1 9).
Definition lstm_weight_dimensions (ranks : list Z) : Z :=
  if existsb (fun r => r =? -1) (py_slice ranks 5 9) then 2 else if forallb (fun r => r =? 2) (py_slice ranks 5 9) then 1 else 0.
(* TFLiteSemantic.constraint_lstm_* *)
Definition lstm_dimensions (ifm_rank ofm_rank : Z) : bool := (ifm_rank =? ofm_rank) && (ofm_rank =? 3).
Definition lstm_inputs (n : Z) : bool := n =? 24.
Definition lstm_intermediates (n : Z) : bool := n =? 5.
Definition lstm_variables (vars : list Z) : Z :=
  if existsb (fun v => v =? -1) (py_slice vars 18 20) then 2 else if forallb (fun v => negb (v =? 0)) (py_slice vars 18 20) then 1 else 0.

(* what is_operator_supported decides from them (its evaluation order: cifg, peephole, projection, normalisation, weights,
   recurrent weight dimensions; the last one is only reached when all weights are there, so it cannot raise) *)
Definition lstm_supported (present ranks : list Z) : bool :=
  lstm_no_cifg present && lstm_no_peep_hole present && lstm_no_projection present && lstm_no_normalisation present &&
  lstm_weights present && (lstm_weight_dimensions ranks =? 1).
(* the documented reading of the six sentences: "Must not use CIFG / Peephole / Projection / Normalisation", "All input and
   recurrent weights must be available", "All recurrent weights must be 2D": inputs 1..8 are the input and recurrent weights
   (CIFG is the absence of the input gate's, 1 and 5), 9..11 the peephole weights, 16..17 projection weights and bias,
   20..23 the layer normalisation coefficients *)
Definition doc_lstm_supported (present ranks : list Z) : bool :=
  forallb (fun k => negb (is_none present k)) [1; 2; 3; 4; 5; 6; 7; 8] &&
  forallb (is_none present) [9; 10; 11] && forallb (is_none present) [16; 17] && forallb (is_none present) [20; 21; 22; 23] &&
  forallb (fun k => nth (Z.to_nat k) ranks 0 =? 2) [5; 6; 7; 8].

Fixpoint doc_by_name (name : list Z) (t : list (Z * list Z * list Z)) : list Z :=
  match t with
  | [] => []
  | (_, n, d) :: r => if list_eqb n name then d else doc_by_name name r
  end.

Fixpoint index_of (name : list Z) (l : list (list Z)) (k : Z) : Z :=
  match l with
  | [] => -1
  | x :: r => if list_eqb x name then k else index_of name r (k + 1)
  end.
Definition op_by_name (name : list Z) : Z := index_of name op_names 0.
