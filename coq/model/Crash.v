(* C13: models of arithmetic sites whose failure is an internal exception (not a VelaError). *)
From Coq Require Import ZArith List Bool.
From VV Require Import lib.PyInt gen.GenTables.
Open Scope Z_scope.

(* NumPy >= 2 (NEP 50): `python_int - np.intW(value)` converts the Python int to intW first
   (OverflowError when it does not fit) and computes in intW (wraps silently -> modelled as None
   because the value is then not the mathematical one). *)
Definition np_pyint_minus (w a b : Z) : option Z :=
  if in_int w a then chk_int w (a - b) else None.

(* scheduler.propose_operator_buffering:  staging_limit_bytes - memory_snapshot[i] *)
Definition slack_buffering_memory (staging usage : Z) : option Z :=
  np_pyint_minus usage_dtype_bits staging usage.

(* largest staging limit the scheduler passes: min(sram_target, max address offset); the
   default architecture has max_address_offset = 2^32 and the CLI accepts any int for the arena size *)
Definition max_staging_limit : Z := 2 ^ 40.
