(* C11: validator of "interface and CPU-resident operators preserved verbatim" on two model
   summaries (source and output).  The matching (phi on operators, psi on tensors) is supplied as
   an untrusted witness and checked.  No proofs here. *)
From Coq Require Import ZArith List Bool.
Import ListNotations.
Open Scope Z_scope.

(* tensor: signature (hash of name, shape, type, quantisation) and constant data hash (0 = not constant) *)
Record tsum := { ts_sig : Z; ts_data : Z }.
(* operator: signature (hash of opcode, custom code, version, option fields, custom option bytes),
   inputs / outputs as tensor indices (-1 = omitted optional input), npu = Ethos-U custom operator *)
Record osum := { os_sig : Z; os_in : list Z; os_out : list Z; os_npu : bool }.
Record gsum := { g_tens : list tsum; g_ops : list osum; g_in : list Z; g_out : list Z }.

Definition nthZ {A} (l : list A) (i : Z) : option A := if i <? 0 then None else nth_error l (Z.to_nat i).

Fixpoint zmem (x : Z) (l : list Z) : bool := match l with [] => false | y :: t => (x =? y) || zmem x t end.
Fixpoint znodup (l : list Z) : bool := match l with [] => true | x :: t => negb (zmem x t) && znodup t end.

(* psi : list of (out tensor index, src tensor index); partial function *)
Fixpoint assoc (m : list (Z * Z)) (k : Z) : option Z :=
  match m with [] => None | (a, b) :: t => if a =? k then Some b else assoc t k end.

Definition is_const (g : gsum) (t : Z) : bool :=
  match nthZ (g_tens g) t with Some s => negb (ts_data s =? 0) | None => false end.

(* out tensor t corresponds to src tensor u: both constants with equal content and signature,
   or psi maps t to u and the signatures agree *)
Definition tens_match (src out : gsum) (psi : list (Z * Z)) (t u : Z) : bool :=
  if (t <? 0) || (u <? 0) then (t <? 0) && (u <? 0)
  else match nthZ (g_tens out) t, nthZ (g_tens src) u with
       | Some a, Some b =>
           if negb (ts_data a =? 0) then (ts_data a =? ts_data b) && (ts_sig a =? ts_sig b)
           else (match assoc psi t with Some u' => u' =? u | None => false end) && (ts_sig a =? ts_sig b) &&
                (ts_data b =? 0)
       | _, _ => false
       end.

Fixpoint list_match (src out : gsum) (psi : list (Z * Z)) (ts us : list Z) : bool :=
  match ts, us with
  | [], [] => true
  | t :: ts', u :: us' => tens_match src out psi t u && list_match src out psi ts' us'
  | _, _ => false
  end.

(* one CPU operator of the output (index i) against its image phi(i) in the source *)
Definition op_match (src out : gsum) (psi : list (Z * Z)) (o s : osum) : bool :=
  (os_sig o =? os_sig s) && negb (os_npu o) && negb (os_npu s) &&
  list_match src out psi (os_in o) (os_in s) && list_match src out psi (os_out o) (os_out s).

Fixpoint ops_match (src out : gsum) (psi phi : list (Z * Z)) (i : Z) (ops : list osum) : bool :=
  match ops with
  | [] => true
  | o :: t =>
      (if os_npu o then true
       else match assoc phi i with
            | Some j => match nthZ (g_ops src) j with Some s => op_match src out psi o s | None => false end
            | None => false end) && ops_match src out psi phi (i + 1) t
  end.

(* producers *)
Fixpoint producer_from (ops : list osum) (i : Z) (t : Z) : option Z :=
  match ops with
  | [] => None
  | o :: r => if zmem t (os_out o) then Some i else producer_from r (i + 1) t
  end.
Definition producer (g : gsum) (t : Z) : option Z := producer_from (g_ops g) 0 t.

(* order respects data dependencies: every input of operator i that some operator produces is
   produced by an operator with a smaller index (inputs nobody produces are constants, subgraph
   inputs or the Ethos-U operator's workspace tensors) *)
Fixpoint order_ok_from (g : gsum) (ops : list osum) (i : Z) : bool :=
  match ops with
  | [] => true
  | o :: r =>
      forallb (fun t => (t <? 0) || is_const g t || zmem t (g_in g) ||
                        match producer g t with Some p => p <? i | None => true end) (os_in o)
      && order_ok_from g r (i + 1)
  end.

(* a source operator that is not in the image of phi must be accounted for: each of its outputs
   that the output model still contains (psi^-1 defined) is there produced by an Ethos-U operator or
   is a constant (folded) *)
Fixpoint inv_assoc (m : list (Z * Z)) (v : Z) : option Z :=
  match m with [] => None | (a, b) :: t => if b =? v then Some a else inv_assoc t v end.

Definition accounted (src out : gsum) (psi : list (Z * Z)) (s : osum) : bool :=
  forallb (fun u =>
    match inv_assoc psi u with
    | None => true
    | Some t => is_const out t ||
                match producer out t with
                | Some p => match nthZ (g_ops out) p with Some o => os_npu o | None => false end
                | None => false end
    end) (os_out s).

Fixpoint unmapped_ok (src out : gsum) (psi phi : list (Z * Z)) (img : list Z) (j : Z) (ops : list osum) : bool :=
  match ops with
  | [] => true
  | s :: r => (zmem j img || accounted src out psi s) && unmapped_ok src out psi phi img (j + 1) r
  end.

Definition check_preserved (src out : gsum) (psi phi : list (Z * Z)) : bool :=
  (* witnesses are injective partial functions *)
  znodup (map fst psi) && znodup (map snd psi) && znodup (map fst phi) && znodup (map snd phi) &&
  (* interface: same inputs and outputs, in order, same signatures *)
  list_match src out psi (g_in out) (g_in src) && list_match src out psi (g_out out) (g_out src) &&
  (* every CPU operator of the output is the image-preimage of a source operator, verbatim *)
  ops_match src out psi phi 0 (g_ops out) &&
  (* operator order of the output respects data dependencies *)
  order_ok_from out (g_ops out) 0 &&
  (* source operators that disappeared are absorbed by an Ethos-U operator or folded *)
  unmapped_ok src out psi phi (map snd phi) 0 (g_ops src).

(* ---- whole model: a list of subgraphs.  Subgraph k of the output is compared with subgraph k of the
   source under its own witness (psi_k, phi_k); the numbers of subgraphs must agree.  The subgraph
   indices held by WHILE / IF / CALL_ONCE options are part of the operator signature, so "same
   signature" together with "same position in the list" pins the control-flow structure. *)
Definition witness := (list (Z * Z) * list (Z * Z))%type.

Definition check_sub (x : gsum * gsum * witness) : bool :=
  let '(s, o, (psi, phi)) := x in check_preserved s o psi phi.

Definition check_preserved_model (src out : list gsum) (wit : list witness) : bool :=
  Nat.eqb (length src) (length out) && Nat.eqb (length wit) (length out) &&
  forallb check_sub (combine (combine src out) wit).
