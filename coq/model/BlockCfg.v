(* Hand model of ethosu/vela/architecture_allocator.py: the SHRAM bank arithmetic
   (_try_block_config), the IFM block helpers, the block search find_block_config and the
   validity test try_block_config.  Executable definitions only; proofs are in
   proofs/BlockCfgProofs.v.

   Tie: gen/GenBlockCfg.v (translated from the source on every run) for _try_block_config,
   _ifm_blockdepth, _required_size, _get_ifm_blocksize (lemmas gen_*_eq); correspondence
   (tools/checks/c15.py) for fit_block_for_ofm, _choose_kernel_method, find_block_config,
   try_block_config.  The accelerator rows are gen/GenArchTables.v (introspected every run).

   Python floats.  _try_block_config computes (depth * bits) / 8 by true division; under the
   function's own assertion bits % 8 == 0 the quotient is an integer and every later operation
   (round_up, round_up_divide: add, subtract, floor-divide, multiply) is exact on integer-valued doubles below 2^53, so the
   layout fields are modelled as integers.  _required_size is int(ceil(x / upscale)): modelled
   as ceiling division (exact for |x| < 2^53).  The cost function of find_block_config is
   evaluated in doubles by Python; it is modelled by [fl], round-to-nearest-even on a 53 bit
   significand with unbounded exponent (no overflow / subnormals: all values here are between
   2^-200 and 2^200 for shapes below 2^30) so that ties and near-ties are decided as CPython
   decides them.  Values are non-negative on the modelled domain (non-negative shapes). *)
From Coq Require Import ZArith List Bool.
From VV Require Import lib.PyInt gen.GenArchTables.
Import ListNotations.
Open Scope Z_scope.

(* ---- numeric_util ---- *)
Definition round_up (a b : Z) : Z := ((a + b - 1) / b) * b.
Definition round_up_divide (a b : Z) : Z := (a + b - 1) / b.
Definition ceil_div (a b : Z) : Z := - ((- a) / b).

(* ---- records ---- *)
Record shram := { s_reserved_output_banks : Z; s_bank_size_bytes : Z; s_total_banks : Z; s_reserved_end_banks : Z }.
Record block := { b_w : Z; b_h : Z; b_d : Z }.
Record shape4 := { sh_n : Z; sh_h : Z; sh_w : Z; sh_d : Z }.
Record kernel := { k_w : Z; k_h : Z; k_sx : Z; k_sy : Z; k_dx : Z; k_dy : Z }.
(* SHRAMLayout, fields in the order of its __init__ *)
Record layout := { ib_start : Z; ib_end : Z; ib_start2 : Z; ab_start : Z; lut_start : Z }.

Definition area_w (k : kernel) : Z := (k_w k - 1) * k_dx k + 1.
Definition area_h (k : kernel) : Z := (k_h k - 1) * k_dy k + 1.

Definition shram_of (a : arch_row) : shram :=
  {| s_reserved_output_banks := ar_reserved_output_banks a; s_bank_size_bytes := ar_bank_size_bytes a;
     s_total_banks := ar_total_banks a; s_reserved_end_banks := ar_reserved_end_banks a |}.
Definition ofm_ublock (a : arch_row) : block := {| b_w := ar_ofm_ublock_w a; b_h := ar_ofm_ublock_h a; b_d := ar_ofm_ublock_d a |}.
Definition ofm_block_max (a : arch_row) : block :=
  {| b_w := ar_ofm_block_max_w a; b_h := ar_ofm_block_max_h a; b_d := ar_ofm_block_max_d a |}.

(* ---- _try_block_config ---- *)
Definition try_asserts (ifm_bits ifm_granule acc_bits acc_granule : Z) : bool :=
  ((acc_bits >? 0) && (acc_granule >? 0)) && ((ifm_bits >=? 8) && ((ifm_bits mod 8 =? 0) && (ifm_granule >? 0))).

Definition ifm_bytes_of (ifm : block) (ifm_bits : Z) : Z :=
  (b_w ifm * b_h ifm) * round_up (b_d ifm * ifm_bits / 8) 8.
Definition acc_bytes_of (ofm : block) (acc_bits : Z) : Z :=
  ((b_w ofm * b_h ofm) * round_up (b_d ofm) 8 * acc_bits) / 8.
(* banks needed to double-buffer [bytes] at bank granule [g] *)
Definition banks_for (s : shram) (bytes g : Z) : Z :=
  round_up (round_up_divide bytes (s_bank_size_bytes s) * 2) g.

(* None = AssertionError or `return None` (the translator conflates them; try_layout_py separates them) *)
Definition try_layout (s : shram) (ew : Z) (ofm ifm : block) (ifm_bits ifm_granule acc_bits acc_granule lut_banks : Z)
  : option layout :=
  if try_asserts ifm_bits ifm_granule acc_bits acc_granule then
    let ifm_banks := banks_for s (ifm_bytes_of ifm ifm_bits) ifm_granule in
    let lut := s_total_banks s - lut_banks in
    let ifm_end := s_reserved_output_banks s + ifm_banks in
    if ew =? EW_No then
      let acc_start := lut - banks_for s (acc_bytes_of ofm acc_bits) acc_granule in
      if ifm_end >? acc_start then None
      else Some {| ib_start := s_reserved_output_banks s; ib_end := ifm_end; ib_start2 := ifm_end;
                   ab_start := acc_start; lut_start := lut |}
    else
      let ifm2_banks := if ew =? EW_Full then ifm_banks else 0 in
      if ifm_end + ifm2_banks >? lut then None
      else Some {| ib_start := s_reserved_output_banks s; ib_end := lut; ib_start2 := ifm_end;
                   ab_start := lut; lut_start := lut |}
  else None.

(* outer None = AssertionError, inner None = does not fit *)
Definition try_layout_py (s : shram) (ew : Z) (ofm ifm : block) (ifm_bits ifm_granule acc_bits acc_granule lut_banks : Z)
  : option (option layout) :=
  if try_asserts ifm_bits ifm_granule acc_bits acc_granule
  then Some (try_layout s ew ofm ifm ifm_bits ifm_granule acc_bits acc_granule lut_banks) else None.

(* ---- the property, as an executable predicate on a layout (what the hardware needs) ----
   ew = EW_No:  [ib_start, ib_end) IFM, [ab_start, lut_start) accumulators
   otherwise :  [ib_start, ib_start2) IFM, [ib_start2, ib_end) IFM2, no accumulators
   [lut_start, total) LUT / reserved end banks, [0, ib_start) reserved for the OFM. *)
Definition layout_okb (s : shram) (ew : Z) (ofm ifm : block) (ifm_bits ifm_granule acc_bits acc_granule lut_banks : Z)
  (l : layout) : bool :=
  let bank := s_bank_size_bytes s in
  let ifm_bytes := ifm_bytes_of ifm ifm_bits in
  let acc_bytes := acc_bytes_of ofm acc_bits in
  let ifm_part := (if ew =? EW_No then ib_end l else ib_start2 l) - ib_start l in
  let ifm2_part := ib_end l - ib_start2 l in
  let acc_part := lut_start l - ab_start l in
  (ib_start l =? s_reserved_output_banks s) && (ib_start l <=? ib_start2 l) && (ib_start2 l <=? ib_end l) &&
  (ib_end l <=? ab_start l) && (ab_start l <=? lut_start l) && (lut_start l =? s_total_banks s - lut_banks) &&
  (lut_start l <=? s_total_banks s) &&
  (* IFM: double buffered, whole granules *)
  (2 * ifm_bytes <=? ifm_part * bank) && (ifm_part mod ifm_granule =? 0) &&
  (if ew =? EW_No then (2 * acc_bytes <=? acc_part * bank) && (acc_part mod acc_granule =? 0)
   else if ew =? EW_Full then (2 * ifm_bytes <=? ifm2_part * bank) else true).

(* ---- helpers of the search ---- *)
Definition required_size (value stride border upscale nearest : Z) : Z :=
  ceil_div ((value - 1) * stride + border + nearest) upscale.

Definition get_ifm_blocksize (ofm : block) (k : kernel) (ub_w ub_h sk_w sk_h upscale nearest : Z) : block :=
  {| b_w := round_up (required_size (b_w ofm) (k_sx k) (Z.min (area_w k) sk_w) upscale nearest) ub_w;
     b_h := round_up (required_size (b_h ofm) (k_sy k) (Z.min (area_h k) sk_h) upscale nearest) ub_h;
     b_d := b_d ofm |}.

Definition ifm_blockdepth (ifm_ublock_d ifm_depth ifm_bits : Z) (is_partkernel : bool) : Z :=
  if ifm_bits =? 16 then round_up (Z.min ifm_depth 16) 4
  else round_up (Z.min ifm_depth (if is_partkernel then 16 else 32)) ifm_ublock_d.

Definition fit_block_for_ofm (a : arch_row) (ofm_h : Z) (k : kernel) (b : block) : block :=
  if (ofm_h =? 1) && (k_h k =? 1) && (ar_ofm_ublock_h a =? 2)
  then {| b_w := b_w b; b_h := Z.min (b_h b) ofm_h; b_d := b_d b |} else b.

Definition ew_usage (bt : Z) (uses_scalar : bool) : Z :=
  if bt =? BT_ElementWise then (if uses_scalar then EW_Scalar else EW_Full) else EW_No.
Definition acc_type (bt ifm_bits : Z) (scaled : bool) : Z :=
  if (ifm_bits =? 16) && negb (bt =? BT_Pooling) && scaled then SHRAM_Acc40 else SHRAM_Acc32.
Definition acc_bits_of (t : Z) : Z := if t =? SHRAM_Acc40 then bits_Acc40 else if t =? SHRAM_Acc16 then bits_Acc16 else bits_Acc32.
Definition acc_granule_of (a : arch_row) (t : Z) : Z :=
  if t =? SHRAM_Acc40 then ar_gran_acc40 a else if t =? SHRAM_Acc16 then ar_gran_acc16 a else ar_gran_acc32 a.
(* dict lookup arch.ifm_(ew_)bank_granules[ifm_bits]: None = KeyError *)
Definition ifm_granule_of (a : arch_row) (ew ifm_bits : Z) : option Z :=
  if ifm_bits =? 8 then Some (if ew =? EW_No then ar_gran_ifm8 a else ar_gran_ifm8_ew a)
  else if ifm_bits =? 16 then Some (if ew =? EW_No then ar_gran_ifm16 a else ar_gran_ifm16_ew a)
  else if ifm_bits =? 32 then Some (if ew =? EW_No then ar_gran_ifm32 a else ar_gran_ifm32_ew a)
  else None.
Definition upscale_of (rs : Z) : Z := if rs =? RS_NONE then 1 else 2.
Definition nearest_of (rs : Z) : Z := if rs =? RS_NEAREST then 1 else 0.

(* ---- doubles: m * 2^e with m >= 0, results rounded to nearest even on 53 bits ---- *)
Definition fl := (Z * Z)%type.
(* RNE_53 (n / d) * 2^k   for n >= 0, d > 0 *)
Definition fl_rnd (n d k : Z) : fl :=
  if n <=? 0 then (0, 0) else
  let e0 := Z.log2 n - Z.log2 d - 52 in
  let q0 := (n * 2 ^ (Z.max 0 (- e0))) / (d * 2 ^ (Z.max 0 e0)) in
  let e := if q0 <? 2 ^ 52 then e0 - 1 else if q0 >=? 2 ^ 53 then e0 + 1 else e0 in
  let N := n * 2 ^ (Z.max 0 (- e)) in
  let D := d * 2 ^ (Z.max 0 e) in
  let q := N / D in
  let r := N mod D in
  ((if (2 * r >? D) || ((2 * r =? D) && Z.odd q) then q + 1 else q), e + k).
Definition fl_of_Z (n : Z) : fl := fl_rnd n 1 0.
Definition fl_mul (a b : fl) : fl := fl_rnd (fst a * fst b) 1 (snd a + snd b).
Definition fl_div (a b : fl) : fl := fl_rnd (fst a) (fst b) (snd a - snd b).
Definition fl_align (a b : fl) : Z * Z * Z :=
  let e := Z.min (snd a) (snd b) in (fst a * 2 ^ (snd a - e), fst b * 2 ^ (snd b - e), e).
Definition fl_add (a b : fl) : fl := let '(x, y, e) := fl_align a b in fl_rnd (x + y) 1 e.
Definition fl_ltb (a b : fl) : bool := let '(x, y, _) := fl_align a b in x <? y.
Definition fl_leb (a b : fl) : bool := let '(x, y, _) := fl_align a b in x <=? y.
Definition fl_eqb (a b : fl) : bool := let '(x, y, _) := fl_align a b in x =? y.
Definition fl_half (a : fl) : fl := (fst a, snd a - 1).

(* _choose_kernel_method: None = ZeroDivisionError *)
Definition choose_kernel_method (ifm_depth ifm_bits : Z) (k : kernel) : option bool :=
  if ifm_depth <=? 8 then Some true else
  let ke := k_w k * k_h k in
  let A := round_up ifm_depth (if ifm_bits =? 8 then 32 else 16) in
  let B := round_up ifm_depth 8 * round_up ke (if ifm_bits =? 8 then 4 else 2) in
  if (A <=? 0) || (B <=? 0) then None
  else Some (fl_ltb (fl_rnd ifm_depth A 0) (fl_rnd (ifm_depth * ke) B 0)).

(* ---- ranges ---- *)
Fixpoint range_aux (n : nat) (i st : Z) : list Z :=
  match n with O => [] | S n' => i :: range_aux n' (i + st) st end.
Definition range_list (lo hi st : Z) : list Z := range_aux (Z.to_nat (range_len lo hi st)) lo st.

(* ---- find_block_config ---- *)
Record cfg := { c_layout : layout; c_ifm_block : block; c_ofm_block : block }.
Record cfg_full := { cf_cfg : cfg; cf_acc_type : Z; cf_partkernel : bool; cf_bank_size : Z }.

(* everything the inner loop reads *)
Record ctx := {
  x_arch : arch_row; x_bt : Z; x_ofm : shape4; x_ifm : shape4; x_ifm_bits : Z; x_kernel : kernel;
  x_ew : Z; x_equal_depth : bool; x_depthwise : bool; x_ifm_granule : Z; x_acc_bits : Z; x_acc_granule : Z;
  x_lut_banks : Z; x_upscale : Z; x_nearest : Z; x_ifm_repeats : Z; x_ifm_blockdepth : Z; x_weight_fetch_wh : Z }.

Record sstate := { st_cost : option fl; st_cov : option fl; st_cfg : option cfg; st_wont_fit : list (Z * Z); st_err : bool }.

Definition elements4 (s : shape4) : Z := sh_n s * sh_w s * sh_h s * sh_d s.
Definition wont_fit_has (l : list (Z * Z)) (a b : Z) : bool := existsb (fun p => (fst p =? a) && (snd p =? b)) l.
Definition set_err (st : sstate) : sstate :=
  {| st_cost := st_cost st; st_cov := st_cov st; st_cfg := st_cfg st; st_wont_fit := st_wont_fit st; st_err := true |}.

(* IFM / fitted OFM block of the candidate (height, width, depth) *)
Definition cand_ifm_block (x : ctx) (height width depth : Z) : block :=
  let a := x_arch x in
  let ib := get_ifm_blocksize {| b_w := width; b_h := height; b_d := depth |} (x_kernel x) (ar_ofm_ublock_w a)
              (ar_ofm_ublock_h a) (ar_subkernel_max_w a) (ar_subkernel_max_h a) (x_upscale x) (x_nearest x) in
  if x_equal_depth x then ib else {| b_w := b_w ib; b_h := b_h ib; b_d := x_ifm_blockdepth x |}.
Definition cand_fit_block (x : ctx) (height width depth : Z) : block :=
  fit_block_for_ofm (x_arch x) (sh_h (x_ofm x)) (x_kernel x) {| b_w := width; b_h := height; b_d := depth |}.
Definition cand_layout (x : ctx) (height width depth : Z) : option layout :=
  try_layout (shram_of (x_arch x)) (x_ew x) (cand_fit_block x height width depth) (cand_ifm_block x height width depth)
    (x_ifm_bits x) (x_ifm_granule x) (x_acc_bits x) (x_acc_granule x) (x_lut_banks x).

(* relative_cost of a fitting candidate; None = ZeroDivisionError *)
Definition cand_cost (x : ctx) (height width depth : Z) : option fl :=
  let ofm := x_ofm x in
  let ifm := x_ifm x in
  let fb := cand_fit_block x height width depth in
  let ib := cand_ifm_block x height width depth in
  let full_h := round_up_divide (sh_h ofm) (b_h fb) in
  let full_w := round_up_divide (sh_w ofm) (b_w fb) in
  let full_d := round_up_divide (sh_d ofm) (b_d fb) in
  let blocks_h := fl_rnd (sh_h ofm) (b_h fb) 0 in
  let blocks_w := fl_rnd (sh_w ofm) (b_w fb) 0 in
  let blocks_d := fl_rnd (sh_d ofm) (b_d fb) 0 in
  let wf_int := x_weight_fetch_wh x * sh_d ifm * (full_w * full_h) in
  let weight_fetch := if x_depthwise x then fl_of_Z wf_int
                      else fl_mul (fl_of_Z wf_int) (fl_mul (fl_of_Z (b_d fb)) blocks_d) in
  let ifm_fetch0 := fl_mul (fl_of_Z ((b_w ib * b_h ib) * sh_d ifm * x_ifm_repeats x)) (fl_mul blocks_w blocks_h) in
  let ifm_fetch := if x_equal_depth x then ifm_fetch0 else fl_mul ifm_fetch0 (fl_of_Z full_d) in
  let ofm_elems := elements4 ofm in
  let rc :=
    if x_bt x =? BT_ElementWise then
      if height * width * depth <=? 0 then None
      else let q := fl_rnd ofm_elems (height * width * depth) 0 in
           Some (if fl_ltb q (fl_of_Z 1) then fl_of_Z 1 else q)
    else if ofm_elems <=? 0 then None
    else Some (fl_div (fl_add ifm_fetch weight_fetch) (fl_of_Z ofm_elems)) in
  match rc with
  | None => None
  | Some c => Some (if elements4 ifm <? (1 * b_w ib * b_h ib * b_d ib) * 2 then fl_half c else c)
  end.

(* coverage = ifm_shape.elements_wh() / min(ifm_shape, ifm_block).elements_wh(); None = ZeroDivisionError *)
Definition cand_coverage (x : ctx) (ib : block) : option fl :=
  let ifm := x_ifm x in
  let cw := Z.min (sh_w ifm) (b_w ib) * Z.min (sh_h ifm) (b_h ib) in
  if cw <=? 0 then None else Some (fl_rnd (sh_w ifm * sh_h ifm) cw 0).

Definition opt_leb (c : fl) (best : option fl) : bool := match best with None => true | Some b => fl_leb c b end.
Definition opt_eqb (c : fl) (best : option fl) : bool := match best with None => false | Some b => fl_eqb c b end.

Definition step (x : ctx) (depth height width : Z) (st : sstate) : sstate :=
  if st_err st then st else
  if wont_fit_has (st_wont_fit st) height width then st else
  match cand_layout x height width depth with
  | None =>
      {| st_cost := st_cost st; st_cov := st_cov st; st_cfg := st_cfg st;
         st_wont_fit := (width, height) :: st_wont_fit st; st_err := false |}
  | Some l =>
      match cand_cost x height width depth with
      | None => set_err st
      | Some rc =>
          let chosen := {| c_layout := l; c_ifm_block := cand_ifm_block x height width depth;
                           c_ofm_block := {| b_w := width; b_h := height; b_d := depth |} |} in
          if opt_leb rc (st_cost st) then
            if opt_eqb rc (st_cost st) then
              match cand_coverage x (cand_ifm_block x height width depth) with
              | None => set_err st
              | Some cov =>
                  if opt_leb cov (st_cov st) && ((height <=? 4) && (width <=? 4))
                  then {| st_cost := Some rc; st_cov := Some cov; st_cfg := Some chosen;
                          st_wont_fit := st_wont_fit st; st_err := false |}
                  else st
              end
            else {| st_cost := Some rc; st_cov := None; st_cfg := Some chosen;
                    st_wont_fit := st_wont_fit st; st_err := false |}
          else st
      end
  end.

Definition search_space (a : arch_row) (ofm : shape4) : block :=
  {| b_w := round_up (Z.min (sh_w ofm) (ar_ofm_block_max_w a)) (ar_ofm_ublock_w a);
     b_h := round_up (Z.min (sh_h ofm) (ar_ofm_block_max_h a)) (ar_ofm_ublock_h a);
     b_d := round_up (Z.min (sh_d ofm) (ar_ofm_block_max_d a)) (ar_ofm_ublock_d a) |}.

Definition search_hw (x : ctx) (ss : block) (depth : Z) (st : sstate) : sstate :=
  let a := x_arch x in
  fold_left (fun st1 height =>
    fold_left (fun st2 width => step x depth height width st2)
      (range_list (ar_ofm_ublock_w a) (b_w ss + 1) (ar_ofm_ublock_w a)) st1)
    (range_list (ar_ofm_ublock_h a) (b_h ss + 1) (ar_ofm_ublock_h a))
    {| st_cost := st_cost st; st_cov := st_cov st; st_cfg := st_cfg st; st_wont_fit := []; st_err := st_err st |}.

Definition next_depth (a : arch_row) (ofm_d depth : Z) : Z :=
  let d1 := depth + ar_ofm_ublock_d a in
  if d1 <? ofm_d then round_up d1 (ar_split_depth a) else d1.

(* the `while depth <= search_space.depth` loop; out of fuel sets the error flag *)
Fixpoint depth_loop (fuel : nat) (x : ctx) (ss : block) (depth : Z) (st : sstate) : sstate :=
  match fuel with
  | O => if depth <=? b_d ss then set_err st else st
  | S f =>
      if depth <=? b_d ss
      then depth_loop f x ss (next_depth (x_arch x) (sh_d (x_ofm x)) depth) (search_hw x ss depth st)
      else st
  end.

Definition first_depth (a : arch_row) (ofm_d ss_d : Z) : Z :=
  let d := Z.max (ar_ofm_ublock_d a) (Z.min ss_d (ar_split_depth a)) in
  if d <? ofm_d then round_up d (ar_split_depth a) else d.

Definition larger_ifm (ifm : shape4) (ifm2 : option shape4) : shape4 :=
  match ifm2 with
  | Some i2 => if elements4 i2 >? elements4 ifm then i2 else ifm
  | None => ifm
  end.

(* the context shared by find_block_config and try_block_config; None = an exception
   (KeyError on ifm_bits, ZeroDivisionError) *)
Definition mk_ctx (a : arch_row) (bt : Z) (ofm ifm : shape4) (uses_scalar : bool) (ifm_bits : Z) (is_partkernel : bool)
  (k : kernel) (lut_banks : Z) (scaled : bool) (rs : Z) : option ctx :=
  let ew := ew_usage bt uses_scalar in
  let is_pooling := bt =? BT_Pooling in
  let is_depthwise := bt =? BT_ConvolutionDepthWise in
  let is_convolution := (bt =? BT_ConvolutionMxN) || is_depthwise in
  let t := acc_type bt ifm_bits scaled in
  match ifm_granule_of a ew ifm_bits with
  | None => None
  | Some ig =>
      if (ar_subkernel_max_w a <=? 0) || (ar_subkernel_max_h a <=? 0) then None else
      Some {| x_arch := a; x_bt := bt; x_ofm := ofm; x_ifm := ifm; x_ifm_bits := ifm_bits; x_kernel := k;
              x_ew := ew; x_equal_depth := negb (ew =? EW_No) || is_pooling || is_depthwise;
              x_depthwise := is_depthwise; x_ifm_granule := ig; x_acc_bits := acc_bits_of t;
              x_acc_granule := acc_granule_of a t; x_lut_banks := Z.max lut_banks (ar_reserved_end_banks a);
              x_upscale := upscale_of rs; x_nearest := nearest_of rs;
              x_ifm_repeats := round_up_divide (area_w k) (ar_subkernel_max_w a) * round_up_divide (area_h k) (ar_subkernel_max_h a);
              x_ifm_blockdepth := ifm_blockdepth (ar_ifm_ublock_d a) (sh_d ifm) ifm_bits is_partkernel;
              x_weight_fetch_wh := if is_convolution then area_w k * area_h k else 0 |}
  end.

(* outer None = exception (or out of fuel), inner None = `return None` *)
Definition find_block_config (a : arch_row) (bt : Z) (ofm ifm0 : shape4) (ifm2 : option shape4) (uses_scalar : bool)
  (ifm_bits : Z) (k : kernel) (lut_banks : Z) (scaled : bool) (rs : Z) : option (option cfg_full) :=
  let ifm := larger_ifm ifm0 ifm2 in
  let is_convolution := (bt =? BT_ConvolutionMxN) || (bt =? BT_ConvolutionDepthWise) in
  match (if is_convolution then choose_kernel_method (sh_d ifm) ifm_bits k else Some false) with
  | None => None
  | Some pk =>
      match mk_ctx a bt ofm ifm uses_scalar ifm_bits pk k lut_banks scaled rs with
      | None => None
      | Some x =>
          if negb (try_asserts ifm_bits (x_ifm_granule x) (x_acc_bits x) (x_acc_granule x)) then None else
          let ss := search_space a ofm in
          let st := depth_loop (Z.to_nat (b_d ss) + 1) x ss (first_depth a (sh_d ofm) (b_d ss))
                      {| st_cost := None; st_cov := None; st_cfg := None; st_wont_fit := []; st_err := false |} in
          if st_err st then None
          else match st_cfg st with
               | Some c => Some (Some {| cf_cfg := c; cf_acc_type := acc_type bt ifm_bits scaled; cf_partkernel := pk;
                                         cf_bank_size := ar_shram_bank_size a |})
               | None => Some None
               end
      end
  end.

(* ---- try_block_config (shapes are Blocks: elements = w*h*d) ---- *)
Definition block_valid (a : arch_row) (b : block) : bool :=
  ((b_h b >? 0) && (b_h b <=? ar_ofm_block_max_h a) && (b_h b mod ar_ofm_ublock_h a =? 0)) &&
  ((b_w b >? 0) && (b_w b <=? ar_ofm_block_max_w a) && (b_w b mod ar_ofm_ublock_w a =? 0)) &&
  ((b_d b >? 0) && (b_d b <=? ar_ofm_block_max_d a) && (b_d b mod ar_ofm_ublock_d a =? 0)).

Definition shape_of_block (b : block) : shape4 := {| sh_n := 1; sh_h := b_h b; sh_w := b_w b; sh_d := b_d b |}.

Definition try_block_config (a : arch_row) (blk : block) (bt : Z) (ofm ifm0 : block) (ifm2 : option block)
  (uses_scalar : bool) (ifm_bits : Z) (is_partkernel : bool) (k : kernel) (lut_banks : Z) (scaled : bool) (rs : Z)
  : option (option cfg_full) :=
  if negb (block_valid a blk) then Some None else
  let ifm := larger_ifm (shape_of_block ifm0) (option_map shape_of_block ifm2) in
  match mk_ctx a bt (shape_of_block ofm) ifm uses_scalar ifm_bits is_partkernel k lut_banks scaled rs with
  | None => None
  | Some x =>
      if negb (try_asserts ifm_bits (x_ifm_granule x) (x_acc_bits x) (x_acc_granule x)) then None else
      match cand_layout x (b_h blk) (b_w blk) (b_d blk) with
      | None => Some None
      | Some l => Some (Some {| cf_cfg := {| c_layout := l; c_ifm_block := cand_ifm_block x (b_h blk) (b_w blk) (b_d blk);
                                             c_ofm_block := blk |};
                                cf_acc_type := acc_type bt ifm_bits scaled; cf_partkernel := is_partkernel;
                                cf_bank_size := ar_shram_bank_size a |})
      end
  end.

(* ---- validator for decoded registers of one emitted operation (device D2) ----
   blk = OFM_BLK_{HEIGHT,WIDTH,DEPTH}_M1 + 1, ib_end / ib_start2 / ab_start / acc_format as emitted;
   has_ifm2 tells whether IFM2_IB_START was emitted. Recomputes the requirement from the
   operation's shapes and checks the emitted partition against it. *)
Definition check_blockcfg (a : arch_row) (blk : block) (bt : Z) (ofm ifm0 : block) (ifm2 : option block)
  (uses_scalar : bool) (ifm_bits : Z) (is_partkernel : bool) (k : kernel) (lut_banks : Z) (rs : Z)
  (r_ib_end r_ib_start2 r_ab_start r_acc_format : Z) (has_ifm2 : bool) : bool :=
  let scaled := r_acc_format =? acc_format_Acc40 in
  let ifm := larger_ifm (shape_of_block ifm0) (option_map shape_of_block ifm2) in
  block_valid a blk &&
  ((r_acc_format =? acc_format_Acc40) || (r_acc_format =? acc_format_Acc32)) &&
  match mk_ctx a bt (shape_of_block ofm) ifm uses_scalar ifm_bits is_partkernel k lut_banks scaled rs with
  | None => false
  | Some x =>
      let t := if scaled then SHRAM_Acc40 else SHRAM_Acc32 in
      let l := {| ib_start := ar_reserved_output_banks a; ib_end := r_ib_end;
                  ib_start2 := if has_ifm2 then r_ib_start2
                               else if x_ew x =? EW_No then r_ib_end
                               else ar_reserved_output_banks a +
                                    banks_for (shram_of a) (ifm_bytes_of (cand_ifm_block x (b_h blk) (b_w blk) (b_d blk)) ifm_bits)
                                              (x_ifm_granule x);
                  ab_start := r_ab_start; lut_start := ar_total_banks a - x_lut_banks x |} in
      layout_okb (shram_of a) (x_ew x) (cand_fit_block x (b_h blk) (b_w blk) (b_d blk))
        (cand_ifm_block x (b_h blk) (b_w blk) (b_d blk)) ifm_bits (x_ifm_granule x) (acc_bits_of t)
        (acc_granule_of a t) (x_lut_banks x) l
  end.
