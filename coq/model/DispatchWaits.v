(* Flat integer interface of the C04 models and validator (build/waits) for tools/checks/c04.py.
   run cmd args = result, all lists of Z. *)
From Coq Require Import ZArith List Bool.
From VV Require Import lib.PyInt gen.GenTables hw.Npu hw.Queues hw.Hazard model.Waits model.RangeSet model.Blockdep.
Import ListNotations.
Open Scope Z_scope.

Fixpoint take_n (n : nat) (a : list Z) : list Z * list Z :=
  match n, a with
  | S n', x :: t => let '(xs, r) := take_n n' t in (x :: xs, r)
  | _, _ => ([], a)
  end.

Fixpoint take_pairs (n : nat) (a : list Z) : list (Z * Z) * list Z :=
  match n, a with
  | S n', x :: y :: t => let '(ps, r) := take_pairs n' t in ((x, y) :: ps, r)
  | _, _ => ([], a)
  end.

Definition nthz (l : list Z) (i : Z) : Z := nth (Z.to_nat i) l 0.

(* CMD waits = 1 : max_dma max_kern n kind*n (1 = DMA) conf*(n*n) (conf[i*n+j] = accesses[i].conflicts(accesses[j]))
   seq* (indices of the operations in program order)
   -> (kern_wait dma_wait)* len_dma outstanding_dma* len_kern outstanding_kern* *)
Definition run_waits_cmd (a : list Z) : list Z :=
  match a with
  | md :: mk :: n :: t =>
      let '(kinds, t1) := take_n (Z.to_nat n) t in
      let '(conf, ops) := take_n (Z.to_nat (n * n)) t1 in
      let is_dma := fun i => nthz kinds i =? 1 in
      let conflict := fun i j => negb (nthz conf (i * n + j) =? 0) in
      let ws := run_waits Z is_dma conflict md mk w_init ops in
      let fs := final_state Z is_dma conflict md mk w_init ops in
      flat_map (fun w => [fst w; snd w]) ws ++
      Z.of_nat (length (o_dma fs)) :: o_dma fs ++ Z.of_nat (length (o_kern fs)) :: o_kern fs
  | _ => [-1]
  end.

Definition ob_code (o : option bool) : Z :=
  match o with Some true => 1 | Some false => 0 | None => 2 end.

Definition flat_ranges (l : rset) : list Z := flat_map (fun r => [fst r; snd r]) l.

(* CMD rs_intersects = 2 : na (s e)*na nb (s e)*nb -> [1 | 0 | 2 (assertion)] *)
Definition run_rs_intersects (a : list Z) : list Z :=
  match a with
  | na :: t =>
      let '(ra, t1) := take_pairs (Z.to_nat na) t in
      match t1 with
      | nb :: t2 => let '(rb, _) := take_pairs (Z.to_nat nb) t2 in [ob_code (rs_intersects ra rb)]
      | [] => [-1]
      end
  | _ => [-1]
  end.

(* CMD rs_or = 3 : na (s e)*na nb (s e)*nb -> (s e)* *)
Definition run_rs_or (a : list Z) : list Z :=
  match a with
  | na :: t =>
      let '(ra, t1) := take_pairs (Z.to_nat na) t in
      match t1 with
      | nb :: t2 => let '(rb, _) := take_pairs (Z.to_nat nb) t2 in flat_ranges (rs_or ra rb)
      | [] => [-1]
      end
  | _ => [-1]
  end.

(* a MemoryAccessSet built by a sequence of add(MemoryRangeSet(area, start, end), direction) *)
Fixpoint build_ma (n : nat) (a : list Z) (x : maset) : option maset * list Z :=
  match n with
  | O => (Some x, a)
  | S n' =>
      match a with
      | w :: area :: s :: e :: t =>
          match mrs_new area s e with
          | Some m => build_ma n' t (ma_add x m (negb (w =? 0)))
          | None => (None, t)
          end
      | _ => (None, [])
      end
  end.

Definition flat_mrs (m : mrs) : list Z :=
  Z.of_nat (length m) :: flat_map (fun kv => fst kv :: Z.of_nat (length (snd kv)) :: flat_ranges (snd kv)) m.

(* CMD ma_conflicts = 4 : nx (write area start end)*nx ny (write area start end)*ny
   -> [code (1 | 0 | 2 assertion in intersects | 3 assertion in a constructor); x.read x.write as
       nregions, then per region: area nranges (s e)... in insertion order] *)
Definition run_ma_conflicts (a : list Z) : list Z :=
  match a with
  | nx :: t =>
      match build_ma (Z.to_nat nx) t ma_empty with
      | (Some x, ny :: t2) =>
          match build_ma (Z.to_nat ny) t2 ma_empty with
          | (Some y, _) => ob_code (ma_conflicts x y) :: flat_mrs (ma_read x) ++ flat_mrs (ma_write x)
          | (None, _) => [3]
          end
      | (None, _) => [3]
      | _ => [-1]
      end
  | _ => [-1]
  end.

Definition count_ops (evs : list event) : Z :=
  Z.of_nat (length (filter (fun e => match e with EOp _ _ _ => true | _ => false end) evs)).

(* CMD check_hazards = 5 : ncores lut_addr shram_usable max_dma max_kern words
   -> [1; ok; first op rejected by the cross-queue test; first op rejected by the BLOCKDEP test; n ops] | [0] *)
Definition run_check_hazards (a : list Z) : list Z :=
  match a with
  | nc :: la :: ss :: md :: mk :: ws =>
      let hw := {| hw_ncores := nc; hw_lut_addr := la; hw_shram_size := ss |} in
      let c := {| hz_hw := hw; hz_max_dma := md; hz_max_kern := mk |} in
      match run_stream ws with
      | Some evs =>
          [1; (if check_hazards c evs then 1 else 0); first_cross_bad c evs;
           first_blockdep_bad hw None evs 0; count_ops evs]
      | None => [0]
      end
  | _ => [-1]
  end.

(* CMD stream_waits = 6 : words -> per EOp: is_dma blockdep (kernel ops; -1 for DMA) n_waits_before (code param)* *)
Fixpoint flat_stream_waits (evs : list event) (pending : list Z) (npend : Z) : list Z :=
  match evs with
  | [] => []
  | EOp code param r :: t =>
      (if code =? cmd0_NPU_OP_DMA_START then [1; -1] else [0; r0 r cmd0_NPU_SET_BLOCKDEP]) ++
      npend :: pending ++ flat_stream_waits t [] 0
  | EWait code n :: t => flat_stream_waits t (pending ++ [code; n]) (npend + 1)
  | _ :: t => flat_stream_waits t pending npend
  end.
Definition run_stream_waits (a : list Z) : list Z :=
  match run_stream a with Some evs => 1 :: flat_stream_waits evs [] 0 | None => [0] end.

(* CMD calc_blockdep = 7 : see model/Blockdep.v [parse_case] -> [status; blockdep] *)
Definition run_calc_blockdep (a : list Z) : list Z := run_blockdep_case a.

Fixpoint parse_fms (n : nat) (a : list Z) : list fmap * list Z :=
  match n with
  | O => ([], a)
  | S n' => match parse_fm a with
            | Some (f, t) => let '(fs, r) := parse_fms n' t in (f :: fs, r)
            | None => ([], [])
            end
  end.
Fixpoint parse_aranges (n : nat) (a : list Z) : list arange * list Z :=
  match n, a with
  | S n', rg :: ad :: ln :: t => let '(rs, r) := parse_aranges n' t in ((rg, ad, ln) :: rs, r)
  | _, _ => ([], a)
  end.

(* CMD op_accesses = 9 : nrf fm(17)*nrf nrr (region addr len)*nrr nwf fm(17)*nwf nwr (region addr len)*nwr
   -> [1; read set; write set (as in ma_conflicts)] | [0] (assertion) *)
Definition run_op_accesses (a : list Z) : list Z :=
  match a with
  | nrf :: t =>
      let '(rf, t1) := parse_fms (Z.to_nat nrf) t in
      match t1 with
      | nrr :: t2 =>
          let '(rr, t3) := parse_aranges (Z.to_nat nrr) t2 in
          match t3 with
          | nwf :: t4 =>
              let '(wf, t5) := parse_fms (Z.to_nat nwf) t4 in
              match t5 with
              | nwr :: t6 =>
                  let '(wr, _) := parse_aranges (Z.to_nat nwr) t6 in
                  match op_accesses rf rr wf wr with
                  | Some m => 1 :: flat_mrs (ma_read m) ++ flat_mrs (ma_write m)
                  | None => [0]
                  end
              | [] => [-1]
              end
          | [] => [-1]
          end
      | [] => [-1]
      end
  | _ => [-1]
  end.

(* CMD hazard_stats = 8 : ncores lut_addr shram_usable max_dma max_kern words
   -> [1; kernel pairs; with BLOCKDEP > 0; of those with IFM/OFM overlap; cross pairs tested; waits] | [0] *)
Definition run_hazard_stats (a : list Z) : list Z :=
  match a with
  | nc :: la :: ss :: md :: mk :: ws =>
      let hw := {| hw_ncores := nc; hw_lut_addr := la; hw_shram_size := ss |} in
      let c := {| hz_hw := hw; hz_max_dma := md; hz_max_kern := mk |} in
      match run_stream ws with
      | Some evs =>
          let '(n, np, no) := bd_stats None evs (0, 0, 0) in
          let '(cp, cw) := cross_stats c q_init (hz_prog c evs 0) (0, 0) in
          [1; n; np; no; cp; cw]
      | None => [0]
      end
  | _ => [-1]
  end.

(* diagnostics for a rejected BLOCKDEP: the pair (previous possibly-unfinished kernel op A, op B = the
   i-th EOp) and, per (f, b) with f + b < k, whether the job-level test finds a clash *)
Definition flat_box (b : box) : list Z := [b_y0 b; b_y1 b; b_x0 b; b_x1 b; b_c0 b; b_c1 b].
Definition flat_view (v : fmview) : list Z :=
  [fv_region v; fv_b0 v; fv_b1 v; fv_b2 v; fv_b3 v; fv_h0 v; fv_h1 v; fv_w0 v; fv_sx v; fv_sy v; fv_sc v; fv_elem v;
   (if fv_b16 v then 1 else 0); fv_h v; fv_w v; fv_d v].

Fixpoint find_pair (prev : option kop) (evs : list event) (i : Z) (target : Z) : option (kop * kop) :=
  match evs with
  | [] => None
  | EOp code param r :: t =>
      if code =? cmd0_NPU_OP_DMA_START then find_pair prev t (i + 1) target
      else if i =? target then (match prev with Some A => Some (A, (code, param, r)) | None => None end)
      else find_pair (Some (code, param, r)) t (i + 1) target
  | EWait code n :: t =>
      if (code =? cmd0_NPU_OP_KERNEL_WAIT) && (n <=? 0) then find_pair None t i target else find_pair prev t i target
  | _ :: t => find_pair prev t i target
  end.

(* CMD blockdep_explain = 10 : ncores lut_addr shram_usable max_dma max_kern op_index words
   -> [1; codeA; codeB; k; nblocksA; njobsB; slicesB; op_clash; blkA h w d; blkB h w d; ofm view A (16); ifm view B (16);
       uses_ifm2 B; ifm2 view B (16); B's pad top left bottom right, stride y x, dilated kernel h w, upscale; then per (f, b): f b clash  A-block box (6)  B ofm block box (6)  B ifm box (6)  B ifm2 box (6)] *)
Definition run_blockdep_explain (a : list Z) : list Z :=
  match a with
  | nc :: la :: ss :: md :: mk :: idx :: ws =>
      let hw := {| hw_ncores := nc; hw_lut_addr := la; hw_shram_size := ss |} in
      match run_stream ws with
      | Some evs =>
          match find_pair None evs 0 idx with
          | Some (A, B) =>
              let '(ca, pa, ra) := A in
              let '(cb, pb, rb) := B in
              let k := blockdep_of B in
              let na := nblocks ra in
              let sl := ifm_slices cb rb in
              [1; ca; cb; k; na; njobs cb rb; sl; (if op_clash hw A B then 1 else 0);
               blk_h ra; blk_w ra; blk_d ra; blk_h rb; blk_w rb; blk_d rb] ++
              flat_view (ofm_view ra) ++ flat_view (ifm_view cb rb) ++
              [(if uses_ifm2 cb pb rb then 1 else 0)] ++ flat_view (ifm2_view rb) ++
              [r0 rb cmd0_NPU_SET_IFM_PAD_TOP; r0 rb cmd0_NPU_SET_IFM_PAD_LEFT; r0 rb cmd0_NPU_SET_IFM_PAD_BOTTOM;
               r0 rb cmd0_NPU_SET_IFM_PAD_RIGHT; k_stride_y (r0 rb cmd0_NPU_SET_KERNEL_STRIDE); k_stride_x (r0 rb cmd0_NPU_SET_KERNEL_STRIDE);
               r0 rb cmd0_NPU_SET_KERNEL_HEIGHT_M1 + 1; r0 rb cmd0_NPU_SET_KERNEL_WIDTH_M1 + 1; r0 rb cmd0_NPU_SET_IFM_UPSCALE] ++
              flat_map (fun f =>
                flat_map (fun b =>
                  let ob := ofm_block rb (f / sl) in
                  [f; b; (if job_clash A B f b then 1 else 0)] ++ flat_box (ofm_block ra (na - 1 - b)) ++ flat_box ob ++
                  flat_box (ifm_box cb rb ob (f mod sl)) ++ flat_box (ifm2_box rb ob))
                (upto (Z.to_nat (k - f)))) (upto (Z.to_nat k))
          | None => [2]
          end
      | None => [0]
      end
  | _ => [-1]
  end.

Definition run (cmd : Z) (a : list Z) : list Z :=
  if cmd =? 1 then run_waits_cmd a
  else if cmd =? 2 then run_rs_intersects a
  else if cmd =? 3 then run_rs_or a
  else if cmd =? 4 then run_ma_conflicts a
  else if cmd =? 5 then run_check_hazards a
  else if cmd =? 6 then run_stream_waits a
  else if cmd =? 7 then run_calc_blockdep a
  else if cmd =? 8 then run_hazard_stats a
  else if cmd =? 9 then run_op_accesses a
  else if cmd =? 10 then run_blockdep_explain a
  else [-1].
