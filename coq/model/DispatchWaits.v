(* Flat integer interface of the C04 models and validator (build/waits) for tools/checks/c04.py.
   run cmd args = result, all lists of Z. *)
From Coq Require Import ZArith List Bool.
From VV Require Import lib.PyInt gen.GenTables hw.Npu hw.Queues hw.Hazard model.Waits model.RangeSet model.Blockdep.
Import ListNotations.
Open Scope Z_scope.

Fixpoint take_n (n : nat) (a : list Z) : list Z * list Z :=
  match n, a with
  | S n', x :: t => let '(xs, r) := take_n n' t in (x :: xs, r)
  | _, _ => ([], a)
  end.

Fixpoint take_pairs (n : nat) (a : list Z) : list (Z * Z) * list Z :=
  match n, a with
  | S n', x :: y :: t => let '(ps, r) := take_pairs n' t in ((x, y) :: ps, r)
  | _, _ => ([], a)
  end.

Definition nthz (l : list Z) (i : Z) : Z := nth (Z.to_nat i) l 0.

(* CMD waits = 1 : max_dma max_kern n kind*n (1 = DMA) conf*(n*n) (conf[i*n+j] = accesses[i].conflicts(accesses[j]))
   seq* (indices of the operations in program order)
   -> (kern_wait dma_wait)* len_dma outstanding_dma* len_kern outstanding_kern* *)
Definition run_waits_cmd (a : list Z) : list Z :=
  match a with
  | md :: mk :: n :: t =>
      let '(kinds, t1) := take_n (Z.to_nat n) t in
      let '(conf, ops) := take_n (Z.to_nat (n * n)) t1 in
      let is_dma := fun i => nthz kinds i =? 1 in
      let conflict := fun i j => negb (nthz conf (i * n + j) =? 0) in
      let ws := run_waits Z is_dma conflict md mk w_init ops in
      let fs := final_state Z is_dma conflict md mk w_init ops in
      flat_map (fun w => [fst w; snd w]) ws ++
      Z.of_nat (length (o_dma fs)) :: o_dma fs ++ Z.of_nat (length (o_kern fs)) :: o_kern fs
  | _ => [-1]
  end.

Definition ob_code (o : option bool) : Z :=
  match o with Some true => 1 | Some false => 0 | None => 2 end.

Definition flat_ranges (l : rset) : list Z := flat_map (fun r => [fst r; snd r]) l.

(* CMD rs_intersects = 2 : na (s e)*na nb (s e)*nb -> [1 | 0 | 2 (assertion)] *)
Definition run_rs_intersects (a : list Z) : list Z :=
  match a with
  | na :: t =>
      let '(ra, t1) := take_pairs (Z.to_nat na) t in
      match t1 with
      | nb :: t2 => let '(rb, _) := take_pairs (Z.to_nat nb) t2 in [ob_code (rs_intersects ra rb)]
      | [] => [-1]
      end
  | _ => [-1]
  end.

(* CMD rs_or = 3 : na (s e)*na nb (s e)*nb -> (s e)* *)
Definition run_rs_or (a : list Z) : list Z :=
  match a with
  | na :: t =>
      let '(ra, t1) := take_pairs (Z.to_nat na) t in
      match t1 with
      | nb :: t2 => let '(rb, _) := take_pairs (Z.to_nat nb) t2 in flat_ranges (rs_or ra rb)
      | [] => [-1]
      end
  | _ => [-1]
  end.

(* a MemoryAccessSet built by a sequence of add(MemoryRangeSet(area, start, end), direction) *)
Fixpoint build_ma (n : nat) (a : list Z) (x : maset) : option maset * list Z :=
  match n with
  | O => (Some x, a)
  | S n' =>
      match a with
      | w :: area :: s :: e :: t =>
          match mrs_new area s e with
          | Some m => build_ma n' t (ma_add x m (negb (w =? 0)))
          | None => (None, t)
          end
      | _ => (None, [])
      end
  end.

Definition flat_mrs (m : mrs) : list Z :=
  Z.of_nat (length m) :: flat_map (fun kv => fst kv :: Z.of_nat (length (snd kv)) :: flat_ranges (snd kv)) m.

(* CMD ma_conflicts = 4 : nx (write area start end)*nx ny (write area start end)*ny
   -> [code (1 | 0 | 2 assertion in intersects | 3 assertion in a constructor); x.read x.write as
       nregions, then per region: area nranges (s e)... in insertion order] *)
Definition run_ma_conflicts (a : list Z) : list Z :=
  match a with
  | nx :: t =>
      match build_ma (Z.to_nat nx) t ma_empty with
      | (Some x, ny :: t2) =>
          match build_ma (Z.to_nat ny) t2 ma_empty with
          | (Some y, _) => ob_code (ma_conflicts x y) :: flat_mrs (ma_read x) ++ flat_mrs (ma_write x)
          | (None, _) => [3]
          end
      | (None, _) => [3]
      | _ => [-1]
      end
  | _ => [-1]
  end.

Definition count_ops (evs : list event) : Z :=
  Z.of_nat (length (filter (fun e => match e with EOp _ _ _ => true | _ => false end) evs)).

(* CMD check_hazards = 5 : ncores lut_addr shram_usable max_dma max_kern words
   -> [1; ok; first op rejected by the cross-queue test; first op rejected by the BLOCKDEP test; n ops] | [0] *)
Definition run_check_hazards (a : list Z) : list Z :=
  match a with
  | nc :: la :: ss :: md :: mk :: ws =>
      let hw := {| hw_ncores := nc; hw_lut_addr := la; hw_shram_size := ss |} in
      let c := {| hz_hw := hw; hz_max_dma := md; hz_max_kern := mk |} in
      match run_stream ws with
      | Some evs =>
          [1; (if check_hazards c evs then 1 else 0); first_cross_bad c evs;
           first_blockdep_bad hw None evs 0; count_ops evs]
      | None => [0]
      end
  | _ => [-1]
  end.

(* CMD stream_waits = 6 : words -> per EOp: is_dma blockdep (kernel ops; -1 for DMA) n_waits_before (code param)* *)
Fixpoint flat_stream_waits (evs : list event) (pending : list Z) (npend : Z) : list Z :=
  match evs with
  | [] => []
  | EOp code param r :: t =>
      (if code =? cmd0_NPU_OP_DMA_START then [1; -1] else [0; r0 r cmd0_NPU_SET_BLOCKDEP]) ++
      npend :: pending ++ flat_stream_waits t [] 0
  | EWait code n :: t => flat_stream_waits t (pending ++ [code; n]) (npend + 1)
  | _ :: t => flat_stream_waits t pending npend
  end.
Definition run_stream_waits (a : list Z) : list Z :=
  match run_stream a with Some evs => 1 :: flat_stream_waits evs [] 0 | None => [0] end.

(* CMD calc_blockdep = 7 : see model/Blockdep.v [parse_case] -> [status; blockdep] *)
Definition run_calc_blockdep (a : list Z) : list Z := run_blockdep_case a.

Fixpoint parse_fms (n : nat) (a : list Z) : list fmap * list Z :=
  match n with
  | O => ([], a)
  | S n' => match parse_fm a with
            | Some (f, t) => let '(fs, r) := parse_fms n' t in (f :: fs, r)
            | None => ([], [])
            end
  end.
Fixpoint parse_aranges (n : nat) (a : list Z) : list arange * list Z :=
  match n, a with
  | S n', rg :: ad :: ln :: t => let '(rs, r) := parse_aranges n' t in ((rg, ad, ln) :: rs, r)
  | _, _ => ([], a)
  end.

(* CMD op_accesses = 9 : nrf fm(17)*nrf nrr (region addr len)*nrr nwf fm(17)*nwf nwr (region addr len)*nwr
   -> [1; read set; write set (as in ma_conflicts)] | [0] (assertion) *)
Definition run_op_accesses (a : list Z) : list Z :=
  match a with
  | nrf :: t =>
      let '(rf, t1) := parse_fms (Z.to_nat nrf) t in
      match t1 with
      | nrr :: t2 =>
          let '(rr, t3) := parse_aranges (Z.to_nat nrr) t2 in
          match t3 with
          | nwf :: t4 =>
              let '(wf, t5) := parse_fms (Z.to_nat nwf) t4 in
              match t5 with
              | nwr :: t6 =>
                  let '(wr, _) := parse_aranges (Z.to_nat nwr) t6 in
                  match op_accesses rf rr wf wr with
                  | Some m => 1 :: flat_mrs (ma_read m) ++ flat_mrs (ma_write m)
                  | None => [0]
                  end
              | [] => [-1]
              end
          | [] => [-1]
          end
      | [] => [-1]
      end
  | _ => [-1]
  end.

(* CMD hazard_stats = 8 : ncores lut_addr shram_usable max_dma max_kern words
   -> [1; kernel pairs; with BLOCKDEP > 0; of those with IFM/OFM overlap; cross pairs tested; waits] | [0] *)
Definition run_hazard_stats (a : list Z) : list Z :=
  match a with
  | nc :: la :: ss :: md :: mk :: ws =>
      let hw := {| hw_ncores := nc; hw_lut_addr := la; hw_shram_size := ss |} in
      let c := {| hz_hw := hw; hz_max_dma := md; hz_max_kern := mk |} in
      match run_stream ws with
      | Some evs =>
          let '(n, np, no) := bd_stats None evs (0, 0, 0) in
          let '(cp, cw) := cross_stats c q_init (hz_prog c evs 0) (0, 0) in
          [1; n; np; no; cp; cw]
      | None => [0]
      end
  | _ => [-1]
  end.

Definition run (cmd : Z) (a : list Z) : list Z :=
  if cmd =? 1 then run_waits_cmd a
  else if cmd =? 2 then run_rs_intersects a
  else if cmd =? 3 then run_rs_or a
  else if cmd =? 4 then run_ma_conflicts a
  else if cmd =? 5 then run_check_hazards a
  else if cmd =? 6 then run_stream_waits a
  else if cmd =? 7 then run_calc_blockdep a
  else if cmd =? 8 then run_hazard_stats a
  else if cmd =? 9 then run_op_accesses a
  else [-1].
