(* Flat integer interface of the Stripe model for the correspondence harness (tools/checks/c10.py).
   Status convention: first result 1 = value, 0 = AssertionError / ValueError, 2 = UnsupportedFeatureError. *)
From Coq Require Import ZArith List Bool.
From VV Require Import lib.PyInt gen.GenArchTables model.Stripe.
Import ListNotations.
Open Scope Z_scope.

Definition zb (z : Z) : bool := negb (z =? 0).
Definition bz (b : bool) : Z := if b then 1 else 0.
Definition mk4 (a b c d : Z) : c4 := {| cn := a; ch := b; cw := c; cc := d |}.
Definition mkp (a b c d : Z) : pad4 := {| p_top := a; p_left := b; p_bottom := c; p_right := d |}.
Definition out_box (b : box) : list Z := c4_list (fst b) ++ c4_list (snd b).
Definition out_pad (p : pad4) : list Z := [p_top p; p_left p; p_bottom p; p_right p].

(* CMD transform = 1 : s(4) e(4) has_ss sy sx skirt(4) ifm(4) block_type concat(4) kdh has_split split_off(4) split_shape(4) up wrap
                       -> 0 | 1 start(4) end(4) pad_top pad_bottom *)
Definition run_transform (a : list Z) : list Z :=
  match a with
  | [s0; s1; s2; s3; e0; e1; e2; e3; hs; sy; sx; k0; k1; k2; k3; f0; f1; f2; f3; bt; c0; c1; c2; c3; kdh;
     hsp; o0; o1; o2; o3; h0; h1; h2; h3; up; wr] =>
      match transform {| t_s := mk4 s0 s1 s2 s3; t_e := mk4 e0 e1 e2 e3; t_has_ss := zb hs; t_sy := sy; t_sx := sx;
                         t_skirt := mkp k0 k1 k2 k3; t_ifm := mk4 f0 f1 f2 f3; t_dot := is_dot_block bt;
                         t_concat := mk4 c0 c1 c2 c3; t_kdh := kdh;
                         t_split := if zb hsp then Some (mk4 o0 o1 o2 o3, mk4 h0 h1 h2 h3) else None;
                         t_up := up; t_wrap := zb wr |} with
      | Some (b, pt, pb) => 1 :: out_box b ++ [pt; pb]
      | None => [0]
      end
  | _ => [-1]
  end.

(* CMD create_padding = 2 : vp tile ep(4) first last cpt cpb has_ro off shp ifm_w bx0 bx1 -> top left bottom right *)
Definition run_create_padding (a : list Z) : list Z :=
  match a with
  | [vp; tile; e0; e1; e2; e3; fi; la; cpt; cpb; hro; off; shp; ifm_w; bx0; bx1] =>
      out_pad (create_padding (zb vp) (zb tile) (mkp e0 e1 e2 e3) (zb fi) (zb la) cpt cpb
                 (if zb hro then Some (off, shp) else None) ifm_w bx0 bx1)
  | _ => [-1]
  end.

(* CMD padding_and_skirt = 3 : ptype k_w k_h s_x s_y in_h in_w ep(4) -> 0 | 1 padding(4) skirt(4) *)
Definition run_padding_and_skirt (a : list Z) : list Z :=
  match a with
  | [pt; kw; kh; sx; sy; ih; iw; e0; e1; e2; e3] =>
      match calc_padding_and_skirt pt kw kh sx sy ih iw (mkp e0 e1 e2 e3) with
      | Some (p, s) => 1 :: out_pad p ++ out_pad s
      | None => [0]
      end
  | _ => [-1]
  end.

(* CMD pad_helpers = 4 : input_size stride filter_size pad_before pad_after -> needed_total_padding before after *)
Definition run_pad_helpers (a : list Z) : list Z :=
  match a with
  | [i; s; f; pb; pa] =>
      let '(x, y) := calc_explicit_padding i s f pb pa in [needed_total_padding i s f; x; y]
  | _ => [-1]
  end.

(* CMD ifm_area = 5 : ofm_h ofm_w s_y s_x area_h area_w rmode -> w1 h1 *)
Definition run_ifm_area (a : list Z) : list Z :=
  match a with
  | [oh; ow; sy; sx; ah; aw; rm] => let '(w, h) := ifm_area_required oh ow sy sx ah aw rm in [w; h]
  | _ => [-1]
  end.

(* CMD rb_shape = 6 : p_h p_w p_d c_h c_w consumer_ifm_rows -> n h w d *)
Definition run_rb_shape (a : list Z) : list Z :=
  match a with
  | [ph; pw; pd; ch; cw; rows] => let '(n, h, w, d) := rolling_buffer_shape ph pw pd ch cw rows in [n; h; w; d]
  | _ => [-1]
  end.

Fixpoint flat_boxes (l : list box) : list Z :=
  match l with [] => [] | b :: t => out_box b ++ flat_boxes t end.

(* CMD ofm_boxes = 7 : start(4) end(4) step_h step_w slices* -> 0 | 1 n (start(4) end(4))*n *)
Definition run_ofm_boxes (a : list Z) : list Z :=
  match a with
  | s0 :: s1 :: s2 :: s3 :: e0 :: e1 :: e2 :: e3 :: sh :: sw :: slices =>
      match gen_ofm_boxes (mk4 s0 s1 s2 s3) (mk4 e0 e1 e2 e3) sh sw slices with
      | Some l => 1 :: Z.of_nat (List.length l) :: flat_boxes l
      | None => [0]
      end
  | _ => [-1]
  end.

(* CMD rolling_addresses = 8 : fmt base storage(4) strides(5) has_bound bound(4) ssz s(4) e(4)
                               -> 0 | 2 | 1 h0 h1 w0 a0 a1 a2 a3 *)
Definition run_rolling_addresses (a : list Z) : list Z :=
  match a with
  | [fmt; base; g0; g1; g2; g3; t0; t1; t2; t3; t4; hb; b0; b1; b2; b3; ssz; s0; s1; s2; s3; e0; e1; e2; e3] =>
      match rolling_addresses fmt base (mk4 g0 g1 g2 g3) [t0; t1; t2; t3; t4]
              (if zb hb then Some (mk4 b0 b1 b2 b3) else None) ssz (mk4 s0 s1 s2 s3) (mk4 e0 e1 e2 e3) with
      | RbAssert => [0]
      | RbUnsupported => [2]
      | RbOk h0 h1 w0 ad => 1 :: h0 :: h1 :: w0 :: ad
      end
  | _ => [-1]
  end.

(* CMD get_strides = 9 : fmt es shp(4) -> s0 s1 s2 s3 s4 *)
Definition run_get_strides (a : list Z) : list Z :=
  match a with
  | [fmt; es; g0; g1; g2; g3] => get_strides fmt es (mk4 g0 g1 g2 g3)
  | _ => [-1]
  end.

Fixpoint take_n (n : nat) (a : list Z) : list Z * list Z :=
  match n, a with
  | S n', x :: t => let '(xs, r) := take_n n' t in (x :: xs, r)
  | _, _ => ([], a)
  end.
Definition box_of (l : list Z) : box :=
  match l with
  | [s0; s1; s2; s3; e0; e1; e2; e3] => (mk4 s0 s1 s2 s3, mk4 e0 e1 e2 e3)
  | _ => (mk4 0 0 0 0, mk4 0 0 0 0)
  end.
Fixpoint take_ccmds (n : nat) (a : list Z) : list ccmd * list Z :=
  match n with
  | O => ([], a)
  | S n' =>
      let '(o, r1) := take_n 8 a in
      let '(i, r2) := take_n 8 r1 in
      match r2 with
      | pt :: pb :: r3 =>
          let '(l, rest) := take_ccmds n' r3 in
          ({| cm_ofm := box_of o; cm_ifm := box_of i; cm_pt := pt; cm_pb := pb |} :: l, rest)
      | _ => ([], r2)
      end
  end.
Fixpoint take_boxes (n : nat) (a : list Z) : list (bool * box) * list Z :=
  match n, a with
  | S n', fl :: a' => let '(b, r) := take_n 8 a' in let '(l, rest) := take_boxes n' r in ((zb fl, box_of b) :: l, rest)
  | _, _ => ([], a)
  end.
Fixpoint flat_events (l : list (@event ccmd (bool * box))) : list Z :=
  match l with
  | [] => []
  | EProd p :: t => 0 :: out_box (snd p) ++ flat_events t
  | ECons c :: t => 1 :: out_box (cm_ofm c) ++ flat_events t
  end.

(* CMD interleave = 10 : ncons (ofm_box(8) ifm_box(8) pad_top pad_bottom)*ncons nprod (is_producer_stripe ofm_box(8))*nprod
                         -> (0 producer_ofm_box(8) | 1 consumer_ofm_box(8))* in emission order *)
Definition run_interleave (a : list Z) : list Z :=
  match a with
  | nc :: t =>
      let '(cs, r) := take_ccmds (Z.to_nat nc) t in
      match r with
      | np :: t2 => let '(ps, _) := take_boxes (Z.to_nat np) t2 in flat_events (interleave4 cs ps)
      | [] => [-1]
      end
  | _ => [-1]
  end.

Definition mk_geom (l : list Z) : option geom :=
  match l with
  | [gi; go; k; d; s; top; bottom; skt; skb] =>
      Some {| g_in := gi; g_out := go; g_k := k; g_d := d; g_s := s; g_top := top; g_bottom := bottom;
              g_sk_t := skt; g_sk_b := skb |}
  | _ => None
  end.

(* CMD stripe_h = 11 : geom(in out k d s top bottom skirt_t skirt_b) woff st en -> b0 b1 pad_top pad_bottom taps_ok *)
Definition run_stripe_h (a : list Z) : list Z :=
  let '(gl, r) := take_n 9 a in
  match mk_geom gl, r with
  | Some g, [woff; st; en] =>
      let '(b0, b1, pt, pb) := stripe_h g woff st en in [b0; b1; pt; pb; bz (stripe_taps_ok g woff st en)]
  | _, _ => [-1]
  end.

(* CMD check_taps = 12 : b0 b1 p0 p1 n s kd d k i0 lo hi top r0 -> 1 | 0
   every tap of outputs i0..i0+n-1 (relative 0..n-1) through (b0,b1,p0,p1) equals the reference tap of operator
   output r0+i over the valid range [lo,hi) with leading padding top *)
Definition run_check_taps (a : list Z) : list Z :=
  match a with
  | [b0; b1; p0; p1; n; s; kd; d; k; lo; hi; top; r0] =>
      [bz (check_stripe_taps b0 b1 p0 p1 n s kd d k lo hi top r0)]
  | _ => [-1]
  end.

(* CMD cascade = 13 : geom(9) hc hp -> stripe_input_h stripe_ifm_rows buffer_h all_rows_present n_events *)
Definition run_cascade (a : list Z) : list Z :=
  let '(gl, r) := take_n 9 a in
  match mk_geom gl, r with
  | Some g, [hc; hp] =>
      let evs := cascade_events g hc hp in
      [stripe_input_h g hc; stripe_ifm_rows g hc; buffer_h g hc hp; bz (run_events (buffer_h g hc hp) rb_empty evs); Z.of_nat (List.length evs)]
  | _, _ => [-1]
  end.

(* CMD tile_row = 14 : h0 a0 a2 stride_y t -> address *)
Definition run_tile_row (a : list Z) : list Z :=
  match a with
  | [h0; a0; a2; sy; t] => [tile_row_addr h0 a0 a2 sy t]
  | _ => [-1]
  end.

Definition run (cmd : Z) (a : list Z) : list Z :=
  if cmd =? 1 then run_transform a
  else if cmd =? 2 then run_create_padding a
  else if cmd =? 3 then run_padding_and_skirt a
  else if cmd =? 4 then run_pad_helpers a
  else if cmd =? 5 then run_ifm_area a
  else if cmd =? 6 then run_rb_shape a
  else if cmd =? 7 then run_ofm_boxes a
  else if cmd =? 8 then run_rolling_addresses a
  else if cmd =? 9 then run_get_strides a
  else if cmd =? 10 then run_interleave a
  else if cmd =? 11 then run_stripe_h a
  else if cmd =? 12 then run_check_taps a
  else if cmd =? 13 then run_cascade a
  else if cmd =? 14 then run_tile_row a
  else [-2].
