(* Flat integer interface of the C11 whole-model validator (build/preserve) for tools/checks/c11.py.
   The single-subgraph command stays in model/Dispatch.v (CMD check_preserved = 8 of build/velaverif). *)
From Coq Require Import ZArith List Bool.
From VV Require Import model.Preserve model.OutputList.
Import ListNotations.
Open Scope Z_scope.

Fixpoint take_pairs (n : nat) (a : list Z) : list (Z * Z) * list Z :=
  match n, a with
  | S n', x :: y :: t => let '(ps, r) := take_pairs n' t in ((x, y) :: ps, r)
  | _, _ => ([], a)
  end.
Fixpoint take_n (n : nat) (a : list Z) : list Z * list Z :=
  match n, a with
  | S n', x :: t => let '(xs, r) := take_n n' t in (x :: xs, r)
  | _, _ => ([], a)
  end.
Fixpoint take_tsums (n : nat) (a : list Z) : list tsum * list Z :=
  match n, a with
  | S n', sg :: d :: t => let '(r, rest) := take_tsums n' t in ({| ts_sig := sg; ts_data := d |} :: r, rest)
  | _, _ => ([], a)
  end.
Fixpoint take_osums (n : nat) (a : list Z) : list osum * list Z :=
  match n, a with
  | S n', sg :: npu :: ni :: t =>
      let '(ins, t1) := take_n (Z.to_nat ni) t in
      match t1 with
      | no :: t2 => let '(outs, t3) := take_n (Z.to_nat no) t2 in
                    let '(r, rest) := take_osums n' t3 in
                    ({| os_sig := sg; os_in := ins; os_out := outs; os_npu := negb (npu =? 0) |} :: r, rest)
      | [] => ([], a)
      end
  | _, _ => ([], a)
  end.
(* one subgraph: ntens {sig data} nops {sig npu nin {in} nout {out}} nin {in} nout {out}; {x} = repeated x; None = truncated *)
Definition take_gsum (a : list Z) : option (gsum * list Z) :=
  match a with
  | nt :: t =>
      let '(ts, t1) := take_tsums (Z.to_nat nt) t in
      match t1 with
      | nops :: t2 =>
          let '(ops, t3) := take_osums (Z.to_nat nops) t2 in
          match t3 with
          | ni :: t4 => let '(gi, t5) := take_n (Z.to_nat ni) t4 in
                        match t5 with
                        | no :: t6 => let '(go, t7) := take_n (Z.to_nat no) t6 in
                                      if (Z.of_nat (length ts) =? nt) && (Z.of_nat (length ops) =? nops) &&
                                         (Z.of_nat (length gi) =? ni) && (Z.of_nat (length go) =? no)
                                      then Some ({| g_tens := ts; g_ops := ops; g_in := gi; g_out := go |}, t7)
                                      else None
                        | [] => None
                        end
          | [] => None
          end
      | [] => None
      end
  | [] => None
  end.
Fixpoint take_gsums (n : nat) (a : list Z) : option (list gsum * list Z) :=
  match n with
  | O => Some ([], a)
  | S n' => match take_gsum a with
            | Some (g, r) => match take_gsums n' r with Some (gs, r') => Some (g :: gs, r') | None => None end
            | None => None
            end
  end.
Fixpoint take_wits (n : nat) (a : list Z) : option (list witness * list Z) :=
  match n with
  | O => Some ([], a)
  | S n' =>
      match a with
      | npsi :: t =>
          let '(psi, t1) := take_pairs (Z.to_nat npsi) t in
          match t1 with
          | nphi :: t2 =>
              let '(phi, t3) := take_pairs (Z.to_nat nphi) t2 in
              if (Z.of_nat (length psi) =? npsi) && (Z.of_nat (length phi) =? nphi)
              then match take_wits n' t3 with Some (ws, r) => Some ((psi, phi) :: ws, r) | None => None end
              else None
          | [] => None
          end
      | [] => None
      end
  end.

(* CMD check_preserved_model = 1 : nsrc {src-graph} nout {out-graph} nwit {npsi {t u} nphi {i j}}
   -> [ok] | [-1] (malformed or trailing input) *)
Definition run_check_preserved_model (a : list Z) : list Z :=
  match a with
  | nsrc :: t0 =>
      match take_gsums (Z.to_nat nsrc) t0 with
      | Some (src, nout :: t1) =>
          match take_gsums (Z.to_nat nout) t1 with
          | Some (out, nwit :: t2) =>
              match take_wits (Z.to_nat nwit) t2 with
              | Some (wit, []) => [if check_preserved_model src out wit then 1 else 0]
              | _ => [-1]
              end
          | _ => [-1]
          end
      | _ => [-1]
      end
  | [] => [-1]
  end.

(* CMD output_list = 2 : the subgraph output indices -> [n] ++ dedup ++ positions (-1 = not found) *)
Definition run_output_list (a : list Z) : list Z :=
  let d := dedup a in
  Z.of_nat (length d) :: d ++ map (fun p => match p with Some i => Z.of_nat i | None => -1 end) (positions a).

Definition run (cmd : Z) (a : list Z) : list Z :=
  if cmd =? 1 then run_check_preserved_model a else if cmd =? 2 then run_output_list a else [-1].
