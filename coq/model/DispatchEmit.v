(* Flat integer interface of model/Emit.v for the correspondence harness (tools/checks/c06.py).
   Encoding of a call: four integers  tag a b c
     tag 0 Cmd0 code param _ | 1 Cmd1Offset code offset param | 2 Cmd1Address code addr _
     | 3 Wait code channel count | 4 DoOp code param _
   Booleans are 0/1. *)
From Coq Require Import ZArith List Bool.
From VV Require Import lib.PyInt gen.GenTables gen.GenEmitTables hw.Npu model.Emit.
Import ListNotations.
Open Scope Z_scope.

Definition zb (x : Z) : bool := negb (x =? 0).
Definition bz (b : bool) : Z := if b then 1 else 0.

Definition mk_call (tag a b c : Z) : call :=
  if tag =? 0 then Cmd0 a b
  else if tag =? 1 then Cmd1Offset a b c
  else if tag =? 2 then Cmd1Address a b
  else if tag =? 3 then Wait a b c
  else DoOp a b.

Fixpoint dec_calls (n : nat) (l : list Z) : list call * list Z :=
  match n with
  | O => ([], l)
  | S n' =>
      match l with
      | tag :: a :: b :: c :: r => let '(cs, rest) := dec_calls n' r in (mk_call tag a b c :: cs, rest)
      | _ => ([], [])
      end
  end.

(* CMD emit_calls = 1 : ncalls (tag a b c)* -> final_offset bank_idx0 bank_idx1 words *)
Definition run_emit_calls (a : list Z) : list Z :=
  match a with
  | n :: t =>
      let '(cs, _) := dec_calls (Z.to_nat n) t in
      let '(s, ws) := emit_all est_init cs in
      e_offset s :: rm_idx (e_rm0 s) :: rm_idx (e_rm1 s) :: ws
  | [] => [-1]
  end.

(* CMD emit_trace = 2 : ncalls (tag a b c)* -> number of words emitted by each call *)
Fixpoint trace (s : est) (cs : list call) : list Z :=
  match cs with
  | [] => []
  | c :: t => let '(s1, w) := emit s c in Z.of_nat (List.length w) :: trace s1 t
  end.
Definition run_emit_trace (a : list Z) : list Z :=
  match a with
  | n :: t => let '(cs, _) := dec_calls (Z.to_nat n) t in trace est_init cs
  | [] => [-1]
  end.

(* CMD kernel_fields = 3 : w h sx sy dx dy part_kernel -> KERNEL_HEIGHT_M1 KERNEL_WIDTH_M1 KERNEL_STRIDE *)
Definition run_kernel_fields (a : list Z) : list Z :=
  match a with
  | [w; h; sx; sy; dx; dy; pk] =>
      [kernel_size_field dy h; kernel_size_field dx w; kernel_stride_field sx sy dx dy (zb pk)]
  | _ => [-1]
  end.

(* CMD precision_fields = 4 : signed bits nhcwb16 op_to_scale global_scale rounding -> IFM_PRECISION OFM_PRECISION *)
Definition run_precision_fields (a : list Z) : list Z :=
  match a with
  | [sg; bits; b16; ots; gs; rnd] =>
      [ifm_precision_field (zb sg) bits (zb b16) ots; ofm_precision_field (zb sg) bits (zb gs) (zb b16) rnd]
  | _ => [-1]
  end.

(* CMD default_strides = 5 : nhcwb16 elem_size width depth -> stride_c stride_y stride_x *)
Definition run_default_strides (a : list Z) : list Z :=
  match a with
  | [b16; elem; w; d] => let '(sc, sy, sx) := default_strides (zb b16) elem w d in [sc; sy; sx]
  | _ => [-1]
  end.

(* CMD checks = 6 : kind args -> 1 accepted | 0 exception
   kind 0 check_alignment a n | 1 check_size a n | 2 check_strides b16 elem sc sy sx
   | 3 check_addresses b16 elem q16 a0 a1 a2 a3 | 4 check_dma_op u65 sr sa dr da len | 5 weights addr len | 6 bias len *)
Definition run_checks (a : list Z) : list Z :=
  match a with
  | [0; x; n] => [bz (check_alignment_ok x n)]
  | [1; x; n] => [bz (check_size_ok x n)]
  | [2; b16; elem; sc; sy; sx] => [bz (check_strides_ok (zb b16) elem sc sy sx)]
  | 3 :: b16 :: elem :: q16 :: addrs => [bz (check_addresses_ok (zb b16) elem q16 addrs)]
  | [4; u65; sr; sa; dr; da; len] => [bz (check_dma_ok (zb u65) sr sa dr da len)]
  | [5; addr; len] => [bz (check_weight_ok addr len)]
  | [6; len] => [bz (check_bias_ok len)]
  | _ => [-1]
  end.

(* CMD misc_fields = 7 : lut_index ofm_int32 reversed scalar bh bw bc addr -> ACTIVATION(lut) IFM2_BROADCAST addr_lo addr_hi *)
Definition run_misc_fields (a : list Z) : list Z :=
  match a with
  | [idx; i32; rv; sc; bh; bw; bc; addr] =>
      [activation_lut_field idx (zb i32); broadcast_field (zb rv) (zb sc) (zb bh) (zb bw) (zb bc);
       addr_lo addr; addr_hi addr]
  | _ => [-1]
  end.

(* CMD frame_stream = 8 : has_parallel parallel nframes { nregs (tag a b c)* has_blockdep blockdep kwait dwait opcode opparam }
   -> words of emitted (stream_calls ...) *)
Fixpoint dec_frames (n : nat) (l : list Z) : list opframe :=
  match n with
  | O => []
  | S n' =>
      match l with
      | nregs :: t =>
          let '(cs, r) := dec_calls (Z.to_nat nregs) t in
          match r with
          | hb :: bd :: kw :: dw :: oc :: op :: rest =>
              {| f_regs := cs; f_blockdep := if zb hb then Some bd else None; f_kwait := kw; f_dwait := dw;
                 f_opcode := oc; f_opparam := op |} :: dec_frames n' rest
          | _ => []
          end
      | [] => []
      end
  end.
Definition run_frame_stream (a : list Z) : list Z :=
  match a with
  | hp :: par :: nf :: t => emitted (stream_calls (if zb hp then Some par else None) (dec_frames (Z.to_nat nf) t))
  | _ => [-1]
  end.

(* CMD scale_mode = 9 : reversed ifm_smaller -> op_to_scale written to IFM_PRECISION[9:8]; rescaled feature map is IFM? *)
Definition run_scale_mode (a : list Z) : list Z :=
  match a with
  | [rv; sm] => let m := scale_mode (zb rv) (op_to_scale_ref (zb sm)) in [m; bz (rescaled_is_ifm (zb rv) m)]
  | _ => [-1]
  end.

Definition run (cmd : Z) (a : list Z) : list Z :=
  if cmd =? 1 then run_emit_calls a
  else if cmd =? 2 then run_emit_trace a
  else if cmd =? 3 then run_kernel_fields a
  else if cmd =? 4 then run_precision_fields a
  else if cmd =? 5 then run_default_strides a
  else if cmd =? 6 then run_checks a
  else if cmd =? 7 then run_misc_fields a
  else if cmd =? 8 then run_frame_stream a
  else if cmd =? 9 then run_scale_mode a
  else [-1].
