(* Hand model (device H) of the configuration resolution of ethos-u-vela:
     architecture_features.py  ArchitectureFeatures._read_config, _get_vela_config,
                               _set_default_sys_config, _set_default_mem_mode, the bandwidth lines of __init__
     vela.py                   main(): _parse_config, the hand-off of the path list, --arena-cache-size,
                               Imx93ArchitectureFeatures._set_default_sys_config
   and, in the second half, an independent SPEC transcribing OPTIONS.md.
   Executable definitions only; proofs are in proofs/ConfigProofs.v.  Tie: correspondence
   (tools/checks/c18.py) against the real classes and the real main().

   Encoding.  A text (section name or option value, after ConfigParser's stripping) is one of
     TInt n    a decimal integer literal            int() and float() accept it
     TFrac n   a decimal with a point, value n/1024 float() accepts it, int() raises ValueError
     TName id  any other text, identified by id     ids 0..6 = the MemArea member names by value
               (Unknown Sram Dram OnChipFlash OffChipFlash Shram Size), 11/12 = Axi0/Axi1,
               20/21 = "System_Config.internal-default"/"Memory_Mode.internal-default".
   Distinct texts are distinct strings (the harness renders them canonically).  Floats are carried
   as value*1024 (the generators only use multiples of 1/1024 so float arithmetic is exact).
   Option keys are integers: 0 inherit, 1 core_clock, 2 axi0_port, 3 axi1_port, 4 const_mem_area,
   5 arena_mem_area, 6 cache_mem_area, 7 arena_cache_size, 10+4*m+j = <MemArea m>_{clock_scale,
   burst_length, read_latency, write_latency}[j]; any other integer is an option Vela never reads.
   A parsed configuration (the state of the ConfigParser after read()) is a list of sections; when
   several files are read the later file's sections come first, and every lookup takes the first
   binding it meets, which is ConfigParser's "later file overrides, sections are merged". *)
From Coq Require Import ZArith List Bool.
Import ListNotations.
Open Scope Z_scope.

(* ------------------------------------------------------------------------------------------ *)
(* texts, parsed files                                                                         *)
Inductive text := TInt (n : Z) | TFrac (n : Z) | TName (id : Z).

Definition text_eqb (a b : text) : bool :=
  match a, b with
  | TInt x, TInt y => x =? y
  | TFrac x, TFrac y => x =? y
  | TName x, TName y => x =? y
  | _, _ => false
  end.

Definition key := Z.
Definition section := (text * list (key * text))%type.
Definition ini := list section.

Definition K_inherit : key := 0.
Definition K_core_clock : key := 1.
Definition K_axi0 : key := 2.
Definition K_axi1 : key := 3.
Definition K_const : key := 4.
Definition K_arena : key := 5.
Definition K_cache : key := 6.
Definition K_acs : key := 7.
Definition K_area (m j : Z) : key := 10 + 4 * m + j.

Definition SEC_SYS_DEFAULT : text := TName 20.
Definition SEC_MEM_DEFAULT : text := TName 21.

Fixpoint assoc_key (k : key) (l : list (key * text)) : option text :=
  match l with
  | [] => None
  | (k', v) :: r => if k' =? k then Some v else assoc_key k r
  end.

(* ConfigParser.has_option / get on the merged sections *)
Fixpoint get_opt (c : ini) (s : text) (k : key) : option text :=
  match c with
  | [] => None
  | (n, opts) :: r =>
      if text_eqb n s then
        match assoc_key k opts with Some v => Some v | None => get_opt r s k end
      else get_opt r s k
  end.

Definition has_section (c : ini) (s : text) : bool := existsb (fun sec => text_eqb (fst sec) s) c.

(* ------------------------------------------------------------------------------------------ *)
(* errors                                                                                      *)
Inductive err :=
| EVela        (* ConfigOptionError / CliOptionError / InputFileError: a VelaError, main() returns 1 *)
| EKeyError    (* MemArea[...] / MemPort[...] on an unknown member name *)
| EValueError  (* int() / float() on a text they do not accept *)
| EIndexError  (* numpy index 6 (MemArea.Size) into the per-memory tables *)
| ERecursion   (* RecursionError: the model ran out of fuel *)
| EOverflow.   (* OverflowError: integer does not fit the int64 numpy table *)

Inductive res (A : Type) := Ok (a : A) | Err (e : err).
Arguments Ok {A} a.
Arguments Err {A} e.

Definition bind {A B : Type} (m : res A) (f : A -> res B) : res B :=
  match m with Ok a => f a | Err e => Err e end.
Notation "x <- m ;; f" := (bind m (fun x => f)) (at level 61, m at next level, right associativity).

(* ------------------------------------------------------------------------------------------ *)
(* _read_config(section, key, current_value, found)                                             *)
(* returns the resulting text and the booleans this call appended to `found`                   *)
Fixpoint read_config (fuel : nat) (c : ini) (s : text) (k : key) (cur : text) : res (text * list bool) :=
  match fuel with
  | O => Err ERecursion
  | S f =>
      if negb (has_section c s) then Err EVela
      else
        let finish (r : text) (fl : list bool) :=
            match get_opt c s k with
            | Some v => Ok (v, fl ++ [true])
            | None => Ok (r, fl)
            end in
        match get_opt c s K_inherit with
        | Some p =>
            if text_eqb p s then Err EVela
            else
              match read_config f c p k cur with
              | Err e => Err e
              | Ok (r, fl) => finish r (false :: fl)
              end
        | None => finish cur [false]
        end
  end.

(* the recursion depth Python has available is far larger than any file considered here; the
   model's fuel is the number of sections + 1, enough for every acyclic file (read_config_terminates) *)
Definition fuel_of (c : ini) : nat := S (List.length c).

(* ------------------------------------------------------------------------------------------ *)
(* conversions applied to the texts                                                             *)
Definition as_float (t : text) : res Z :=       (* float(...), result * 1024 *)
  match t with TInt n => Ok (n * 1024) | TFrac n => Ok n | TName _ => Err EValueError end.
Definition as_int (t : text) : res Z :=         (* int(...) *)
  match t with TInt n => Ok n | _ => Err EValueError end.
Definition int64_ok (n : Z) : bool := (- 2 ^ 63 <=? n) && (n <? 2 ^ 63).
Definition as_int64 (t : text) : res Z :=       (* int(...) stored into an int64 numpy table *)
  n <- as_int t ;; if int64_ok n then Ok n else Err EOverflow.
Definition as_memarea (t : text) : res Z :=     (* MemArea[...] *)
  match t with
  | TName id => if (0 <=? id) && (id <=? 6) then Ok id else Err EKeyError
  | _ => Err EKeyError
  end.
Definition as_memport (t : text) : res Z :=     (* MemPort[...]: Axi0 = 1, Axi1 = 2 *)
  match t with
  | TName id => if id =? 11 then Ok 1 else if id =? 12 then Ok 2 else Err EKeyError
  | _ => Err EKeyError
  end.
Definition memport_name (p : Z) : text := TName (10 + p).

(* ------------------------------------------------------------------------------------------ *)
(* the resolved architecture parameters                                                         *)
Record arch := mkArch {
  core_clock : Z;            (* Hz * 1024 *)
  axi0 : Z; axi1 : Z;        (* MemArea values *)
  scales : list Z;           (* memory_clock_scales * 1024, index = MemArea value 0..5 *)
  bursts : list Z;           (* memory_burst_length *)
  rlats : list Z;            (* memory_latency[..][Read] *)
  wlats : list Z;            (* memory_latency[..][Write] *)
  const_p : Z; arena_p : Z; cache_p : Z;   (* MemPort values *)
  acs : Z;                   (* arena_cache_size *)
  acs_loc : Z }.             (* 0 "Default", 1 "Configuration file", 2 "CLI option" *)

Fixpoint upd (l : list Z) (i : nat) (v : Z) : list Z :=
  match l, i with
  | [], _ => []
  | _ :: r, O => v :: r
  | x :: r, S j => x :: upd r j v
  end.
Definition getT (l : list Z) (m : Z) : Z := nth (Z.to_nat m) l 0.
Definition setT (l : list Z) (m v : Z) : list Z := upd l (Z.to_nat m) v.

Definition set_core (a : arch) v := mkArch v (axi0 a) (axi1 a) (scales a) (bursts a) (rlats a) (wlats a) (const_p a) (arena_p a) (cache_p a) (acs a) (acs_loc a).
Definition set_axi0 (a : arch) v := mkArch (core_clock a) v (axi1 a) (scales a) (bursts a) (rlats a) (wlats a) (const_p a) (arena_p a) (cache_p a) (acs a) (acs_loc a).
Definition set_axi1 (a : arch) v := mkArch (core_clock a) (axi0 a) v (scales a) (bursts a) (rlats a) (wlats a) (const_p a) (arena_p a) (cache_p a) (acs a) (acs_loc a).
Definition set_tables (a : arch) sc bl rl wl := mkArch (core_clock a) (axi0 a) (axi1 a) sc bl rl wl (const_p a) (arena_p a) (cache_p a) (acs a) (acs_loc a).
Definition set_mem (a : arch) cp ap kp sz loc := mkArch (core_clock a) (axi0 a) (axi1 a) (scales a) (bursts a) (rlats a) (wlats a) cp ap kp sz loc.

Definition max_addr (u65 : bool) : Z := if u65 then 2 ^ 40 else 2 ^ 32.

(* "all properties are optional and are initialised to a value of 1 (or the equivalent)" *)
Definition init_arch (u65 : bool) : arch :=
  mkArch 1024 1 1 [1024; 1024; 1024; 1024; 1024; 1024] [1; 1; 1; 1; 1; 1] [0; 0; 0; 0; 0; 0] [0; 0; 0; 0; 0; 0]
         1 1 1 (max_addr u65) 0.

Definition port_area (a : arch) (p : Z) : Z := if p =? 1 then axi0 a else axi1 a.   (* _mem_port_mapping *)

(* one _read_config call followed by a conversion *)
Definition rd (fuel : nat) (c : ini) (s : text) (k : key) (cur : text) (conv : text -> res Z) : res Z :=
  match read_config fuel c s k cur with
  | Err e => Err e
  | Ok (t, _) => conv t
  end.

(* body of `for mem_area in (self.axi0_port, self.axi1_port)` *)
Definition read_area (fuel : nat) (c : ini) (s : text) (m : Z) (a : arch) : res arch :=
  if 6 <=? m then Err EIndexError
  else
    sc <- rd fuel c s (K_area m 0) (TFrac (getT (scales a) m)) as_float ;;
    bl <- rd fuel c s (K_area m 1) (TInt (getT (bursts a) m)) as_int64 ;;
    rl <- rd fuel c s (K_area m 2) (TInt (getT (rlats a) m)) as_int64 ;;
    wl <- rd fuel c s (K_area m 3) (TInt (getT (wlats a) m)) as_int64 ;;
    Ok (set_tables a (setT (scales a) m sc) (setT (bursts a) m bl) (setT (rlats a) m rl) (setT (wlats a) m wl)).

Definition read_sys (fuel : nat) (c : ini) (s : text) (a : arch) : res arch :=
  cc <- rd fuel c s K_core_clock (TInt 1) as_float ;;
  p0 <- rd fuel c s K_axi0 (TName (axi0 a)) as_memarea ;;
  p1 <- rd fuel c s K_axi1 (TName (axi1 a)) as_memarea ;;
  let a1 := set_axi1 (set_axi0 (set_core a cc) p0) p1 in
  a2 <- read_area fuel c s p0 a1 ;;
  read_area fuel c s p1 a2.

(* _set_default_sys_config; imx93 = vela.Imx93ArchitectureFeatures' override (ignores the accelerator) *)
Definition default_sys (u65 imx93 : bool) (a : arch) : arch :=
  if imx93 || u65 then
    let dram := if imx93 then 240 else 768 in      (* 0.234375 / 0.75 *)
    set_tables (set_axi1 (set_axi0 (set_core a (1000000000 * 1024)) 1) 2)
               (setT (setT (scales a) 1 1024) 2 dram) (setT (setT (bursts a) 1 32) 2 128)
               (setT (setT (rlats a) 1 32) 2 500) (setT (setT (wlats a) 1 32) 2 250)
  else
    set_tables (set_axi1 (set_axi0 (set_core a (500000000 * 1024)) 1) 4)
               (setT (setT (scales a) 1 1024) 4 128) (setT (setT (bursts a) 1 32) 4 128)
               (setT (setT (rlats a) 1 32) 4 64) (setT (setT (wlats a) 1 32) 4 64).

(* _set_default_mem_mode *)
Definition default_mem (u65 : bool) (a : arch) : arch :=
  if u65 then set_mem a 2 2 1 (384 * 1024) (acs_loc a)
  else set_mem a 2 1 1 (max_addr u65) (acs_loc a).

Definition read_mem (fuel : nat) (c : ini) (s : text) (a : arch) : res arch :=
  cp <- rd fuel c s K_const (memport_name (const_p a)) as_memport ;;
  ap <- rd fuel c s K_arena (memport_name (arena_p a)) as_memport ;;
  kp <- rd fuel c s K_cache (memport_name (cache_p a)) as_memport ;;
  match read_config fuel c s K_acs (TInt (acs a)) with
  | Err e => Err e
  | Ok (t, fl) =>
      sz <- as_int t ;;
      Ok (set_mem a cp ap kp sz (if last fl false then 1 else acs_loc a))
  end.

(* the if / elif / elif / else ladder that selects a section or the internal default *)
Definition select (files : option ini) (sec dflt : text) (from_file : nat -> ini -> res arch) (internal : arch) : res arch :=
  match files with
  | Some c =>
      if has_section c sec then from_file (fuel_of c) c
      else if text_eqb sec dflt then Ok internal
      else Err EVela            (* "Section ... not found in Vela config file" *)
  | None =>
      if text_eqb sec dflt then Ok internal
      else Err EVela            (* "Vela config file not specified" *)
  end.

(* "override sram to onchipflash" *)
Definition sram_rewrite (a : arch) : arch :=
  if (port_area a (const_p a) =? 1) && (const_p a =? arena_p a) && (arena_p a =? cache_p a) then
    let a1 := if const_p a =? 1
              then set_axi1 (set_mem a 2 (arena_p a) (cache_p a) (acs a) (acs_loc a)) 3
              else set_axi0 (set_mem a 1 (arena_p a) (cache_p a) (acs a) (acs_loc a)) 3 in
    set_tables a1 (setT (scales a1) 3 (getT (scales a1) 1)) (setT (bursts a1) 3 (getT (bursts a1) 1))
               (setT (rlats a1) 3 (getT (rlats a1) 1)) (setT (wlats a1) 3 (getT (wlats a1) 1))
  else a.

Definition cli_override (cli : option Z) (a : arch) : arch :=
  match cli with
  | Some v => set_mem a (const_p a) (arena_p a) (cache_p a) v 2
  | None => a
  end.

(* "check configuration": the five raises, in source order *)
Definition validate (u65 : bool) (a : arch) : res arch :=
  let cm := port_area a (const_p a) in
  let am := port_area a (arena_p a) in
  let km := port_area a (cache_p a) in
  if negb ((cm =? 2) || (cm =? 3) || (cm =? 4)) then Err EVela
  else if negb ((am =? 1) || (am =? 2)) then Err EVela
  else if negb (km =? 1) then Err EVela
  else if acs a <? 0 then Err EVela
  else if acs a >? max_addr u65 then Err EVela
  else Ok a.

(* ArchitectureFeatures._get_vela_config; sys / mem are the full section names
   "System_Config.<--system-config>" and "Memory_Mode.<--memory-mode>" *)
Definition get_vela_config (u65 imx93 : bool) (files : option ini) (sys mem : text) (cli : option Z) : res arch :=
  let a0 := init_arch u65 in
  a1 <- select files sys SEC_SYS_DEFAULT (fun fuel c => read_sys fuel c sys a0) (default_sys u65 imx93 a0) ;;
  a2 <- select files mem SEC_MEM_DEFAULT (fun fuel c => read_mem fuel c mem a1) (default_mem u65 a1) ;;
  validate u65 (cli_override cli (sram_rewrite a2)).

(* attributes derived from the resolved record *)
Definition perm_area (a : arch) : Z := port_area a (const_p a).
Definition fm_area (a : arch) : Z := port_area a (arena_p a).
Definition fast_area (a : arch) : Z := port_area a (cache_p a).
Definition bw_per_cycle (u65 : bool) (a : arch) : list Z :=     (* * 1024 *)
  map (fun s => (if u65 then 16 else 8) * s) (scales a).
Definition bw_per_second (u65 : bool) (a : arch) : list Z :=    (* * 1024 * 1024 *)
  map (fun b => b * core_clock a) (bw_per_cycle u65 a).

(* ------------------------------------------------------------------------------------------ *)
(* vela.main(): --config path handling                                                          *)
Inductive location :=
| Bundled (p : Z)     (* os.path.join(CONFIG_FILES_PATH, <text p>) *)
| AsGiven (p : Z).    (* the text p handed to the OS unchanged: relative to the working directory
                         unless absolute *)
Definition loc_eqb (a b : location) : bool :=
  match a, b with
  | Bundled x, Bundled y => x =? y
  | AsGiven x, AsGiven y => x =? y
  | _, _ => false
  end.

(* the readable files, as seen by the process from its working directory *)
Definition fsys := list (location * ini).
Fixpoint fs_lookup (fs : fsys) (l : location) : option ini :=
  match fs with
  | [] => None
  | (l', c) :: r => if loc_eqb l' l then Some c else fs_lookup r l
  end.
Definition readable (fs : fsys) (l : location) : bool :=
  match fs_lookup fs l with Some _ => true | None => false end.

(* a --config argument after os.path.normpath *)
Record cfgarg := mkArg {
  ca_ini : bool;        (* ends with ".ini" *)
  ca_dirfile : bool;    (* exactly two components and not starting with os.sep, "." or "~":  Dir/file.ini *)
  ca_path : Z }.        (* identity of the path text *)

(* main()._parse_config; the branch that only prints a warning is omitted *)
Definition parse_config_path (fs : fsys) (a : cfgarg) : res location :=
  if negb (ca_ini a) then Err EVela
  else
    let l := if ca_dirfile a then Bundled (ca_path a) else AsGiven (ca_path a) in
    if readable fs l then Ok l else Err EVela.

Fixpoint parse_all (fs : fsys) (l : list cfgarg) : res (list location) :=
  match l with
  | [] => Ok []
  | a :: r => x <- parse_config_path fs a ;; xs <- parse_all fs r ;; Ok (x :: xs)
  end.

(* ConfigParser.read(list of paths): unreadable paths are skipped silently, later files override *)
Definition read_files (fs : fsys) (ls : list location) : ini :=
  concat (rev (map (fun l => match fs_lookup fs l with Some c => c | None => [] end) ls)).

(* the three places where main() is a parameter of the model: they are read off vela.py by the
   check (AST) so that the model stays the model of the code that exists *)
Record main_params := mkMP {
  pm_arena_default : option Z;   (* default= of --arena-cache-size *)
  pm_pass_resolved : bool;       (* ArchitectureFeatures(vela_config_files=config_files) rather than =args.config *)
  pm_imx93 : bool }.             (* Imx93ArchitectureFeatures when no --config and both selections are internal-default *)

Record cliargs := mkCli {
  a_config : list cfgarg;        (* [] = no --config option (args.config is None) *)
  a_u65 : bool;                  (* --accelerator-config is an Ethos-U65 *)
  a_sys : text; a_mem : text;
  a_acs : option Z }.            (* --arena-cache-size, if given *)

Definition main_model (pm : main_params) (fs : fsys) (a : cliargs) : res arch :=
  resolved <- parse_all fs (a_config a) ;;
  let handed := if pm_pass_resolved pm then resolved else map (fun x => AsGiven (ca_path x)) (a_config a) in
  let files := match a_config a with [] => None | _ => Some (read_files fs handed) end in
  let imx := pm_imx93 pm && (match a_config a with [] => true | _ => false end)
             && text_eqb (a_sys a) SEC_SYS_DEFAULT && text_eqb (a_mem a) SEC_MEM_DEFAULT in
  let cli := match a_acs a with Some v => Some v | None => pm_arena_default pm end in
  get_vela_config (a_u65 a) imx files (a_sys a) (a_mem a) cli.

(* ========================================================================================== *)
(* SPEC: OPTIONS.md transcribed.  Nothing below is used by the model above.                    *)
(* ========================================================================================== *)

(* "One special option is the inherit option ... its value is the name of another section to
   inherit options from ... recursion is not allowed and so it cannot reference its own section."
   The lineage of a section is itself, its parent, its grandparent, ...; it is defined only when
   every named section exists, none names itself and the walk ends.                             *)
Inductive outcome := ORoot | OMissing | OSelf.

Fixpoint walk (fuel : nat) (c : ini) (s : text) : option (list text * outcome) :=
  match fuel with
  | O => None
  | S f =>
      if negb (has_section c s) then Some ([], OMissing)
      else match get_opt c s K_inherit with
           | None => Some ([s], ORoot)
           | Some p =>
               if text_eqb p s then Some ([s], OSelf)
               else match walk f c p with
                    | Some (l, o) => Some (s :: l, o)
                    | None => None
                    end
           end
  end.

Definition lineage (c : ini) (s : text) : option (list text) :=
  match walk (S (List.length c)) c s with
  | Some (l, ORoot) => Some l
  | _ => None
  end.

(* "An option in the child overwrites an identical option in the parent": the nearest section of
   the lineage that binds the key *)
Fixpoint nearest (c : ini) (l : list text) (k : key) : option text :=
  match l with
  | [] => None
  | s :: r => match get_opt c s k with Some v => Some v | None => nearest c r k end
  end.

Definition odflt {A : Type} (d : A) (o : option A) : A := match o with Some v => v | None => d end.
Definition obind {A B : Type} (m : option A) (f : A -> option B) : option B :=
  match m with Some a => f a | None => None end.
Notation "x <~ m ;; f" := (obind m (fun x => f)) (at level 61, m at next level, right associativity).

(* value of option k of section s, `d` when no section of the lineage binds it; None = rejected *)
Definition spec_get (c : ini) (s : text) (k : key) (d : text) : option text :=
  l <~ lineage c s ;; Some (odflt d (nearest c l k)).
Definition spec_bound (c : ini) (s : text) (k : key) : bool :=
  match lineage c s with Some l => match nearest c l k with Some _ => true | None => false end | None => false end.

(* option types: {float}, {int}, {memory name}, {Axi0, Axi1} *)
Definition sp_float (t : text) : option Z := match t with TInt n => Some (n * 1024) | TFrac n => Some n | TName _ => None end.
Definition sp_int (t : text) : option Z := match t with TInt n => Some n | _ => None end.
Definition sp_int64 (t : text) : option Z :=
  match t with TInt n => if (- 2 ^ 63 <=? n) && (n <? 2 ^ 63) then Some n else None | _ => None end.
Definition sp_area (t : text) : option Z :=
  match t with TName id => if (0 <=? id) && (id <=? 6) then Some id else None | _ => None end.
Definition sp_port (t : text) : option Z :=
  match t with TName id => if id =? 11 then Some 1 else if id =? 12 then Some 2 else None | _ => None end.

(* "All options are optional.  If they are not specified, then they will be assigned a value of 1
   (or the equivalent)": clock 1 Hz, ports Sram, scale 1.0, burst 1, latencies 0 (the neutral
   latency), memory areas Axi0, size = maximum address.
   The four parameters of a memory are "only required if selected by an AXI port": they are read for
   the memories of axi0_port and axi1_port, every other memory keeps the neutral values.         *)
Definition spec_area_params (c : ini) (s : text) (m : Z) : option (Z * Z * Z * Z) :=
  if 6 <=? m then None      (* "Size" is not a memory *)
  else
    sc <~ obind (spec_get c s (K_area m 0) (TFrac 1024)) sp_float ;;
    bl <~ obind (spec_get c s (K_area m 1) (TInt 1)) sp_int64 ;;
    rl <~ obind (spec_get c s (K_area m 2) (TInt 0)) sp_int64 ;;
    wl <~ obind (spec_get c s (K_area m 3) (TInt 0)) sp_int64 ;;
    Some (sc, bl, rl, wl).

Definition put_area (a : arch) (m : Z) (v : Z * Z * Z * Z) : arch :=
  match v with (sc, bl, rl, wl) =>
    set_tables a (setT (scales a) m sc) (setT (bursts a) m bl) (setT (rlats a) m rl) (setT (wlats a) m wl) end.

Definition spec_sys_from_file (c : ini) (s : text) (a : arch) : option arch :=
  cc <~ obind (spec_get c s K_core_clock (TInt 1)) sp_float ;;
  p0 <~ obind (spec_get c s K_axi0 (TName 1)) sp_area ;;
  p1 <~ obind (spec_get c s K_axi1 (TName 1)) sp_area ;;
  v0 <~ spec_area_params c s p0 ;;
  v1 <~ spec_area_params c s p1 ;;
  Some (put_area (put_area (set_axi1 (set_axi0 (set_core a cc) p0) p1) p0 v0) p1 v1).

(* "Default: Use internal-default config.  This maps to the following configs from the example
   vela.ini file": Ethos-U65 Client-Server / Ethos-U55 High-End Embedded (values of vela.ini) *)
Definition spec_sys_internal (u65 : bool) (a : arch) : arch :=
  if u65 then
    put_area (put_area (set_axi1 (set_axi0 (set_core a (1000000000 * 1024)) 1) 2) 1 (1024, 32, 32, 32)) 2 (768, 128, 500, 250)
  else
    put_area (put_area (set_axi1 (set_axi0 (set_core a (500000000 * 1024)) 1) 4) 1 (1024, 32, 32, 32)) 4 (128, 128, 64, 64).

(* Ethos-U65: Dedicated_Sram (Axi1, Axi1, Axi0, 393216); Ethos-U55: Shared_Sram (Axi1, Axi0, Axi0, no size) *)
Definition spec_mem_internal (u65 : bool) (a : arch) : arch :=
  if u65 then set_mem a 2 2 1 393216 0 else set_mem a 2 1 1 (max_addr u65) 0.

Definition spec_mem_from_file (u65 : bool) (c : ini) (s : text) (a : arch) : option arch :=
  cp <~ obind (spec_get c s K_const (TName 11)) sp_port ;;
  ap <~ obind (spec_get c s K_arena (TName 11)) sp_port ;;
  kp <~ obind (spec_get c s K_cache (TName 11)) sp_port ;;
  (* "If neither this nor the memory mode attribute are specified then a size equal to the maximum
     address supported by the Ethos-U is used" *)
  sz <~ obind (spec_get c s K_acs (TInt (max_addr u65))) sp_int ;;
  Some (set_mem a cp ap kp sz (if spec_bound c s K_acs then 1 else 0)).

(* a section of the file(s) is used when it exists; otherwise the name internal-default selects
   the internal values; anything else is an unknown section *)
Definition spec_select (files : option ini) (sec dflt : text) (from_file : ini -> option arch) (internal : arch) : option arch :=
  match files with
  | Some c => if has_section c sec then from_file c else if text_eqb sec dflt then Some internal else None
  | None => if text_eqb sec dflt then Some internal else None
  end.

(* Sram Only mode (vela.ini: const, arena and cache all on the Sram port): the constant data are given
   an OnChipFlash memory with the characteristics of the Sram, on the other port *)
Definition spec_sram_only (a : arch) : arch :=
  if (port_area a (const_p a) =? 1) && (const_p a =? arena_p a) && (arena_p a =? cache_p a) then
    let other := if const_p a =? 1 then 2 else 1 in
    let a1 := set_mem (if other =? 2 then set_axi1 a 3 else set_axi0 a 3) other (arena_p a) (cache_p a) (acs a) (acs_loc a) in
    put_area a1 3 (getT (scales a) 1, getT (bursts a) 1, getT (rlats a) 1, getT (wlats a) 1)
  else a.

Definition mem_in (x : Z) (l : list Z) : bool := existsb (fun y => y =? x) l.

(* accepted exactly when: const data in Dram / OnChipFlash / OffChipFlash, arena in Sram / Dram,
   cache in Sram, 0 <= size <= maximum address *)
Definition spec_legal (u65 : bool) (a : arch) : bool :=
  mem_in (perm_area a) [2; 3; 4] && mem_in (fm_area a) [1; 2] && mem_in (fast_area a) [1]
  && (0 <=? acs a) && (acs a <=? max_addr u65).

(* "--arena-cache-size ... If specified, this option overrides the memory mode attribute with the
   same name in a Vela configuration file." *)
Definition spec_resolve (u65 : bool) (files : option ini) (sys mem : text) (cli : option Z) : option arch :=
  let a0 := init_arch u65 in
  a1 <~ spec_select files sys SEC_SYS_DEFAULT (fun c => spec_sys_from_file c sys a0) (spec_sys_internal u65 a0) ;;
  a2 <~ spec_select files mem SEC_MEM_DEFAULT (fun c => spec_mem_from_file u65 c mem a1) (spec_mem_internal u65 a1) ;;
  let a3 := spec_sram_only a2 in
  let a4 := match cli with Some v => set_mem a3 (const_p a3) (arena_p a3) (cache_p a3) v 2 | None => a3 end in
  if spec_legal u65 a4 then Some a4 else None.

(* "--config DirectoryName/my_vela_cfg1.ini" is looked up under ethosu/config_files, any other
   path is used as given; every file must have the .ini extension and be readable; the files are
   searched as a group, later ones overriding *)
Definition spec_location (a : cfgarg) : location :=
  if ca_dirfile a then Bundled (ca_path a) else AsGiven (ca_path a).

Definition spec_files (fs : fsys) (args : list cfgarg) : option (option ini) :=
  match args with
  | [] => Some None
  | _ =>
      if forallb (fun a => ca_ini a && readable fs (spec_location a)) args
      then Some (Some (concat (rev (map (fun a => odflt [] (fs_lookup fs (spec_location a))) args))))
      else None
  end.

Definition spec_main (fs : fsys) (a : cliargs) : option arch :=
  files <~ spec_files fs (a_config a) ;;
  spec_resolve (a_u65 a) files (a_sys a) (a_mem a) (a_acs a).

Definition to_option {A : Type} (r : res A) : option A := match r with Ok a => Some a | Err _ => None end.

(* two views of the file system (two working directories) that agree on the bundled directory *)
Definition bundled_agree (fs1 fs2 : fsys) : Prop := forall p, fs_lookup fs1 (Bundled p) = fs_lookup fs2 (Bundled p).

(* ========================================================================================== *)
(* Concrete paths: the path-resolution rule of main()._parse_config over                        *)
(* (working-directory components, argument components, bundled directory, set of files).        *)
(* The abstract cfgarg / fsys layer above takes the classification as given; here it is          *)
(* computed from the spelling of the argument, so that "which file is read" is decided for       *)
(* every spelling x working directory.  Symbolic links are not modelled.                         *)
(* ========================================================================================== *)
Inductive comp :=
| CDot                                        (* "."  *)
| CUp                                         (* ".." *)
| CName (id : Z) (ini : bool) (lead : Z).     (* a name; ini: it ends with ".ini"; lead: 0 ordinary, 1 begins with ".", 2 begins with "~" *)

Definition comp_eqb (a b : comp) : bool :=
  match a, b with
  | CDot, CDot => true
  | CUp, CUp => true
  | CName x i l, CName y j m => (x =? y) && Bool.eqb i j && (l =? m)
  | _, _ => false
  end.

Fixpoint comps_eqb (a b : list comp) : bool :=
  match a, b with
  | [], [] => true
  | x :: a', y :: b' => comp_eqb x y && comps_eqb a' b'
  | _, _ => false
  end.

Record pathstr := mkPath { p_abs : bool; p_comps : list comp }.   (* split on "/", empty components dropped *)

(* posixpath.normpath on the components; `stack` is the result so far, reversed *)
Fixpoint norm_aux (abs : bool) (l : list comp) (stack : list comp) : list comp :=
  match l with
  | [] => rev stack
  | CDot :: r => norm_aux abs r stack
  | CUp :: r =>
      match stack with
      | [] => if abs then norm_aux abs r [] else norm_aux abs r [CUp]
      | CUp :: _ => norm_aux abs r (CUp :: stack)
      | _ :: s' => norm_aux abs r s'
      end
  | c :: r => norm_aux abs r (c :: stack)
  end.

Definition norm (p : pathstr) : list comp := norm_aux (p_abs p) (p_comps p) [].

(* config.endswith(".ini") on the normalised string ("." and "/" have no components) *)
Definition ends_ini (n : list comp) : bool :=
  match last n CDot with CName _ true _ => true | _ => false end.

(* len(config.split(os.sep)) == 2 and not startswith(os.sep) / "." / "~" *)
Definition is_dirfile (abs : bool) (n : list comp) : bool :=
  negb abs && match n with [CName _ _ lead; _] => lead =? 0 | _ => false end.

(* the file (absolute, normalised components) a --config argument names, None = not an .ini name:
   Dir/file.ini -> under the bundled directory; absolute -> that file; otherwise relative to the working directory *)
Definition resolve_path (bdir cwd : list comp) (p : pathstr) : option (list comp) :=
  let n := norm p in
  if negb (ends_ini n) then None
  else if is_dirfile (p_abs p) n then Some (bdir ++ n)
  else Some (if p_abs p then n else norm_aux true (cwd ++ n) []).

(* what open() reaches when handed the raw argument *)
Definition as_given_file (cwd : list comp) (p : pathstr) : list comp :=
  if p_abs p then norm p else norm_aux true (cwd ++ p_comps p) [].

Record world := mkWorld { w_bdir : list comp; w_files : list (list comp * ini) }.

Fixpoint w_lookup (fs : list (list comp * ini)) (f : list comp) : option ini :=
  match fs with
  | [] => None
  | (g, c) :: r => if comps_eqb g f then Some c else w_lookup r f
  end.

Definition parse_config_path_c (w : world) (cwd : list comp) (p : pathstr) : res (list comp) :=
  match resolve_path (w_bdir w) cwd p with
  | None => Err EVela
  | Some f => match w_lookup (w_files w) f with Some _ => Ok f | None => Err EVela end
  end.

Fixpoint parse_all_c (w : world) (cwd : list comp) (l : list pathstr) : res (list (list comp)) :=
  match l with
  | [] => Ok []
  | a :: r => x <- parse_config_path_c w cwd a ;; xs <- parse_all_c w cwd r ;; Ok (x :: xs)
  end.

Definition read_files_c (w : world) (fs : list (list comp)) : ini :=
  concat (rev (map (fun f => match w_lookup (w_files w) f with Some c => c | None => [] end) fs)).

Record cliargs_c := mkCliC {
  c_config : list pathstr; c_u65 : bool; c_sys : text; c_mem : text; c_acs : option Z }.

Definition main_concrete (pm : main_params) (w : world) (cwd : list comp) (a : cliargs_c) : res arch :=
  resolved <- parse_all_c w cwd (c_config a) ;;
  let handed := if pm_pass_resolved pm then resolved else map (as_given_file cwd) (c_config a) in
  let files := match c_config a with [] => None | _ => Some (read_files_c w handed) end in
  let imx := pm_imx93 pm && (match c_config a with [] => true | _ => false end)
             && text_eqb (c_sys a) SEC_SYS_DEFAULT && text_eqb (c_mem a) SEC_MEM_DEFAULT in
  let cli := match c_acs a with Some v => Some v | None => pm_arena_default pm end in
  get_vela_config (c_u65 a) imx files (c_sys a) (c_mem a) cli.

(* SPEC: every argument must name a readable .ini file (by the rule above); the files are read as a group *)
Fixpoint spec_inis (w : world) (cwd : list comp) (l : list pathstr) : option (list ini) :=
  match l with
  | [] => Some []
  | a :: r =>
      f <~ resolve_path (w_bdir w) cwd a ;;
      c <~ w_lookup (w_files w) f ;;
      cs <~ spec_inis w cwd r ;;
      Some (c :: cs)
  end.

Definition spec_main_c (w : world) (cwd : list comp) (a : cliargs_c) : option arch :=
  match c_config a with
  | [] => spec_resolve (c_u65 a) None (c_sys a) (c_mem a) (c_acs a)
  | args => cs <~ spec_inis w cwd args ;; spec_resolve (c_u65 a) (Some (concat (rev cs))) (c_sys a) (c_mem a) (c_acs a)
  end.

(* os.path.relpath(p) from the (absolute, normalised) working directory: the variant of the seeded change *)
Fixpoint strip_common (a b : list comp) : list comp * list comp :=
  match a, b with
  | x :: a', y :: b' => if comp_eqb x y then strip_common a' b' else (a, b)
  | _, _ => (a, b)
  end.

Definition relpath (cwd : list comp) (p : pathstr) : pathstr :=
  let (up, down) := strip_common cwd (as_given_file cwd p) in
  mkPath false (repeat CUp (List.length up) ++ down).

(* an argument whose resolution cannot depend on the working directory *)
Definition cwd_free (p : pathstr) : bool := p_abs p || is_dirfile (p_abs p) (norm p).
