(* Hand model of ethosu/vela/driver_actions.py (create_driver_payload and helpers) and an
   independent reader of the payload format.  Executable definitions only; proofs are in
   proofs/DriverProofs.v.  Tie: gen/GenDriver.v (translated) for make_da_tag and
   emit_cmd_stream_header, correspondence (tools/corr_driver.py) for the rest. *)
From Coq Require Import ZArith List Bool String.
From VV Require Import lib.PyInt gen.GenTables.
Import ListNotations.
Open Scope Z_scope.

(* ---- producer side (what the Python does) ---- *)
Definition da_tag (id reserved param : Z) : Z :=
  Z.lor (Z.lor id (Z.shiftl reserved 8)) (Z.shiftl param 16).

Definition fourcc_COP1 : Z := 67 + 79 * 2^8 + 80 * 2^16 + 49 * 2^24.   (* "COP1" little endian *)

Definition nop_word : Z := da_tag DA_NOP 0 0.

Definition num_nops (len_data : Z) : Z := 4 - ((len_data + 1) mod 4).

Definition cmd_stream_tag (n : Z) : Z :=
  da_tag DA_CmdStream (Z.shiftr (Z.land n 16711680) 16) (Z.land n 65535).

Definition header (data : list Z) (n : Z) : list Z :=
  data ++ repeat nop_word (Z.to_nat (num_nops (Z.of_nat (List.length data)))) ++ [cmd_stream_tag n].

(* emit_config(da_list, rel=0, patch=1, arch) *)
Definition config_tag : Z := da_tag DA_Config 0 (Z.lor (Z.shiftl 1 DA_Config_PatchShift) 0).

(* build_config_word: ctypes bitfield macs_per_cc:4 cmd_stream_version:4 shram_size:8 reserved:12 product:4 *)
Definition config_word (product shram_kb log2_macs : Z) : Z :=
  log2_macs + 0 * 2^4 + shram_kb * 2^8 + product * 2^28.

Definition driver_limit : Z := 2^24.

Definition payload_words (cfg idw : Z) (ws : list Z) : option (list Z) :=
  if Z.of_nat (List.length ws) >=? driver_limit then None   (* VelaError *)
  else Some (header [fourcc_COP1; config_tag; cfg; idw] (Z.of_nat (List.length ws)) ++ ws).

(* struct.pack("<I"): little endian, struct.error outside [0, 2^32) *)
Definition le_bytes (w : Z) : list Z :=
  [w mod 256; (w / 256) mod 256; (w / 65536) mod 256; (w / 16777216) mod 256].
Definition word_ok (w : Z) : bool := (0 <=? w) && (w <? 2^32).
Fixpoint bytes_of_words (ws : list Z) : list Z :=
  match ws with [] => [] | w :: r => le_bytes w ++ bytes_of_words r end.

Definition payload_bytes (cfg idw : Z) (ws : list Z) : option (list Z) :=
  match payload_words cfg idw ws with
  | Some l => if forallb word_ok l then Some (bytes_of_words l) else None
  | None => None
  end.

(* ---- consumer side: an independent reader of the driver payload ---- *)
Fixpoint words_of_bytes (bs : list Z) : option (list Z) :=
  match bs with
  | [] => Some []
  | b0 :: b1 :: b2 :: b3 :: r =>
      match words_of_bytes r with
      | Some ws => Some ((b0 + 256 * b1 + 65536 * b2 + 16777216 * b3) :: ws)
      | None => None
      end
  | _ => None
  end.

Record parsed := {
  p_cfg : Z; p_id : Z; p_nops : Z;
  p_cmd_word_index : Z;          (* index (in words) of the first command word *)
  p_declared_len : Z;
  p_cmds : list Z }.

Definition tag_id (w : Z) : Z := Z.land w 255.
Definition tag_reserved (w : Z) : Z := Z.land (Z.shiftr w 8) 255.
Definition tag_param (w : Z) : Z := Z.shiftr w 16.

(* actions after the fourcc; pos = word index of the head of l *)
Fixpoint parse_actions (l : list Z) (pos : Z) (cfg : option (Z * Z)) (nops : Z) : option parsed :=
  match l with
  | [] => None
  | t :: r =>
      if tag_id t =? 1 (* Config *) then
        match r with
        | c :: i :: r2 =>
            match cfg with
            | None => parse_actions r2 (pos + 3) (Some (c, i)) nops
            | Some _ => None
            end
        | _ => None
        end
      else if tag_id t =? 5 (* NOP *) then parse_actions r (pos + 1) cfg (nops + 1)
      else if tag_id t =? 2 (* CmdStream *) then
        match cfg with
        | Some (c, i) =>
            let n := tag_reserved t * 65536 + tag_param t in
            if Z.of_nat (List.length r) =? n then
              Some {| p_cfg := c; p_id := i; p_nops := nops; p_cmd_word_index := pos + 1;
                      p_declared_len := n; p_cmds := r |}
            else None
        | None => None
        end
      else None
  end.

Definition parse_words (l : list Z) : option parsed :=
  match l with
  | f :: r => if f =? fourcc_COP1 then parse_actions r 1 None 0 else None
  | [] => None
  end.

Definition parse_bytes (bs : list Z) : option parsed :=
  match words_of_bytes bs with Some ws => parse_words ws | None => None end.

(* fields of the two identification words as the driver reads them *)
Definition cfg_macs_log2 (c : Z) : Z := c mod 16.
Definition cfg_stream_version (c : Z) : Z := (c / 16) mod 16.
Definition cfg_shram_kb (c : Z) : Z := (c / 256) mod 256.
Definition cfg_product (c : Z) : Z := (c / 2^28) mod 16.
Definition id_arch_major (i : Z) : Z := (i / 2^28) mod 16.
Definition id_arch_minor (i : Z) : Z := (i / 2^20) mod 256.
Definition id_arch_patch (i : Z) : Z := (i / 2^16) mod 16.

(* what each accelerator is (hardware facts, not read from the source):
   name, product (0 = U55, 1 = U65), log2(MACs per cycle), SHRAM KiB *)
Definition spec_table : list (string * (Z * Z * Z)) :=
  [ ("ethos-u55-32"%string,  (0, 5, 16)); ("ethos-u55-64"%string,  (0, 6, 16));
    ("ethos-u55-128"%string, (0, 7, 24)); ("ethos-u55-256"%string, (0, 8, 48));
    ("ethos-u65-256"%string, (1, 8, 48)); ("ethos-u65-512"%string, (1, 9, 96)) ].
Definition spec_arch_ver : Z * Z * Z := (1, 0, 6).

Fixpoint spec_lookup (n : string) (t : list (string * (Z * Z * Z))) : option (Z * Z * Z) :=
  match t with
  | [] => None
  | (k, v) :: r => if String.eqb k n then Some v else spec_lookup n r
  end.

(* the payload of accelerator row `a` as the Python builds it *)
Definition payload_of (a : accel_row) (ws : list Z) : option (list Z) :=
  payload_bytes (a_cfg_word a) (a_id_word a) ws.

(* the parse result says what the property demands for accelerator `a` *)
Definition frames_ok (a : accel_row) (ws : list Z) (p : parsed) : Prop :=
  spec_lookup (a_name a) spec_table =
    Some (cfg_product (p_cfg p), cfg_macs_log2 (p_cfg p), cfg_shram_kb (p_cfg p)) /\
  (id_arch_major (p_id p), id_arch_minor (p_id p), id_arch_patch (p_id p)) = spec_arch_ver /\
  (4 * p_cmd_word_index p) mod 16 = 0 /\
  p_declared_len p = Z.of_nat (List.length ws) /\
  p_cmds p = ws.
