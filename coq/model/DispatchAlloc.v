(* Flat integer interface of the allocator models (build/alloc) for tools/checks/c05.py.
   run cmd args = result; results of partial functions start with 1 (Ok) or 0 followed by the
   error code of model/Alloc.v. *)
From Coq Require Import ZArith List Bool.
From VV Require Import lib.PyInt model.Alloc.
Import ListNotations.
Open Scope Z_scope.

Fixpoint parse_lrs (n : nat) (a : list Z) : list lr * list Z :=
  match n with
  | O => ([], a)
  | S m =>
      match a with
      | s :: e :: sz :: al :: nm :: rest =>
          let '(l, r) := parse_lrs m rest in (mkLr s e sz al nm :: l, r)
      | _ => ([], [])
      end
  end.

Fixpoint parse_lins (n : nat) (a : list Z) : list lin :=
  match n with
  | O => []
  | S m =>
      match a with
      | sz :: w :: sc :: lu :: eq :: rest => mkLin sz w sc lu eq :: parse_lins m rest
      | _ => []
      end
  end.

(* CMD greedy = 1 : n (start end size align name)*n -> memory_required (name address)* in processing order *)
Definition run_greedy (a : list Z) : list Z :=
  match a with
  | n :: rest =>
      let '(lrs, _) := parse_lrs (Z.to_nat n) rest in
      let '(out, mem) := greedy lrs in
      mem :: flat_map (fun p => [lr_name (fst p); snd p]) out
  | _ => [-1]
  end.

(* CMD linear = 2 : granularity n (size wcc scc lut eq)*n -> 1 total_sz address* | 0 code *)
Definition run_linear (a : list Z) : list Z :=
  match a with
  | g :: n :: rest =>
      match linear g (parse_lins (Z.to_nat n) rest) with
      | Ok (addrs, total) => 1 :: total :: addrs
      | Err c => [0; c]
      end
  | _ => [-1]
  end.

(* CMD hillclimb = 3 : has_max_iterations max_iterations memory_limit n (start end size align name)*n stream*
     -> 1 total_sz best_size iterations draws address* | 0 code
   (has_max_iterations = 0 stands for max_iterations = None; the stream holds the successive results of
   random.randint, 0 after its end) *)
Definition run_hillclimb (a : list Z) : list Z :=
  match a with
  | hm :: mi :: limit :: n :: rest =>
      let '(lrs, stream) := parse_lrs (Z.to_nat n) rest in
      match hillclimb (list Z) next_list lrs (if hm =? 0 then None else Some mi) limit stream with
      | Ok (addrs, best, iters, draws) => 1 :: hc_total lrs addrs 0 :: best :: iters :: draws :: addrs
      | Err c => [0; c]
      end
  | _ => [-1]
  end.

(* CMD hc_static = 4 : n (start end size align name)*n -> min_required_size initial_indices* -1 neighbours of each id, -1 terminated *)
Definition run_hc_static (a : list Z) : list Z :=
  match a with
  | n :: rest =>
      let '(lrs, _) := parse_lrs (Z.to_nat n) rest in
      min_required_size lrs :: initial_indices lrs ++ [-1] ++ flat_map (fun l => l ++ [-1]) (all_neighbours lrs)
  | _ => [-1]
  end.

(* CMD allocate = 5 : tensor_allocator cpu_tensor_alignment has_max_iterations max_iterations mem_size n
                      (start end size align name)*n stream*
     -> Greedy (2): memory_required (name address)*   LinearAlloc (1) / HillClimb (3): 1 total_sz address* | 0 code *)
Definition run_allocate (a : list Z) : list Z :=
  match a with
  | tag :: al :: hm :: mi :: limit :: n :: rest =>
      let '(lrs, stream) := parse_lrs (Z.to_nat n) rest in
      match allocate (list Z) next_list tag al lrs (if hm =? 0 then None else Some mi) limit stream with
      | InOrder out mem => mem :: flat_map (fun p => [lr_name (fst p); snd p]) out
      | ByIndex (Ok (addrs, total)) => 1 :: total :: addrs
      | ByIndex (Err c) => [0; c]
      | BadAllocator => [-2]
      end
  | _ => [-1]
  end.

Fixpoint parse_pairs (a : list Z) : list (Z * Z) :=
  match a with
  | k :: v :: rest => (k, v) :: parse_pairs rest
  | _ => []
  end.

(* CMD range_alignments = 6 : (equivalence id, requested alignment)* in request order -> (equivalence id, get_alignment())* *)
Definition run_range_alignments (a : list Z) : list Z :=
  flat_map (fun p => [fst p; snd p]) (range_alignments (parse_pairs a)).

Definition run (cmd : Z) (a : list Z) : list Z :=
  if cmd =? 1 then run_greedy a
  else if cmd =? 2 then run_linear a
  else if cmd =? 3 then run_hillclimb a
  else if cmd =? 4 then run_hc_static a
  else if cmd =? 5 then run_allocate a
  else if cmd =? 6 then run_range_alignments a
  else [-1].
