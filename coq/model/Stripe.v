(* Hand model of the stripe geometry of ethos-u-vela (property C10).  Executable definitions only;
   proofs are in proofs/Stripe*Proofs.v.

   (i)   the OFM loops of high_level_command_stream_generator.generate_high_level_commands_for_sched_op
         (height range, width range, ofm_depth_slices with max/min clipping)              -> gen_ofm_boxes
   (ii)  high_level_command_stream.Box.transform_with_strides_and_skirt (4-D boxes, concat offset,
         split offset/shape, dot-product depth, clipping, pad_top/pad_bottom, upscaling, broadcast wrap)
                                                                                          -> transform
   (iii) high_level_command_to_npu_op.create_padding                                      -> create_padding
   (iv)  graph_optimiser_util.needed_total_padding / calc_explicit_padding,
         tflite_graph_optimiser.calc_padding_and_skirt                                    -> calc_padding_and_skirt
   (v)   architecture_allocator._required_size / get_ifm_area_required                    -> ifm_area_required
   (vi)  cascade_builder.rolling_buffer_shape, tensor.Tensor.get_strides /
         address_for_coordinate / addresses_for_rolling_buffer                            -> rolling_addresses
   (vii) the producer/consumer interleaving of a cascade (ifm_present / ifm_required)     -> interleave
   plus the hardware tap semantics (DESIGN.md section 4) against which the property is stated.

   Tie: gen/GenStripe.v (translated: rolling_buffer_shape, needed_total_padding, _required_size; lemmas gen_*_eq),
   everything else by correspondence (tools/checks/c10.py) with the real functions. *)
From Coq Require Import ZArith List Bool.
From VV Require Import lib.PyInt gen.GenArchTables.
Import ListNotations.
Open Scope Z_scope.

Definition round_up (a b : Z) : Z := (a + b - 1) / b * b.

(* 4-D coordinates / shapes, NHWC *)
Record c4 := { cn : Z; ch : Z; cw : Z; cc : Z }.
Definition box := (c4 * c4)%type.                      (* start_coord, end_coord *)
Definition c4_list (a : c4) : list Z := [cn a; ch a; cw a; cc a].
Definition c4_le (a b : c4) : bool := (cn a <=? cn b) && (ch a <=? ch b) && (cw a <=? cw b) && (cc a <=? cc b).
(* Box.__init__: assert start_coord[i] <= end_coord[i] *)
Definition mk_box (s e : c4) : option box := if c4_le s e then Some (s, e) else None.

(* ------------------------------------------------------------------ (iv) padding *)
Definition needed_total_padding (input_size stride filter_size : Z) : Z :=
  if input_size mod stride =? 0 then Z.max (filter_size - stride) 0
  else Z.max (filter_size - input_size mod stride) 0.

(* the `while output_pad_after > 0 and output_pad_after % stride != total_minus_before % stride` loop;
   fuel = pad_after suffices (the counter falls by one per iteration and the loop ends at 0) *)
Fixpoint explicit_after (fuel : nat) (opa stride tmb : Z) : Z :=
  match fuel with
  | O => opa
  | S f => if (0 <? opa) && negb (opa mod stride =? tmb mod stride) then explicit_after f (opa - 1) stride tmb else opa
  end.
Definition calc_explicit_padding (input_size stride filter_size pad_before pad_after : Z) : Z * Z :=
  let total_minus_before := filter_size - input_size - pad_before in
  (pad_before, explicit_after (Z.to_nat pad_after) pad_after stride total_minus_before).

Definition PAD_SAME : Z := 0.
Definition PAD_VALID : Z := 1.
Definition PAD_EXPLICIT : Z := 2.
Definition PAD_TILE : Z := 3.

Record pad4 := { p_top : Z; p_left : Z; p_bottom : Z; p_right : Z }.

(* calc_padding_and_skirt(padding_type, kernel, input_shape, explicit_padding): k_w,k_h are the dilated sizes.
   None = UnsupportedFeatureError *)
Definition calc_padding_and_skirt (ptype k_w k_h s_x s_y in_h in_w : Z) (ep : pad4) : option (pad4 * pad4) :=
  let ypad := needed_total_padding in_h s_y k_h in
  let xpad := needed_total_padding in_w s_x k_w in
  let mk (t l b r : Z) := Some ({| p_top := t; p_left := l; p_bottom := b; p_right := r |},
                                {| p_top := t; p_left := l; p_bottom := ypad - t; p_right := xpad - l |}) in
  if ptype =? PAD_SAME then mk ((ypad + 0) / 2) ((xpad + 0) / 2) ((ypad + 1) / 2) ((xpad + 1) / 2)
  else if ptype =? PAD_VALID then mk 0 0 0 0
  else if ptype =? PAD_EXPLICIT then
    let '(t, b) := calc_explicit_padding in_h s_y k_h (p_top ep) (p_bottom ep) in
    let '(l, r) := calc_explicit_padding in_w s_x k_w (p_left ep) (p_right ep) in
    mk t l b r
  else if ptype =? PAD_TILE then mk (p_top ep) (p_left ep) (p_bottom ep) (p_right ep)
  else None.

(* ------------------------------------------------------------------ (v) stripe input requirement *)
Definition required_size (value stride border upscale nearest : Z) : Z :=
  - ((- ((value - 1) * stride + border + nearest)) / upscale).

(* get_ifm_area_required(ofm_shape, kernel, resampling_mode) -> (w1, h1); area_* are the dilated kernel sizes *)
Definition ifm_area_required (ofm_h ofm_w s_y s_x area_h area_w rmode : Z) : Z * Z :=
  let upscale := if rmode =? RS_NONE then 1 else 2 in
  let nearest := if rmode =? RS_NEAREST then 1 else 0 in
  (required_size ofm_w s_x area_w upscale nearest, required_size ofm_h s_y area_h upscale nearest).

(* ------------------------------------------------------------------ (ii) Box.transform_with_strides_and_skirt *)
Record tf_in := {
  t_s : c4; t_e : c4;                       (* self.start_coord / self.end_coord (the OFM box) *)
  t_has_ss : bool;                          (* strides is not None and skirt is not None *)
  t_sy : Z; t_sx : Z;                       (* strides[1], strides[2] *)
  t_skirt : pad4;                           (* skirt = (top, left, bottom, right) *)
  t_ifm : c4;                               (* ifm_shape *)
  t_dot : bool;                             (* npu_block_type in (ConvolutionMxN, VectorProduct, ReduceSum) *)
  t_concat : c4;                            (* concat_offsets *)
  t_kdh : Z;                                (* k_dilated_height *)
  t_split : option (c4 * c4);               (* split_offset, split_shape *)
  t_up : Z;                                 (* upscaling_factor *)
  t_wrap : bool }.                          (* op_type is a binary elementwise op *)

Definition is_dot_block (bt : Z) : bool := (bt =? BT_ConvolutionMxN) || (bt =? BT_VectorProduct) || (bt =? BT_ReduceSum).

(* the width part: x0, x1 are the coordinates after concat/split adjustment and the first clip *)
Definition tf_width (x0 x1 sx sk_l sk_r ifm_w : Z) (split : option (Z * Z)) : Z * Z :=
  match split with
  | None => (Z.max (x0 * sx - sk_l) 0, Z.min (x1 * sx + sk_r) ifm_w)
  | Some (off, shp) =>
      (* the stride applies to the position inside the output of the split op, not to its offset (repo 6d9d641) *)
      (Z.max ((x0 - off) * sx - sk_l) 0 + off, Z.min ((x1 - off) * sx + sk_r) shp + off)
  end.

(* the height part: y0 start, y1 end after the clip to ifm_h*up, oy1 the end before that clip;
   returns (start, end, pad_top, pad_bottom) *)
Definition tf_height (y0 y1 oy1 sy sk_t sk_b ifm_h up kdh : Z) : Z * Z * Z * Z :=
  let rem := sk_t mod up in
  (* the last kernel position is that of the unclipped OFM end oy1 (the OFM can be taller than the IFM) *)
  let total_stride := sy * (oy1 - y0 - 1) in
  let ns := y0 * sy - sk_t + rem in
  let pad_top := Z.max 0 (0 - ns) + rem in
  let ns1 := Z.max ns 0 in
  let pad_bottom :=
    if ifm_h * up <? oy1 * sy + sk_b then
      if negb (up =? 1) && (ifm_h * up <? oy1) then oy1 - ifm_h * up
      else Z.max 0 (ns1 - pad_top + total_stride + kdh - ifm_h * up)
    else 0 in
  let ns2 := Z.max (ns1 / up) 0 in
  let ne := y1 * sy + sk_b + sk_b mod up in
  let ne1 := Z.max (Z.min (ne / up) ifm_h) 1 in
  (ns2, ne1, pad_top, pad_bottom).

(* Box.wrap, one coordinate *)
Definition wrap1 (a b : Z) : Z :=
  if a =? 0 then 0 else if (b <=? a) && negb (b =? 0) then a mod b else a.

Definition transform (i : tf_in) : option (box * Z * Z) :=
  if t_up i =? 0 then None else     (* ZeroDivisionError *)
  let s := t_s i in let e := t_e i in let co := t_concat i in
  let sn := cn s - cn co in let sh := ch s - ch co in let sw := cw s - cw co in let sc := cc s - cc co in
  let en := cn e - cn co in let eh := ch e - ch co in let ew := cw e - cw co in let ec := cc e - cc co in
  let '(sn, sh, sw, sc, en, eh, ew, ec) :=
    match t_split i with
    | Some (so, _) => (sn + cn so, sh + ch so, sw + cw so, sc + cc so, en + cn so, eh + ch so, ew + cw so, ec + cc so)
    | None => (sn, sh, sw, sc, en, eh, ew, ec)
    end in
  let '(sc, ec) :=
    if t_dot i then
      match t_split i with
      | None => (0, cc (t_ifm i))
      | Some (so, ss) => (cc so, cc so + cc ss)
      end
    else (sc, ec) in
  let ec := Z.min ec (cc (t_ifm i)) in
  let ew := Z.min ew (cw (t_ifm i) * t_up i) in
  let oeh := eh in
  let eh := Z.min eh (ch (t_ifm i) * t_up i) in
  let '(sw, ew, sh, eh, pt, pb) :=
    if t_has_ss i then
      let '(sw1, ew1) := tf_width sw ew (t_sx i) (p_left (t_skirt i)) (p_right (t_skirt i)) (cw (t_ifm i))
                           (match t_split i with Some (so, ss) => Some (cw so, cw ss) | None => None end) in
      (* with a split/slice read the rows that exist for the operation are those of the split output: the height part is
         computed relative to its first row, against its height (repo 6d9d641) *)
      let '(fr, hwin) := match t_split i with Some (so, ss) => (ch so, ch ss) | None => (0, ch (t_ifm i)) end in
      let '(sh1, eh1, pt, pb) := tf_height (sh - fr) (eh - fr) (oeh - fr) (t_sy i) (p_top (t_skirt i)) (p_bottom (t_skirt i))
                                   hwin (t_up i) (t_kdh i) in
      (sw1, ew1, sh1 + fr, eh1 + fr, pt, pb)
    else (sw, ew, sh, eh, 0, 0) in
  let '(sn, sh, sw, sc, en, eh, ew, ec) :=
    if t_wrap i then
      let f := t_ifm i in
      (* `ifm_shape = ifm_shape.with_height(split_shape[-3])` above also reaches the wrap *)
      let fh := match t_has_ss i, t_split i with true, Some (_, ss) => ch ss | _, _ => ch f end in
      (wrap1 sn (cn f), wrap1 sh fh, wrap1 sw (cw f), wrap1 sc (cc f),
       wrap1 (en - 1) (cn f) + 1, wrap1 (eh - 1) fh + 1, wrap1 (ew - 1) (cw f) + 1, wrap1 (ec - 1) (cc f) + 1)
    else (sn, sh, sw, sc, en, eh, ew, ec) in
  match mk_box {| cn := sn; ch := sh; cw := sw; cc := sc |} {| cn := en; ch := eh; cw := ew; cc := ec |} with
  | Some b => Some (b, pt, pb)
  | None => None
  end.

(* ------------------------------------------------------------------ (iii) create_padding *)
(* vp: block type is VectorProduct; tile: attrs["padding"] == Padding.TILE; ep: attrs["explicit_padding"];
   first/last: cmd.is_first_h_stripe / is_last_h_stripe; cpt/cpb: cmd.pad_top / pad_bottom;
   ro: (read_offsets[0][-2], read_shapes[0][-2]) when a read offset is present; ifm_w: ps.ifm_shapes[0].width;
   bx0/bx1: cmd.ifm_box.start_coord[-2] / end_coord[-2] *)
Definition create_padding (vp tile : bool) (ep : pad4) (first last : bool) (cpt cpb : Z)
           (ro : option (Z * Z)) (ifm_w bx0 bx1 : Z) : pad4 :=
  if vp then {| p_top := 0; p_left := 0; p_bottom := 0; p_right := 0 |} else
  let top := if first && last then p_top ep else cpt in
  let bottom := if first && last then p_bottom ep else cpb in
  let '(lo, hi) := match ro with None => (0, ifm_w) | Some (off, shp) => (off, shp) end in
  let left := if lo <? bx0 then 0 else p_left ep in
  let right := if bx1 <? hi then 0 else p_right ep in
  if tile then {| p_top := 0; p_left := 0; p_bottom := 0; p_right := 0 |}
  else {| p_top := top; p_left := left; p_bottom := bottom; p_right := right |}.

(* ------------------------------------------------------------------ (i) the OFM loops *)
Fixpoint range_from (n : nat) (a c : Z) : list Z :=
  match n with O => [] | S n' => a :: range_from n' (a + c) c end.
(* list(range(a, b, c)); c = 0 is a ValueError in Python (callers guard it) *)
Definition py_range (a b c : Z) : list Z := range_from (Z.to_nat (range_len a b c)) a c.

(* for start in range(a, b, step): end = min(start + step, b) *)
Definition stripes_1d (a b step : Z) : list (Z * Z) :=
  map (fun s => (s, Z.min (s + step) b)) (py_range a b step).

(* for depth_idx, start_channel in enumerate(slices[:-1]):
     (max(start_channel, lo), min(slices[depth_idx + 1], hi)) *)
Fixpoint depth_ranges (slices : list Z) (lo hi : Z) : list (Z * Z) :=
  match slices with
  | a :: (b :: _) as t => (Z.max a lo, Z.min b hi) :: depth_ranges t lo hi
  | _ => []
  end.

Fixpoint all_some {A : Type} (l : list (option A)) : option (list A) :=
  match l with
  | [] => Some []
  | Some x :: t => match all_some t with Some r => Some (x :: r) | None => None end
  | None :: _ => None
  end.

(* the OFM boxes in the order the generator yields them; None = ValueError (zero step) or the Box assertion *)
Definition gen_ofm_boxes (ofm_start ofm_end : c4) (step_h step_w : Z) (slices : list Z) : option (list box) :=
  if (step_h =? 0) || (step_w =? 0) then None else
  all_some
    (flat_map (fun hr : Z * Z =>
       flat_map (fun wr : Z * Z =>
         map (fun dr : Z * Z =>
                mk_box {| cn := cn ofm_start; ch := fst hr; cw := fst wr; cc := fst dr |}
                       {| cn := cn ofm_end; ch := snd hr; cw := snd wr; cc := snd dr |})
             (depth_ranges slices (cc ofm_start) (cc ofm_end)))
         (stripes_1d (cw ofm_start) (cw ofm_end) step_w))
       (stripes_1d (ch ofm_start) (ch ofm_end) step_h)).

(* ------------------------------------------------------------------ (vi) rolling buffers and tile addresses *)
(* rolling_buffer_shape(producer_stripe, consumer_stripe_input, consumer_ifm_rows): tall enough for the IFM box of a consumer
   stripe (consumer_ifm_rows) plus what the producer may run ahead (one producer stripe less one row) *)
Definition rolling_buffer_shape (p_h p_w p_d c_h c_w rows : Z) : Z * Z * Z * Z :=
  (1, Z.max (round_up (p_h + c_h) c_h) (p_h + rows - 1), Z.max p_w c_w, round_up p_d 16).

Definition FMT_NHWC : Z := 1.
Definition FMT_NHCWB16 : Z := 2.

(* Tensor.get_strides for a 4-D (storage) shape; element size `es`, compression scale 1;
   result [s0; s1; s2; s3; s4] indexed like the augmented coordinate *)
Definition get_strides (fmt es : Z) (shp : c4) : list Z :=
  if fmt =? FMT_NHCWB16 then
    let s4 := es in let s3 := 16 * es in
    let s1 := s3 * cw shp in
    let s2 := cw shp * cc shp * es in
    let s0 := s2 * (if ch shp =? 0 then 1 else ch shp) in
    [s0; s1; s2; s3; s4]
  else
    (* NHWC: augmented shape [n, c, h, w, 1], stride order 4,1,3,2,0 *)
    let s4 := es in let s1 := es in let s3 := es * cc shp in let s2 := s3 * cw shp in let s0 := s2 * ch shp in
    [s0; s1; s2; s3; s4].

Definition nthz (l : list Z) (n : nat) : Z := nth n l 0.

(* Tensor.address_for_coordinate(coord, strides, op_shape4D) for a 4-D storage shape.
   bound = Some shape for sub_purpose Standard (the assertion 0 <= coord < shape), None otherwise;
   ssz = storage size used by the final assertion.  None = AssertionError *)
Definition address_for_coordinate (fmt base : Z) (storage : c4) (strides : list Z) (bound : option c4) (ssz : Z)
           (co : c4) : option Z :=
  let in_b := match bound with
              | Some s => (0 <=? cn co) && (cn co <? cn s) && (0 <=? ch co) && (ch co <? ch s) &&
                          (0 <=? cw co) && (cw co <? cw s) && (0 <=? cc co) && (cc co <? cc s)
              | None => true end in
  if negb in_b then None else
  if (cn storage =? 0) || (ch storage =? 0) || (cw storage =? 0) || (cc storage =? 0) then None (* ZeroDivisionError *) else
  let n := cn co mod cn storage in let y := ch co mod ch storage in
  let x := cw co mod cw storage in let c := cc co mod cc storage in
  let off :=
    if fmt =? FMT_NHCWB16 then
      n * nthz strides 0 + (c / 16) * nthz strides 1 + y * nthz strides 2 + x * nthz strides 3 + (c mod 16) * nthz strides 4
    else n * nthz strides 0 + c * nthz strides 1 + y * nthz strides 2 + x * nthz strides 3 in
  if (0 <=? off) && (off <=? ssz) then Some (base + off) else None.

(* Tensor.addresses_for_rolling_buffer(start_coord, end_coord, strides, op_shape4D) with storage_shape_4D = storage.
   Result: 0 = AssertionError, 2 = UnsupportedFeatureError (x crossing), Some (h0, h1, w0, [a0;a1;a2;a3]) *)
Inductive rb_result := RbAssert | RbUnsupported | RbOk (h0 h1 w0 : Z) (addrs : list Z).

Definition rolling_addresses (fmt base : Z) (storage : c4) (strides : list Z) (bound : option c4) (ssz : Z)
           (s e : c4) : rb_result :=
  let afc := address_for_coordinate fmt base storage strides bound ssz in
  let crossing_y := Z.min (round_up (ch s + 1) (ch storage)) (ch e) in
  let crossing_x := Z.min (round_up (cw s + 1) (cw storage)) (cw e) in
  let h0 := crossing_y - ch s in
  let w0 := crossing_x - cw s in
  match afc s with
  | None => RbAssert
  | Some a0 =>
      if crossing_x <? cw e then
        match afc {| cn := cn s; ch := ch s; cw := crossing_x; cc := cc s |} with
        | None => RbAssert
        | Some _ => RbUnsupported
        end
      else if crossing_y <? ch e then
        match afc {| cn := cn s; ch := crossing_y; cw := cw s; cc := cc s |} with
        | None => RbAssert
        | Some a2 => RbOk h0 h0 w0 [a0; 0; a2; 0]
        end
      else RbOk h0 h0 w0 [a0; 0; 0; 0]
  end.

(* what the hardware does with two height tiles (hw/Npu.v tile_of): local row t of the feature map *)
Definition tile_row_addr (h0 a0 a2 stride_y t : Z) : Z :=
  if t <? h0 then a0 + t * stride_y else a2 + (t - h0) * stride_y.

(* ------------------------------------------------------------------ (vii) cascade interleaving *)
(* is_subbox_of(ifm_present) with ifm_present = Box([0,0,0,0], present_end) *)
Definition subbox_of_present (req : box) (pe : c4) : bool :=
  c4_le {| cn := 0; ch := 0; cw := 0; cc := 0 |} (fst req) && c4_le (snd req) pe.

Section Interleave.
  (* generic in the consumer command C (with its required IFM box), the commands P of the producer's generator
     (end_of p = Some e: an NpuStripe of the producer pass with OFM end coordinate e; None: any other command
     the producer's generator yields, e.g. the stripes of ITS producer or a DMA) and the coverage test *)
  Context {C P R E : Type}.
  Variable req_of : C -> R.
  Variable end_of : P -> option E.
  Variable covers : R -> E -> bool.

  Inductive event := EProd (p : P) | ECons (c : C).

  (* `for prev_cmd in prev_cmd_gen: yield prev_cmd;
        if prev_cmd.is_npu_pass_command() and prev_cmd.ps == producer_op.parent_ps:
            ifm_present.end_coord = prev_cmd.ofm_box.end_coord
            if ifm_required.is_subbox_of(ifm_present): break`  -- the generator object keeps its position *)
  Fixpoint pull (prod : list P) (pe : E) (r : R) : list P * list P * E :=
    match prod with
    | [] => ([], [], pe)
    | p :: t =>
        match end_of p with
        | Some e =>
            if covers r e then ([p], t, e)
            else let '(y, rest, pe') := pull t e r in (p :: y, rest, pe')
        | None => let '(y, rest, pe') := pull t pe r in (p :: y, rest, pe')
        end
    end.

  Fixpoint interleave (cons : list C) (prod : list P) (pe : E) : list event :=
    match cons with
    | [] => []
    | c :: ct =>
        if covers (req_of c) pe then ECons c :: interleave ct prod pe
        else let '(y, rest, pe') := pull prod pe (req_of c) in
             map EProd y ++ ECons c :: interleave ct rest pe'
    end.
End Interleave.
Arguments EProd {C P}.
Arguments ECons {C P}.

(* a consumer stripe command: OFM box, IFM box, pad_top, pad_bottom *)
Record ccmd := { cm_ofm : box; cm_ifm : box; cm_pt : Z; cm_pb : Z }.

(* the instance used by the generator: 4-D boxes *)
Definition interleave4 (cons : list ccmd) (prod : list (bool * box)) : list (@event ccmd (bool * box)) :=
  interleave cm_ifm (fun p : bool * box => if fst p then Some (snd (snd p)) else None) subbox_of_present cons prod
             {| cn := 0; ch := 0; cw := 0; cc := 0 |}.

(* ------------------------------------------------------------------ rolling buffer contents (semantics) *)
(* the buffer as a map slot -> feature-map row currently stored there (-1: nothing);
   row y of the tensor lives in slot y mod hb (lemma rolling_tile_addresses) *)
Definition rbmem := Z -> Z.
Definition rb_empty : rbmem := fun _ => -1.
Definition rb_write_row (hb : Z) (m : rbmem) (y : Z) : rbmem := fun sl => if sl =? y mod hb then y else m sl.
Fixpoint rb_write_rows (hb : Z) (m : rbmem) (y : Z) (n : nat) : rbmem :=
  match n with O => m | S n' => rb_write_rows hb (rb_write_row hb m y) (y + 1) n' end.
Definition rb_holds (hb : Z) (m : rbmem) (y : Z) : bool := m (y mod hb) =? y.
Fixpoint rb_holds_rows (hb : Z) (m : rbmem) (y : Z) (n : nat) : bool :=
  match n with O => true | S n' => rb_holds hb m y && rb_holds_rows hb m (y + 1) n' end.

(* ------------------------------------------------------------------ hardware tap semantics (DESIGN.md section 4) *)
(* one axis.  The hardware is handed a box [b0,b1), leading/trailing padding p0/p1, n outputs, stride s and the
   dilated kernel size kd.  The IFM extent it derives is ext = (n-1)*s + kd - p0 - p1 (hw/Npu.v ifm_dims).
   Output i (relative to the stripe), tap offset j = tap index * dilation:
     t = i*s + j - p0;  padding iff t < 0 or ext <= t;  otherwise it reads local row t, which lies inside the
   box iff t < b1 - b0 (TOob: the hardware would read outside the region it was given) *)
Inductive tap := TPad | TSrc (y : Z) | TOob.

Definition hw_tap (b0 b1 p0 p1 n s kd i j : Z) : tap :=
  let t := i * s + j - p0 in
  let ext := (n - 1) * s + kd - p0 - p1 in
  if (t <? 0) || (ext <=? t) then TPad
  else if t <? b1 - b0 then TSrc (b0 + t) else TOob.

(* the operator as a whole: valid input range [lo,hi) (0..H, or the window of a split read), original leading
   padding `top`; output r (relative to the operator's own output), tap offset j *)
Definition ref_tap (lo hi top s r j : Z) : tap :=
  let u := lo + r * s + j - top in
  if (u <? lo) || (hi <=? u) then TPad else TSrc u.

(* with 2x upscaling the hardware walks the upscaled grid; NEAREST reads row u/2, TRANSPOSE reads row u/2
   for even u and zero (TPad) for odd u *)
(* The replication starts at the first row of the box handed to the hardware (local upscaled row t reads box row t/2).
   Consequence (proofs/StripeUpProofs.v, nearest_odd_stripe_start_impossible): a stripe of a nearest-upscaled operator
   that starts on an odd output row cannot be described by any (box, pad_top >= 0, pad_bottom); the scheduler therefore
   has to give such operators -- and, inside a cascade, every operator above them -- even stripe heights. *)
Definition hw_tap_up (rmode b0 b1 p0 p1 n s kd i j : Z) : tap :=
  let t := i * s + j - p0 in
  let ext := (n - 1) * s + kd - p0 - p1 in
  if (t <? 0) || (ext <=? t) then TPad
  else if (rmode =? RS_TRANSPOSE) && (t mod 2 =? 1) then TPad
  else if t / 2 <? b1 - b0 then TSrc (b0 + t / 2) else TOob.

Definition ref_tap_up (rmode hi top s r j : Z) : tap :=
  let u := r * s + j - top in
  if (u <? 0) || (2 * hi <=? u) then TPad
  else if (rmode =? RS_TRANSPOSE) && (u mod 2 =? 1) then TPad
  else TSrc (u / 2).

Definition tap_eqb (a b : tap) : bool :=
  match a, b with
  | TPad, TPad => true
  | TSrc x, TSrc y => x =? y
  | _, _ => false
  end.

(* ------------------------------------------------------------------ one striped operator along the height *)
(* geometry of an operator along one axis *)
Record geom := {
  g_in : Z;        (* IFM extent H (ifm_shape.height) *)
  g_out : Z;       (* OFM extent of the operator (write_shape when writing into a concat) *)
  g_k : Z;         (* kernel taps *)
  g_d : Z;         (* dilation *)
  g_s : Z;         (* stride *)
  g_top : Z;       (* original leading padding (explicit_padding[0]) *)
  g_bottom : Z;    (* original trailing padding (explicit_padding[2]) *)
  g_sk_t : Z;      (* skirt[0] *)
  g_sk_b : Z }.    (* skirt[2] *)
Definition g_kd (g : geom) : Z := g_d g * (g_k g - 1) + 1.

(* the (ifm start, ifm end, pad_top, pad_bottom) the code computes for the OFM rows [st,en) of an operator whose
   output starts at write offset woff (no read offset, upscaling 1): transform followed by create_padding *)
Definition stripe_h (g : geom) (woff st en : Z) : Z * Z * Z * Z :=
  let '(b0, b1, pt, pb) :=
    tf_height (st - woff) (Z.min (en - woff) (g_in g)) (en - woff) (g_s g) (g_sk_t g) (g_sk_b g) (g_in g) 1 (g_kd g) in
  let first := st =? woff in
  let last := woff + g_out g <=? en in
  if first && last then (b0, b1, g_top g, g_bottom g) else (b0, b1, pt, pb).

(* all taps of all rows of a stripe agree with the operator's own taps *)
Definition stripe_taps_ok (g : geom) (woff st en : Z) : bool :=
  let '(b0, b1, pt, pb) := stripe_h g woff st en in
  forallb (fun r =>
    forallb (fun ky =>
      tap_eqb (hw_tap b0 b1 pt pb (en - st) (g_s g) (g_kd g) (r - st) (ky * g_d g))
              (ref_tap 0 (g_in g) (g_top g) (g_s g) (r - woff) (ky * g_d g)))
      (range_from (Z.to_nat (g_k g)) 0 1))
    (range_from (Z.to_nat (en - st)) st 1).

(* ------------------------------------------------------------------ a two-operator cascade along the height *)
(* consumer stripes of height hc over an output of height g_out, producer stripes of height hp over the
   consumer's input (= producer's output) of height g_in; 1-D instance of the interleaving *)
Definition cons_cmds_1d (g : geom) (hc : Z) : list (Z * Z * (Z * Z * Z * Z)) :=
  map (fun se => (fst se, snd se, stripe_h g 0 (fst se) (snd se))) (stripes_1d 0 (g_out g) hc).
Definition req_1d (c : Z * Z * (Z * Z * Z * Z)) : Z * Z :=
  let '(_, _, (b0, b1, _, _)) := c in (b0, b1).
Definition covers_1d (r : Z * Z) (pe : Z) : bool := (0 <=? fst r) && (snd r <=? pe).
Definition cascade_events (g : geom) (hc hp : Z) :=
  interleave req_1d (fun p : Z * Z => Some (snd p)) covers_1d (cons_cmds_1d g hc) (stripes_1d 0 (g_in g) hp) 0.

(* stripe_input.height of the consumer (scheduler.create_scheduler_info) and the rolling buffer height *)
Definition stripe_input_h (g : geom) (hc : Z) : Z :=
  Z.min (required_size hc (g_s g) (g_kd g) 1 0) (g_in g).
(* cascade_builder.stripe_ifm_rows: the most IFM rows the box of one consumer stripe spans *)
Definition stripe_ifm_rows (g : geom) (hc : Z) : Z :=
  Z.max (Z.min (hc * g_s g + g_sk_t g + g_sk_b g) (g_in g)) (stripe_input_h g hc).
Definition buffer_h (g : geom) (hc hp : Z) : Z :=
  let '(_, h, _, _) := rolling_buffer_shape hp 1 1 (stripe_input_h g hc) 1 (stripe_ifm_rows g hc) in h.

(* run the events on the buffer: producer stripes write their rows, a consumer stripe needs every row of its IFM box;
   returns false at the first consumer stripe that finds a row of its box overwritten *)
Fixpoint run_events (hb : Z) (m : rbmem) (evs : list (@event (Z * Z * (Z * Z * Z * Z)) (Z * Z))) : bool :=
  match evs with
  | [] => true
  | EProd p :: t => run_events hb (rb_write_rows hb m (fst p) (Z.to_nat (snd p - fst p))) t
  | ECons c :: t =>
      let '(b0, b1) := req_1d c in
      rb_holds_rows hb m b0 (Z.to_nat (b1 - b0)) && run_events hb m t
  end.

(* the same, but only the rows actually tapped by consumer output row r, tap ky are demanded *)
Definition tapped_row_lost (hb : Z) (m : rbmem) (g : geom) (c : Z * Z * (Z * Z * Z * Z)) (r ky : Z) : bool :=
  let '(st, en, (b0, b1, pt, pb)) := c in
  match hw_tap b0 b1 pt pb (en - st) (g_s g) (g_kd g) (r - st) (ky * g_d g) with
  | TSrc y => negb (rb_holds hb m y)
  | _ => false
  end.

(* ------------------------------------------------------------------ a convolution-like operator and its stripes *)
(* how generate_high_level_commands_for_sched_op calls the transform for an operator with kernel/stride/padding
   attributes, no read offset, no upscaling; and how create_padding is called for the resulting command *)
Record convop := {
  o_ifm : c4;            (* ifm.shape *)
  o_oshape : c4;         (* the shape it writes: parent_op.write_shape, or the OFM shape *)
  o_woff : c4;           (* parent_op.write_offset (zeros when None) *)
  o_kh : Z; o_kw : Z; o_dy : Z; o_dx : Z; o_sy : Z; o_sx : Z;
  o_pad : pad4;          (* attrs["explicit_padding"] *)
  o_skirt : pad4;        (* attrs["skirt"] *)
  o_bt : Z }.            (* npu_block_type *)

Definition conv_tf (o : convop) (b : box) : tf_in :=
  {| t_s := fst b; t_e := snd b; t_has_ss := true; t_sy := o_sy o; t_sx := o_sx o; t_skirt := o_skirt o;
     t_ifm := o_ifm o; t_dot := is_dot_block (o_bt o); t_concat := o_woff o;
     t_kdh := o_dy o * (o_kh o - 1) + 1; t_split := None; t_up := 1; t_wrap := false |}.

Definition conv_hw_padding (o : convop) (b ib : box) (pt pb : Z) : pad4 :=
  create_padding (o_bt o =? BT_VectorProduct) false (o_pad o)
    (ch (fst b) =? ch (o_woff o)) (ch (o_woff o) + ch (o_oshape o) <=? ch (snd b)) pt pb None
    (cw (o_ifm o)) (cw (fst ib)) (cw (snd ib)).

Definition conv_geom_h (o : convop) : geom :=
  {| g_in := ch (o_ifm o); g_out := ch (o_oshape o); g_k := o_kh o; g_d := o_dy o; g_s := o_sy o;
     g_top := p_top (o_pad o); g_bottom := p_bottom (o_pad o); g_sk_t := p_top (o_skirt o); g_sk_b := p_bottom (o_skirt o) |}.
Definition conv_geom_w (o : convop) : geom :=
  {| g_in := cw (o_ifm o); g_out := cw (o_oshape o); g_k := o_kw o; g_d := o_dx o; g_s := o_sx o;
     g_top := p_left (o_pad o); g_bottom := p_right (o_pad o); g_sk_t := p_left (o_skirt o); g_sk_b := p_right (o_skirt o) |}.

(* ------------------------------------------------------------------ validator for emitted stripes (D2) *)
(* every tap of outputs 0..n-1 of a stripe handed (b0,b1,p0,p1) equals the reference tap of operator outputs r0..r0+n-1
   over the valid range [lo,hi) with leading padding top *)
Definition check_stripe_taps (b0 b1 p0 p1 n s kd d k lo hi top r0 : Z) : bool :=
  forallb (fun i => forallb (fun ky =>
    tap_eqb (hw_tap b0 b1 p0 p1 n s kd i (ky * d)) (ref_tap lo hi top s (r0 + i) (ky * d)))
    (range_from (Z.to_nat k) 0 1)) (range_from (Z.to_nat n) 0 1).

(* the same operator reading the window [so, so + ss) of its IFM tensor (a split / slice folded into it): how the generator
   calls the transform and create_padding then.  o_ifm is the shape of the whole tensor; the padding attributes of the
   operator (o_pad, o_skirt) belong to the window *)
Definition conv_tf_rd (o : convop) (so ss : c4) (b : box) : tf_in :=
  {| t_s := fst b; t_e := snd b; t_has_ss := true; t_sy := o_sy o; t_sx := o_sx o; t_skirt := o_skirt o;
     t_ifm := o_ifm o; t_dot := is_dot_block (o_bt o); t_concat := o_woff o;
     t_kdh := o_dy o * (o_kh o - 1) + 1; t_split := Some (so, ss); t_up := 1; t_wrap := false |}.

Definition conv_hw_padding_rd (o : convop) (so ss : c4) (b ib : box) (pt pb : Z) : pad4 :=
  create_padding (o_bt o =? BT_VectorProduct) false (o_pad o)
    (ch (fst b) =? ch (o_woff o)) (ch (o_woff o) + ch (o_oshape o) <=? ch (snd b)) pt pb (Some (cw so, cw ss))
    (cw (o_ifm o)) (cw (fst ib)) (cw (snd ib)).

Definition conv_geom_h_rd (o : convop) (ss : c4) : geom :=
  {| g_in := ch ss; g_out := ch (o_oshape o); g_k := o_kh o; g_d := o_dy o; g_s := o_sy o;
     g_top := p_top (o_pad o); g_bottom := p_bottom (o_pad o); g_sk_t := p_top (o_skirt o); g_sk_b := p_bottom (o_skirt o) |}.
Definition conv_geom_w_rd (o : convop) (ss : c4) : geom :=
  {| g_in := cw ss; g_out := cw (o_oshape o); g_k := o_kw o; g_d := o_dx o; g_s := o_sx o;
     g_top := p_left (o_pad o); g_bottom := p_right (o_pad o); g_sk_t := p_left (o_skirt o); g_sk_b := p_right (o_skirt o) |}.
