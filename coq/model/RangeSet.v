(* C04 model (device H) of ethosu/vela/range_set.py: RangeSet (a list of (start, end) tuples kept
   sorted), MemoryRangeSet (a dict mem_area -> RangeSet) and MemoryAccessSet (one MemoryRangeSet
   per access direction).  Executable definitions only; proofs are in proofs/RangeSetProofs.v.
   AssertionError is modelled by [None].  Not modelled: the lru_cache on MemoryAccessSet.conflicts
   (stale results after a mutation belong to C14), dict iteration order (the results below do not
   depend on it once no assertion fires, which is proved from the class invariant). *)
From Coq Require Import ZArith List Bool.
Import ListNotations.
Open Scope Z_scope.

Definition range := (Z * Z)%type.          (* (start, end), end exclusive *)
Definition rset := list range.

(* RangeSet(start, end): "if start is not None and start != end: assert start < end; append" *)
Definition rs_new (s e : Z) : option rset :=
  if s =? e then Some [] else if s <? e then Some [(s, e)] else None.

(* Python tuple order, used by sorted() *)
Definition range_leb (a b : range) : bool :=
  (fst a <? fst b) || ((fst a =? fst b) && (snd a <=? snd b)).

Fixpoint insert_sorted (x : range) (l : rset) : rset :=
  match l with
  | [] => [x]
  | y :: t => if range_leb x y then x :: l else y :: insert_sorted x t
  end.

(* list(sorted(l)): the tuple order is total and antisymmetric, so every sorting algorithm
   returns the same list *)
Definition sort_ranges (l : rset) : rset := fold_right insert_sorted [] l.

(* __or__ / __ior__ : sorted(self.ranges + other.ranges) *)
Definition rs_or (a b : rset) : rset := sort_ranges (a ++ b).

Definition ranges_meet (ar br : range) : bool :=
  Z.max (fst ar) (fst br) <? Z.min (snd ar) (snd br).

(* RangeSet.intersects: the two-pointer scan.  None = "assert ar[0] != br[0]" failed *)
Fixpoint rs_intersects (a : rset) : rset -> option bool :=
  fix inner (b : rset) : option bool :=
    match a with
    | [] => Some false
    | ar :: a' =>
        match b with
        | [] => Some false
        | br :: b' =>
            if ranges_meet ar br then Some true
            else if fst ar <? fst br then rs_intersects a' b
            else if fst ar =? fst br then None
            else inner b'
        end
    end.

(* ---------------------------------------------------------------- MemoryRangeSet *)
Definition mrs := list (Z * rset).          (* mem_area -> RangeSet, distinct keys *)

Fixpoint mget (m : mrs) (k : Z) : option rset :=
  match m with
  | [] => None
  | (k', r) :: t => if k' =? k then Some r else mget t k
  end.

Definition mhas (m : mrs) (k : Z) : bool := match mget m k with Some _ => true | None => false end.
Definition mgetd (m : mrs) (k : Z) : rset := match mget m k with Some r => r | None => [] end.

(* MemoryRangeSet(mem_area, start, end) *)
Definition mrs_new (area s e : Z) : option mrs :=
  match rs_new s e with Some r => Some [(area, r)] | None => None end.

(* __or__ : for every key of either operand  self.get(k, RangeSet()) | other.get(k, RangeSet()) *)
Definition mrs_or (a b : mrs) : mrs :=
  map (fun kv => (fst kv, rs_or (snd kv) (mgetd b (fst kv)))) a ++
  map (fun kv => (fst kv, rs_or [] (snd kv))) (filter (fun kv => negb (mhas a (fst kv))) b).

(* intersects: any common key whose range sets intersect *)
Fixpoint mrs_intersects (a b : mrs) : option bool :=
  match a with
  | [] => Some false
  | (k, ra) :: t =>
      match mget b k with
      | Some rb =>
          match rs_intersects ra rb with
          | Some true => Some true
          | Some false => mrs_intersects t b
          | None => None
          end
      | None => mrs_intersects t b
      end
  end.

(* ---------------------------------------------------------------- MemoryAccessSet *)
Record maset := MA { ma_read : mrs; ma_write : mrs }.
Definition ma_empty : maset := MA [] [].

(* add(memory_range_set, access):  self.accesses[access] |= memory_range_set  (Read = 0, Write = 1) *)
Definition ma_add (x : maset) (m : mrs) (write : bool) : maset :=
  if write then MA (ma_read x) (mrs_or (ma_write x) m) else MA (mrs_or (ma_read x) m) (ma_write x).

(* conflicts: write->read, read->write, write->write, in this order *)
Definition ma_conflicts (x y : maset) : option bool :=
  match mrs_intersects (ma_write x) (ma_read y) with
  | Some true => Some true
  | None => None
  | Some false =>
      match mrs_intersects (ma_read x) (ma_write y) with
      | Some true => Some true
      | None => None
      | Some false => mrs_intersects (ma_write x) (ma_write y)
      end
  end.
