(* C12: validator of the offline arena plan published in an output model. No proofs here. *)
From Coq Require Import ZArith List Bool.
Import ListNotations.
Open Scope Z_scope.

(* a tensor placed in the arena: offset, size in bytes, first and last time step (operator
   indices of the output graph, inclusive) at which it is live *)
Record atens := { a_off : Z; a_size : Z; a_first : Z; a_last : Z }.

Definition colive (a b : atens) : bool := (Z.max (a_first a) (a_first b) <=? Z.min (a_last a) (a_last b)).
Definition disjoint_bytes (a b : atens) : bool :=
  (a_off a + a_size a <=? a_off b) || (a_off b + a_size b <=? a_off a).

Definition pair_ok (a b : atens) : bool := negb (colive a b) || disjoint_bytes a b.

Fixpoint all_pairs_ok (l : list atens) : bool :=
  match l with
  | [] => true
  | a :: t => forallb (pair_ok a) t && all_pairs_ok t
  end.

Definition aligned_ok (align : Z) (l : list atens) : bool :=
  forallb (fun a => (a_off a mod align =? 0) && (0 <=? a_off a) && (0 <=? a_size a)) l.

(* scratch tensor: offset 0 and spans every arena byte the command streams touch (footprint ends)
   and every arena tensor the custom operators read or write *)
Definition scratch_ok (s_off s_size : Z) (fp_ends : list Z) (touched : list atens) : bool :=
  (s_off =? 0) && forallb (fun e => e <=? s_size) fp_ends &&
  forallb (fun a => a_off a + a_size a <=? s_size) touched.

Definition reported_ok (reported : Z) (l : list atens) : bool :=
  forallb (fun a => a_off a + a_size a <=? reported) l.

Definition check_arena (align : Z) (l : list atens) (has_scratch : bool) (s_off s_size : Z)
           (fp_ends : list Z) (touched : list atens) (reported : Z) : bool :=
  (0 <? align) && all_pairs_ok l && aligned_ok align l &&
  (if has_scratch then scratch_ok s_off s_size fp_ends touched else true) &&
  reported_ok reported l.
