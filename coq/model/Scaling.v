(* Hand model of ethosu/vela/scaling.py (quantise_scale, reduced_quantise_scale,
   quantise_pooling_scale) over integers, the TFLite reference derivation QuantizeMultiplier
   transcribed over dyadics, the way the NPU applies a global (scale, shift) pair to an
   accumulator, and an IEEE-style rounded multiplication/division on dyadics used to model the
   elementwise mul/add/sub scale derivations.  Executable definitions only; proofs are in
   proofs/ScalingProofs.v.
   Tie: gen/GenScaling.v (translated from the source on every run) for quantise_scale,
   reduced_quantise_scale, quantise_pooling_scale (lemmas gen_*_eq); correspondence
   (tools/checks/c09.py) for the float -> dyadic step and for the elementwise functions. *)
From Coq Require Import ZArith List Bool.
From VV Require Import lib.PyInt lib.PyFloat.
Import ListNotations.
Open Scope Z_scope.

(* ---------------------------------------------------------------------------------------- *)
(* quantise_scale on the dyadic  m * 2^e  (any integer m; the property is about m > 0).      *)
(* math.frexp gives significand m / 2^(L+1), L = log2 |m|, and exponent e + L + 1.           *)

Definition q_exp (m e : Z) : Z := if m =? 0 then 0 else e + Z.log2 (Z.abs m) + 1.

(* int(round_away_zero(significand * 2^31)) *)
Definition q_mult (m : Z) : Z :=
  let a := Z.abs m in
  if a =? 0 then 0 else Z.sgn m * ((a * 2 ^ 31 + 2 ^ Z.log2 a) / 2 ^ (Z.log2 a + 1)).

Definition shift_ok (s : Z) : bool := (0 <=? s) && (s <? 64).

(* a significand that rounded up to 2^31 is renormalised (as the TFLite reference does) before the
   shift is derived and range-tested *)
Definition q_renorm (q E : Z) : Z * Z := if q =? 2 ^ 31 then (q / 2, E + 1) else (q, E).

Definition q_scale (m e : Z) : Z * Z :=
  let '(q, E) := q_renorm (q_mult m) (q_exp m e) in
  let shift := 31 - E in
  if shift_ok shift then (q, shift) else (0, 16).

(* reduced_quantise_scale *)
Definition r_mult (q : Z) : Z := if q <? 32767 * 65536 then (q + 32768) / 65536 else 32767.

Definition r_scale (m e : Z) : Z * Z :=
  let '(q, s) := q_scale m e in
  if shift_ok s then (r_mult q, s - 16) else (0, 16).

(* quantise_pooling_scale(nr_kernel_elements, rescale_bits): None = the assert fires *)
Definition pool_k (n : Z) : Z := frexp_exp_int (n - 1).

Definition pool_scale (n rb : Z) : option (Z * Z) :=
  let k := pool_k n in
  let N := 31 - rb in
  if N + k <? 64 then Some ((2 ^ (N + k) + 2 ^ k) / n, N + k) else None.

(* ---------------------------------------------------------------------------------------- *)
(* How the NPU applies a global OFM scale to an accumulator (natural rounding):              *)
(*   (acc * scale + 2^(shift-1)) >> shift     (arithmetic shift = floor)                     *)
Definition apply_scale (acc scale shift : Z) : Z :=
  if shift =? 0 then acc * scale else Z.shiftr (acc * scale + 2 ^ (shift - 1)) shift.

(* the TFLite-style double rounding (round at bit 31, then at the remaining shift), used only to
   show that the pooling result does not depend on which of the two the hardware applies *)
Definition apply_scale_double (acc scale shift : Z) : Z :=
  if shift <=? 31 then apply_scale acc scale shift
  else apply_scale (apply_scale acc scale 31) 1 (shift - 31).

(* round-half-up division by the window size *)
Definition div_half_up (acc n : Z) : Z := (2 * acc + n) / (2 * n).

(* ---------------------------------------------------------------------------------------- *)
(* TFLite reference: tensorflow/lite/kernels/internal/quantization_util.cc QuantizeMultiplier  *)
(*   if (d == 0.) { q = 0; shift = 0; return; }                                              *)
(*   const double q = std::frexp(d, shift);                                                  *)
(*   auto q_fixed = static_cast<int64_t>(TfLiteRound(q * (1LL << 31)));                       *)
(*   if (q_fixed == (1LL << 31)) { q_fixed /= 2; ++shift; }                                   *)
(*   if (shift < -31) { shift = 0; q_fixed = 0; }                                             *)
(* The pair denotes q_fixed * 2^(shift - 31).                                                *)

(* std::round: nearest integer, halfway cases away from zero (written without trunc(x+0.5)) *)
Definition dy_round_half_away (a : dyadic) : Z :=
  if 0 <=? de a then dm a * 2 ^ de a
  else let p := 2 ^ (- de a) in Z.sgn (dm a) * ((2 * Z.abs (dm a) + p) / (2 * p)).

Definition tfl_quantize_multiplier (d : dyadic) : Z * Z :=
  if dm d =? 0 then (0, 0)
  else
    let q := dy_frexp_sig d in
    let shift := dy_frexp_exp d in
    let q_fixed := dy_round_half_away (dy_mul_int q (2 ^ 31)) in
    let '(q_fixed, shift) := if q_fixed =? 2 ^ 31 then (q_fixed / 2, shift + 1) else (q_fixed, shift) in
    if shift <? -31 then (0, 0) else (q_fixed, shift).

(* ---------------------------------------------------------------------------------------- *)
(* IEEE-754 style arithmetic on positive dyadics with p-bit significands, round to nearest,  *)
(* ties to even; exponent range unbounded (overflow, underflow and subnormals are not        *)
(* modelled: the correspondence run says where that matters).  p = 53: binary64, 24: binary32 *)

(* round the positive rational  (num / den) * 2^e  to p significant bits *)
Definition round_ratio (p num den e : Z) : dyadic :=
  if (num <=? 0) || (den <=? 0) then Dy 0 e
  else
    let s := p + 2 + Z.log2 den - Z.log2 num in          (* quotient gets p+2 or p+3 bits *)
    let nn := num * 2 ^ (Z.max s 0) in
    let dd := den * 2 ^ (Z.max (- s) 0) in
    let q := nn / dd in
    let sticky := negb (nn mod dd =? 0) in
    let drop := Z.log2 q + 1 - p in                       (* >= 2 *)
    let t := q / 2 ^ drop in
    let rem := q mod 2 ^ drop in
    let half := 2 ^ (drop - 1) in
    let up := (half <? rem) || ((rem =? half) && (sticky || Z.odd t)) in
    Dy (if up then t + 1 else t) (e - s + drop).

Definition fl_div (p : Z) (a b : dyadic) : dyadic := round_ratio p (dm a) (dm b) (de a - de b).
Definition fl_mul (p : Z) (a b : dyadic) : dyadic := round_ratio p (dm a * dm b) 1 (de a + de b).
Definition fl_mul_pow2 (a : dyadic) (k : Z) : dyadic := Dy (dm a) (de a + k).   (* exact *)
Definition dy_max (a b : dyadic) : dyadic := if dy_ltb a b then b else a.
Definition dy_min (a b : dyadic) : dyadic := if dy_ltb b a then b else a.

Definition q_scale_dy (d : dyadic) : Z * Z := q_scale (dm d) (de d).

(* scaling.elementwise_mul_scale evaluated at precision p *)
Definition ew_mul_scale (p : Z) (in1 in2 out : dyadic) : Z * Z :=
  q_scale_dy (fl_div p (fl_mul p in1 in2) out).

(* scaling.simplified_elementwise_add_sub_scale evaluated at precision p:
   (input1_rescale, input2_rescale, out_scale, out_shift) *)
Definition ew_simplified (p : Z) (in1 in2 out : dyadic) (input_shift : Z)
  : dyadic * dyadic * (Z * Z) :=
  let mx := dy_max in1 in2 in
  let twice := fl_mul_pow2 mx 1 in
  (fl_div p (fl_mul_pow2 in1 input_shift) twice,
   fl_div p (fl_mul_pow2 in2 input_shift) twice,
   q_scale_dy (fl_div p twice (fl_mul_pow2 out input_shift))).

(* scaling.advanced_elementwise_add_sub_scale: (in_scale, in_shift, out_scale, out_shift, op_to_scale) *)
Definition ew_advanced (p : Z) (in1 in2 out : dyadic) (bitdepth : Z) : (Z * Z) * (Z * Z) * Z :=
  let mx := dy_max in1 in2 in
  let mn := dy_min in1 in2 in
  let input_shift := if bitdepth =? 8 then 20 else 15 in
  let op := if dy_ltb in1 in2 then 1 else 2 in
  let '(r1, _, outp) := ew_simplified p mn mx out input_shift in
  (q_scale_dy r1, outp, op).

(* TFLite reference (tensorflow/lite/kernels/add.cc, sub.cc Prepare; all in double):
     twice_max_input_scale = 2 * max(in1, in2)
     real_input1_multiplier = in1 / twice_max_input_scale        (same for input 2)
     real_output_multiplier = twice_max_input_scale / ((1 << left_shift) * out)
   each then through QuantizeMultiplier; left_shift = 20 (8 bit) or 15 (16 bit) *)
Definition tfl_add_params (in1 in2 out : dyadic) (left_shift : Z) : (Z * Z) * (Z * Z) * (Z * Z) :=
  let twice := fl_mul_pow2 (dy_max in1 in2) 1 in
  (tfl_quantize_multiplier (fl_div 53 in1 twice),
   tfl_quantize_multiplier (fl_div 53 in2 twice),
   tfl_quantize_multiplier (fl_div 53 twice (fl_mul_pow2 out left_shift))).

(* mul.cc: real_multiplier = in1 * in2 / out, then QuantizeMultiplier; p = 24 when the product
   and quotient are evaluated in float (TFLite), 53 when in double (TFLite Micro) *)
Definition tfl_mul_params (p : Z) (in1 in2 out : dyadic) : Z * Z :=
  tfl_quantize_multiplier (fl_div p (fl_mul p in1 in2) out).

(* ---------------------------------------------------------------------------------------- *)
(* weight_compressor._prepare_scale_and_bias: the per-channel effective scale handed to           *)
(* quantise_scale / reduced_quantise_scale, and what is packed into the 10-byte scale record.     *)
(*   uint8 or (original) FullyConnected: np.double(ifm_scale * weight_scale) / np.double(ofm_scale)  *)
(*        -- the product is evaluated in binary32 (pprod = 24)                                    *)
(*   int8 / int16 otherwise:  (np.double(ifm_scale) * np.double(weight_scale)) / np.double(ofm_scale) *)
(*        -- pprod = 53                                                                           *)
Definition conv_effective_scale (pprod : Z) (ifm w ofm : dyadic) : dyadic :=
  fl_div 53 (fl_mul pprod ifm w) ofm.

(* reduced: int16 IFM with an int64 bias *)
Definition conv_packed_scale (pprod : Z) (reduced : bool) (ifm w ofm : dyadic) : Z * Z :=
  let x := conv_effective_scale pprod ifm w ofm in
  if reduced then r_scale (dm x) (de x) else q_scale (dm x) (de x).

(* TFLite reference (kernel_util.cc).  CONV_2D / DEPTHWISE_CONV_2D int8, int16, per channel
   (PopulateConvolutionQuantizationParams):
     effective_output_scale = static_cast<double>(input_scale) * filter_scale / static_cast<double>(output_scale)
   uint8 (legacy) and FULLY_CONNECTED (GetQuantizedConvolutionMultipler):
     input_product_scale = static_cast<double>(input->params.scale * filter->params.scale)   -- float product
     multiplier = input_product_scale / static_cast<double>(output->params.scale)
   each then through QuantizeMultiplier.  The same two expressions, so pprod selects the rule. *)
Definition tfl_conv_params (pprod : Z) (ifm w ofm : dyadic) : Z * Z :=
  tfl_quantize_multiplier (fl_div 53 (fl_mul pprod ifm w) ofm).

(* MultiplyByQuantizedMultiplier(int64_t x, ...) of the int16 kernels reduces the multiplier at run time:
     reduced_multiplier = (quantized_multiplier < 0x7FFF0000) ? ((quantized_multiplier + (1 << 15)) >> 16) : 0x7FFF
     total_shift = 15 - shift *)
Definition tfl_reduce (t : Z * Z) : Z * Z :=
  ((if fst t <? 32767 * 65536 then (fst t + 32768) / 65536 else 32767), 15 - snd t).

(* ---------------------------------------------------------------------------------------- *)
(* register_command_stream_generator.generate_scaling_for_elementwise, advanced add/sub path:   *)
(* which operand the 32-bit OPA_SCALE pair is applied to (IFM_PRECISION.scale_mode: 1 = operand A, *)
(* 2 = operand B).  advanced_elementwise_add_sub_scale(ifm, ifm2, ...) answers OPa (1) when the   *)
(* IFM scale is the smaller one, else OPb (2); operand A is the IFM2 when IFM2_BROADCAST says     *)
(* "reversed operand order", so the answer is exchanged for reversed operands.                   *)
Definition ew_scale_mode (ifm ifm2 : dyadic) (reversed : bool) : Z :=
  let op := if dy_ltb ifm ifm2 then 1 else 2 in
  if reversed then (if op =? 1 then 2 else 1) else op.

(* hardware reading (coq/hw/NpuExec.v ew_value / exec_elementwise): operand A = IFM2 when reversed else IFM;
   scale mode 1 scales operand A with the OPA pair and only shifts operand B (an exact 1/2), mode 2 the converse *)
Definition ifm_gets_opa (smode : Z) (reversed : bool) : bool :=
  if reversed then smode =? 2 else smode =? 1.

(* ---------------------------------------------------------------------------------------- *)
(* register_command_stream_generator.generate_ofm_scaling_for_pooling, branch fused_quantize (a QUANTIZE compiled *)
(* as a 1x1 average pool):  quantise_scale(np.double(ifm_scale) / np.double(ofm_scale)).  p is the precision at   *)
(* which the quotient is formed: 53 is what the code does; 24 (quotient of the float32 scales formed in float32,   *)
(* then widened) is NOT the reference.                                                                            *)
Definition fused_quantize_scale (p : Z) (ifm ofm : dyadic) : Z * Z := q_scale_dy (fl_div p ifm ofm).

(* TFLite quantize.cc Prepare (requantise):
     const double effective_output_scale = static_cast<double>(input->params.scale) / static_cast<double>(output->params.scale);
     QuantizeMultiplier(effective_output_scale, &data->output_multiplier, &data->output_shift); *)
Definition tfl_requantize_params (ifm ofm : dyadic) : Z * Z := tfl_quantize_multiplier (fl_div 53 ifm ofm).
