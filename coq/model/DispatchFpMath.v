(* Flat integer interface of the C19 models for the correspondence harness (build/fpMath).
   Scalar commands return [status; translated; reference]: status 1 = the translated Python function
   returns a value (then `translated` is it), 0 = it stops with an assertion / overflow; `reference`
   is the transcribed gemmlowp/TFLite function (total on Z through the explicit casts).
   Table commands return, for x = lo .. hi, the same triple per entry, concatenated. *)
From Coq Require Import ZArith List Bool.
From VV Require Import lib.PyInt lib.PyFloat gen.GenFpMath model.FpMath.
Import ListNotations.
Open Scope Z_scope.

Definition tri (g : option Z) (r : Z) : list Z :=
  match g with Some v => [1; v; r] | None => [0; 0; r] end.

Fixpoint zrange (lo : Z) (n : nat) : list Z :=
  match n with O => [] | S n' => lo :: zrange (lo + 1) n' end.
Definition codes (lo hi : Z) : list Z := zrange lo (Z.to_nat (hi - lo + 1)).

(* CMD srdhm32 = 1 : a b *)
(* CMD srdhm16 = 2 : a b *)
(* CMD satmul16 = 3 : a b *)
(* CMD shl32 = 4 : a offset *)
(* CMD shl16 = 5 : a offset *)
(* CMD downscale = 6 : a *)
(* CMD rdbpot = 7 : x exponent *)
(* CMD srmbpot = 8 : x exponent *)
(* CMD rescale = 9 : src dst x *)
(* CMD expint = 10 : a *)
(* CMD expneg = 11 : a *)
(* CMD mbqm = 12 : x scale shift   (Vela shift; reference gets 31 - shift) *)
(* CMD lrelu_table = 13 : zp_in zp_out id_scale id_shift alpha_scalar alpha_scale alpha_shift qmin qmax *)
(* CMD hswish_table = 14 : zp_in zp_out out_scale out_shift relu_scale relu_shift qmin qmax *)
(* CMD requant = 15 : zp_in zp_out mult shift qmin qmax v1 .. vn *)
(* CMD shl16np = 16 : a offset   (model of shift_left16 on an np.int16 operand, code as it is now; reference as shl16) *)
(* CMD prelu_table = 17 : zp_in zp_out alpha_zp alpha_code id_scale id_shift alpha_scale alpha_shift qmin qmax *)
(* CMD mulmax_table = 18 : const_first zp_in zp_out alpha_zp alpha_code id_scale id_shift qs(x,x,x) qs(x,alpha,x) qmin qmax *)
(* CMD mulmax_kind = 19 : code zp mantissa exponent  (scale = mantissa * 2^exponent) *)
Definition run (cmd : Z) (a : list Z) : list Z :=
  match cmd, a with
  | 1, [x; y] => tri (GenFpMath.saturating_rounding_mul32 x y) (SRDHM32 x y)
  | 2, [x; y] => tri (GenFpMath.saturating_rounding_mul16 x y) (SRDHM16 x y)
  | 3, [x; y] => tri (GenFpMath.saturating_mul16 x y) (SaturatingDoublingHighMul16 x y)
  | 4, [x; o] => tri (GenFpMath.shift_left32 x o) (ShiftLeft32 x o)
  | 5, [x; o] => tri (GenFpMath.shift_left16 x o) (SaturatingLeftShift16 x o)
  | 6, [x] => tri (GenFpMath.downscale_multiplier_int32_to_int16 x) (DownScaleInt32ToInt16Multiplier x)
  | 7, [x; e] => tri (GenFpMath.rounding_divide_by_pot x e) (RoundingDivideByPOT x e)
  | 8, [x; e] => tri (GenFpMath.saturating_rounding_multiply_by_pot x e) (SaturatingRoundingMultiplyByPOT e x)
  | 9, [s; d; x] => tri (GenFpMath.rescale s d x) (Rescale s d x)
  | 10, [x] => tri (GenFpMath.exp_on_interval_between_negative_one_quarter_and_0_excl x)
                   (FpMath.exp_on_interval_between_negative_one_quarter_and_0_excl x)
  | 11, [x] => tri (GenFpMath.exp_on_negative_values x) (FpMath.exp_on_negative_values x)
  | 12, [x; m; s] => tri (GenFpMath.multiply_by_quantized_multiplier x m s) (mbqm_vela x m s)
  | 13, [zi; zo; ids; idsh; asc; als; alsh; qmin; qmax] =>
      flat_map (fun x => tri (vela_lrelu_entry zi zo ids idsh asc als alsh qmin qmax x)
                             (LeakyReluRef zi zo ids (31 - idsh) als (31 - alsh) qmin qmax x))
               (codes qmin qmax)
  | 14, [zi; zo; os; osh; rs; rsh; qmin; qmax] =>
      flat_map (fun x => tri (vela_hardswish_entry zi zo os osh rs rsh qmin qmax x)
                             (HardSwishRef zi zo (DownScaleInt32ToInt16Multiplier rs) (31 - rsh)
                                           (DownScaleInt32ToInt16Multiplier os) (31 - osh) qmin qmax x))
               (codes qmin qmax)
  | 15, zi :: zo :: m :: s :: qmin :: qmax :: vs =>
      flat_map (fun v => tri (vela_requant_entry zi zo m s qmin qmax v)
                             (RequantizeRef zi zo m (31 - s) qmin qmax v)) vs
  | 17, [zi; zo; azp; acode; ids; idsh; als; alsh; qmin; qmax] =>
      flat_map (fun x => tri (vela_prelu_entry zi zo azp acode ids idsh als alsh qmin qmax x)
                             (PReluRef zi zo azp acode ids (31 - idsh) als (31 - alsh) qmin qmax x))
               (codes qmin qmax)
  | 18, [cfirst; zi; zo; azp; acode; ids; idsh; a11; s11; a12; s12; qmin; qmax] =>
      (* scale tokens: 1 = feature map / Mul output / output, 2 = the constant *)
      let qs := fun (a b c : Z) => if b =? 2 then (a12, s12) else (a11, s11) in
      let fm := {| q_scale := 1; q_zp := zi; q_code := 0 |} in
      let ct := {| q_scale := 2; q_zp := azp; q_code := acode |} in
      let in1 := if cfirst =? 1 then ct else fm in
      let in2 := if cfirst =? 1 then fm else ct in
      flat_map (fun x => tri (vela_mulmax_entry qs fm in1 in2 fm (negb (cfirst =? 1)) zo ids idsh qmin qmax x)
                             (PReluRef zi zo azp acode ids (31 - idsh) a12 (31 - s12) qmin qmax x))
               (codes qmin qmax)
  | 19, [code; zp; m; e] => [1; mulmax_kind code zp (Dy m e); 0]
  | 16, [x; o] => tri (np_shift_left16_int16 x o) (SaturatingLeftShift16 x o)
  | _, _ => [-1]
  end.
