(* C01, graph rewrites that replace a group of source operators by one NPU operator.
   1. replace_dilated_convolution (tflite_graph_optimiser.py): SPACE_TO_BATCH_ND -> VALID convolution -> BATCH_TO_SPACE_ND
      becomes one dilated convolution.  The model is one spatial axis (the two axes are independent and the channel sum
      is untouched): a signal is a function Z -> Z of values already reduced by the zero point (padding = 0).
   2. the decision taken by the rewrite (reject / SAME / VALID), hand model of the code, tied by correspondence
      (tools/checks/c01.py runs the real function on operator triples built with Vela's own classes).
   No proofs in this file. *)
From Coq Require Import ZArith List Bool.
Import ListNotations.
Open Scope Z_scope.

Definition zsum (l : list Z) : Z := fold_right Z.add 0 l.

(* taps 0 .. k-1 of a filter w applied to f at position q with step s between taps *)
Definition taps (k : nat) (w : nat -> Z) (f : Z -> Z) (q s : Z) : Z :=
  zsum (map (fun j => w j * f (q + Z.of_nat j * s)) (seq 0 k)).

(* the source operators *)
Definition pad_signal (n lead : Z) (x : Z -> Z) (u : Z) : Z :=        (* n samples, `lead` zeros in front, zeros behind *)
  if (0 <=? u - lead) && (u - lead <? n) then x (u - lead) else 0.
Definition space_to_batch (d : Z) (x : Z -> Z) (p q : Z) : Z := x (q * d + p).     (* phase p, position q *)
Definition conv_valid (k : nat) (w : nat -> Z) (f : Z -> Z) (q : Z) : Z := taps k w f q 1.
Definition batch_to_space (d : Z) (g : Z -> Z -> Z) (i : Z) : Z := g (i mod d) (i / d).

(* output sample y of the chain: paddings (pt, _) in front of the n input samples, crop ct in front of the result *)
Definition chain (d : Z) (k : nat) (w : nat -> Z) (n pt ct : Z) (x : Z -> Z) (y : Z) : Z :=
  batch_to_space d (fun p => conv_valid k w (space_to_batch d (pad_signal n pt x) p)) (y + ct).

(* the target operator: correlation with dilation d and `top` zeros in front of the n input samples *)
Definition dilated_conv (d : Z) (k : nat) (w : nat -> Z) (n top : Z) (x : Z -> Z) (y : Z) : Z :=
  taps k w (pad_signal n top x) y d.

(* ---------- the decision of the rewrite ---------- *)
(* per axis: i input extent, o output extent, k kernel extent, d block, pt leading padding, ct leading crop *)
Inductive axis_mode := AReject | AFree | ASame | AValid.
Definition axis_decision (i o k d pt ct : Z) : axis_mode :=
  let span := (k - 1) * d in
  let lead := pt - ct in
  let same := (o =? i) && (lead =? span / 2) in
  let valid := (o =? i - span) && (lead =? 0) in
  if negb (same || valid) then AReject
  else if span =? 0 then AFree
  else if same then ASame else AValid.

(* 0 = leave the operators alone, 1 = SAME, 2 = VALID *)
Definition dilated_decision (ih iw oh ow kh kw bh bw pt pl ct cl : Z) : Z :=
  match axis_decision ih oh kh bh pt ct, axis_decision iw ow kw bw pl cl with
  | AReject, _ | _, AReject => 0
  | AFree, AFree => 2
  | AFree, ASame | ASame, AFree | ASame, ASame => 1
  | AFree, AValid | AValid, AFree | AValid, AValid => 2
  | ASame, AValid | AValid, ASame => 0
  end.

(* leading padding Vela gives a stride-1 convolution with dilated kernel extent span + 1 over n samples
   (needed_total_padding / calc_padding_and_skirt): SAME pads span in total, the smaller half in front *)
Definition vela_lead_pad (mode span : Z) : Z := if mode =? 1 then span / 2 else 0.

(* ---------- fixup_dilation_gt2: a dilation the hardware does not have, realised by a wider kernel ---------- *)
(* the hardware dilates by 1 or 2; for a dilation d > 2 Vela keeps hw = 1 (d odd) or 2 (d even) and spreads the k
   filter taps over (k - 1) * r + 1 positions, r = d / hw, filling the positions in between with the weights' zero point *)
Definition hw_dilation (d : Z) : Z := if Z.odd d then 1 else 2.
Definition kernel_spread (d : Z) : Z := d / hw_dilation d.
Definition widened_len (k r : nat) : nat := ((k - 1) * r + 1)%nat.
Definition widened (r : nat) (w : nat -> Z) (fill : Z) (j : nat) : Z :=
  if (j mod r =? 0)%nat then w (j / r)%nat else fill.
(* one axis of the new kernel as a list (what the code writes into the weight tensor) *)
Definition widened_list (k r : nat) (w : list Z) (fill : Z) : list Z :=
  map (widened r (fun j => nth j w 0) fill) (seq 0 (widened_len k r)).

(* both axes of one (input channel, output channel) plane of the kernel *)
Definition widened2 (kh kw rh rw : nat) (w : list (list Z)) (fill : Z) : list (list Z) :=
  map (fun h' => map (fun w' => if ((h' mod rh =? 0) && (w' mod rw =? 0))%nat
                                then nth (w' / rw)%nat (nth (h' / rh)%nat w []) 0 else fill)
                     (seq 0 (widened_len kw rw)))
      (seq 0 (widened_len kh rh)).

(* ---------- split_pad_to_sub_pad: one PAD as two ---------- *)
(* a tensor of any rank is a function of its index list; values are taken minus the zero point, so padding is 0.
   box lo n i: on every axis lo <= i < lo + n *)
Fixpoint in_box (lo n i : list Z) : bool :=
  match lo, n, i with
  | l :: lo', m :: n', j :: i' => (l <=? j) && (j <? l + m) && in_box lo' n' i'
  | [], [], [] => true
  | _, _, _ => false
  end.
Fixpoint zsub (a b : list Z) : list Z :=
  match a, b with x :: a', y :: b' => (x - y) :: zsub a' b' | _, _ => [] end.
Fixpoint zadd (a b : list Z) : list Z :=
  match a, b with x :: a', y :: b' => (x + y) :: zadd a' b' | _, _ => [] end.
(* PAD with `lo` elements in front on every axis of a tensor of extents n (what comes behind follows from the
   output shape and does not enter the value) *)
Definition pad_nd (lo n : list Z) (x : list Z -> Z) (i : list Z) : Z :=
  if in_box lo n i then x (zsub i lo) else 0.

(* the split: rows of the paddings matrix are (front, back) per axis; the operation keeps row `axis` (0 = batch when it
   pads the batch, else the last = channels), a new PAD in front of it gets every other row.
   Result: 0 = not split; otherwise 1, the axis, the kept matrix and the moved matrix *)
Definition row_sum (r : Z * Z) : Z := fst r + snd r.
Definition nonzero_rows (m : list (Z * Z)) : bool := negb (forallb (fun r => row_sum r =? 0) m).
Definition keep_row (axis : nat) (m : list (Z * Z)) : list (Z * Z) :=
  map (fun p => if Nat.eqb (fst p) axis then snd p else (0, 0)) (combine (seq 0 (length m)) m).
Definition drop_row (axis : nat) (m : list (Z * Z)) : list (Z * Z) :=
  map (fun p => if Nat.eqb (fst p) axis then (0, 0) else snd p) (combine (seq 0 (length m)) m).
Definition pad_split (m : list (Z * Z)) : option (nat * list (Z * Z) * list (Z * Z)) :=
  match m with
  | [b; h; w; c] =>
      let has_b := negb (row_sum b =? 0) in
      let has_c := negb (row_sum c =? 0) in
      let has_s := nonzero_rows [h; w] in
      let kinds := (if has_b then 1 else 0) + (if has_c then 1 else 0) + (if has_s then 1 else 0) in
      if negb (has_b || has_c) || (kinds <? 2) then None
      else let axis := if has_b then 0%nat else 3%nat in Some (axis, keep_row axis m, drop_row axis m)
  | _ => None
  end.

(* ---------- convert_avg_pool_to_conv2d: an average pool with stride >= 4 as a convolution ---------- *)
(* the kernel the code writes is [h, w, depth, depth] with ones where input channel = output channel: every output
   channel sums its own input channel over the window; the division by h * w is the weights' scale 1 / (h * w) *)
Definition diag_weight (ci co : nat) : Z := if Nat.eqb ci co then 1 else 0.
Definition channel_mix (depth : nat) (wt : nat -> nat -> Z) (f : nat -> Z) (co : nat) : Z :=
  zsum (map (fun ci => wt ci co * f ci) (seq 0 depth)).
Definition diag_plane (depth : nat) : list (list Z) :=
  map (fun ci => map (fun co => diag_weight ci co) (seq 0 depth)) (seq 0 depth).

(* ---------- convert_conv_groups: a grouped convolution as split / convolutions / concatenation ---------- *)
(* one window position: x is the window content per input channel (already summed over the window taps is not needed -
   the identity holds tap by tap), w co ci the weight of output channel co for the ci-th channel OF ITS GROUP *)
Definition grouped_mix (icg ocg : nat) (w : nat -> nat -> Z) (x : nat -> Z) (co : nat) : Z :=
  zsum (map (fun ci => w co ci * x ((co / ocg) * icg + ci)%nat) (seq 0 icg)).
(* what the rewrite builds: SPLIT of the input channels, one ordinary convolution per group on its slice of the filters,
   CONCATENATION of the results *)
Definition split_part (icg g : nat) (x : nat -> Z) (ci : nat) : Z := x (g * icg + ci)%nat.
Definition group_conv (icg ocg g : nat) (w : nat -> nat -> Z) (x : nat -> Z) (co' : nat) : Z :=
  zsum (map (fun ci => w (g * ocg + co')%nat ci * split_part icg g x ci) (seq 0 icg)).
Definition concat_groups (ocg : nat) (parts : nat -> nat -> Z) (co : nat) : Z := parts (co / ocg)%nat (co mod ocg)%nat.
(* the slices per group: (first input channel, one past the last, first filter, one past the last) *)
Definition group_slices (groups ic oc : nat) : list (Z * Z * Z * Z) :=
  map (fun g => (Z.of_nat (g * (ic / groups)), Z.of_nat ((g + 1) * (ic / groups)),
                 Z.of_nat (g * (oc / groups)), Z.of_nat ((g + 1) * (oc / groups)))) (seq 0 groups).

(* ---------- fixup_strided_conv: a stride the hardware does not have, realised by folding the width into the depth ---------- *)
(* one row; x p c = value (minus zero point, 0 outside the map) at width position p (any integer) and channel c;
   wp k c = weight (minus zero point) of tap k of the kernel AFTER it was padded to a multiple of the fold factor n.
   original operator: taps kq * n, stride n * s, `off` zeros in front *)
Definition dsum (a b : nat) (f : nat -> nat -> Z) : Z :=
  zsum (map (fun i => zsum (map (fun j => f i j) (seq 0 b))) (seq 0 a)).
Definition strided_conv (kq n c : nat) (wp : nat -> nat -> Z) (x : Z -> nat -> Z) (s off o : Z) : Z :=
  dsum (kq * n) c (fun k ch => wp k ch * x (o * (Z.of_nat n * s) - off + Z.of_nat k) ch).
(* the rewritten operator: n neighbouring positions become n * c channels (position p, channel j * c + ch holds
   x (p * n + j) ch), the kernel is folded the same way, stride s, `offq` folded positions of zeros in front *)
Definition fold_x (n c : nat) (x : Z -> nat -> Z) (p : Z) (d : nat) : Z := x (p * Z.of_nat n + Z.of_nat (d / c)) (d mod c)%nat.
Definition fold_w (n c : nat) (wp : nat -> nat -> Z) (q d : nat) : Z := wp (q * n + d / c)%nat (d mod c)%nat.
Definition folded_conv (kq n c : nat) (wp : nat -> nat -> Z) (x : Z -> nat -> Z) (s offq o : Z) : Z :=
  dsum kq (n * c) (fun q d => fold_w n c wp q d * fold_x n c x (o * s - offq + Z.of_nat q) d).
(* the padded kernel: l zeros, the kw taps of w, zeros *)
Definition pad_kernel (l kw : nat) (w : nat -> nat -> Z) (k ch : nat) : Z :=
  if ((l <=? k) && (k <? l + kw))%nat then w (k - l)%nat ch else 0.
(* what the check validates on the implementation's result (all in original width units unless said otherwise):
   stride = n * s, width divisible by n, padded kernel width divisible by n, and the zeros in front agree:
   new hardware padding (folded positions) * n = old hardware padding + zeros added in front of the kernel *)
Definition fold_conditions (stride n s width kw l r pad_old pad_new_folded : Z) : bool :=
  (0 <? n) && (stride =? n * s) && (width mod n =? 0) && ((kw + l + r) mod n =? 0) && (pad_new_folded * n =? pad_old + l).
(* Vela's SAME padding of a convolution (graph_optimiser_util.needed_total_padding, as written) and the reference's *)
Definition needed_total_padding (input stride kernel : Z) : Z :=
  if input mod stride =? 0 then Z.max (kernel - stride) 0 else Z.max (kernel - input mod stride) 0.
Definition tflite_total_padding (input stride kernel : Z) : Z :=
  let out := (input + stride - 1) / stride in Z.max ((out - 1) * stride + kernel - input) 0.
Definition same_lead_pad (input stride kernel : Z) : Z := needed_total_padding input stride kernel / 2.

(* ---------- convert_prelu: which operators a PRELU with constant slopes becomes ---------- *)
(* slopes are (code - zp) * sn / sd with sn, sd > 0 (the float32 scale as an exact fraction).
   0 = RELU (all slopes 0), 1 = LEAKY_RELU (one slope), 2 = MAXIMUM (x, slope * x) (every slope below 1),
   3 = RELU (x) + slope * MINIMUM (x, 0) *)
Definition zmin_list (l : list Z) : Z := fold_right Z.min (hd 0 l) l.
Definition zmax_list (l : list Z) : Z := fold_right Z.max (hd 0 l) l.
Definition prelu_kind (codes : list Z) (zp sn sd : Z) : Z :=
  let lo := zmin_list codes - zp in
  let hi := zmax_list codes - zp in
  if lo =? hi then (if lo =? 0 then 0 else 1)
  else if hi * sn <? sd then 2 else 3.
(* PRELU on values scaled by the common denominator d > 0 of the slope a / d *)
Definition prelu_val (a d x : Z) : Z := if 0 <=? x then d * x else a * x.

(* ---------- rewrite_concat_ops / rewrite_split_ops: parts of a tensor along one axis ---------- *)
(* part i occupies [offset i, offset i + extent i) of the axis, offsets being the running sum of the extents *)
Fixpoint offsets_from (start : Z) (es : list Z) : list Z :=
  match es with [] => [] | e :: t => start :: offsets_from (start + e) t end.
Fixpoint find_slice (start : Z) (es : list Z) (k : Z) (i : nat) : option nat :=
  match es with
  | [] => None
  | e :: t => if (start <=? k) && (k <? start + e) then Some i else find_slice (start + e) t k (S i)
  end.

(* ---------- transposed convolution as a convolution over the zero-inserted input ---------- *)
(* one axis. Reference (TFLite transpose_conv): input sample i and tap k contribute in i * w k to output i * s - pt + k.
   `ind c v` = v if c else 0 *)
Definition ind (c : bool) (v : Z) : Z := if c then v else 0.
Definition tconv_ref (n K : nat) (s pt : Z) (x : nat -> Z) (w : nat -> Z) (o : Z) : Z :=
  zsum (map (fun k => zsum (map (fun i => ind (Z.of_nat i * s - pt + Z.of_nat k =? o) (x i * w k)) (seq 0 n))) (seq 0 K)).
(* the hardware's view: zeros inserted between the samples (and behind the last one), zeros outside *)
Definition upsampled (n : nat) (s : Z) (x : nat -> Z) (j : Z) : Z :=
  if (0 <=? j) && (j <? Z.of_nat n * s) && (j mod s =? 0) then x (Z.to_nat (j / s)) else 0.
(* convolution with stride 1, the flipped kernel and t zeros in front *)
Definition tconv_hw (n K : nat) (s t : Z) (x : nat -> Z) (w : nat -> Z) (o : Z) : Z :=
  zsum (map (fun k' => w (K - 1 - k')%nat * upsampled n s x (o - t + Z.of_nat k')) (seq 0 K)).
(* the reference's leading padding for `on` output samples, and what the check validates on Vela's (top, bottom) *)
Definition tconv_ref_pad (n K s on : Z) : Z := Z.max ((n - 1) * s + K - on) 0 / 2.
Definition tconv_pad_ok (n K s on top bottom : Z) : bool :=
  (top =? K - 1 - tconv_ref_pad n K s on) && (Z.max (on - n * s - top + K - 1) 0 <=? bottom).

(* ---------- calc_padding_and_skirt: the hardware padding of convolutions and pools ---------- *)
(* per axis: (in front, behind) for SAME (1) / VALID (0); the kernel extent is the dilated one *)
Definition dilated_extent (k d : Z) : Z := (k - 1) * d + 1.
Definition conv_pads (same input stride k d : Z) : Z * Z :=
  if same =? 1 then let t := needed_total_padding input stride (dilated_extent k d) in ((t + 0) / 2, (t + 1) / 2) else (0, 0).
