(* Flat integer interface of the executable models for the correspondence harness:
   run cmd args = result, all lists of Z.  Status convention: results of partial functions
   start with 1 (Some) or 0 (None / error).  The command numbers are read by tools/models.py
   from the CMD comments below. *)
From Coq Require Import ZArith List Bool.
From VV Require Import lib.PyInt lib.PyFloat gen.GenTables model.Driver hw.Npu hw.Defuse hw.Inference model.Arena model.Preserve model.Rewrites.
Import ListNotations.
Open Scope Z_scope.

Definition opt_list (o : option (list Z)) : list Z :=
  match o with Some l => 1 :: l | None => [0] end.

(* CMD driver_payload = 1 : cfg idw w1 .. wn -> status bytes *)
Definition run_driver_payload (a : list Z) : list Z :=
  match a with
  | cfg :: idw :: ws => opt_list (payload_bytes cfg idw ws)
  | _ => [0]
  end.

(* CMD driver_parse = 2 : bytes -> status cfg id nops cmd_word_index declared_len cmds *)
Definition run_driver_parse (a : list Z) : list Z :=
  match parse_bytes a with
  | Some p => 1 :: p_cfg p :: p_id p :: p_nops p :: p_cmd_word_index p :: p_declared_len p :: p_cmds p
  | None => [0]
  end.

(* flat list helpers *)
Fixpoint take_pairs (n : nat) (a : list Z) : list (Z * Z) * list Z :=
  match n, a with
  | S n', x :: y :: t => let '(ps, r) := take_pairs n' t in ((x, y) :: ps, r)
  | _, _ => ([], a)
  end.
Fixpoint take_n (n : nat) (a : list Z) : list Z * list Z :=
  match n, a with
  | S n', x :: t => let '(xs, r) := take_n n' t in (x :: xs, r)
  | _, _ => ([], a)
  end.

(* CMD check_bounds = 3 : ncores lut_addr shram_size nsz (rg sz)* nro ro* words -> [decoded?; ok?; first bad op index; n ops] *)
Definition run_check_bounds (a : list Z) : list Z :=
  match a with
  | nc :: la :: ss :: nsz :: t =>
      let '(sizes, t1) := take_pairs (Z.to_nat nsz) t in
      match t1 with
      | nro :: t2 =>
          let '(ro, ws) := take_n (Z.to_nat nro) t2 in
          let hw := {| hw_ncores := nc; hw_lut_addr := la; hw_shram_size := ss |} in
          match run_stream ws with
          | Some evs =>
              [1; (if check_bounds hw sizes ro evs then 1 else 0); first_bad_op hw sizes ro evs 0;
               Z.of_nat (List.length (filter (fun e => match e with EOp _ _ _ => true | _ => false end) evs))]
          | None => [0]
          end
      | [] => [-1]
      end
  | _ => [-1]
  end.

Fixpoint flat_regs (r : regs) : list Z :=
  match r with [] => [] | (k, v) :: t => k :: v :: flat_regs t end.
Fixpoint flat_events (evs : list event) : list Z :=
  match evs with
  | [] => []
  | EOp c p r :: t => 1 :: c :: p :: Z.of_nat (List.length r) :: flat_regs r ++ flat_events t
  | EWait c p :: t => 2 :: c :: p :: flat_events t
  | EStop p :: t => 3 :: p :: flat_events t
  | EOther c p :: t => 4 :: c :: p :: flat_events t
  end.

(* CMD decode_stream = 4 : words -> 1 events... | 0 *)
Definition run_decode_stream (a : list Z) : list Z :=
  match run_stream a with Some evs => 1 :: flat_events evs | None => [0] end.

Fixpoint flat_segs (l : list seg) : list Z :=
  match l with [] => [] | (rg, lo, hi) :: t => rg :: lo :: hi :: flat_segs t end.

(* CMD footprints = 5 : ncores lut_addr shram_size words -> per op: code param nreads (rg lo hi)* nwrites (rg lo hi)* *)
Fixpoint flat_fps (hw : hwcfg) (evs : list event) : list Z :=
  match evs with
  | [] => []
  | EOp c p r :: t =>
      let fp := op_footprint hw c p r in
      c :: p :: Z.of_nat (List.length (fp_reads fp)) :: flat_segs (fp_reads fp) ++
      Z.of_nat (List.length (fp_writes fp)) :: flat_segs (fp_writes fp) ++ flat_fps hw t
  | _ :: t => flat_fps hw t
  end.
Definition run_footprints (a : list Z) : list Z :=
  match a with
  | nc :: la :: ss :: ws =>
      match run_stream ws with
      | Some evs => 1 :: flat_fps {| hw_ncores := nc; hw_lut_addr := la; hw_shram_size := ss |} evs
      | None => [0] end
  | _ => [-1]
  end.

(* ---- C03 ---- *)
Fixpoint take_init (n : nat) (a : list Z) : list tseg * list Z :=
  match n, a with
  | S n', rg :: lo :: hi :: id :: dl :: t => let '(l, r) := take_init n' t in ((rg, lo, hi, Tag id dl) :: l, r)
  | _, _ => ([], a)
  end.
Definition mk_opid (l : list Z) : option opid :=
  match l with
  | [a1;a2;a3;a4; b1;b2;b3;b4; c1;c2;c3;c4; w0i;w0o; s0i;s0o; w1i;w1o; s1i;s1o; li;lo; di;dof; k1; k2] =>
      Some {| o_ifm := {| i_id := a1; i_y0 := a2; i_x0 := a3; i_c0 := a4 |};
              o_ifm2 := {| i_id := b1; i_y0 := b2; i_x0 := b3; i_c0 := b4 |};
              o_ofm := {| i_id := c1; i_y0 := c2; i_x0 := c3; i_c0 := c4 |};
              o_w0 := {| g_id := w0i; g_off := w0o |}; o_s0 := {| g_id := s0i; g_off := s0o |};
              o_w1 := {| g_id := w1i; g_off := w1o |}; o_s1 := {| g_id := s1i; g_off := s1o |};
              o_lut := {| g_id := li; g_off := lo |}; o_dma := {| g_id := di; g_off := dof |};
              o_ifm_const := negb (k1 =? 0); o_ifm2_const := negb (k2 =? 0) |}
  | _ => None
  end.
Fixpoint take_opids (n : nat) (a : list Z) : option (list opid) * list Z :=
  match n with
  | O => (Some [], a)
  | S n' =>
      let '(h, t) := take_n 26 a in
      match mk_opid h with
      | Some o => let '(r, rest) := take_opids n' t in
                  (match r with Some l => Some (o :: l) | None => None end, rest)
      | None => (None, a)
      end
  end.

Definition tseg_flat (s : tseg) : list Z :=
  let '(rg, lo, hi, t) := s in [rg; lo; hi; t_id t; t_delta t].
Fixpoint first_bad_read (h : hist) (rs : list tseg) : list Z :=
  match rs with
  | [] => []
  | s :: t => if read_ok h s then first_bad_read h t else tseg_flat s
  end.
(* first byte of a demanded range that does not resolve to the demanded tag, and what is there *)
Fixpoint find_bad_byte (h : hist) (rg lo : Z) (n : nat) (t : tag) : list Z :=
  match n with
  | O => []
  | S n' => match lookup h rg lo with
            | Some t' => if tag_eqb t' t then find_bad_byte h rg (lo + 1) n' t else [lo; 1; t_id t'; t_delta t']
            | None => [lo; 0; 0; 0]
            end
  end.
Fixpoint explain (h : hist) (ops : list (list tseg * list tseg)) : list Z :=
  match ops with
  | [] => []
  | (rs, ws) :: t =>
      match step h rs ws with
      | Some h' => explain h' t
      | None => match first_bad_read h rs with
                | [rg; lo; hi; id; dl] => [rg; lo; hi; id; dl] ++ find_bad_byte h rg lo (Z.to_nat (Z.min 65536 (hi - lo))) (Tag id dl)
                | l => l end
      end
  end.

(* CMD check_defuse = 6 : ncores lut_addr shram_size ninit (rg lo hi id delta)* nops (26 numbers)* words
   -> [1; ok; first bad op index; demanded rg lo hi id delta; first bad address; defined?; found id; found delta] | [0] *)
Definition run_check_defuse (a : list Z) : list Z :=
  match a with
  | nc :: la :: ss :: ninit :: t =>
      let '(init, t1) := take_init (Z.to_nat ninit) t in
      match t1 with
      | nops :: t2 =>
          match take_opids (Z.to_nat nops) t2 with
          | (Some ids, ws) =>
              let hw := {| hw_ncores := nc; hw_lut_addr := la; hw_shram_size := ss |} in
              match run_stream ws with
              | Some evs =>
                  if check_defuse hw init evs ids then [1; 1; -1]
                  else 1 :: 0 :: defuse_first_bad hw init evs ids ::
                       (match stream_tagged hw evs ids with
                        | Some ops => explain (fold_left hwrite init []) ops | None => [] end)
              | None => [0]
              end
          | (None, _) => [-1]
          end
      | [] => [-1]
      end
  | _ => [-1]
  end.

(* ---- C03, whole inference ---- *)
Fixpoint take_tsegs (n : nat) (a : list Z) : list tseg * list Z :=      (* (lo hi id)*: arena ranges, delta = lo *)
  match n, a with
  | S n', lo :: hi :: id :: t => let '(l, r) := take_tsegs n' t in ((ARENA, lo, hi, Tag id lo) :: l, r)
  | _, _ => ([], a)
  end.
(* operators: 0 nr (lo hi id)* nw (lo hi id)*   |   1 b1 b2 nr (lo hi id)* nw (lo hi id)* nwords words *)
Fixpoint take_tops (n : nat) (a : list Z) : option (list top) :=
  match n with
  | O => match a with [] => Some [] | _ => None end
  | S n' =>
      match a with
      | 0 :: nr :: t =>
          let '(rs, t1) := take_tsegs (Z.to_nat nr) t in
          match t1 with
          | nw :: t2 => let '(ws, t3) := take_tsegs (Z.to_nat nw) t2 in
                        match take_tops n' t3 with Some l => Some (TCpu rs ws :: l) | None => None end
          | [] => None
          end
      | 1 :: b1 :: b2 :: nr :: t =>
          let '(rs, t1) := take_tsegs (Z.to_nat nr) t in
          match t1 with
          | nw :: t2 =>
              let '(ws, t3) := take_tsegs (Z.to_nat nw) t2 in
              match t3 with
              | nwords :: t4 =>
                  let '(words, t5) := take_n (Z.to_nat nwords) t4 in
                  match run_stream words with
                  | Some evs => match take_tops n' t5 with Some l => Some (TNpu b1 b2 rs ws evs :: l) | None => None end
                  | None => None
                  end
              | [] => None
              end
          | [] => None
          end
      | _ => None
      end
  end.

(* CMD check_inference = 9 : ncores lut_addr shram_size ninit (lo hi id)* nops operators
   -> [1; ok; first bad operator index (-2: an output not written, then the operator index follows); demanded ...] | [0] *)
Definition run_check_inference (a : list Z) : list Z :=
  match a with
  | nc :: la :: ss :: ninit :: t =>
      let '(init, t1) := take_tsegs (Z.to_nat ninit) t in
      match t1 with
      | nops :: t2 =>
          match take_tops (Z.to_nat nops) t2 with
          | Some l =>
              let hw := {| hw_ncores := nc; hw_lut_addr := la; hw_shram_size := ss |} in
              if check_inference hw init l then [1; 1; -1]
              else 1 :: 0 :: inference_first_bad hw init l ::
                   (match top_ops hw 0 l with
                    | Some ops => explain (fold_left hwrite init []) ops
                    | None => [first_unwritten hw 0 l] end)
          | None => [0]
          end
      | [] => [-1]
      end
  | _ => [-1]
  end.

(* ---- C12 ---- *)
Fixpoint take_atens (n : nat) (a : list Z) : list atens * list Z :=
  match n, a with
  | S n', o :: sz :: f :: l :: t => let '(r, rest) := take_atens n' t in
                                    ({| a_off := o; a_size := sz; a_first := f; a_last := l |} :: r, rest)
  | _, _ => ([], a)
  end.
(* CMD check_arena = 7 : align has_scratch s_off s_size reported n (off size first last)* nfp e* ntouched (off size first last)*
   -> [ok] *)
Definition run_check_arena (a : list Z) : list Z :=
  match a with
  | align :: hs :: soff :: ssz :: rep :: n :: t =>
      let '(l, t1) := take_atens (Z.to_nat n) t in
      match t1 with
      | nfp :: t2 =>
          let '(fps, t3) := take_n (Z.to_nat nfp) t2 in
          match t3 with
          | nt :: t4 =>
              let '(touched, _) := take_atens (Z.to_nat nt) t4 in
              [if check_arena align l (negb (hs =? 0)) soff ssz fps touched rep then 1 else 0]
          | [] => [-1]
          end
      | [] => [-1]
      end
  | _ => [-1]
  end.

(* ---- C11 ---- *)
Fixpoint take_tsums (n : nat) (a : list Z) : list tsum * list Z :=
  match n, a with
  | S n', sg :: d :: t => let '(r, rest) := take_tsums n' t in ({| ts_sig := sg; ts_data := d |} :: r, rest)
  | _, _ => ([], a)
  end.
Fixpoint take_osums (n : nat) (a : list Z) : list osum * list Z :=
  match n, a with
  | S n', sg :: npu :: ni :: t =>
      let '(ins, t1) := take_n (Z.to_nat ni) t in
      match t1 with
      | no :: t2 => let '(outs, t3) := take_n (Z.to_nat no) t2 in
                    let '(r, rest) := take_osums n' t3 in
                    ({| os_sig := sg; os_in := ins; os_out := outs; os_npu := negb (npu =? 0) |} :: r, rest)
      | [] => ([], a)
      end
  | _, _ => ([], a)
  end.
Definition take_gsum (a : list Z) : gsum * list Z :=
  match a with
  | nt :: t =>
      let '(ts, t1) := take_tsums (Z.to_nat nt) t in
      match t1 with
      | nops :: t2 =>
          let '(ops, t3) := take_osums (Z.to_nat nops) t2 in
          match t3 with
          | ni :: t4 => let '(gi, t5) := take_n (Z.to_nat ni) t4 in
                        match t5 with
                        | no :: t6 => let '(go, t7) := take_n (Z.to_nat no) t6 in
                                      ({| g_tens := ts; g_ops := ops; g_in := gi; g_out := go |}, t7)
                        | [] => ({| g_tens := ts; g_ops := ops; g_in := gi; g_out := [] |}, [])
                        end
          | [] => ({| g_tens := ts; g_ops := ops; g_in := []; g_out := [] |}, [])
          end
      | [] => ({| g_tens := ts; g_ops := []; g_in := []; g_out := [] |}, [])
      end
  | [] => ({| g_tens := []; g_ops := []; g_in := []; g_out := [] |}, [])
  end.
(* CMD check_preserved = 8 : src-graph out-graph npsi (t u)* nphi (i j)* -> [ok] *)
Definition run_check_preserved (a : list Z) : list Z :=
  let '(src, t1) := take_gsum a in
  let '(out, t2) := take_gsum t1 in
  match t2 with
  | npsi :: t3 =>
      let '(psi, t4) := take_pairs (Z.to_nat npsi) t3 in
      match t4 with
      | nphi :: t5 => let '(phi, _) := take_pairs (Z.to_nat nphi) t5 in
                      [if check_preserved src out psi phi then 1 else 0]
      | [] => [-1]
      end
  | [] => [-1]
  end.

(* CMD dilated_decision = 10 : ih iw oh ow kh kw bh bw pt pl ct cl -> [0 leave | 1 SAME | 2 VALID] *)
Definition run_dilated_decision (a : list Z) : list Z :=
  match a with
  | [ih; iw; oh; ow; kh; kw; bh; bw; pt; pl; ct; cl] => [dilated_decision ih iw oh ow kh kw bh bw pt pl ct cl]
  | _ => [-1]
  end.

(* CMD widen_kernel = 11 : kh kw dh dw fill w[kh*kw] (row major) -> [hwdil_h hwdil_w newh neww values...] *)
Fixpoint take_rows (n : nat) (m : nat) (a : list Z) : list (list Z) :=
  match n with
  | O => []
  | S n' => firstn m a :: take_rows n' m (skipn m a)
  end.
Definition run_widen_kernel (a : list Z) : list Z :=
  match a with
  | kh :: kw :: dh :: dw :: fill :: ws =>
      let rh := Z.to_nat (kernel_spread dh) in
      let rw := Z.to_nat (kernel_spread dw) in
      let khn := Z.to_nat kh in
      let kwn := Z.to_nat kw in
      let m := widened2 khn kwn rh rw (take_rows khn kwn ws) fill in
      [hw_dilation dh; hw_dilation dw; Z.of_nat (widened_len khn rh); Z.of_nat (widened_len kwn rw)] ++ concat m
  | _ => [-1]
  end.

(* CMD pad_split = 12 : b0 b1 h0 h1 w0 w1 c0 c1 -> [0] | [1 axis kept(8) moved(8)] *)
Definition flat_rows (m : list (Z * Z)) : list Z := flat_map (fun r => [fst r; snd r]) m.
Definition run_pad_split (a : list Z) : list Z :=
  match a with
  | [b0; b1; h0; h1; w0; w1; c0; c1] =>
      match pad_split [(b0, b1); (h0, h1); (w0, w1); (c0, c1)] with
      | Some (axis, kept, moved) => [1; Z.of_nat axis] ++ flat_rows kept ++ flat_rows moved
      | None => [0]
      end
  | _ => [-1]
  end.

(* CMD diag_plane = 13 : depth -> the depth x depth plane (row = input channel), row major *)
Definition run_diag_plane (a : list Z) : list Z :=
  match a with
  | [d] => concat (diag_plane (Z.to_nat d))
  | _ => [-1]
  end.

(* CMD group_slices = 14 : groups ic oc -> per group ic_lo ic_hi oc_lo oc_hi *)
Definition run_group_slices (a : list Z) : list Z :=
  match a with
  | [g; ic; oc] => flat_map (fun q => let '(a1, a2, a3, a4) := q in [a1; a2; a3; a4])
                            (group_slices (Z.to_nat g) (Z.to_nat ic) (Z.to_nat oc))
  | _ => [-1]
  end.

(* CMD fold_check = 15 : same(1/0) width stride kw n s l r -> [ok pad_old pad_new] : the hardware paddings are Vela's own
   SAME computation before and after the fold (0 for VALID) *)
Definition run_fold_check (a : list Z) : list Z :=
  match a with
  | [same; width; stride; kw; n; s; l; r] =>
      if n <=? 0 then [0; 0; 0] else
      let pad_old := if same =? 1 then same_lead_pad width stride kw else 0 in
      let pad_new := if same =? 1 then same_lead_pad (width / n) s ((kw + l + r) / n) else 0 in
      [if fold_conditions stride n s width kw l r pad_old pad_new then 1 else 0; pad_old; pad_new]
  | _ => [-1]
  end.

(* CMD prelu_kind = 16 : zp sn sd codes... -> [0 RELU | 1 LEAKY_RELU | 2 MAXIMUM | 3 RELU + MINIMUM] *)
Definition run_prelu_kind (a : list Z) : list Z :=
  match a with
  | zp :: sn :: sd :: codes => [prelu_kind codes zp sn sd]
  | _ => [-1]
  end.

(* CMD axis_offsets = 17 : extents... -> offsets... *)
Definition run_axis_offsets (a : list Z) : list Z := offsets_from 0 a.

(* CMD tconv_pad = 18 : n K s on top bottom -> [ok reference_leading_padding] *)
Definition run_tconv_pad (a : list Z) : list Z :=
  match a with
  | [n; k; s; on; top; bottom] => [if tconv_pad_ok n k s on top bottom then 1 else 0; tconv_ref_pad n k s on]
  | _ => [-1]
  end.

(* CMD conv_pads = 19 : same input stride k d -> [front behind] *)
Definition run_conv_pads (a : list Z) : list Z :=
  match a with
  | [same; input; stride; k; d] => let '(f, b) := conv_pads same input stride k d in [f; b]
  | _ => [-1]
  end.

Definition run (cmd : Z) (a : list Z) : list Z :=
  if cmd =? 1 then run_driver_payload a
  else if cmd =? 2 then run_driver_parse a
  else if cmd =? 3 then run_check_bounds a
  else if cmd =? 4 then run_decode_stream a
  else if cmd =? 5 then run_footprints a
  else if cmd =? 6 then run_check_defuse a
  else if cmd =? 7 then run_check_arena a
  else if cmd =? 8 then run_check_preserved a
  else if cmd =? 9 then run_check_inference a
  else if cmd =? 10 then run_dilated_decision a
  else if cmd =? 11 then run_widen_kernel a
  else if cmd =? 12 then run_pad_split a
  else if cmd =? 13 then run_diag_plane a
  else if cmd =? 14 then run_group_slices a
  else if cmd =? 15 then run_fold_check a
  else if cmd =? 16 then run_prelu_kind a
  else if cmd =? 17 then run_axis_offsets a
  else if cmd =? 18 then run_tconv_pad a
  else if cmd =? 19 then run_conv_pads a
  else [-1].
