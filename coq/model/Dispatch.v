(* Flat integer interface of the executable models for the correspondence harness:
   run cmd args = result, all lists of Z.  Status convention: results of partial functions
   start with 1 (Some) or 0 (None / error).  The command numbers are read by tools/models.py
   from the CMD comments below. *)
From Coq Require Import ZArith List Bool.
From VV Require Import lib.PyInt lib.PyFloat gen.GenTables model.Driver.
Import ListNotations.
Open Scope Z_scope.

Definition opt_list (o : option (list Z)) : list Z :=
  match o with Some l => 1 :: l | None => [0] end.

(* CMD driver_payload = 1 : cfg idw w1 .. wn -> status bytes *)
Definition run_driver_payload (a : list Z) : list Z :=
  match a with
  | cfg :: idw :: ws => opt_list (payload_bytes cfg idw ws)
  | _ => [0]
  end.

(* CMD driver_parse = 2 : bytes -> status cfg id nops cmd_word_index declared_len cmds *)
Definition run_driver_parse (a : list Z) : list Z :=
  match parse_bytes a with
  | Some p => 1 :: p_cfg p :: p_id p :: p_nops p :: p_cmd_word_index p :: p_declared_len p :: p_cmds p
  | None => [0]
  end.

Definition run (cmd : Z) (a : list Z) : list Z :=
  if cmd =? 1 then run_driver_payload a
  else if cmd =? 2 then run_driver_parse a
  else [-1].
