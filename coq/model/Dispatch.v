(* Flat integer interface of the executable models for the correspondence harness:
   run cmd args = result, all lists of Z.  Status convention: results of partial functions
   start with 1 (Some) or 0 (None / error).  The command numbers are read by tools/models.py
   from the CMD comments below. *)
From Coq Require Import ZArith List Bool.
From VV Require Import lib.PyInt lib.PyFloat gen.GenTables model.Driver hw.Npu.
Import ListNotations.
Open Scope Z_scope.

Definition opt_list (o : option (list Z)) : list Z :=
  match o with Some l => 1 :: l | None => [0] end.

(* CMD driver_payload = 1 : cfg idw w1 .. wn -> status bytes *)
Definition run_driver_payload (a : list Z) : list Z :=
  match a with
  | cfg :: idw :: ws => opt_list (payload_bytes cfg idw ws)
  | _ => [0]
  end.

(* CMD driver_parse = 2 : bytes -> status cfg id nops cmd_word_index declared_len cmds *)
Definition run_driver_parse (a : list Z) : list Z :=
  match parse_bytes a with
  | Some p => 1 :: p_cfg p :: p_id p :: p_nops p :: p_cmd_word_index p :: p_declared_len p :: p_cmds p
  | None => [0]
  end.

(* flat list helpers *)
Fixpoint take_pairs (n : nat) (a : list Z) : list (Z * Z) * list Z :=
  match n, a with
  | S n', x :: y :: t => let '(ps, r) := take_pairs n' t in ((x, y) :: ps, r)
  | _, _ => ([], a)
  end.
Fixpoint take_n (n : nat) (a : list Z) : list Z * list Z :=
  match n, a with
  | S n', x :: t => let '(xs, r) := take_n n' t in (x :: xs, r)
  | _, _ => ([], a)
  end.

(* CMD check_bounds = 3 : ncores lut_addr shram_size nsz (rg sz)* nro ro* words -> [decoded?; ok?; first bad op index; n ops] *)
Definition run_check_bounds (a : list Z) : list Z :=
  match a with
  | nc :: la :: ss :: nsz :: t =>
      let '(sizes, t1) := take_pairs (Z.to_nat nsz) t in
      match t1 with
      | nro :: t2 =>
          let '(ro, ws) := take_n (Z.to_nat nro) t2 in
          let hw := {| hw_ncores := nc; hw_lut_addr := la; hw_shram_size := ss |} in
          match run_stream ws with
          | Some evs =>
              [1; (if check_bounds hw sizes ro evs then 1 else 0); first_bad_op hw sizes ro evs 0;
               Z.of_nat (List.length (filter (fun e => match e with EOp _ _ _ => true | _ => false end) evs))]
          | None => [0]
          end
      | [] => [-1]
      end
  | _ => [-1]
  end.

Fixpoint flat_regs (r : regs) : list Z :=
  match r with [] => [] | (k, v) :: t => k :: v :: flat_regs t end.
Fixpoint flat_events (evs : list event) : list Z :=
  match evs with
  | [] => []
  | EOp c p r :: t => 1 :: c :: p :: Z.of_nat (List.length r) :: flat_regs r ++ flat_events t
  | EWait c p :: t => 2 :: c :: p :: flat_events t
  | EStop p :: t => 3 :: p :: flat_events t
  | EOther c p :: t => 4 :: c :: p :: flat_events t
  end.

(* CMD decode_stream = 4 : words -> 1 events... | 0 *)
Definition run_decode_stream (a : list Z) : list Z :=
  match run_stream a with Some evs => 1 :: flat_events evs | None => [0] end.

Fixpoint flat_segs (l : list seg) : list Z :=
  match l with [] => [] | (rg, lo, hi) :: t => rg :: lo :: hi :: flat_segs t end.

(* CMD footprints = 5 : ncores lut_addr shram_size words -> per op: code param nreads (rg lo hi)* nwrites (rg lo hi)* *)
Fixpoint flat_fps (hw : hwcfg) (evs : list event) : list Z :=
  match evs with
  | [] => []
  | EOp c p r :: t =>
      let fp := op_footprint hw c p r in
      c :: p :: Z.of_nat (List.length (fp_reads fp)) :: flat_segs (fp_reads fp) ++
      Z.of_nat (List.length (fp_writes fp)) :: flat_segs (fp_writes fp) ++ flat_fps hw t
  | _ :: t => flat_fps hw t
  end.
Definition run_footprints (a : list Z) : list Z :=
  match a with
  | nc :: la :: ss :: ws =>
      match run_stream ws with
      | Some evs => 1 :: flat_fps {| hw_ncores := nc; hw_lut_addr := la; hw_shram_size := ss |} evs
      | None => [0] end
  | _ => [-1]
  end.

Definition run (cmd : Z) (a : list Z) : list Z :=
  if cmd =? 1 then run_driver_payload a
  else if cmd =? 2 then run_driver_parse a
  else if cmd =? 3 then run_check_bounds a
  else if cmd =? 4 then run_decode_stream a
  else if cmd =? 5 then run_footprints a
  else [-1].
