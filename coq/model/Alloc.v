(* Hand models (device H) of the three tensor allocators of ethos-u-vela:
     ethosu/vela/greedy_allocation.py      GreedyAllocator
     ethosu/vela/tensor_allocation.py      linear_allocate_live_ranges, hillclimb_allocate_live_ranges (total)
     ethosu/vela/hillclimb_allocation.py   HillClimbAllocator
   Executable definitions only; proofs are in proofs/Alloc*Proofs.v.  Tie: correspondence
   (tools/checks/c05.py) against the real Python on generated live-range sets; round_up is also
   tied by translation (gen/GenNumeric.v, lemma gen_round_up_eq).

   Conventions.  A live range is (start, end, size, alignment, name); times are inclusive.
   `lr_name` is the rank of LiveRange.name in string order (only used by LiveRange.__lt__ as the last
   tie-break of Python's sorted()).  Python exceptions / non-termination are error results `Err code`:
     1 ValueError  random.randint(lo, hi) with hi < lo (before the repair of defect P8 this happened for
                   random.randint(0, len(turn_list) - 2) with a one-element turn_list; the bound is now
                   max(len(turn_list) - 2, 0) and the code is proved unreachable)
     2 IndexError  a list access outside the list (also used for a negative index, which Python would wrap)
     3 the predecessor walk of add_predecessor_turns does not end (fuel = number of ranges)
     4 allocate_lr's while loop does not end within |neighbours|+1 rounds   (proved unreachable)
     5 search does not end within its iteration bound                        (proved unreachable)
     6 AssertionError in linear_allocate_live_ranges (scale_compression_config differs)
   The random module is not modelled: every random.randint(lo, hi) takes the next value v of an
   oracle stream (type S with `next : S -> Z * S`, both Section variables, so every theorem holds for
   all streams) and returns lo + (v - lo) mod (hi - lo + 1), which is v itself whenever lo <= v <= hi. *)
From Coq Require Import ZArith List Bool.
From VV Require Import lib.PyInt.
Import ListNotations.
Open Scope Z_scope.

(* numeric_util.round_up *)
Definition round_up (a b : Z) : Z := ((a + b - 1) / b) * b.

Record lr := mkLr { lr_start : Z; lr_end : Z; lr_size : Z; lr_align : Z; lr_name : Z }.

Inductive res (A : Type) : Type := Ok (a : A) | Err (code : Z).
Arguments Ok {A} a.
Arguments Err {A} code.

(* stable insertion sort = Python's sorted() for a comparison that is a strict weak order *)
Fixpoint insert_by {A : Type} (lt : A -> A -> bool) (x : A) (l : list A) : list A :=
  match l with
  | [] => [x]
  | e :: r => if lt x e then x :: l else e :: insert_by lt x r
  end.
Definition sort_by {A : Type} (lt : A -> A -> bool) (l : list A) : list A :=
  fold_left (fun acc x => insert_by lt x acc) l [].

(* LiveRange.__lt__ : start_time, end_time, size, name *)
Definition lr_lt (a b : lr) : bool :=
  if negb (lr_start a =? lr_start b) then lr_start a <? lr_start b
  else if negb (lr_end a =? lr_end b) then lr_end a <? lr_end b
  else if negb (lr_size a =? lr_size b) then lr_size a <? lr_size b
  else lr_name a <? lr_name b.

(* two ranges are alive at a common time step (inclusive times) *)
Definition time_overlap (a b : lr) : Prop :=
  Z.max (lr_start a) (lr_start b) <= Z.min (lr_end a) (lr_end b).
Definition time_overlapb (a b : lr) : bool :=
  Z.max (lr_start a) (lr_start b) <=? Z.min (lr_end a) (lr_end b).

(* ============================== Greedy ============================== *)
(* tuple order of (lr.start_time, -lr.end_time, lr) *)
Definition gkey_lt (a b : lr) : bool :=
  if negb (lr_start a =? lr_start b) then lr_start a <? lr_start b
  else if negb (- lr_end a =? - lr_end b) then - lr_end a <? - lr_end b
  else lr_lt a b.

Definition galloc := (Z * lr)%type.
Definition g_end (x : galloc) : Z := fst x + lr_size (snd x).
(* tuple order of (start_addr, lr) used by sorted(self.current_allocs) *)
Definition galloc_lt (x y : galloc) : bool :=
  if negb (fst x =? fst y) then fst x <? fst y else lr_lt (snd x) (snd y).

(* max(start_addr + lr.size for ...) if current_allocs else 0 *)
Definition current_top (allocs : list galloc) : Z :=
  match allocs with
  | [] => 0
  | x :: r => fold_left (fun m y => Z.max m (g_end y)) r (g_end x)
  end.

(* the for loop of GreedyAllocator.alloc: best-fit gap scan *)
Fixpoint gscan (al asz : Z) (allocs : list galloc) (best fit cur : Z) : Z :=
  match allocs with
  | [] => best
  | x :: r =>
      let aco := round_up cur al in
      if (aco + asz <=? fst x) && (fst x - aco <? fit)
      then gscan al asz r aco (fst x - aco) (g_end x)
      else gscan al asz r best fit (g_end x)
  end.

Definition best_fit_init : Z := 2 ^ 64 - 1.

(* GreedyAllocator.alloc: returns (current_allocs', memory_required', address) *)
Definition galloc_step (allocs : list galloc) (mem : Z) (r : lr) : list galloc * Z * Z :=
  let al := lr_align r in
  let asz := round_up (lr_size r) al in
  let best0 := round_up (current_top allocs) al in
  let best := gscan al asz allocs best0 best_fit_init 0 in
  (insert_by galloc_lt (best, r) allocs, Z.max mem (best + asz), best).

(* the loop of allocate_live_ranges over the sorted ranges; dealloc of every lr with
   end_time < curr_time is a filter (dealloc removes by identity, entries are distinct objects) *)
Fixpoint greedy_run (order : list lr) (allocs : list galloc) (mem : Z) : list (lr * Z) * Z :=
  match order with
  | [] => ([], mem)
  | r :: rest =>
      let live := filter (fun x => negb (lr_end (snd x) <? lr_start r)) allocs in
      let '(allocs', mem', a) := galloc_step live mem r in
      let '(out, m) := greedy_run rest allocs' mem' in
      ((r, a) :: out, m)
  end.

Definition greedy_order (lrs : list lr) : list lr := sort_by gkey_lt lrs.
(* result: (range, address) in processing order, memory_required *)
Definition greedy (lrs : list lr) : list (lr * Z) * Z := greedy_run (greedy_order lrs) [] 0.

(* ============================== Linear ============================== *)
(* one tensor per live range; l_wcc = 0 means weight_compression_config is None, equal positive
   numbers mean equal configs; l_lut <> 0 means purpose == TensorPurpose.LUT; l_eq is the
   equivalence id (equal numbers = Tensor.equivalent) *)
Record lin := mkLin { l_size : Z; l_wcc : Z; l_scc : Z; l_lut : Z; l_eq : Z }.

Fixpoint lin_find (p : lin -> bool) (done : list (lin * Z)) : option (lin * Z) :=
  match done with
  | [] => None
  | d :: r => if p (fst d) then Some d else lin_find p r
  end.

Definition lin_address (e : lin) (done : list (lin * Z)) (total : Z) : res Z :=
  let a1 :=
    if l_wcc e =? 0 then Ok total
    else match lin_find (fun d => l_wcc d =? l_wcc e) done with
         | None => Ok total
         | Some d => if l_scc (fst d) =? l_scc e then Ok (snd d) else Err 6
         end in
  match a1 with
  | Err c => Err c
  | Ok a =>
      if l_lut e =? 0 then Ok a
      else match lin_find (fun d => l_eq d =? l_eq e) done with
           | None => Ok a
           | Some d => Ok (snd d)
           end
  end.

Fixpoint linear_run (g : Z) (es : list lin) (done : list (lin * Z)) (total : Z) : res (list Z * Z) :=
  match es with
  | [] => Ok ([], total)
  | e :: rest =>
      match lin_address e done total with
      | Err c => Err c
      | Ok a =>
          let total' := if a =? total then total + round_up (l_size e) g else total in
          match linear_run g rest (done ++ [(e, a)]) total' with
          | Err c => Err c
          | Ok (out, t) => Ok (a :: out, t)
          end
      end
  end.

(* addresses in input order, total_sz *)
Definition linear (g : Z) (es : list lin) : res (list Z * Z) := linear_run g es [] 0.

(* ============================== HillClimb ============================== *)
Record hinfo := mkH { h_addr : Z; h_end : Z; h_pred : Z; h_turn : Z }.
Definition NOT_ALLOCATED : Z := -1.
Definition NO_PREDECESSOR : Z := -1.
Definition MAX_ITERATIONS : Z := 99999.
Definition MAX_ITERATIONS_STUCK : Z := 50.
Definition MIN_ITERATIONS_IMPROVE : Z := 500.
Definition h_default : hinfo := mkH (-1) 0 (-1) 0.
Definition lr_default : lr := mkLr 0 0 0 1 0.

Definition zget {A : Type} (l : list A) (i : Z) : option A :=
  if i <? 0 then None else nth_error l (Z.to_nat i).
Fixpoint set_nth {A : Type} (l : list A) (n : nat) (x : A) : list A :=
  match l, n with
  | [], _ => []
  | _ :: r, O => x :: r
  | y :: r, S m => y :: set_nth r m x
  end.
Definition zset {A : Type} (l : list A) (i : Z) (x : A) : list A :=
  if i <? 0 then l else set_nth l (Z.to_nat i) x.
Definition hget (st : list hinfo) (i : Z) : hinfo := nth (Z.to_nat i) st h_default.
Definition lget (lrs : list lr) (i : Z) : lr := nth (Z.to_nat i) lrs lr_default.
Definition nget (nbrs : list (list Z)) (i : Z) : list Z := nth (Z.to_nat i) nbrs [].

Fixpoint zrange (lo : Z) (n : nat) : list Z :=
  match n with O => [] | S m => lo :: zrange (lo + 1) m end.
Definition ids_of {A : Type} (l : list A) : list Z := zrange 0 (length l).

Definition alive_at (t : Z) (r : lr) : bool := (lr_start r <=? t) && (t <=? lr_end r).
(* lrs_at_time[t]: ids in list order *)
Fixpoint alive_ids_from (lrs : list lr) (i t : Z) : list Z :=
  match lrs with
  | [] => []
  | r :: rest => if alive_at t r then i :: alive_ids_from rest (i + 1) t else alive_ids_from rest (i + 1) t
  end.
Definition alive_ids (lrs : list lr) (t : Z) : list Z := alive_ids_from lrs 0 t.
Definition sum_sizes (lrs : list lr) (ids : list Z) : Z :=
  fold_left (fun s j => s + lr_size (lget lrs j)) ids 0.
Definition size_at_time (lrs : list lr) (t : Z) : Z := sum_sizes lrs (alive_ids lrs t).
Definition zmax_list (d : Z) (l : list Z) : Z :=
  match l with [] => d | x :: r => fold_left Z.max r x end.
Definition nr_time_slots (lrs : list lr) : Z := 1 + zmax_list 0 (map lr_end lrs).
Definition min_required_size (lrs : list lr) : Z :=
  zmax_list 0 (map (size_at_time lrs) (zrange 0 (Z.to_nat (nr_time_slots lrs)))).
Definition lr_times (r : lr) : list Z := zrange (lr_start r) (Z.to_nat (lr_end r + 1 - lr_start r)).
Definition urgency (lrs : list lr) (r : lr) : Z :=
  fold_left (fun u t => Z.max (size_at_time lrs t) u) (lr_times r) 0.
Definition zmem (x : Z) (l : list Z) : bool := existsb (Z.eqb x) l.
Definition add_new (t : Z) (tl : list Z) : list Z := if zmem t tl then tl else tl ++ [t].
(* lr.neighbours in the order in which __init__ appends them *)
Definition neighbours_of (lrs : list lr) (i : Z) (r : lr) : list Z :=
  fold_left (fun acc t =>
               fold_left (fun acc2 j => if negb (zmem j acc2) && negb (j =? i) then acc2 ++ [j] else acc2)
                         (alive_ids lrs t) acc)
            (lr_times r) [].
Fixpoint neighbours_from (all : list lr) (lrs : list lr) (i : Z) : list (list Z) :=
  match lrs with
  | [] => []
  | r :: rest => neighbours_of all i r :: neighbours_from all rest (i + 1)
  end.
Definition all_neighbours (lrs : list lr) : list (list Z) := neighbours_from lrs lrs 0.

(* LiveRangeInfo.__lt__ on (id, urgency, range) *)
Definition hc_lt (a b : Z * Z * lr) : bool :=
  let '(ia, ua, ra) := a in
  let '(ib, ub, rb) := b in
  if negb (ua =? ub) then ua >? ub
  else let d1 := lr_end ra - lr_start ra in
       let d2 := lr_end rb - lr_start rb in
       if negb (d1 =? d2) then d1 >? d2
       else if negb (lr_start ra =? lr_start rb) then lr_start ra <? lr_start rb
       else if negb (lr_size ra =? lr_size rb) then lr_size ra >? lr_size rb
       else ia <? ib.
Fixpoint hc_keys (all : list lr) (lrs : list lr) (i : Z) : list (Z * Z * lr) :=
  match lrs with
  | [] => []
  | r :: rest => (i, urgency all r, r) :: hc_keys all rest (i + 1)
  end.
Definition initial_indices (lrs : list lr) : list Z :=
  map (fun k => fst (fst k)) (sort_by hc_lt (hc_keys lrs lrs 0)).

(* the for loop inside allocate_lr's while loop *)
Fixpoint hc_scan (st : list hinfo) (size al : Z) (nb : list Z) (address pred : Z) (fits : bool)
  : Z * Z * bool :=
  match nb with
  | [] => (address, pred, fits)
  | j :: r =>
      let h := hget st j in
      if (h_addr h =? NOT_ALLOCATED) || (h_end h <=? address) then hc_scan st size al r address pred fits
      else if (h_addr h <? address + size) && (address <? h_end h)
           then hc_scan st size al r (round_up (h_end h) al) j false
           else hc_scan st size al r address pred fits
  end.
Fixpoint hc_fit (fuel : nat) (st : list hinfo) (size al : Z) (nb : list Z) (address pred : Z)
  : option (Z * Z) :=
  match fuel with
  | O => None
  | S f =>
      let '(a, p, fits) := hc_scan st size al nb address pred true in
      if fits then Some (a, p) else hc_fit f st size al nb a p
  end.
Definition allocate_lr (lrs : list lr) (nbrs : list (list Z)) (st : list hinfo) (i : Z) : res (list hinfo) :=
  let r := lget lrs i in
  let nb := nget nbrs i in
  match hc_fit (S (length nb)) st (lr_size r) (lr_align r) nb 0 NO_PREDECESSOR with
  | None => Err 4
  | Some (a, p) => Ok (zset st i (mkH a (a + lr_size r) p (h_turn (hget st i))))
  end.

Definition reset_addresses (st : list hinfo) : list hinfo :=
  map (fun h => mkH NOT_ALLOCATED (h_end h) (h_pred h) (h_turn h)) st.

(* the for loop of allocate_indices with its early break *)
Fixpoint alloc_loop (lrs : list lr) (nbrs : list (list Z)) (best : Z) (idx : list Z) (turn size : Z)
         (st : list hinfo) : res (list hinfo * Z) :=
  match idx with
  | [] => Ok (st, size)
  | i :: rest =>
      match zget st i with
      | None => Err 2
      | Some _ =>
          match allocate_lr lrs nbrs st i with
          | Err c => Err c
          | Ok st1 =>
              let h := hget st1 i in
              let st2 := zset st1 i (mkH (h_addr h) (h_end h) (h_pred h) turn) in
              let size' := Z.max size (h_end h) in
              if size' >? best then Ok (st2, size')
              else alloc_loop lrs nbrs best rest (turn + 1) size' st2
          end
      end
  end.
Definition allocate_indices (lrs : list lr) (nbrs : list (list Z)) (best : Z) (idx : list Z)
           (st : list hinfo) : res (list hinfo * Z) :=
  alloc_loop lrs nbrs best idx 0 0 (reset_addresses st).

(* bottleneck: first range with the highest end_address *)
Fixpoint argmax_end (st : list hinfo) (i best_i best_end : Z) : Z :=
  match st with
  | [] => best_i
  | h :: r => if h_end h >? best_end then argmax_end r (i + 1) i (h_end h)
              else argmax_end r (i + 1) best_i best_end
  end.
Definition bottleneck (st : list hinfo) : Z :=
  match st with [] => 0 | h :: r => argmax_end r 1 0 (h_end h) end.

(* the while loop of add_predecessor_turns *)
Fixpoint pred_walk (fuel : nat) (st : list hinfo) (id : Z) (tl : list Z) : res (list Z) :=
  match zget st id with
  | None => Err 2
  | Some h =>
      if h_pred h =? NO_PREDECESSOR then Ok tl
      else match fuel with
           | O => Err 3
           | S f =>
               match zget st (h_pred h) with
               | None => Err 2
               | Some hp => pred_walk f st (h_pred h) (add_new (h_turn hp) tl)
               end
           end
  end.
Definition add_predecessor_turns (st : list hinfo) (tl : list Z) (id : Z) : res (list Z) :=
  match zget st id with
  | None => Err 2
  | Some h => pred_walk (length st) st id (add_new (h_turn h) tl)
  end.
Fixpoint add_pred_list (st : list hinfo) (tl : list Z) (ids : list Z) : res (list Z) :=
  match ids with
  | [] => Ok tl
  | j :: r => match add_predecessor_turns st tl j with
              | Err c => Err c
              | Ok tl' => add_pred_list st tl' r
              end
  end.

Definition is_neighbour (a b : lr) : bool := (lr_start a <=? lr_end b) && (lr_start b <=? lr_end a).

Fixpoint non_nb_turns (lrs : list lr) (idx : list Z) (mx : lr) (tl : list Z) : res (list Z) :=
  match tl with
  | [] => Ok []
  | turn :: r =>
      match zget idx turn with
      | None => Err 2
      | Some id =>
          match zget lrs id with
          | None => Err 2
          | Some x =>
              match non_nb_turns lrs idx mx r with
              | Err c => Err c
              | Ok l => Ok (if is_neighbour mx x then l else turn :: l)
              end
          end
      end
  end.

Definition zswap (l : list Z) (i j : Z) : res (list Z) :=
  match zget l i, zget l j with
  | Some a, Some b => Ok (zset (zset l i b) j a)
  | _, _ => Err 2
  end.

Definition zlen {A : Type} (l : list A) : Z := Z.of_nat (length l).

(* turns of the neighbours of the ranges allocated at the non-neighbour turns (stuck case) *)
Fixpoint add_nb_turns (st : list hinfo) (tl : list Z) (nb : list Z) : res (list Z) :=
  match nb with
  | [] => Ok tl
  | j :: r => match zget st j with
              | None => Err 2
              | Some h => add_nb_turns st (add_new (h_turn h) tl) r
              end
  end.
Fixpoint add_more_turns (nbrs : list (list Z)) (st : list hinfo) (idx : list Z) (tl : list Z) (nn : list Z)
  : res (list Z) :=
  match nn with
  | [] => Ok tl
  | turn :: r =>
      match zget idx turn with
      | None => Err 2
      | Some id =>
          match zget nbrs id with
          | None => Err 2
          | Some nb =>
              match add_nb_turns st tl nb with
              | Err c => Err c
              | Ok tl' => add_more_turns nbrs st idx tl' r
              end
          end
      end
  end.

Inductive step_res (St R : Type) : Type := Continue (s : St) | Done (r : R).
Arguments Continue {St R} s.
Arguments Done {St R} r.

(* at most p executions of f, stopping at the first Done; structurally recursive on the binary fuel *)
Fixpoint iter_pos {St R : Type} (p : positive) (f : St -> step_res St R) (s : St) : step_res St R :=
  match p with
  | xH => f s
  | xO q => match iter_pos q f s with
            | Continue s1 => iter_pos q f s1
            | Done r => Done r
            end
  | xI q => match f s with
            | Continue s0 =>
                match iter_pos q f s0 with
                | Continue s1 => iter_pos q f s1
                | Done r => Done r
                end
            | Done r => Done r
            end
  end.

Section Stream.
  Variable S : Type.
  Variable next : S -> Z * S.

  (* random.randint(lo, hi); the Z counts the draws *)
  Definition randint (lo hi : Z) (s : S * Z) : res (Z * (S * Z)) :=
    if hi <? lo then Err 1
    else let '(v, s') := next (fst s) in Ok (lo + (v - lo) mod (hi - lo + 1), (s', snd s + 1)).

  Definition pick (l : list Z) (lo_off : Z) (s : S * Z) : res (Z * (S * Z)) :=
    (* l[random.randint(0, len(l) - lo_off)] *)
    match randint 0 (zlen l - lo_off) s with
    | Err c => Err c
    | Ok (k, s') => match zget l k with None => Err 2 | Some x => Ok (x, s') end
    end.

  (* turn_list[random.randint(0, max(len(turn_list) - 2, 0))] *)
  Definition pick2 (l : list Z) (s : S * Z) : res (Z * (S * Z)) :=
    match randint 0 (Z.max (zlen l - 2) 0) s with
    | Err c => Err c
    | Ok (k, s') => match zget l k with None => Err 2 | Some x => Ok (x, s') end
    end.

  (* HillClimbAllocator.attempt_bottleneck_fix: returns the reordered indices and the stream *)
  Definition attempt_bottleneck_fix (lrs : list lr) (nbrs : list (list Z)) (st : list hinfo) (idx : list Z)
             (stuck : Z) (s : S * Z) : res (list Z * (S * Z)) :=
    let mx := bottleneck st in
    match zget lrs mx, zget nbrs mx with
    | Some mxr, Some mxn =>
      match add_predecessor_turns st [] mx with
      | Err c => Err c
      | Ok tl0 =>
        match add_pred_list st tl0 mxn with
        | Err c => Err c
        | Ok tl =>
          match non_nb_turns lrs idx mxr tl with
          | Err c => Err c
          | Ok nn =>
            match randint 0 100 s with
            | Err c => Err c
            | Ok (r0, s0) =>
              match (if (r0 <? 30) && negb (zlen nn =? 0) then pick nn 1 s0 else pick tl 1 s0) with
              | Err c => Err c
              | Ok (ix1, s1) =>
                match pick2 tl s1 with
                | Err c => Err c
                | Ok (ix2a, s2) =>
                  let ix2 := if ix1 =? ix2a then last tl 0 else ix2a in
                  match zswap idx ix1 ix2 with
                  | Err c => Err c
                  | Ok idx1 =>
                    if stuck >? MAX_ITERATIONS_STUCK then
                      match add_more_turns nbrs st idx1 tl nn with
                      | Err c => Err c
                      | Ok tl2 =>
                        match pick tl2 1 s2 with
                        | Err c => Err c
                        | Ok (jx1, s3) =>
                          match pick tl2 1 s3 with
                          | Err c => Err c
                          | Ok (jx2, s4) =>
                            match zswap idx1 jx1 jx2 with
                            | Err c => Err c
                            | Ok idx2 => Ok (idx2, s4)
                            end
                          end
                        end
                      end
                    else Ok (idx1, s2)
                  end
                end
              end
            end
          end
        end
      end
    | _, _ => Err 2
    end.

  Record sstate := mkSS {
    ss_rng : S * Z; ss_st : list hinfo; ss_idx : list Z; ss_bidx : list Z;
    ss_best : Z; ss_last : Z; ss_i : Z; ss_addrs : list Z }.

  (* result of the search: allocated_addresses, best_size, iterations, draws *)
  Definition sresult := res (list Z * Z * Z * Z).
  Definition ss_result (x : sstate) : sresult := Ok (ss_addrs x, ss_best x, ss_i x, snd (ss_rng x)).

  (* one evaluation of the loop condition of search and, if it holds, of the loop body *)
  Definition search_step (lrs : list lr) (nbrs : list (list Z)) (minreq maxit limit : Z) (x : sstate)
    : step_res sstate sresult :=
    if ((ss_best x >? limit) && (ss_i x <? maxit)) || (ss_i x - ss_last x <? MIN_ITERATIONS_IMPROVE) then
      match attempt_bottleneck_fix lrs nbrs (ss_st x) (ss_idx x) (ss_i x - ss_last x) (ss_rng x) with
      | Err c => Done (Err c)
      | Ok (idx1, rng1) =>
        match allocate_indices lrs nbrs (ss_best x) idx1 (ss_st x) with
        | Err c => Done (Err c)
        | Ok (st1, new_size) =>
          if new_size <=? ss_best x then
            let last1 := if new_size <? ss_best x then ss_i x else ss_last x in
            let x1 := mkSS rng1 st1 idx1 idx1 new_size last1 (ss_i x) (map h_addr st1) in
            if new_size <=? minreq then Done (ss_result x1)
            else Continue (mkSS rng1 st1 idx1 idx1 new_size last1 (ss_i x + 1) (map h_addr st1))
          else
            Continue (mkSS rng1 st1 (ss_bidx x) (ss_bidx x) (ss_best x) (ss_last x) (ss_i x + 1) (ss_addrs x))
        end
      end
    else Done (ss_result x).

  (* number of loop-condition evaluations that always suffices (theorem search_within_bound) *)
  Definition search_fuel (minreq maxit size0 : Z) : positive :=
    Z.to_pos (Z.max maxit MIN_ITERATIONS_IMPROVE + MIN_ITERATIONS_IMPROVE * (size0 - minreq) + 1).

  Definition search (lrs : list lr) (nbrs : list (list Z)) (minreq maxit limit : Z) (x : sstate) : sresult :=
    match iter_pos (search_fuel minreq maxit (ss_best x)) (search_step lrs nbrs minreq maxit limit) x with
    | Done r => r
    | Continue _ => Err 5
    end.

  Definition initial_state (lrs : list lr) : list hinfo := map (fun _ => mkH 0 0 0 0) lrs.

  (* allocate_live_ranges / HillClimbAllocator.allocate *)
  Definition hillclimb (lrs : list lr) (max_iterations : option Z) (limit : Z) (s : S) : sresult :=
    match lrs with
    | [] => Ok ([], 0, 0, 0)
    | _ =>
      let nbrs := all_neighbours lrs in
      let minreq := min_required_size lrs in
      let maxit := match max_iterations with None => MAX_ITERATIONS | Some m => m end in
      let idx := initial_indices lrs in
      match allocate_indices lrs nbrs (2 ^ 63) idx (initial_state lrs) with
      | Err c => Err c
      | Ok (st1, best) =>
          let x := mkSS (s, 0) st1 idx idx best 0 0 (map h_addr st1) in
          if best >? minreq then search lrs nbrs minreq maxit limit x
          else ss_result x
      end
    end.
End Stream.

(* tensor_allocation.hillclimb_allocate_live_ranges: total_sz = max(0, address + lr.size ...) *)
Fixpoint hc_total (lrs : list lr) (addrs : list Z) (acc : Z) : Z :=
  match lrs, addrs with
  | r :: lr', a :: ad' => hc_total lr' ad' (Z.max acc (a + lr_size r))
  | _, _ => acc
  end.

(* ============================== the alignment of a live range ============================== *)
(* live_range.LiveRange: __init__(tens, alignment) stores the first request, set_alignment(alignment) keeps the
   larger of the stored and the new one, get_alignment() returns it.  LiveRangeGraph.get_or_create_range(tens,
   alignment): the first range whose tensor is equivalent to tens gets set_alignment(alignment); otherwise a new
   range is appended.  A request is (equivalence id of the tensor, alignment). *)
Definition set_alignment (current alignment : Z) : Z := Z.max current alignment.
Definition range_alignment (first : Z) (later : list Z) : Z := fold_left set_alignment later first.

Fixpoint get_or_create_range (ranges : list (Z * Z)) (key alignment : Z) : list (Z * Z) :=
  match ranges with
  | [] => [(key, alignment)]
  | (k, a) :: rest => if k =? key then (k, set_alignment a alignment) :: rest
                      else (k, a) :: get_or_create_range rest key alignment
  end.
(* (equivalence id, get_alignment()) of every range, in creation order *)
Definition range_alignments (requests : list (Z * Z)) : list (Z * Z) :=
  fold_left (fun rs q => get_or_create_range rs (fst q) (snd q)) requests [].

(* ============================== the dispatcher ============================== *)
(* tensor_allocation.allocate(..., tensor_allocator, cpu_tensor_alignment, hillclimb_max_iterations) on a
   prepared live-range graph with one tensor per range and no tensors declared equivalent: LinearAlloc is
   called with the requested alignment as its granularity; Greedy and HillClimb take each range's own
   alignment (cpu_tensor_alignment only reaches their verify_* calls); HillClimb gets arch.mem_type_size as
   its memory limit and reports the total of hillclimb_allocate_live_ranges.  TensorAllocator:
   LinearAlloc = 1, Greedy = 2, HillClimb = 3. *)
Fixpoint lins_of (lrs : list lr) (i : Z) : list lin :=
  match lrs with
  | [] => []
  | r :: rest => mkLin (lr_size r) 0 0 0 i :: lins_of rest (i + 1)
  end.

Inductive alloc_result : Type :=
  | ByIndex (r : res (list Z * Z))          (* addresses in input order, total_sz: LinearAlloc, HillClimb *)
  | InOrder (out : list (lr * Z)) (m : Z)   (* (range, address) in Greedy's processing order, total_sz *)
  | BadAllocator.                           (* assert 0 *)

Definition allocate (S : Type) (next : S -> Z * S) (tensor_allocator cpu_tensor_alignment : Z) (lrs : list lr)
           (hillclimb_max_iterations : option Z) (mem_size : Z) (s : S) : alloc_result :=
  match lrs with
  | [] => ByIndex (Ok ([], 0))               (* if lrs.ranges: ... else total_sz = 0 *)
  | _ =>
    if tensor_allocator =? 2 then let '(out, m) := greedy lrs in InOrder out m
    else if tensor_allocator =? 1 then ByIndex (linear cpu_tensor_alignment (lins_of lrs 0))
    else if tensor_allocator =? 3 then
      ByIndex (match hillclimb S next lrs hillclimb_max_iterations mem_size s with
               | Ok (addrs, _, _, _) => Ok (addrs, hc_total lrs addrs 0)
               | Err c => Err c
               end)
    else BadAllocator
  end.

(* the oracle stream used by the extracted program: a finite list, 0 after its end *)
Definition next_list (l : list Z) : Z * list Z :=
  match l with [] => (0, []) | v :: r => (v, r) end.
