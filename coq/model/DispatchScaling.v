(* Flat integer interface of the Scaling model for the correspondence harness (build/scaling).
   Floats travel as exact dyadics (m, e) = m * 2^e; option results start with a status word. *)
From Coq Require Import ZArith List Bool.
From VV Require Import lib.PyInt lib.PyFloat model.Scaling.
Import ListNotations.
Open Scope Z_scope.

Definition pair_list (p : Z * Z) : list Z := [fst p; snd p].
Definition dy_list (d : dyadic) : list Z := [dm d; de d].

(* CMD quantise_scale = 1 : m e -> multiplier shift *)
Definition run_quantise_scale (a : list Z) : list Z :=
  match a with m :: e :: nil => pair_list (q_scale m e) | _ => [-1] end.

(* CMD reduced_quantise_scale = 2 : m e -> multiplier shift *)
Definition run_reduced_quantise_scale (a : list Z) : list Z :=
  match a with m :: e :: nil => pair_list (r_scale m e) | _ => [-1] end.

(* CMD pooling_scale = 3 : n rescale_bits -> 1 scale shift | 0 (assert) | 2 (negative shift count
   or n <= 0: Python raises ValueError / ZeroDivisionError, outside the model) *)
Definition run_pooling_scale (a : list Z) : list Z :=
  match a with
  | n :: rb :: nil =>
      if (n <=? 0) || (31 - rb + pool_k n <? 0) then [2]
      else match pool_scale n rb with Some p => 1 :: pair_list p | None => [0] end
  | _ => [-1]
  end.

(* CMD apply_scale = 4 : acc scale shift n -> natural-rounded result, double-rounded result, div_half_up acc n *)
Definition run_apply_scale (a : list Z) : list Z :=
  match a with
  | acc :: scale :: shift :: n :: nil =>
      [apply_scale acc scale shift; apply_scale_double acc scale shift; div_half_up acc n]
  | _ => [-1]
  end.

(* CMD tfl_quantize_multiplier = 5 : m e -> q_fixed shift *)
Definition run_tfl_qm (a : list Z) : list Z :=
  match a with m :: e :: nil => pair_list (tfl_quantize_multiplier (Dy m e)) | _ => [-1] end.

(* CMD ew_mul = 6 : p m1 e1 m2 e2 mo eo -> multiplier shift *)
Definition run_ew_mul (a : list Z) : list Z :=
  match a with
  | p :: m1 :: e1 :: m2 :: e2 :: mo :: eo :: nil => pair_list (ew_mul_scale p (Dy m1 e1) (Dy m2 e2) (Dy mo eo))
  | _ => [-1]
  end.

(* CMD ew_simplified = 7 : p m1 e1 m2 e2 mo eo input_shift -> r1m r1e r2m r2e multiplier shift *)
Definition run_ew_simplified (a : list Z) : list Z :=
  match a with
  | p :: m1 :: e1 :: m2 :: e2 :: mo :: eo :: ish :: nil =>
      let '(r1, r2, o) := ew_simplified p (Dy m1 e1) (Dy m2 e2) (Dy mo eo) ish in
      dy_list r1 ++ dy_list r2 ++ pair_list o
  | _ => [-1]
  end.

(* CMD ew_advanced = 8 : p m1 e1 m2 e2 mo eo bitdepth -> in_scale in_shift out_scale out_shift op_to_scale *)
Definition run_ew_advanced (a : list Z) : list Z :=
  match a with
  | p :: m1 :: e1 :: m2 :: e2 :: mo :: eo :: bd :: nil =>
      let '(i, o, op) := ew_advanced p (Dy m1 e1) (Dy m2 e2) (Dy mo eo) bd in
      pair_list i ++ pair_list o ++ [op]
  | _ => [-1]
  end.

(* CMD tfl_add = 9 : m1 e1 m2 e2 mo eo left_shift -> q1 s1 q2 s2 qo so *)
Definition run_tfl_add (a : list Z) : list Z :=
  match a with
  | m1 :: e1 :: m2 :: e2 :: mo :: eo :: ls :: nil =>
      let '(i1, i2, o) := tfl_add_params (Dy m1 e1) (Dy m2 e2) (Dy mo eo) ls in
      pair_list i1 ++ pair_list i2 ++ pair_list o
  | _ => [-1]
  end.

(* CMD tfl_mul = 10 : p m1 e1 m2 e2 mo eo -> q s *)
Definition run_tfl_mul (a : list Z) : list Z :=
  match a with
  | p :: m1 :: e1 :: m2 :: e2 :: mo :: eo :: nil => pair_list (tfl_mul_params p (Dy m1 e1) (Dy m2 e2) (Dy mo eo))
  | _ => [-1]
  end.

(* CMD fl_div = 11 : p m1 e1 m2 e2 -> m e   (rounded quotient) *)
Definition run_fl_div (a : list Z) : list Z :=
  match a with
  | p :: m1 :: e1 :: m2 :: e2 :: nil => dy_list (fl_div p (Dy m1 e1) (Dy m2 e2))
  | _ => [-1]
  end.

(* CMD fl_mul = 12 : p m1 e1 m2 e2 -> m e   (rounded product) *)
Definition run_fl_mul (a : list Z) : list Z :=
  match a with
  | p :: m1 :: e1 :: m2 :: e2 :: nil => dy_list (fl_mul p (Dy m1 e1) (Dy m2 e2))
  | _ => [-1]
  end.

(* CMD conv_scale = 13 : pprod reduced(0/1) mi ei mw ew mo eo -> packed multiplier, packed shift, reference q, reference shift *)
Definition run_conv_scale (a : list Z) : list Z :=
  match a with
  | p :: r :: mi :: ei :: mw :: ew :: mo :: eo :: nil =>
      pair_list (conv_packed_scale p (negb (r =? 0)) (Dy mi ei) (Dy mw ew) (Dy mo eo)) ++
      pair_list (tfl_conv_params p (Dy mi ei) (Dy mw ew) (Dy mo eo))
  | _ => [-1]
  end.

(* CMD ew_scale_mode = 14 : m1 e1 m2 e2 reversed(0/1) -> scale mode, 1 if the IFM receives the OPA pair else 0 *)
Definition run_ew_scale_mode (a : list Z) : list Z :=
  match a with
  | m1 :: e1 :: m2 :: e2 :: r :: nil =>
      let rev := negb (r =? 0) in
      let sm := ew_scale_mode (Dy m1 e1) (Dy m2 e2) rev in
      [sm; if ifm_gets_opa sm rev then 1 else 0]
  | _ => [-1]
  end.

(* CMD fused_quantize = 15 : p mi ei mo eo -> OFM_SCALE multiplier, shift, reference q, reference shift *)
Definition run_fused_quantize (a : list Z) : list Z :=
  match a with
  | p :: mi :: ei :: mo :: eo :: nil =>
      pair_list (fused_quantize_scale p (Dy mi ei) (Dy mo eo)) ++ pair_list (tfl_requantize_params (Dy mi ei) (Dy mo eo))
  | _ => [-1]
  end.

Definition run (cmd : Z) (a : list Z) : list Z :=
  if cmd =? 1 then run_quantise_scale a
  else if cmd =? 2 then run_reduced_quantise_scale a
  else if cmd =? 3 then run_pooling_scale a
  else if cmd =? 4 then run_apply_scale a
  else if cmd =? 5 then run_tfl_qm a
  else if cmd =? 6 then run_ew_mul a
  else if cmd =? 7 then run_ew_simplified a
  else if cmd =? 8 then run_ew_advanced a
  else if cmd =? 9 then run_tfl_add a
  else if cmd =? 10 then run_tfl_mul a
  else if cmd =? 11 then run_fl_div a
  else if cmd =? 12 then run_fl_mul a
  else if cmd =? 13 then run_conv_scale a
  else if cmd =? 14 then run_ew_scale_mode a
  else if cmd =? 15 then run_fused_quantize a
  else [-1].
