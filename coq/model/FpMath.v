(* C19 -- REFERENCE functions of the compile-time fixed-point maths, transcribed into Gallina over Z
   with the C semantics made explicit.  No proofs in this file.

   Sources transcribed (from the upstream projects, not from Vela):
     gemmlowp  fixedpoint/fixedpoint.h :  SaturatingRoundingDoublingHighMul (int32, int16),
               RoundingDivideByPOT, ShiftLeft (saturating, via int64), SaturatingRoundingMultiplyByPOT,
               Rescale, exp_on_interval_between_negative_one_quarter_and_0_excl, exp_on_negative_values
     TFLite    kernels/internal/common.h : MultiplyByQuantizedMultiplier,
               DownScaleInt32ToInt16Multiplier
               kernels/internal/reference/hard_swish.h : SaturatingLeftShift, SaturatingDoublingHighMul,
               the HardSwish int8/uint8 integer pipeline
               kernels/internal/reference/leaky_relu.h : QuantizeLeakyRelu
               kernels/internal/reference/requantize.h : Requantize (same width)

   C semantics: every value of a C integer type is written through [cast w] (conversion to a signed
   w-bit two's complement integer; the identity exactly when the value is representable, which is what
   the theorems establish, so no undefined behaviour is relied upon); `/` is Z.quot (truncation);
   `>>` on signed values is the arithmetic shift Z.shiftr; `&` is Z.land on two's complement. *)
From Coq Require Import ZArith List Bool.
From VV Require Import lib.PyInt lib.PyFloat gen.GenFpMath.
Import ListNotations.
Open Scope Z_scope.

Definition cast (w x : Z) : Z := (x + 2 ^ (w - 1)) mod 2 ^ w - 2 ^ (w - 1).
Definition cast16 := cast 16.
Definition cast32 := cast 32.
Definition cast64 := cast 64.

Definition INT16_MIN : Z := -32768.
Definition INT16_MAX : Z := 32767.
Definition INT32_MIN : Z := -2147483648.
Definition INT32_MAX : Z := 2147483647.

(* masks of gemmlowp's scalar fallbacks: all ones (-1) or 0 *)
Definition mask_if (b : bool) : Z := if b then -1 else 0.

(* ---------------------------------------------------------------------------------------------
   gemmlowp *)

(* template <> int32 SaturatingRoundingDoublingHighMul(int32 a, int32 b) *)
Definition SRDHM32 (a b : Z) : Z :=
  let overflow := (a =? b) && (a =? INT32_MIN) in
  let a_64 := cast64 a in
  let b_64 := cast64 b in
  let ab_64 := cast64 (a_64 * b_64) in
  let nudge := cast32 (if ab_64 >=? 0 then 1073741824 else 1 - 1073741824) in
  let ab_x2_high32 := cast32 (Z.quot (cast64 (ab_64 + nudge)) 2147483648) in
  if overflow then INT32_MAX else ab_x2_high32.

(* template <> int16 SaturatingRoundingDoublingHighMul(int16 a, int16 b) *)
Definition SRDHM16 (a b : Z) : Z :=
  let overflow := (a =? b) && (a =? INT16_MIN) in
  let a_32 := cast32 a in
  let b_32 := cast32 b in
  let ab_32 := cast32 (a_32 * b_32) in
  let nudge := cast16 (if ab_32 >=? 0 then 16384 else 1 - 16384) in
  let ab_x2_high16 := cast16 (Z.quot (cast32 (ab_32 + nudge)) 32768) in
  if overflow then INT16_MAX else ab_x2_high16.

(* template <typename IntegerType> RoundingDivideByPOT(IntegerType x, int exponent), IntegerType=int32;
   the function asserts 0 <= exponent <= 31 *)
Definition RoundingDivideByPOT (x exponent : Z) : Z :=
  let mask := cast32 (cast64 (Z.shiftl 1 exponent) - 1) in
  let zero := 0 in
  let one := 1 in
  let remainder := Z.land x mask in
  let threshold := cast32 (Z.shiftr mask 1 + Z.land (mask_if (x <? zero)) one) in
  cast32 (Z.shiftr x exponent + Z.land (mask_if (remainder >? threshold)) one).

(* template <typename tIntegerType> ShiftLeft(tIntegerType a, int offset): saturating, computed in int64 *)
Definition ShiftLeft32 (a offset : Z) : Z :=
  let wide_a := cast64 a in
  let wide_shifted := cast64 (wide_a * cast32 (Z.shiftl 1 offset)) in
  if wide_shifted <? INT32_MIN then INT32_MIN
  else if wide_shifted >? INT32_MAX then INT32_MAX
  else cast32 wide_shifted.

(* SaturatingRoundingMultiplyByPOT<Exponent>(int32 x): the three specialisations *)
Definition SaturatingRoundingMultiplyByPOT (exponent x : Z) : Z :=
  if exponent <? 0 then RoundingDivideByPOT x (- exponent)
  else if exponent =? 0 then x
  else
    let threshold := cast32 (Z.shiftl 1 (32 - 1 - exponent) - 1) in
    let positive_mask := x >? threshold in
    let negative_mask := x <? - threshold in
    let result := ShiftLeft32 x exponent in
    let result := if positive_mask then INT32_MAX else result in
    let result := if negative_mask then INT32_MIN else result in
    result.

(* Rescale<tIntegerBitsDst>(FixedPoint<int32, tIntegerBitsSrc> x) on raw values *)
Definition Rescale (integer_bits_src integer_bits_dst x : Z) : Z :=
  SaturatingRoundingMultiplyByPOT (integer_bits_src - integer_bits_dst) x.

(* raw Add of two int32 (FixedPoint operator+) *)
Definition add32 (a b : Z) : Z := cast32 (a + b).
Definition sub32 (a b : Z) : Z := cast32 (a - b).

(* FixedPoint<int32,0> exp_on_interval_between_negative_one_quarter_and_0_excl(FixedPoint<int32,0> a) *)
Definition exp_on_interval_between_negative_one_quarter_and_0_excl (a : Z) : Z :=
  let constant_term := 1895147668 in
  let constant_1_over_3 := 715827883 in
  let x := add32 a (Z.shiftl 1 28) in           (* a + F::ConstantPOT<-3>() *)
  let x2 := SRDHM32 x x in
  let x3 := SRDHM32 x2 x in
  let x4 := SRDHM32 x2 x2 in
  let x4_over_4 := SaturatingRoundingMultiplyByPOT (-2) x4 in
  let x4_over_24_plus_x3_over_6_plus_x2_over_2 :=
    SaturatingRoundingMultiplyByPOT (-1) (add32 (SRDHM32 (add32 x4_over_4 x3) constant_1_over_3) x2) in
  (* AddSaturatingIf16Bit on int32 is the plain Add *)
  add32 constant_term (SRDHM32 constant_term (add32 x x4_over_24_plus_x3_over_6_plus_x2_over_2)).

(* one GEMMLOWP_EXP_BARREL_SHIFTER(Exponent, FixedPointMultiplier) line *)
Definition exp_barrel_shifter (kIntegerBits remainder exponent multiplier result : Z) : Z :=
  if kIntegerBits >? exponent then
    let kFractionalBits := 31 - kIntegerBits in
    let kShiftAmount := if kIntegerBits >? exponent then kFractionalBits + exponent else 0 in
    if negb (Z.land remainder (cast32 (Z.shiftl 1 kShiftAmount)) =? 0)
    then SRDHM32 result multiplier else result
  else result.

(* FixedPoint<int32,0> exp_on_negative_values(FixedPoint<int32, tIntegerBits> a) *)
Definition exp_on_negative_values_ib (kIntegerBits a : Z) : Z :=
  let kFractionalBits := 31 - kIntegerBits in
  let kOneQuarter := Z.shiftl 1 (kFractionalBits - 2) in
  let mask := sub32 kOneQuarter 1 in
  let a_mod_quarter_minus_one_quarter := sub32 (Z.land a mask) kOneQuarter in
  let result := exp_on_interval_between_negative_one_quarter_and_0_excl
                  (Rescale kIntegerBits 0 a_mod_quarter_minus_one_quarter) in
  let remainder := sub32 a_mod_quarter_minus_one_quarter a in
  let result := exp_barrel_shifter kIntegerBits remainder (-2) 1672461947 result in
  let result := exp_barrel_shifter kIntegerBits remainder (-1) 1302514674 result in
  let result := exp_barrel_shifter kIntegerBits remainder 0 790015084 result in
  let result := exp_barrel_shifter kIntegerBits remainder 1 290630308 result in
  let result := exp_barrel_shifter kIntegerBits remainder 2 39332535 result in
  let result := exp_barrel_shifter kIntegerBits remainder 3 720401 result in
  let result := exp_barrel_shifter kIntegerBits remainder 4 242 result in
  let result :=
    if kIntegerBits >? 5 then
      let clampB := 36 - kIntegerBits in
      if a <? - Z.shiftl 1 clampB then 0 else result
    else result in
  if a =? 0 then INT32_MAX (* ResultF::One() *) else result.

(* the instance Vela's softmax uses: Q5.26 input *)
Definition exp_on_negative_values (a : Z) : Z := exp_on_negative_values_ib 5 a.

(* ---------------------------------------------------------------------------------------------
   TFLite *)

(* int32 MultiplyByQuantizedMultiplier(int32 x, int32 quantized_multiplier, int shift) *)
Definition MultiplyByQuantizedMultiplier (x quantized_multiplier shift : Z) : Z :=
  let left_shift := if shift >? 0 then shift else 0 in
  let right_shift := if shift >? 0 then 0 else - shift in
  RoundingDivideByPOT (SRDHM32 (cast32 (x * cast32 (Z.shiftl 1 left_shift))) quantized_multiplier) right_shift.

(* Vela's (scale, shift) convention from scaling.quantise_scale: value * scale * 2^-shift, i.e. the
   TFLite shift is 31 - shift *)
Definition mbqm_vela (x scale shift : Z) : Z := MultiplyByQuantizedMultiplier x scale (31 - shift).

(* void DownScaleInt32ToInt16Multiplier(int32 multiplier_int32, int16* multiplier_int16) *)
Definition DownScaleInt32ToInt16Multiplier (multiplier_int32 : Z) : Z :=
  let kRoundingOffset := 32768 in
  if multiplier_int32 >=? INT32_MAX - kRoundingOffset then INT16_MAX
  else
    let result := cast32 (Z.shiftr (cast32 (multiplier_int32 + kRoundingOffset)) 16) in
    cast16 result.

(* int16 SaturatingLeftShift(int16 value, int amount)   (hard_swish.h) *)
Definition SaturatingLeftShift16 (value amount : Z) : Z :=
  let result := cast64 (cast64 value * cast32 (Z.shiftl 1 amount)) in
  let result := Z.min result INT16_MAX in
  let result := Z.max result INT16_MIN in
  cast16 result.

(* int16 SaturatingDoublingHighMul(int16 a, int16 b)   (hard_swish.h): no rounding *)
Definition SaturatingDoublingHighMul16 (a b : Z) : Z :=
  if (a =? b) && (a =? INT16_MIN) then INT16_MAX
  else
    let a_32 := cast32 a in
    let b_32 := cast32 b in
    let ab_32 := cast32 (a_32 * b_32) in
    cast16 (Z.quot ab_32 32768).

(* RoundingDivideByPOT instantiated at int16 (hard_swish.h uses it on int16 values):
   same text, casts to int16 *)
Definition RoundingDivideByPOT16 (x exponent : Z) : Z :=
  let mask := cast16 (cast64 (Z.shiftl 1 exponent) - 1) in
  let remainder := Z.land x mask in
  let threshold := cast16 (Z.shiftr mask 1 + Z.land (mask_if (x <? 0)) 1) in
  cast16 (Z.shiftr x exponent + Z.land (mask_if (remainder >? threshold)) 1).

(* HardSwish<T> quantised reference, one element.  Parameters as in HardSwishParams:
   input_zero_point, output_zero_point, reluish_multiplier_fixedpoint_int16, reluish_multiplier_exponent,
   output_multiplier_fixedpoint_int16, output_multiplier_exponent; qmin/qmax = numeric_limits<T> *)
Definition HardSwishRef (input_zero_point output_zero_point reluish_mult reluish_exp out_mult out_exp
                         qmin qmax input : Z) : Z :=
  let input_value := cast16 (input - input_zero_point) in
  let input_value_on_hires_input_scale := cast16 (input_value * Z.shiftl 1 7) in
  let input_value_on_preshift_output_scale := SRDHM16 input_value_on_hires_input_scale out_mult in
  let reluish_value := input_value_on_hires_input_scale in
  let reluish_value :=
    if reluish_exp >? 0 then SaturatingLeftShift16 reluish_value (reluish_exp - 1) else reluish_value in
  let reluish_value := SRDHM16 reluish_value reluish_mult in
  let reluish_value := if reluish_exp >? 0 then SaturatingLeftShift16 reluish_value 1 else reluish_value in
  let reluish_value :=
    if reluish_exp <? 0 then RoundingDivideByPOT16 reluish_value (- reluish_exp) else reluish_value in
  let reluish_value := cast16 (Z.shiftr (cast32 (reluish_value + Z.shiftl 1 15)) 1) in
  let preshift_output_value := SaturatingDoublingHighMul16 reluish_value input_value_on_preshift_output_scale in
  let output_value := RoundingDivideByPOT16 preshift_output_value (- out_exp) in
  let output_value := cast16 (output_value + output_zero_point) in
  let output_value := Z.min output_value qmax in
  let output_value := Z.max output_value qmin in
  output_value.

(* QuantizeLeakyRelu<T>, one element *)
Definition LeakyReluRef (input_offset output_offset mult_identity shift_identity mult_alpha shift_alpha
                         qmin qmax input : Z) : Z :=
  let input_value := cast32 (input - input_offset) in
  let unclamped_output :=
    if input_value >=? 0
    then cast32 (output_offset + MultiplyByQuantizedMultiplier input_value mult_identity shift_identity)
    else cast32 (output_offset + MultiplyByQuantizedMultiplier input_value mult_alpha shift_alpha) in
  Z.min qmax (Z.max qmin unclamped_output).

(* Prelu reference kernel (reference/prelu.h, 8-bit), one element, for an alpha tensor whose element is
   alpha_code with zero point alpha_zero_point:
     input_value = input_offset + input            (input_offset = -input zero point)
     alpha_value = alpha_offset + alpha_data[...]  (alpha_offset = -alpha zero point)
     output = input_value >= 0 ? MBQM(input_value, multiplier_1, shift_1)
                               : MBQM(input_value * alpha_value, multiplier_2, shift_2);  + output_offset; clamp *)
Definition PReluRef (input_zero_point output_zero_point alpha_zero_point alpha_code
                     mult_1 shift_1 mult_2 shift_2 qmin qmax input : Z) : Z :=
  let input_value := cast32 (input - input_zero_point) in
  let output_value :=
    if input_value >=? 0
    then MultiplyByQuantizedMultiplier input_value mult_1 shift_1
    else
      let alpha_value := cast32 (alpha_code - alpha_zero_point) in
      MultiplyByQuantizedMultiplier (cast32 (input_value * alpha_value)) mult_2 shift_2 in
  let output_value := cast32 (output_value + output_zero_point) in
  Z.min qmax (Z.max qmin output_value).

(* Requantize<T,T>, one element (reference/requantize.h) *)
Definition RequantizeRef (input_zero_point output_zero_point mult shift qmin qmax input : Z) : Z :=
  let input_v := cast32 (input - input_zero_point) in
  let output := cast32 (MultiplyByQuantizedMultiplier input_v mult shift + output_zero_point) in
  Z.max (Z.min output qmax) qmin.

(* ---------------------------------------------------------------------------------------------
   Hand models of Vela's integer-only table generators (tflite_graph_optimiser.py), written on top of
   the TRANSLATED fp_math functions (gen.GenFpMath), Python-int semantics; None = an assert/overflow.
   Tied to the real rewrites by correspondence (tools/checks/c19.py). *)

Definition obind {A B} (o : option A) (f : A -> option B) : option B :=
  match o with Some x => f x | None => None end.

Definition clampZ (lo hi v : Z) : Z := Z.min hi (Z.max lo v).

(* convert_lrelu_to_lut, one table entry; (identity_scale, identity_shift), (alpha_scale, alpha_shift)
   in Vela's convention, alpha_scalar as in op.attrs["alpha_scaling"] (1 otherwise) *)
Definition vela_lrelu_entry (zp_in zp_out identity_scale identity_shift alpha_scalar alpha_scale alpha_shift
                             qmin qmax x : Z) : option Z :=
  if x <? zp_in then
    obind (GenFpMath.multiply_by_quantized_multiplier (alpha_scalar * (x - zp_in)) alpha_scale alpha_shift)
          (fun r => Some (clampZ qmin qmax (zp_out + r)))
  else
    obind (GenFpMath.multiply_by_quantized_multiplier (x - zp_in) identity_scale identity_shift)
          (fun r => Some (clampZ qmin qmax (zp_out + r))).

(* convert_prelu (constant alpha, equal in every channel) followed by convert_lrelu_to_lut:
   convert_prelu stores op.attrs["alpha_scaling"] = (alpha.values.min() - alpha_zp, alpha_scale, alpha_shift) with
   (alpha_scale, alpha_shift) = elementwise_mul_scale(ifm_scale, alpha tensor scale, ofm_scale), and
   convert_lrelu_to_lut uses that triple for the negative half of the table *)
Definition vela_prelu_alpha_scalar (alpha_code alpha_zp : Z) : Z := alpha_code - alpha_zp.
Definition vela_prelu_entry (zp_in zp_out alpha_zp alpha_code identity_scale identity_shift alpha_scale alpha_shift
                             qmin qmax x : Z) : option Z :=
  vela_lrelu_entry zp_in zp_out identity_scale identity_shift (vela_prelu_alpha_scalar alpha_code alpha_zp)
                   alpha_scale alpha_shift qmin qmax x.

(* ---------------------------------------------------------------------------------------------
   convert_mul_max_to_abs_or_lrelu: Maximum(x, Mul(x, c)) with a constant scalar c, either operand order.
   A tensor as the rewrite sees it: the identity of its scale (a token: which float is read), zero point, and,
   for the constant, its quantised code. *)
Record qtensor := { q_scale : Z; q_zp : Z; q_code : Z }.

(* the decision: val = (code - zero_point) * scale of the constant (exact in float64: 9 bits x 24 bits);
   1 = LeakyRelu (0 <= val <= 1), 2 = Abs (val == -1), 0 = not rewritten *)
Definition mulmax_kind (code zp : Z) (scale : dyadic) : Z :=
  let val := dy_mul_int scale (code - zp) in
  if dy_leb (dy_of_Z 0) val && dy_leb val (dy_of_Z 1) then 1
  else if dy_leb (dy_of_Z (-1)) val && dy_leb val (dy_of_Z (-1)) then 2
  else 0.

(* the alpha_scaling attribute: (alpha_scalar, elementwise_mul_scale(ifm scale, CONSTANT's scale, Mul output scale)).
   `qs` stands for scaling.elementwise_mul_scale on the scale tokens; the Mul's operands are (mul_in1, mul_in2) in
   the order of the model file and `shared_first` says whether the feature map is the first of them:
   const_tens = (set(mul.inputs) - {shared_in}).pop() *)
Definition mulmax_alpha_scaling (qs : Z -> Z -> Z -> Z * Z) (ifm mul_in1 mul_in2 mul_ofm : qtensor)
                                (shared_first : bool) : Z * (Z * Z) :=
  let const_tens := if shared_first then mul_in2 else mul_in1 in
  (q_code const_tens - q_zp const_tens, qs (q_scale ifm) (q_scale const_tens) (q_scale mul_ofm)).

(* ... followed by convert_lrelu -> convert_lrelu_to_lut (identity multiplier from (ifm, 1, ofm) scales) *)
Definition vela_mulmax_entry (qs : Z -> Z -> Z -> Z * Z) (ifm mul_in1 mul_in2 mul_ofm : qtensor) (shared_first : bool)
                             (zp_out identity_scale identity_shift qmin qmax x : Z) : option Z :=
  let '(alpha_scalar, (alpha_scale, alpha_shift)) := mulmax_alpha_scaling qs ifm mul_in1 mul_in2 mul_ofm shared_first in
  vela_lrelu_entry (q_zp ifm) zp_out identity_scale identity_shift alpha_scalar alpha_scale alpha_shift qmin qmax x.

(* convert_hardswish_to_lut, one table entry, from the already quantised scales
   (out_scale, out_shift) = quantise_scale(ifm_scale/128/ofm_scale),
   (relu_scale, relu_shift) = quantise_scale(ifm_scale/128/(3/32768)) *)
Definition vela_hardswish_entry (zp_in zp_out out_scale out_shift relu_scale relu_shift qmin qmax x : Z)
  : option Z :=
  obind (GenFpMath.downscale_multiplier_int32_to_int16 out_scale) (fun out_scale_16 =>
  obind (GenFpMath.downscale_multiplier_int32_to_int16 relu_scale) (fun relu_scale_16 =>
  let input_value := x - zp_in in
  let input_value_hires := input_value * 128 in
  obind (GenFpMath.saturating_rounding_mul16 input_value_hires out_scale_16) (fun input_value_preshift =>
  obind (chk_int 16 input_value_hires) (fun relu_value =>
  obind (if relu_shift <? 31 then GenFpMath.shift_left16 relu_value (30 - relu_shift) else Some relu_value)
        (fun relu_value =>
  obind (GenFpMath.saturating_rounding_mul16 relu_value relu_scale_16) (fun relu_value =>
  obind (if relu_shift <? 31 then GenFpMath.shift_left16 relu_value 1 else Some relu_value) (fun relu_value =>
  obind (if relu_shift >? 31 then GenFpMath.rounding_divide_by_pot relu_value (relu_shift - 31)
         else Some relu_value) (fun relu_value =>
  let relu_value := Z.shiftr (relu_value + Z.shiftl 1 15) 1 in
  obind (GenFpMath.saturating_mul16 relu_value input_value_preshift) (fun lut_result =>
  let shift := 31 - out_shift in
  let shift := if shift <? 0 then - shift else 0 in
  obind (GenFpMath.rounding_divide_by_pot lut_result shift) (fun r =>
  Some (clampZ qmin qmax (r + zp_out)))))))))))).

(* ---------------------------------------------------------------------------------------------
   NumPy-2 evaluation of shift_left16 when `a` arrives as np.int16 (convert_hardswish_to_lut passes
   np.int16(input_value_hires)).
   Code as it exists now (/repo d51cb08): `shifted = int(a) * (1 << offset)` -- the operand is widened to a Python
   int first, so the evaluation on an np.int16 operand IS the Python-int evaluation, i.e. the translated function.
   Tied to the real function on np.int16 operands by correspondence (CMD shl16np). *)
Definition np_shift_left16_int16 (a offset : Z) : option Z := GenFpMath.shift_left16 a offset.

(* The expression before d51cb08, `shifted = a * (1 << offset)` with a : np.int16: the Python int is converted to
   int16 (OverflowError when it does not fit) and the product wraps in int16 (RuntimeWarning only); the two
   saturation tests then never fire.  Kept as the record of the repaired defect. *)
Definition np_shift_left16_int16_old (a offset : Z) : option Z :=
  if offset >=? 0 then
    if in_int 16 a then
      obind (chk_int 16 (Z.shiftl 1 offset)) (fun k =>
        let shifted := cast16 (a * k) in
        if shifted <? -32768 then Some (-32768)
        else if shifted >? 32767 then Some 32767
        else Some shifted)
    else None
  else None.

(* optimise_quantize, same-width requantisation of one constant *)
Definition vela_requant_entry (zp_in zp_out mult shift qmin qmax v : Z) : option Z :=
  obind (GenFpMath.multiply_by_quantized_multiplier (v - zp_in) mult shift)
        (fun r => Some (Z.max (Z.min (r + zp_out) qmax) qmin)).
