(* C04 model (device H) of register_command_stream_util.calc_blockdep and the helpers it uses:
   get_strides, get_address, get_address_range(s), get_address_ranges_for_area, ranges_overlap,
   range_lists_overlap, coords_intersect, intersects, get_offset_block_coords,
   get_first_job_input_volume, get_prev_job_output_volume, ArchitectureFeatures.calc_ifm_block_depth
   and get_ifm_block_size.  The double loop is written once over ABSTRACT job volumes
   ([blockdep_loop], section Loop) and then instantiated with the concrete geometry.
   Executable definitions only; proofs in proofs/WaitsProofs.v (section Blockdep).
   Python ints are Z; // and % are Z.div / Z.modulo. AssertionError = None. *)
From Coq Require Import ZArith List Bool.
From VV Require Import model.RangeSet.
Import ListNotations.
Open Scope Z_scope.

(* ------------------------------------------------------------------ the double loop *)
Section Loop.
  Variable area : Type.
  Variable first_job : Z -> option area.   (* get_first_job_input_volume(..., forward_offset) *)
  Variable prev_job : Z -> option area.    (* get_prev_job_output_volume(..., block_offset) *)
  Variable meets : area -> area -> bool.   (* intersects(overlapping_fm, in_area, prev_op.ofm, out_area) *)
  Variable maxdep : Z.                     (* ArchitectureFeatures.MAX_BLOCKDEP *)

  (* for block_offset in range(MAX_BLOCKDEP): ... ; returns outstanding_jobs *)
  Fixpoint inner_loop (n : nat) (b : Z) (outstanding : Z) (ia : area) : Z :=
    match n with
    | O => outstanding
    | S n' =>
        match prev_job b with
        | None => outstanding
        | Some oa =>
            if meets ia oa then outstanding
            else if outstanding >? maxdep then outstanding
            else inner_loop n' (b + 1) (outstanding + 1) ia
        end
    end.

  (* for forward_offset in range(MAX_BLOCKDEP): ... ; returns blockdep *)
  Fixpoint outer_loop (n : nat) (f : Z) (elapsed : Z) (blockdep : Z) : Z :=
    match n with
    | O => blockdep
    | S n' =>
        match first_job f with
        | None => blockdep
        | Some ia =>
            let o := inner_loop (Z.to_nat maxdep) 0 0 ia in
            let bd := Z.min blockdep (elapsed + o) in
            let el := elapsed + 1 in
            if el >? maxdep then bd else outer_loop n' (f + 1) el bd
        end
    end.

  Definition blockdep_loop : Z := outer_loop (Z.to_nat maxdep) 0 0 maxdep.
End Loop.

(* ------------------------------------------------------------------ feature maps, addresses *)
Record fmap := {
  fm_region : Z; fm_h : Z; fm_w : Z; fm_d : Z;
  fm_h0 : Z; fm_h1 : Z; fm_w0 : Z; fm_a0 : Z; fm_a1 : Z; fm_a2 : Z; fm_a3 : Z;
  fm_b16 : bool; fm_elem : Z;
  fm_has_strides : bool; fm_sh : Z; fm_sw : Z; fm_sd : Z }.

Definition round_up (a b : Z) : Z := ((a + b - 1) / b) * b.
Definition round_up_divide (a b : Z) : Z := (a + b - 1) / b.

(* get_strides -> (height = stride_y, width = stride_x, depth = stride_c) *)
Definition get_strides (fm : fmap) : Z * Z * Z :=
  if fm_has_strides fm then (fm_sh fm, fm_sw fm, fm_sd fm)
  else if fm_b16 fm then
    let sx := 16 * fm_elem fm in
    (fm_elem fm * fm_w fm * round_up (fm_d fm) 16, sx, sx * fm_w fm)
  else
    let sc := fm_elem fm in
    let sx := fm_d fm * sc in
    (fm_w fm * sx, sx, sc).

Definition get_address (fm : fmap) (st : Z * Z * Z) (y x c : Z) : Z :=
  let '(s_h, s_w, s_d) := st in
  let stride_c := if fm_b16 fm then s_d else 16 * fm_elem fm in
  let stride_x := if fm_b16 fm then 16 * fm_elem fm else s_w in
  let '(base, y', x') :=
    if fm_w0 fm <=? x then
      (if fm_h1 fm <=? y then (fm_a3 fm, y - fm_h1 fm, x - fm_w0 fm) else (fm_a1 fm, y, x - fm_w0 fm))
    else
      (if fm_h0 fm <=? y then (fm_a2 fm, y - fm_h0 fm, x) else (fm_a0 fm, y, x)) in
  base + y' * s_h + x' * stride_x + (c / 16) * stride_c + (c mod 16) * fm_elem fm.

Definition arange := (Z * Z * Z)%type.      (* region, address, length *)

Definition get_address_range (fm : fmap) (st : Z * Z * Z) (y0 x0 c0 y1 x1 c1 : Z) : arange :=
  let a0 := get_address fm st y0 x0 c0 in
  let a1 := get_address fm st y1 x1 c1 in
  (fm_region fm, a0, a1 - a0 + fm_elem fm).

(* 4 address ranges, one per tile, None if the tile is not in use *)
Definition get_address_ranges (fm : fmap) : list (option arange) :=
  let st := get_strides fm in
  let t0 := get_address_range fm st 0 0 0 (Z.min (fm_h fm) (fm_h0 fm) - 1) (Z.min (fm_w fm) (fm_w0 fm) - 1) (fm_d fm - 1) in
  let t1 := if fm_w fm >? fm_w0 fm
            then Some (get_address_range fm st 0 (fm_w0 fm) 0 (Z.min (fm_h fm) (fm_h1 fm) - 1) (fm_w fm - 1) (fm_d fm - 1))
            else None in
  let t2 := if fm_h fm >? fm_h0 fm
            then Some (get_address_range fm st (fm_h0 fm) 0 0 (fm_h fm - 1) (Z.min (fm_w fm) (fm_w0 fm) - 1) (fm_d fm - 1))
            else None in
  let t3 := if (fm_w fm >? fm_w0 fm) && (fm_h fm >? fm_h1 fm)
            then Some (get_address_range fm st (fm_h1 fm) (fm_w0 fm) 0 (fm_h fm - 1) (fm_w fm - 1) (fm_d fm - 1))
            else None in
  [Some t0; t1; t2; t3].

(* the function as it was before repo commit de3dc4c (tile 3 reported only when tiles 1 AND 2 are
   in use); kept only for the refutation witness footprint_overapprox_old_code_refuted *)
Definition get_address_ranges_old (fm : fmap) : list (option arange) :=
  let st := get_strides fm in
  let t0 := get_address_range fm st 0 0 0 (Z.min (fm_h fm) (fm_h0 fm) - 1) (Z.min (fm_w fm) (fm_w0 fm) - 1) (fm_d fm - 1) in
  let t1 := if fm_w fm >? fm_w0 fm
            then Some (get_address_range fm st 0 (fm_w0 fm) 0 (Z.min (fm_h fm) (fm_h1 fm) - 1) (fm_w fm - 1) (fm_d fm - 1))
            else None in
  let t2 := if fm_h fm >? fm_h0 fm
            then Some (get_address_range fm st (fm_h0 fm) 0 0 (fm_h fm - 1) (Z.min (fm_w fm) (fm_w0 fm) - 1) (fm_d fm - 1))
            else None in
  let t3 := match t1, t2 with
            | Some _, Some _ => Some (get_address_range fm st (fm_h1 fm) (fm_w0 fm) 0 (fm_h fm - 1) (fm_w fm - 1) (fm_d fm - 1))
            | _, _ => None
            end in
  [Some t0; t1; t2; t3].

(* numeric_util.overlaps on [address, address + length) of equal regions *)
Definition ranges_overlap (r1 r2 : arange) : bool :=
  let '(g1, a1, l1) := r1 in let '(g2, a2, l2) := r2 in
  (g1 =? g2) && (a1 <? a2 + l2) && (a2 <? a1 + l1).

Definition range_lists_overlap (l1 l2 : list (option arange)) : bool :=
  existsb (fun o1 => match o1 with
                     | Some r1 => existsb (fun o2 => match o2 with Some r2 => ranges_overlap r1 r2 | None => false end) l2
                     | None => false end) l1.

Fixpoint zrange (n : nat) (a : Z) : list Z :=
  match n with O => [] | S n' => a :: zrange n' (a + 1) end.

(* [get_address_range(fm, strides, y, x0, c0, y, x1, c1) for y in range(y0, y1 + 1)] *)
Definition get_h_ranges (fm : fmap) (st : Z * Z * Z) (y0 x0 c0 y1 x1 c1 : Z) : list (option arange) :=
  map (fun y => Some (get_address_range fm st y x0 c0 y x1 c1)) (zrange (Z.to_nat (y1 + 1 - y0)) y0).

Definition point := (Z * Z * Z)%type.       (* PointXYZ x y z *)
Definition px (p : point) := fst (fst p).
Definition py (p : point) := snd (fst p).
Definition pz (p : point) := snd p.

Definition get_address_ranges_for_area (fm : fmap) (st_ en : point) : list (option arange) :=
  let st := get_strides fm in
  let y0 := py st_ in let x0 := px st_ in let c0 := pz st_ in
  let y1 := Z.min (py en) (fm_h fm - 1) in
  let x1 := Z.min (px en) (fm_w fm - 1) in
  let c1 := Z.min (pz en) (fm_d fm - 1) in
  (if (x0 <? fm_w0 fm) && (y0 <? fm_h0 fm)
   then get_h_ranges fm st y0 x0 c0 (Z.min y1 (fm_h0 fm - 1)) (Z.min x1 (fm_w0 fm - 1)) c1 else []) ++
  (if (fm_w0 fm <=? x1) && (y0 <? fm_h1 fm)
   then get_h_ranges fm st y0 (Z.max x0 (fm_w0 fm)) c0 (Z.min y1 (fm_h1 fm - 1)) x1 c1 else []) ++
  (if (x0 <? fm_w0 fm) && (fm_h0 fm <=? y1)
   then get_h_ranges fm st (Z.max y0 (fm_h0 fm)) x0 c0 y1 (Z.min x1 (fm_w0 fm - 1)) c1 else []) ++
  (if (fm_w0 fm <=? x1) && (fm_h1 fm <=? y1)
   then get_h_ranges fm st (Z.max y0 (fm_h1 fm)) (Z.max x0 (fm_w0 fm)) c0 y1 x1 c1 else []).

Definition coords_intersect (sa ea sb eb : point) : bool :=
  (0 <? Z.min (px ea) (px eb) - Z.max (px sa) (px sb)) &&
  (0 <? Z.min (py ea) (py eb) - Z.max (py sa) (py sb)) &&
  (0 <? Z.min (pz ea) (pz eb) - Z.max (pz sa) (pz sb)).

(* ifm.shape == prev_ofm.shape and ifm.tiles == prev_ofm.tiles *)
Definition same_shape_tiles (a b : fmap) : bool :=
  (fm_h a =? fm_h b) && (fm_w a =? fm_w b) && (fm_d a =? fm_d b) &&
  (fm_h0 a =? fm_h0 b) && (fm_h1 a =? fm_h1 b) && (fm_w0 a =? fm_w0 b) &&
  (fm_a0 a =? fm_a0 b) && (fm_a1 a =? fm_a1 b) && (fm_a2 a =? fm_a2 b) && (fm_a3 a =? fm_a3 b).

Definition vol := (point * point)%type.      (* start, end *)

Definition intersects (ifm : fmap) (ia : vol) (prev_ofm : fmap) (oa : vol) : bool :=
  if same_shape_tiles ifm prev_ofm then coords_intersect (fst ia) (snd ia) (fst oa) (snd oa)
  else range_lists_overlap (get_address_ranges_for_area ifm (fst ia) (snd ia))
                           (get_address_ranges_for_area prev_ofm (fst oa) (snd oa)).

(* ------------------------------------------------------------------ block coordinates *)
(* area = Rect(0,0,0,w-1,h-1,d-1) given by its size; block (w,h,d) *)
Definition get_offset_block_coords (aw ah ad bw bh bd offset : Z) : option point :=
  let wb := round_up_divide aw bw in
  let hb := round_up_divide ah bh in
  let db := round_up_divide ad bd in
  let total := wb * hb * db in
  let index := if offset <? 0 then total + offset else offset in
  if total <=? index then None
  else Some (bw * ((index / db) mod wb), bh * (index / (db * wb)), bd * (index mod db)).

Record archp := { ar_ublock_w : Z; ar_ublock_h : Z; ar_ublock_d : Z; ar_reserved_unused : Z; ar_maxdep : Z }.

Record curop := {
  co_conv : bool; co_ifm_bits : Z;
  co_ifm : fmap; co_has_ifm2 : bool; co_ifm2 : fmap;
  co_oh : Z; co_ow : Z; co_od : Z;
  co_lut : bool; co_bh : Z; co_bw : Z; co_bd : Z;
  co_kw : Z; co_kh : Z; co_sx : Z; co_sy : Z; co_dx : Z; co_dy : Z;
  co_pt : Z; co_pl : Z; co_pb : Z; co_pr : Z }.

Record prevop := { po_ofm : fmap; po_lut : bool; po_bh : Z; po_bw : Z; po_bd : Z }.

(* ArchitectureFeatures.calc_ifm_block_depth *)
Definition calc_ifm_block_depth (ar : archp) (ifm_depth ifm_bits : Z) : option Z :=
  if ((ifm_bits =? 8) || (ifm_bits =? 16) || (ifm_bits =? 32)) && (0 <? ifm_depth)
  then Some (Z.min (8 * 32 / ifm_bits) (round_up ifm_depth (ar_ublock_d ar)))
  else None.

(* get_ifm_ofm_block_depth *)
Definition get_ifm_ofm_block_depth (ar : archp) (c : curop) : option Z :=
  if co_conv c then calc_ifm_block_depth ar (fm_d (co_ifm c)) (co_ifm_bits c) else Some (co_od c).

(* arch.get_ifm_block_size(ifm_block_depth, ofm_block, kernel, arch.ofm_block_max) : the 4th
   argument (Block(64, 32, 128)) is bound to the parameter `subkernel` *)
Definition ifm_block_wh (ar : archp) (c : curop) : Z * Z :=
  let dkh := (co_kh c - 1) * co_dy c + 1 in
  let dkw := (co_kw c - 1) * co_dx c + 1 in
  (round_up ((co_bw c - 1) * co_sx c + Z.min 64 dkw) (ar_ublock_w ar),
   round_up ((co_bh c - 1) * co_sy c + Z.min 32 dkh) (ar_ublock_h ar)).

Definition get_first_job_input_volume (ar : archp) (c : curop) (ibd : Z) (off : Z) : option vol :=
  let '(ibw, ibh) := ifm_block_wh ar c in
  let idb := round_up_divide (fm_d (co_ifm c)) ibd in
  match get_offset_block_coords (co_ow c) (co_oh c) (co_od c) (co_bw c) (co_bh c) (co_bd c) (off / idb) with
  | None => None
  | Some oc =>
      let x := Z.max 0 (px oc * co_sx c - co_pl c) in
      let y := Z.max 0 (py oc * co_sy c - co_pt c) in
      let z := (off mod idb) * ibd in
      Some ((x, y, z), (x + ibw, y + ibh, z + ibd))
  end.

Definition get_prev_job_output_volume (p : prevop) (off : Z) : option vol :=
  let o := po_ofm p in
  match get_offset_block_coords (fm_w o) (fm_h o) (fm_d o) (po_bw p) (po_bh p) (po_bd p) (-1 - off) with
  | None => None
  | Some s => Some (s, (px s + po_bw p, py s + po_bh p, pz s + po_bd p))
  end.

Definition shape_size (f : fmap) : Z := fm_w f * fm_h f * fm_d f.

(* the double loop of calc_blockdep for the overlapping feature map [fm] (IFM or IFM2) *)
Definition blockdep_core (ar : archp) (p : prevop) (c : curop) (fm : fmap) (ibd : Z) : Z :=
  blockdep_loop vol
    (get_first_job_input_volume ar c ibd)
    (get_prev_job_output_volume p)
    (fun ia oa => intersects fm ia (po_ofm p) oa)
    (ar_maxdep ar).

(* calc_blockdep(arch, prev_op, npu_op); None = AssertionError *)
Definition calc_blockdep (ar : archp) (prev : option prevop) (c : curop) : option Z :=
  match prev with
  | None => Some 0
  | Some p =>
      if po_lut p && (ar_reserved_unused ar =? 0) && negb (co_lut c) then Some 0
      else
        let pr := get_address_ranges (po_ofm p) in
        let ifm_ov := range_lists_overlap pr (get_address_ranges (co_ifm c)) in
        let ifm2_ov := if co_has_ifm2 c then range_lists_overlap pr (get_address_ranges (co_ifm2 c)) else false in
        if ifm_ov && ifm2_ov then Some 0
        else if negb ifm_ov && negb ifm2_ov then Some (ar_maxdep ar)
        else if ifm2_ov && (shape_size (co_ifm2 c) <? shape_size (co_ifm c)) then Some 0
        else
          match get_ifm_ofm_block_depth ar c with
          | None => None
          | Some ibd => Some (blockdep_core ar p c (if ifm_ov then co_ifm c else co_ifm2 c) ibd)
          end
  end.

(* ------------------------------------------------------------------ get_op_memory_accesses *)
(* memory_range_set(range) = MemoryRangeSet(region, address, address + length); res.add(..., direction) *)
Definition add_arange (x : option maset) (o : option arange) (w : bool) : option maset :=
  match x, o with
  | None, _ => None
  | Some m, None => Some m                      (* "if read_range is not None" *)
  | Some m, Some (rg, a, l) =>
      match mrs_new rg a (a + l) with Some s => Some (ma_add m s w) | None => None end
  end.

(* read_ranges = ranges(ifm) [+ ranges(ifm2)] + weights + biases [+ LUT] ; write_ranges = ranges(ofm) + [SHRAM];
   the feature maps are given as lists, the plain ranges (weights, biases, LUT, SHRAM) as they are *)
Definition op_accesses (read_fms : list fmap) (read_rs : list arange) (write_fms : list fmap) (write_rs : list arange)
  : option maset :=
  let reads := flat_map get_address_ranges read_fms ++ map Some read_rs in
  let writes := flat_map get_address_ranges write_fms ++ map Some write_rs in
  fold_left (fun x o => add_arange x o true) writes (fold_left (fun x o => add_arange x o false) reads (Some ma_empty)).

(* ------------------------------------------------------------------ flat interface *)
Definition parse_fm (l : list Z) : option (fmap * list Z) :=
  match l with
  | rg :: h :: w :: d :: h0 :: h1 :: w0 :: a0 :: a1 :: a2 :: a3 :: b16 :: el :: hs :: sh :: sw :: sd :: t =>
      Some ({| fm_region := rg; fm_h := h; fm_w := w; fm_d := d; fm_h0 := h0; fm_h1 := h1; fm_w0 := w0;
               fm_a0 := a0; fm_a1 := a1; fm_a2 := a2; fm_a3 := a3; fm_b16 := negb (b16 =? 0); fm_elem := el;
               fm_has_strides := negb (hs =? 0); fm_sh := sh; fm_sw := sw; fm_sd := sd |}, t)
  | _ => None
  end.

(* maxdep ublock_w ublock_h ublock_d reserved_unused has_prev
   [prev: ofm(17) lut bh bw bd]
   cur: conv ifm_bits ifm(17) has_ifm2 ifm2(17) oh ow od lut bh bw bd kw kh sx sy dx dy pt pl pb pr
   -> [1; blockdep] | [0] (assertion) | [-1] (malformed) *)
Definition run_blockdep_case (a : list Z) : list Z :=
  match a with
  | md :: uw :: uh :: ud :: ru :: hp :: t =>
      let ar := {| ar_ublock_w := uw; ar_ublock_h := uh; ar_ublock_d := ud; ar_reserved_unused := ru; ar_maxdep := md |} in
      match parse_fm t with
      | Some (pofm, pl :: pbh :: pbw :: pbd :: cv :: bits :: t1) =>
          match parse_fm t1 with
          | Some (ifm, h2 :: t2) =>
              match parse_fm t2 with
              | Some (ifm2, [oh; ow; od; cl; bh; bw; bd; kw; kh; sx; sy; dx; dy; pt; pl_; pb; pr]) =>
                  let p := {| po_ofm := pofm; po_lut := negb (pl =? 0); po_bh := pbh; po_bw := pbw; po_bd := pbd |} in
                  let c := {| co_conv := negb (cv =? 0); co_ifm_bits := bits; co_ifm := ifm;
                              co_has_ifm2 := negb (h2 =? 0); co_ifm2 := ifm2; co_oh := oh; co_ow := ow; co_od := od;
                              co_lut := negb (cl =? 0); co_bh := bh; co_bw := bw; co_bd := bd;
                              co_kw := kw; co_kh := kh; co_sx := sx; co_sy := sy; co_dx := dx; co_dy := dy;
                              co_pt := pt; co_pl := pl_; co_pb := pb; co_pr := pr |} in
                  match calc_blockdep ar (if hp =? 0 then None else Some p) c with
                  | Some k => [1; k]
                  | None => [0]
                  end
              | _ => [-1]
              end
          | _ => [-1]
          end
      | _ => [-1]
      end
  | _ => [-1]
  end.
