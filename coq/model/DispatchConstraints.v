(* Flat integer interface of the C16 models for the correspondence harness (tools/checks/c16.py).
   Encoding of an operator's parameters (the accessor table of tools/constraints2gallina.py, in PARAM_ORDER):
     stride_w stride_h kernel_w kernel_h dilation_w dilation_h padding depth_multiplier
     ifm_shape ifm2_shape ofm_shape in0_shape axis                (each list: n x1 .. xn)
     has_ifm has_ifm2 has_bias bias_is_int64 bias_has_values      (0/1)
     bias_values                                                  (list)
     weights_sum_max ifm_is_int16 ifm_is_uint8 align_corners half_pixel_centers
     tensor_shapes                                                (m, then m lists)
   Results of predicates: 1 true, 0 false, 2 the constraint function raises. *)
From Coq Require Import ZArith List Bool.
From VV Require Import lib.PyInt gen.GenConstraints model.Constraints.
Import ListNotations.
Open Scope Z_scope.

Fixpoint take (n : nat) (a : list Z) : list Z * list Z :=
  match n, a with
  | S n', x :: t => let '(xs, r) := take n' t in (x :: xs, r)
  | _, _ => ([], a)
  end.
Definition take_list (a : list Z) : list Z * list Z :=
  match a with n :: t => take (Z.to_nat n) t | [] => ([], []) end.
Fixpoint take_lists (m : nat) (a : list Z) : list (list Z) * list Z :=
  match m with
  | O => ([], a)
  | S m' => let '(l, r) := take_list a in let '(ls, r') := take_lists m' r in (l :: ls, r')
  end.
Definition zb (z : Z) : bool := negb (z =? 0).
Definition bz (b : bool) : Z := if b then 1 else 0.
Definition obz (o : option bool) : Z := match o with Some b => bz b | None => 2 end.

Record params := {
  p_stride_w : Z; p_stride_h : Z; p_kernel_w : Z; p_kernel_h : Z; p_dilation_w : Z; p_dilation_h : Z; p_padding : Z;
  p_depth_multiplier : Z; p_ifm_shape : list Z; p_ifm2_shape : list Z; p_ofm_shape : list Z; p_in0_shape : list Z;
  p_axis : list Z; p_has_ifm : bool; p_has_ifm2 : bool; p_has_bias : bool; p_bias_is_int64 : bool; p_bias_has_values : bool;
  p_bias_values : list Z; p_weights_sum_max : Z; p_ifm_is_int16 : bool; p_ifm_is_uint8 : bool; p_align_corners : bool;
  p_half_pixel_centers : bool; p_tensor_shapes : list (list Z) }.

Definition decode (a : list Z) : option params :=
  match a with
  | sw :: sh :: kw :: kh :: dw :: dh :: pad :: dm :: t =>
      let '(ifm, t) := take_list t in let '(ifm2, t) := take_list t in let '(ofm, t) := take_list t in
      let '(in0, t) := take_list t in let '(axis, t) := take_list t in
      match t with
      | hi :: hi2 :: hb :: b64 :: bhv :: t =>
          let '(bv, t) := take_list t in
          match t with
          | wsm :: i16 :: u8 :: al :: hp :: m :: t =>
              let '(ts, _) := take_lists (Z.to_nat m) t in
              Some {| p_stride_w := sw; p_stride_h := sh; p_kernel_w := kw; p_kernel_h := kh; p_dilation_w := dw;
                      p_dilation_h := dh; p_padding := pad; p_depth_multiplier := dm; p_ifm_shape := ifm;
                      p_ifm2_shape := ifm2; p_ofm_shape := ofm; p_in0_shape := in0; p_axis := axis;
                      p_has_ifm := zb hi; p_has_ifm2 := zb hi2; p_has_bias := zb hb; p_bias_is_int64 := zb b64;
                      p_bias_has_values := zb bhv; p_bias_values := bv; p_weights_sum_max := wsm;
                      p_ifm_is_int16 := zb i16; p_ifm_is_uint8 := zb u8; p_align_corners := zb al;
                      p_half_pixel_centers := zb hp; p_tensor_shapes := ts |}
          | _ => None
          end
      | _ => None
      end
  | _ => None
  end.

(* the translated predicate number f (its position in WANTED of tools/constraints2gallina.py) *)
Definition pred (f : Z) (p : params) : Z :=
  match f with
  | 0 => bz (constraint_tens_dimension (p_tensor_shapes p))
  | 1 => bz (constraint_stride_range (p_stride_w p) (p_stride_h p))
  | 2 => bz (constraint_dilated_height_range (p_kernel_h p) (p_dilation_h p))
  | 3 => bz (constraint_dilated_product_range (p_kernel_w p) (p_kernel_h p) (p_dilation_w p) (p_dilation_h p))
  | 4 => bz (constraint_weights_limit (p_weights_sum_max p))
  | 5 => bz (constraint_bias_40bit (p_has_bias p) (p_bias_is_int64 p) (p_bias_has_values p) (p_bias_values p))
  | 6 => bz (constraint_batch_size (p_ifm_shape p) (p_ifm2_shape p) (p_has_ifm p) (p_has_ifm2 p))
  | 7 => bz (constraint_depth_multiplier (p_depth_multiplier p) (p_ifm_shape p) (p_ofm_shape p))
  | 8 => bz (constraint_stride_width_no_upper_limit (p_stride_w p) (p_stride_h p) (p_ifm_shape p) (p_ofm_shape p))
  | 9 => bz (constraint_stride_range_no_padding (p_stride_w p) (p_stride_h p) (p_padding p) (p_ifm_shape p) (p_ofm_shape p))
  | 10 => bz (constraint_depthwise_conv_stride (p_stride_w p) (p_stride_h p))
  | 11 => bz (constraint_tconv_stride (p_stride_w p) (p_stride_h p) (p_kernel_h p) (p_ifm_shape p))
  | 12 => bz (constraint_tconv_same (p_stride_w p) (p_stride_h p) (p_padding p) (p_ifm_shape p) (p_ofm_shape p))
  | 13 => bz (constraint_tconv_valid (p_stride_w p) (p_stride_h p) (p_kernel_w p) (p_kernel_h p) (p_padding p) (p_ifm_shape p) (p_ofm_shape p))
  | 14 => bz (constraint_filter_range (p_stride_w p) (p_stride_h p) (p_kernel_w p) (p_kernel_h p) (p_padding p))
  | 15 => bz (constraint_filter_height_range (p_kernel_h p))
  | 16 => bz (constraint_filter_product_range (p_kernel_w p) (p_kernel_h p))
  | 17 => bz (constraint_filter_height_range_valid_pad (p_kernel_h p) (p_padding p))
  | 18 => bz (constraint_filter_product_range_valid_pad (p_kernel_w p) (p_kernel_h p) (p_padding p))
  | 19 => obz (constraint_resize (p_ifm_shape p) (p_ofm_shape p) (p_align_corners p))
  | 20 => obz (constraint_resizebi_half_pixel_centers_dims (p_ifm_shape p) (p_ofm_shape p) (p_half_pixel_centers p))
  | 21 => bz (constraint_mean_height_width_product (p_in0_shape p) (p_axis p) (p_ifm_is_int16 p) (p_ifm_is_uint8 p))
  | 22 => bz (constraint_mean_width (p_in0_shape p) (p_axis p))
  | 23 => bz (constraint_mean_depth (p_in0_shape p) (p_axis p))
  | 24 => bz (constraint_argmax_depth (p_in0_shape p))
  | _ => -1
  end.

(* the documented reading of the same constraint (3 = no independent reading is claimed for it) *)
Definition docp (f : Z) (p : params) : Z :=
  match f with
  | 0 => bz (doc_tens_dimension (p_tensor_shapes p))
  | 1 => bz (doc_stride_range (p_stride_w p) (p_stride_h p))
  | 2 => bz (doc_dilated_height_range (p_kernel_h p) (p_dilation_h p))
  | 3 => bz (doc_dilated_product_range (p_kernel_w p) (p_kernel_h p) (p_dilation_w p) (p_dilation_h p))
  | 4 => bz (doc_weights_limit (p_weights_sum_max p))
  | 5 => bz (doc_bias_40bit (p_has_bias p) (p_bias_is_int64 p) (p_bias_has_values p) (p_bias_values p))
  | 6 => bz (doc_batch_size (p_ifm_shape p) (p_ifm2_shape p) (p_has_ifm p) (p_has_ifm2 p))
  | 7 => bz (doc_depth_multiplier (p_depth_multiplier p) (p_ifm_shape p) (p_ofm_shape p))
  | 8 => bz (doc_stride_width_no_upper_limit (p_stride_w p) (p_stride_h p) (py_nth (p_ifm_shape p) 2) (py_nth (p_ofm_shape p) 1) (py_nth (p_ofm_shape p) 2))
  | 9 => bz (constraint_stride_width_no_upper_limit (p_stride_w p) (p_stride_h p) (p_ifm_shape p) (p_ofm_shape p) &&
             doc_stride_range_no_padding (p_stride_w p) (p_padding p))   (* as in constraint_matches_doc_stride_range_no_padding *)
  | 10 => bz (doc_depthwise_conv_stride (p_stride_w p) (p_stride_h p))
  | 11 => bz (doc_tconv_stride (p_stride_w p) (p_stride_h p) (p_kernel_h p) (py_nth (p_ifm_shape p) 1))
  | 12 => bz (doc_tconv_same (p_stride_w p) (p_stride_h p) (p_padding p) (p_ifm_shape p) (p_ofm_shape p))
  | 13 => bz (spec_tconv_valid (p_stride_w p) (p_stride_h p) (p_kernel_w p) (p_kernel_h p) (p_padding p) (p_ifm_shape p) (p_ofm_shape p))
  | 14 => bz (doc_filter_range (p_kernel_w p) (p_kernel_h p))
  | 15 => bz (doc_filter_height_range (p_kernel_h p))
  | 16 => bz (doc_filter_product_range (p_kernel_w p) (p_kernel_h p))
  | 17 => bz (doc_filter_height_range_valid_pad (p_kernel_h p) (p_padding p))
  | 18 => bz (doc_filter_product_range_valid_pad (p_kernel_w p) (p_kernel_h p) (p_padding p))
  | 19 => bz (doc_resize (p_ifm_shape p) (p_ofm_shape p) (p_align_corners p))
  | 20 => bz (doc_resizebi_half_pixel_centers_dims (p_ifm_shape p) (p_ofm_shape p) (p_half_pixel_centers p))
  | 21 => bz (doc_mean_height_width_product (p_in0_shape p) (p_axis p) (p_ifm_is_int16 p) (p_ifm_is_uint8 p))
  | 22 => bz (doc_mean_width (p_in0_shape p) (p_axis p))
  | 23 => bz (doc_mean_depth (p_in0_shape p) (p_axis p))
  | 24 => bz (doc_argmax_depth (p_in0_shape p))
  | _ => 3
  end.

(* CMD pred = 1 : f params -> [value of the translated predicate; value of the documented reading] *)
Definition run_pred (a : list Z) : list Z :=
  match a with
  | f :: t => match decode t with Some p => [pred f p; docp f p] | None => [-2] end
  | [] => [-2]
  end.

(* answers of the constraint functions as a list of the ids that answer False *)
Definition res_of (failing : list Z) (c : Z) : bool := negb (mem c failing).

(* CMD supported = 2 : op nfail failing.. -> result ncalled called.. *)
Definition run_supported (a : list Z) : list Z :=
  match a with
  | op :: t => let '(failing, _) := take_list t in
               let '(b, called) := is_operator_supported (res_of failing) op in
               bz b :: Z.of_nat (List.length called) :: called
  | [] => [-2]
  end.
(* CMD semantic = 3 : op nfail failing.. -> result ncalled called.. *)
Definition run_semantic (a : list Z) : list Z :=
  match a with
  | op :: t => let '(failing, _) := take_list t in
               let '(b, called) := is_operator_semantic_valid (res_of failing) op in
               bz b :: Z.of_nat (List.length called) :: called
  | [] => [-2]
  end.
(* CMD listed = 4 : op -> the constraint ids the report must list for the operator type (generic then specific) *)
Definition run_listed (a : list Z) : list Z :=
  match a with
  | op :: _ => enforced_generic op ++ enforced_specific op
  | [] => [-2]
  end.
(* CMD helpers = 5 : ifm_width stride_x -> resize_factor optimised_stride ; dim-of-full_shape is covered through pred 6 *)
Definition run_helpers (a : list Z) : list Z :=
  match a with
  | w :: s :: _ => let '(r, o) := calc_resize_factor w s in [r; o]
  | _ => [-2]
  end.

(* CMD lstm = 6 : present(list) ranks(list) vars(list) ifm_rank ofm_rank n_inputs n_intermediates ->
     no_cifg no_peep_hole no_projection no_normalisation weights weight_dimensions dimensions inputs intermediates variables
     supported documented *)
Definition run_lstm (a : list Z) : list Z :=
  let '(present, t) := take_list a in let '(ranks, t) := take_list t in let '(vars, t) := take_list t in
  match t with
  | ir :: orank :: ni :: nm :: _ =>
      [bz (lstm_no_cifg present); bz (lstm_no_peep_hole present); bz (lstm_no_projection present); bz (lstm_no_normalisation present);
       bz (lstm_weights present); lstm_weight_dimensions ranks; bz (lstm_dimensions ir orank); bz (lstm_inputs ni);
       bz (lstm_intermediates nm); lstm_variables vars; bz (lstm_supported present ranks); bz (doc_lstm_supported present ranks)]
  | _ => [-2]
  end.

Definition run (cmd : Z) (a : list Z) : list Z :=
  match cmd with
  | 1 => run_pred a
  | 2 => run_supported a
  | 3 => run_semantic a
  | 4 => run_listed a
  | 5 => run_helpers a
  | 6 => run_lstm a
  | _ => [-3]
  end.
