(* Flat integer interface of model/Config.v for the correspondence harness (tools/checks/c18.py).
   Encodings:  text = tag value (tag 0 TInt, 1 TFrac, 2 TName)
               ini  = nsections { text noptions { key text } }
               result of a partial function: 1 payload | 0 errcode   (errcode 1 VelaError, 2 KeyError, 3 ValueError,
               4 IndexError, 5 RecursionError, 6 OverflowError; the SPEC has the single code 0)
               arch = core_clock axi0 axi1 scales[6] bursts[6] rlats[6] wlats[6] const arena cache size size_loc
                      permanent feature_map fast bw_per_cycle[6] bw_per_second[6]                              *)
From Coq Require Import ZArith List Bool.
From VV Require Import model.Config.
Import ListNotations.
Open Scope Z_scope.

Definition dec_text (tag v : Z) : text := if tag =? 0 then TInt v else if tag =? 1 then TFrac v else TName v.
Definition enc_text (t : text) : list Z :=
  match t with TInt n => [0; n] | TFrac n => [1; n] | TName n => [2; n] end.

Fixpoint dec_opts (n : nat) (l : list Z) : list (key * text) * list Z :=
  match n with
  | O => ([], l)
  | S n' =>
      match l with
      | k :: tg :: v :: r => let (os, rest) := dec_opts n' r in ((k, dec_text tg v) :: os, rest)
      | _ => ([], [])
      end
  end.

Fixpoint dec_secs (n : nat) (l : list Z) : ini * list Z :=
  match n with
  | O => ([], l)
  | S n' =>
      match l with
      | tg :: v :: no :: r =>
          let (os, r1) := dec_opts (Z.to_nat no) r in
          let (ss, r2) := dec_secs n' r1 in
          ((dec_text tg v, os) :: ss, r2)
      | _ => ([], [])
      end
  end.

Definition dec_ini (l : list Z) : ini * list Z :=
  match l with n :: r => dec_secs (Z.to_nat n) r | [] => ([], []) end.

Definition err_code (e : err) : Z :=
  match e with EVela => 1 | EKeyError => 2 | EValueError => 3 | EIndexError => 4 | ERecursion => 5 | EOverflow => 6 end.

Definition enc_arch (u65 : bool) (a : arch) : list Z :=
  [core_clock a; axi0 a; axi1 a] ++ scales a ++ bursts a ++ rlats a ++ wlats a
  ++ [const_p a; arena_p a; cache_p a; acs a; acs_loc a; perm_area a; fm_area a; fast_area a]
  ++ bw_per_cycle u65 a ++ bw_per_second u65 a.

Definition enc_res_arch (u65 : bool) (r : res arch) : list Z :=
  match r with Ok a => 1 :: enc_arch u65 a | Err e => [0; err_code e] end.
Definition enc_opt_arch (u65 : bool) (r : option arch) : list Z :=
  match r with Some a => 1 :: enc_arch u65 a | None => [0; 0] end.

Definition zb (z : Z) : bool := negb (z =? 0).
Definition bz (b : bool) : Z := if b then 1 else 0.

(* CMD read_config = 1 : fuel(-1 = sections+1) sec(text) key cur(text) ini -> 1 text found_last nflags flags.. | 0 err *)
Definition run_read_config (a : list Z) : list Z :=
  match a with
  | fuel :: stg :: sv :: k :: ctg :: cv :: r =>
      let (c, _) := dec_ini r in
      let f := if fuel <? 0 then fuel_of c else Z.to_nat fuel in
      match read_config f c (dec_text stg sv) k (dec_text ctg cv) with
      | Ok (t, fl) => 1 :: enc_text t ++ [bz (last fl false); Z.of_nat (List.length fl)] ++ map bz fl
      | Err e => [0; err_code e]
      end
  | _ => [-1]
  end.

(* CMD get_vela_config = 2 : u65 imx93 has_files sys(text) mem(text) has_cli cli ini -> 1 arch | 0 err *)
Definition run_get_vela_config (a : list Z) : list Z :=
  match a with
  | u :: im :: hf :: stg :: sv :: mtg :: mv :: hc :: cv :: r =>
      let (c, _) := dec_ini r in
      enc_res_arch (zb u)
        (get_vela_config (zb u) (zb im) (if zb hf then Some c else None) (dec_text stg sv) (dec_text mtg mv)
                         (if zb hc then Some cv else None))
  | _ => [-1]
  end.

(* CMD spec_resolve = 3 : same input as get_vela_config (imx93 ignored) -> 1 arch | 0 0 *)
Definition run_spec_resolve (a : list Z) : list Z :=
  match a with
  | u :: im :: hf :: stg :: sv :: mtg :: mv :: hc :: cv :: r =>
      let (c, _) := dec_ini r in
      enc_opt_arch (zb u)
        (spec_resolve (zb u) (if zb hf then Some c else None) (dec_text stg sv) (dec_text mtg mv)
                      (if zb hc then Some cv else None))
  | _ => [-1]
  end.

Fixpoint dec_args (n : nat) (l : list Z) : list cfgarg * list Z :=
  match n with
  | O => ([], l)
  | S n' =>
      match l with
      | i :: d :: p :: r => let (xs, rest) := dec_args n' r in (mkArg (zb i) (zb d) p :: xs, rest)
      | _ => ([], [])
      end
  end.

Fixpoint dec_fs (n : nat) (l : list Z) : fsys * list Z :=
  match n with
  | O => ([], l)
  | S n' =>
      match l with
      | lt :: p :: r =>
          let (c, r1) := dec_ini r in
          let (xs, r2) := dec_fs n' r1 in
          (((if lt =? 0 then Bundled p else AsGiven p), c) :: xs, r2)
      | _ => ([], [])
      end
  end.

Definition dec_main (a : list Z) : option (main_params * fsys * cliargs) :=
  match a with
  | hd :: dv :: pr :: im :: u :: stg :: sv :: mtg :: mv :: hc :: cv :: na :: r =>
      let (args, r1) := dec_args (Z.to_nat na) r in
      match r1 with
      | nf :: r2 =>
          let (fs, _) := dec_fs (Z.to_nat nf) r2 in
          Some (mkMP (if zb hd then Some dv else None) (zb pr) (zb im), fs,
                mkCli args (zb u) (dec_text stg sv) (dec_text mtg mv) (if zb hc then Some cv else None))
      | [] => None
      end
  | _ => None
  end.

(* CMD main = 4 : has_default default pass_resolved imx93  u65 sys(text) mem(text) has_acs acs
                  nargs { ends_ini dirfile path }  nfiles { loc_tag(0 bundled, 1 as given) path ini }  -> 1 arch | 0 err *)
Definition run_main (a : list Z) : list Z :=
  match dec_main a with
  | Some (pm, fs, cl) => enc_res_arch (a_u65 cl) (main_model pm fs cl)
  | None => [-1]
  end.

(* CMD spec_main = 5 : same input as main (the three main() parameters are ignored) -> 1 arch | 0 0 *)
Definition run_spec_main (a : list Z) : list Z :=
  match dec_main a with
  | Some (_, fs, cl) => enc_opt_arch (a_u65 cl) (spec_main fs cl)
  | None => [-1]
  end.

(* CMD parse_paths = 6 : nargs { ends_ini dirfile path }  nfiles { loc_tag path ini } -> 1 {loc_tag path} | 0 err *)
Definition run_parse_paths (a : list Z) : list Z :=
  match a with
  | na :: r =>
      let (args, r1) := dec_args (Z.to_nat na) r in
      match r1 with
      | nf :: r2 =>
          let (fs, _) := dec_fs (Z.to_nat nf) r2 in
          match parse_all fs args with
          | Ok ls => 1 :: concat (map (fun l => match l with Bundled p => [0; p] | AsGiven p => [1; p] end) ls)
          | Err e => [0; err_code e]
          end
      | [] => [-1]
      end
  | [] => [-1]
  end.

(* concrete paths.  comp = tag id ini lead (tag 0 ".", 1 "..", 2 name);  comps = n {comp};  path = abs comps *)
Definition dec_comp (t i e l : Z) : comp := if t =? 0 then CDot else if t =? 1 then CUp else CName i (zb e) l.
Definition enc_comp (c : comp) : list Z :=
  match c with CDot => [0; 0; 0; 0] | CUp => [1; 0; 0; 0] | CName i e l => [2; i; bz e; l] end.
Definition enc_comps (l : list comp) : list Z := Z.of_nat (List.length l) :: concat (map enc_comp l).

Fixpoint dec_comps_n (n : nat) (l : list Z) : list comp * list Z :=
  match n with
  | O => ([], l)
  | S n' =>
      match l with
      | t :: i :: e :: ld :: r => let (cs, rest) := dec_comps_n n' r in (dec_comp t i e ld :: cs, rest)
      | _ => ([], [])
      end
  end.
Definition dec_comps (l : list Z) : list comp * list Z :=
  match l with n :: r => dec_comps_n (Z.to_nat n) r | [] => ([], []) end.

Fixpoint dec_paths (n : nat) (l : list Z) : list pathstr * list Z :=
  match n with
  | O => ([], l)
  | S n' =>
      match l with
      | ab :: r => let (cs, r1) := dec_comps r in let (ps, r2) := dec_paths n' r1 in (mkPath (zb ab) cs :: ps, r2)
      | [] => ([], [])
      end
  end.

Fixpoint dec_wfiles (n : nat) (l : list Z) : list (list comp * ini) * list Z :=
  match n with
  | O => ([], l)
  | S n' =>
      let (f, r1) := dec_comps l in
      let (c, r2) := dec_ini r1 in
      let (xs, r3) := dec_wfiles n' r2 in
      ((f, c) :: xs, r3)
  end.

Definition dec_main_c (a : list Z) : option (main_params * world * list comp * cliargs_c) :=
  match a with
  | hd :: dv :: pr :: im :: u :: stg :: sv :: mtg :: mv :: hc :: cv :: r =>
      let (bdir, r1) := dec_comps r in
      let (cwd, r2) := dec_comps r1 in
      match r2 with
      | na :: r3 =>
          let (args, r4) := dec_paths (Z.to_nat na) r3 in
          match r4 with
          | nf :: r5 =>
              let (fs, _) := dec_wfiles (Z.to_nat nf) r5 in
              Some (mkMP (if zb hd then Some dv else None) (zb pr) (zb im), mkWorld bdir fs, cwd,
                    mkCliC args (zb u) (dec_text stg sv) (dec_text mtg mv) (if zb hc then Some cv else None))
          | [] => None
          end
      | [] => None
      end
  | _ => None
  end.

(* CMD main_concrete = 7 : has_default default pass_resolved imx93  u65 sys(text) mem(text) has_acs acs
                           bundled_dir(comps) cwd(comps) nargs {path} nfiles {comps ini}  -> 1 arch | 0 err *)
Definition run_main_concrete (a : list Z) : list Z :=
  match dec_main_c a with
  | Some (pm, w, cwd, cl) => enc_res_arch (c_u65 cl) (main_concrete pm w cwd cl)
  | None => [-1]
  end.

(* CMD spec_main_concrete = 8 : same input -> 1 arch | 0 0 *)
Definition run_spec_main_concrete (a : list Z) : list Z :=
  match dec_main_c a with
  | Some (_, w, cwd, cl) => enc_opt_arch (c_u65 cl) (spec_main_c w cwd cl)
  | None => [-1]
  end.

(* CMD resolve_path = 9 : bundled_dir(comps) cwd(comps) path -> 1 comps | 0 0 *)
Definition run_resolve_path (a : list Z) : list Z :=
  let (bdir, r1) := dec_comps a in
  let (cwd, r2) := dec_comps r1 in
  match r2 with
  | ab :: r3 =>
      let (cs, _) := dec_comps r3 in
      match resolve_path bdir cwd (mkPath (zb ab) cs) with
      | Some f => 1 :: enc_comps f
      | None => [0; 0]
      end
  | [] => [-1]
  end.

Definition run (cmd : Z) (a : list Z) : list Z :=
  if cmd =? 1 then run_read_config a
  else if cmd =? 2 then run_get_vela_config a
  else if cmd =? 3 then run_spec_resolve a
  else if cmd =? 4 then run_main a
  else if cmd =? 5 then run_spec_main a
  else if cmd =? 6 then run_parse_paths a
  else if cmd =? 7 then run_main_concrete a
  else if cmd =? 8 then run_spec_main_concrete a
  else if cmd =? 9 then run_resolve_path a
  else [-1].
