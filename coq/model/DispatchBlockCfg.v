(* Flat integer interface of the BlockCfg model for the correspondence harness (tools/checks/c15.py).
   Status convention: first result 1 = value, 0 = Python None, 2 = Python exception. *)
From Coq Require Import ZArith List Bool.
From VV Require Import lib.PyInt gen.GenArchTables model.BlockCfg.
Import ListNotations.
Open Scope Z_scope.

Definition zb (z : Z) : bool := negb (z =? 0).
Definition bz (b : bool) : Z := if b then 1 else 0.
Definition arch_at (i : Z) : option arch_row := nth_error arch_table (Z.to_nat i).
Definition out_layout (l : layout) : list Z := [ib_start l; ib_end l; ib_start2 l; ab_start l; lut_start l].
Definition out_cfg (r : option (option cfg_full)) : list Z :=
  match r with
  | None => [2]
  | Some None => [0]
  | Some (Some c) =>
      1 :: out_layout (c_layout (cf_cfg c)) ++
      [b_h (c_ifm_block (cf_cfg c)); b_w (c_ifm_block (cf_cfg c)); b_d (c_ifm_block (cf_cfg c));
       b_h (c_ofm_block (cf_cfg c)); b_w (c_ofm_block (cf_cfg c)); b_d (c_ofm_block (cf_cfg c));
       cf_acc_type c; bz (cf_partkernel c); cf_bank_size c]
  end.

(* CMD try_layout = 1 : res_out bank total res_end ew ofm_w ofm_h ofm_d ifm_w ifm_h ifm_d ifm_bits ifm_gran acc_bits acc_gran lut
                        -> 2 | 0 | 1 ib_start ib_end ib_start2 ab_start lut_start *)
Definition run_try_layout (a : list Z) : list Z :=
  match a with
  | [ro; bk; tb; re; ew; ow; oh; od; iw; ih; id; bits; ig; ab; ag; lut] =>
      match try_layout_py {| s_reserved_output_banks := ro; s_bank_size_bytes := bk; s_total_banks := tb; s_reserved_end_banks := re |}
              ew {| b_w := ow; b_h := oh; b_d := od |} {| b_w := iw; b_h := ih; b_d := id |} bits ig ab ag lut with
      | None => [2]
      | Some None => [0]
      | Some (Some l) => 1 :: out_layout l
      end
  | _ => [-1]
  end.

(* CMD find = 2 : arch bt ofm(n h w d) ifm(n h w d) has_ifm2 ifm2(n h w d) uses_scalar ifm_bits k(w h sx sy dx dy) lut scaled rs
                  -> 2 | 0 | 1 layout(5) ifm_block(h w d) ofm_block(h w d) acc_type partkernel bank_size *)
Definition run_find (a : list Z) : list Z :=
  match a with
  | [ai; bt; on; oh; ow; od; i1n; i1h; i1w; i1d; h2; i2n; i2h; i2w; i2d; us; bits; kw; kh; sx; sy; dx; dy; lut; sc; rs] =>
      match arch_at ai with
      | None => [-1]
      | Some ar =>
          out_cfg (find_block_config ar bt {| sh_n := on; sh_h := oh; sh_w := ow; sh_d := od |}
                     {| sh_n := i1n; sh_h := i1h; sh_w := i1w; sh_d := i1d |}
                     (if zb h2 then Some {| sh_n := i2n; sh_h := i2h; sh_w := i2w; sh_d := i2d |} else None)
                     (zb us) bits {| k_w := kw; k_h := kh; k_sx := sx; k_sy := sy; k_dx := dx; k_dy := dy |} lut (zb sc) rs)
      end
  | _ => [-1]
  end.

(* CMD try_block_config = 3 : arch blk(w h d) bt ofm(w h d) ifm(w h d) has_ifm2 ifm2(w h d) uses_scalar ifm_bits partkernel
                              k(w h sx sy dx dy) lut scaled rs -> as find *)
Definition run_try_block_config (a : list Z) : list Z :=
  match a with
  | [ai; bw; bh; bd; bt; ow; oh; od; i1w; i1h; i1d; h2; i2w; i2h; i2d; us; bits; pk; kw; kh; sx; sy; dx; dy; lut; sc; rs] =>
      match arch_at ai with
      | None => [-1]
      | Some ar =>
          out_cfg (try_block_config ar {| b_w := bw; b_h := bh; b_d := bd |} bt {| b_w := ow; b_h := oh; b_d := od |}
                     {| b_w := i1w; b_h := i1h; b_d := i1d |}
                     (if zb h2 then Some {| b_w := i2w; b_h := i2h; b_d := i2d |} else None)
                     (zb us) bits (zb pk) {| k_w := kw; k_h := kh; k_sx := sx; k_sy := sy; k_dx := dx; k_dy := dy |} lut (zb sc) rs)
      end
  | _ => [-1]
  end.

(* CMD ifm_blocksize = 4 : ofm(w h d) k(w h sx sy dx dy) ub_w ub_h sk_w sk_h upscale nearest -> w h d *)
Definition run_ifm_blocksize (a : list Z) : list Z :=
  match a with
  | [ow; oh; od; kw; kh; sx; sy; dx; dy; uw; uh; skw; skh; up; nr] =>
      let b := get_ifm_blocksize {| b_w := ow; b_h := oh; b_d := od |}
                 {| k_w := kw; k_h := kh; k_sx := sx; k_sy := sy; k_dx := dx; k_dy := dy |} uw uh skw skh up nr in
      [b_w b; b_h b; b_d b]
  | _ => [-1]
  end.

(* CMD kernel_method = 5 : ifm_depth ifm_bits kw kh -> 2 | 0 | 1 *)
Definition run_kernel_method (a : list Z) : list Z :=
  match a with
  | [d; bits; kw; kh] =>
      match choose_kernel_method d bits {| k_w := kw; k_h := kh; k_sx := 1; k_sy := 1; k_dx := 1; k_dy := 1 |} with
      | None => [2] | Some b => [bz b] end
  | _ => [-1]
  end.

(* CMD fit_block = 6 : arch ofm_h k_h w h d -> w h d *)
Definition run_fit_block (a : list Z) : list Z :=
  match a with
  | [ai; oh; kh; w; h; d] =>
      match arch_at ai with
      | None => [-1]
      | Some ar => let b := fit_block_for_ofm ar oh {| k_w := 1; k_h := kh; k_sx := 1; k_sy := 1; k_dx := 1; k_dy := 1 |}
                              {| b_w := w; b_h := h; b_d := d |} in [b_w b; b_h b; b_d b]
      end
  | _ => [-1]
  end.

(* CMD misc = 7 : ifm_ublock_d ifm_depth ifm_bits partkernel value stride border upscale nearest -> ifm_blockdepth required_size *)
Definition run_misc (a : list Z) : list Z :=
  match a with
  | [ud; d; bits; pk; v; s; b; up; nr] => [ifm_blockdepth ud d bits (zb pk); required_size v s b up nr]
  | _ => [-1]
  end.

(* CMD check_blockcfg = 8 : arch blk(w h d) bt ofm(w h d) ifm(w h d) has_ifm2shape ifm2(w h d) uses_scalar ifm_bits partkernel
                            k(6) lut rs ib_end ib_start2 ab_start acc_format has_ifm2reg -> 0 | 1 *)
Definition run_check_blockcfg (a : list Z) : list Z :=
  match a with
  | [ai; bw; bh; bd; bt; ow; oh; od; i1w; i1h; i1d; h2; i2w; i2h; i2d; us; bits; pk; kw; kh; sx; sy; dx; dy; lut; rs;
     r1; r2; r3; r4; hr] =>
      match arch_at ai with
      | None => [-1]
      | Some ar =>
          [bz (check_blockcfg ar {| b_w := bw; b_h := bh; b_d := bd |} bt {| b_w := ow; b_h := oh; b_d := od |}
                 {| b_w := i1w; b_h := i1h; b_d := i1d |}
                 (if zb h2 then Some {| b_w := i2w; b_h := i2h; b_d := i2d |} else None)
                 (zb us) bits (zb pk) {| k_w := kw; k_h := kh; k_sx := sx; k_sy := sy; k_dx := dx; k_dy := dy |} lut rs
                 r1 r2 r3 r4 (zb hr))]
      end
  | _ => [-1]
  end.

(* CMD arch_row = 9 : arch -> the row (for the check to see which table the model was built with) *)
Definition run_arch_row (a : list Z) : list Z :=
  match a with
  | [ai] => match arch_at ai with
            | None => [-1]
            | Some r => [ar_reserved_output_banks r; ar_bank_size_bytes r; ar_total_banks r; ar_reserved_end_banks r;
                         ar_ofm_ublock_w r; ar_ofm_ublock_h r; ar_ofm_ublock_d r; ar_ofm_block_max_w r; ar_ofm_block_max_h r;
                         ar_ofm_block_max_d r]
            end
  | _ => [-1]
  end.

Definition run (cmd : Z) (a : list Z) : list Z :=
  if cmd =? 1 then run_try_layout a
  else if cmd =? 2 then run_find a
  else if cmd =? 3 then run_try_block_config a
  else if cmd =? 4 then run_ifm_blocksize a
  else if cmd =? 5 then run_kernel_method a
  else if cmd =? 6 then run_fit_block a
  else if cmd =? 7 then run_misc a
  else if cmd =? 8 then run_check_blockcfg a
  else if cmd =? 9 then run_arch_row a
  else [-1].
