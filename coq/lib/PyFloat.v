(* Floats as exact dyadic rationals  dm * 2^de.  The operations below are the *exact* rational
   operations; that the IEEE-754 operations Vela performs at these call sites are exact is part
   of the trusted base and is exercised by the correspondence drivers (corr_scale). *)
From Coq Require Import ZArith Bool.
Open Scope Z_scope.

Record dyadic := Dy { dm : Z; de : Z }.

Definition dy_of_Z (n : Z) : dyadic := Dy n 0.
Definition dy_half : dyadic := Dy 1 (-1).
Definition dy_neg_half : dyadic := Dy (-1) (-1).

(* align to the smaller exponent *)
Definition dy_align (a b : dyadic) : Z * Z * Z :=
  let e := Z.min (de a) (de b) in
  (dm a * 2 ^ (de a - e), dm b * 2 ^ (de b - e), e).

Definition dy_add (a b : dyadic) : dyadic :=
  let '(x, y, e) := dy_align a b in Dy (x + y) e.
Definition dy_ltb (a b : dyadic) : bool :=
  let '(x, y, _) := dy_align a b in x <? y.
Definition dy_leb (a b : dyadic) : bool :=
  let '(x, y, _) := dy_align a b in x <=? y.
Definition dy_mul_int (a : dyadic) (n : Z) : dyadic := Dy (dm a * n) (de a).

(* truncation toward zero *)
Definition dy_trunc (a : dyadic) : Z :=
  if 0 <=? de a then dm a * 2 ^ (de a) else Z.quot (dm a) (2 ^ (- de a)).

(* math.frexp: significand in [0.5, 1) (sign kept) and exponent; (0, 0) for zero *)
Definition dy_frexp_exp (a : dyadic) : Z :=
  if dm a =? 0 then 0 else de a + Z.log2 (Z.abs (dm a)) + 1.
Definition dy_frexp_sig (a : dyadic) : dyadic :=
  if dm a =? 0 then Dy 0 0 else Dy (dm a) (- (Z.log2 (Z.abs (dm a)) + 1)).
