(* Python / NumPy integer semantics used by the generated and hand models. No proofs here. *)
From Coq Require Import ZArith List Bool.
Import ListNotations.
Open Scope Z_scope.

(* fixed-width membership: the value is representable in a signed w-bit integer *)
Definition in_int (w x : Z) : bool := (- 2 ^ (w - 1) <=? x) && (x <? 2 ^ (w - 1)).

(* checked conversion / checked arithmetic result: None models OverflowError or silent wrap,
   i.e. "the run-time value is not the mathematical one" *)
Definition chk_int (w x : Z) : option Z := if in_int w x then Some x else None.

(* Python `a / b` on ints used where the code relies on exactness *)
Definition exact_div (a b : Z) : option Z :=
  if b =? 0 then None else if a mod b =? 0 then Some (a / b) else None.

(* number of iterations of range(lo, hi, st) *)
Definition range_len (lo hi st : Z) : Z :=
  if st >? 0 then Z.max 0 ((hi - lo + st - 1) / st)
  else if st <? 0 then Z.max 0 ((lo - hi - st - 1) / (- st))
  else 0.

Fixpoint for_range_aux {A : Type} (n : nat) (i st : Z) (f : Z -> A -> A) (acc : A) : A :=
  match n with
  | O => acc
  | S n' => for_range_aux n' (i + st) st f (f i acc)
  end.

Definition py_for_range {A : Type} (lo hi st : Z) (f : Z -> A -> A) (init : A) : A :=
  for_range_aux (Z.to_nat (range_len lo hi st)) lo st f init.

(* math.frexp(n)[1] for a non-negative integer n < 2^53 (exact float conversion):
   number of significant bits *)
Definition frexp_exp_int (n : Z) : Z := if n <=? 0 then 0 else Z.log2 n + 1.
