(* Bit-level lemmas shared by the codec-style proofs. *)
From Coq Require Import ZArith Lia Bool.
Open Scope Z_scope.

Lemma land_shiftl_disjoint a b n :
  0 <= n -> 0 <= a < 2 ^ n -> Z.land a (Z.shiftl b n) = 0.
Proof.
  intros Hn Ha. apply Z.bits_inj'. intros i Hi.
  rewrite Z.land_spec, Z.bits_0.
  destruct (Z.ltb_spec i n) as [Hlt|Hge].
  - rewrite (Z.shiftl_spec_low b n i) by lia. apply andb_false_r.
  - replace a with (a mod 2 ^ n) by (apply Z.mod_small; lia).
    rewrite Z.mod_pow2_bits_high by lia. reflexivity.
Qed.

Lemma lor_shiftl_add a b n :
  0 <= n -> 0 <= a < 2 ^ n -> Z.lor a (Z.shiftl b n) = a + b * 2 ^ n.
Proof.
  intros Hn Ha.
  rewrite <- Z.lxor_lor by (apply land_shiftl_disjoint; assumption).
  rewrite <- Z.add_nocarry_lxor by (apply land_shiftl_disjoint; assumption).
  rewrite Z.shiftl_mul_pow2 by lia. reflexivity.
Qed.

Lemma land_ones_mod a n : 0 <= n -> Z.land a (2 ^ n - 1) = a mod 2 ^ n.
Proof. intros Hn. replace (2 ^ n - 1) with (Z.ones n) by (rewrite Z.ones_equiv; lia). apply Z.land_ones. exact Hn. Qed.

Lemma shiftr_div a n : 0 <= n -> Z.shiftr a n = a / 2 ^ n.
Proof. intros. apply Z.shiftr_div_pow2. assumption. Qed.
