(* C11 -- model interface and CPU-resident operators preserved verbatim: soundness of the
   validator run on (source, output) summaries. Statements only. *)
From Coq Require Import ZArith List Bool.
From VV Require Import model.Preserve proofs.PreserveProofs model.OutputList proofs.OutputListProofs.
Import ListNotations.
Open Scope Z_scope.

Theorem check_preserved_sound :
  forall src out psi phi,
  check_preserved src out psi phi = true ->
  Forall2 (TensSame src out psi) (g_in out) (g_in src) /\
  Forall2 (TensSame src out psi) (g_out out) (g_out src) /\
  (forall k o, nth_error (g_ops out) k = Some o -> os_npu o = false ->
     exists j s, assoc phi (Z.of_nat k) = Some j /\ nthZ (g_ops src) j = Some s /\ OpVerbatim src out psi o s) /\
  (forall k1 k2 j, assoc phi k1 = Some j -> assoc phi k2 = Some j -> k1 = k2) /\
  (forall t1 t2 u, assoc psi t1 = Some u -> assoc psi t2 = Some u -> t1 = t2) /\
  (forall k o, nth_error (g_ops out) k = Some o -> forall t, In t (os_in o) -> InputAvailable out (Z.of_nat k) t) /\
  (forall k s, nth_error (g_ops src) k = Some s -> ~ In (Z.of_nat k) (map snd phi) -> accounted src out psi s = true).
Proof. exact check_preserved_sound_lemma. Qed.

Print Assumptions check_preserved_sound.

(* every subgraph of the model (WHILE / IF / CALL_ONCE models have several): same number of subgraphs,
   and subgraph k of the output preserves subgraph k of the source in the sense of
   check_preserved_sound (SubgraphPreserved is that conclusion, proofs/PreserveProofs.v).  The subgraph
   indices inside WHILE / IF / CALL_ONCE options are option fields, hence part of os_sig. *)
Theorem check_preserved_model_sound :
  forall (src out : list gsum) (wit : list witness),
  check_preserved_model src out wit = true ->
  length out = length src /\
  (forall k s o, nth_error src k = Some s -> nth_error out k = Some o ->
     exists psi phi, nth_error wit k = Some (psi, phi) /\ SubgraphPreserved s o psi phi) /\
  (forall k, (exists s, nth_error src k = Some s) <-> (exists o, nth_error out k = Some o)).
Proof. exact check_preserved_model_sound_lemma. Qed.

Print Assumptions check_preserved_model_sound.

(* The subgraph output list (repo commit 972b4ce; model/OutputList.v): the reader keeps one entry per output tensor
   and the position of every original entry; whatever the passes do to the entries ELEMENTWISE (f: rewrite_graph,
   extract_npu_subgraphs) and whatever is appended behind them (virtual outputs), the writer restores a list that has
   the length, order and repetitions of the source list - position k is the image of the source's k-th output. *)
Theorem output_list_restored :
  forall (A : Type) (f : Z -> A) (l : list Z) (extra : list A),
  restore (map f (dedup l) ++ extra) (positions l) = map (fun x => Some (f x)) l.
Proof. exact @restore_after_rewrites_lemma. Qed.

Print Assumptions output_list_restored.

(* what the graph holds in between: every output once, nothing else *)
Theorem output_list_held_once :
  forall l : list Z,
  and (NoDup (dedup l))
      (and (forall x : Z, iff (In x (dedup l)) (In x l))
           (forall p : option nat, In p (positions l) -> exists i : nat, and (p = Some i) (lt i (length (dedup l))))).
Proof.
  intros l. split; [exact (dedup_nodup_lemma l)|]. split; [exact (dedup_same_elements_lemma l)|exact (positions_in_range_lemma l)].
Qed.

Print Assumptions output_list_held_once.

(* non-vacuity: outputs [10; 10; 4; 10] (corpus/c11_duplicate_outputs lists [10; 10]) *)
Example output_list_example :
  and (dedup [10; 10; 4; 10] = [10; 4])
      (and (positions [10; 10; 4; 10] = [Some 0; Some 0; Some 1; Some 0]%nat)
           (restore (map (fun t => t + 100) [10; 4] ++ [77]) (positions [10; 10; 4; 10]) = [Some 110; Some 110; Some 104; Some 110])).
Proof. vm_compute. repeat split. Qed.
