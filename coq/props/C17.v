(* C17 -- the driver payload frames the command stream correctly.  Statements only. *)
From Coq Require Import ZArith List Bool.
From VV Require Import gen.GenTables gen.GenDriver gen.GenGuards model.Driver proofs.DriverProofs.
Import ListNotations.
Open Scope Z_scope.

(* the translated source functions are the ones the model is about *)
Theorem gen_make_da_tag_is_model : forall id r p, GenDriver.make_da_tag id r p = da_tag id r p.
Proof. exact gen_make_da_tag_eq. Qed.
Theorem gen_emit_cmd_stream_header_is_model :
  forall data n, GenDriver.emit_cmd_stream_header data n = header data n.
Proof. exact gen_emit_cmd_stream_header_eq. Qed.

(* every accelerator x every in-range word list below the driver limit: an independent reader
   recovers a configuration matching the accelerator, a 16-byte aligned start, the declared
   length and the words unmodified *)
Theorem payload_parses :
  forall (a : accel_row) (ws : list Z),
    In a accel_table -> forallb word_ok ws = true -> Z.of_nat (List.length ws) < 2^24 ->
    exists bs p, payload_of a ws = Some bs /\ parse_bytes bs = Some p /\ frames_ok a ws p /\
                 Z.of_nat (List.length bs) = 4 * (8 + Z.of_nat (List.length ws)).
Proof. exact payload_parses_lemma. Qed.

Theorem accelerators_are_the_six : map a_name accel_table = map fst spec_table.
Proof. exact accel_table_complete. Qed.

Theorem payload_rejects :
  forall cfg idw ws, 2^24 <= Z.of_nat (List.length ws) -> payload_bytes cfg idw ws = None.
Proof. exact payload_rejects_lemma. Qed.

(* the hardware limit: generate_command_stream (its guard and the emitter's size function as recognised in the source on
   this run, gen/GenGuards.v) raises exactly for streams of 16 MiB = 2^22 words or more, whatever the words are *)
Theorem stream_size_is_four_bytes_per_word :
  forall cmds, emitter_size_in_bytes cmds = 4 * Z.of_nat (List.length (emitter_to_list cmds)).
Proof. exact emitter_size_is_4_words_lemma. Qed.

Theorem hardware_limit_rejects_from_16MiB :
  forall cmds, hw_limit_guard (emitter_size_in_bytes cmds) = true <-> 2 ^ 22 <= Z.of_nat (List.length (emitter_to_list cmds)).
Proof. exact hw_limit_guard_spec_lemma. Qed.

Print Assumptions payload_parses.
Print Assumptions payload_rejects.
Print Assumptions gen_emit_cmd_stream_header_is_model.
Print Assumptions hardware_limit_rejects_from_16MiB.
