(* C01 -- compiled model computes the same function (partial). The executable semantics of the
   command stream (hw/NpuExec.v) is the formal object; statements about its scaling step. *)
From Coq Require Import ZArith List Bool Lia.
From VV Require Import lib.PyInt hw.Npu hw.NpuExec.
Open Scope Z_scope.

(* the clamp keeps every produced value inside the programmed activation range *)
Theorem clamp_in_range : forall lo hi v, lo <= hi -> lo <= clampz lo hi v <= hi.
Proof. intros lo hi v H. unfold clampz. lia. Qed.

(* natural rounding is round-half-up division by 2^shift *)
Theorem scale_natural_is_round_half_up :
  forall x scale shift, 0 < shift ->
  scale_natural x scale shift = (2 * (x * scale) + 2 ^ shift) / (2 * 2 ^ shift).
Proof.
  intros x scale shift Hs. unfold scale_natural.
  destruct (Z.leb_spec shift 0); [lia|].
  replace (2 ^ shift) with (2 * 2 ^ (shift - 1)) at 2 3
    by (rewrite <- Z.pow_succ_r by lia; f_equal; lia).
  assert (Hp : 0 < 2 ^ (shift - 1)) by (apply Z.pow_pos_nonneg; lia).
  replace (2 * (x * scale) + 2 * 2 ^ (shift - 1)) with ((x * scale + 2 ^ (shift - 1)) * 2) by lia.
  replace (2 * (2 * 2 ^ (shift - 1))) with ((2 * 2 ^ (shift - 1)) * 2) by lia.
  rewrite Z.div_mul_cancel_r by lia.
  replace (2 * 2 ^ (shift - 1)) with (2 ^ shift) by (rewrite <- Z.pow_succ_r by lia; f_equal; lia).
  reflexivity.
Qed.

Print Assumptions scale_natural_is_round_half_up.
