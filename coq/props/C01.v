(* C01 -- compiled model computes the same function (partial). The executable semantics of the
   command stream (hw/NpuExec.v) is the formal object; statements about its scaling step. *)
From Coq Require Import ZArith List Bool Lia.
From VV Require Import lib.PyInt lib.PyFloat gen.GenTables gen.GenScaling model.Scaling model.FpMath proofs.FpMathProofs
  proofs.ScalingProofs proofs.NpuExecProofs hw.Npu hw.NpuExec model.Rewrites proofs.RewritesProofs.
Import ListNotations.
Open Scope Z_scope.

(* The TFL scaling mode of the executable hardware semantics IS the reference kernels' requantisation
   MultiplyByQuantizedMultiplier, for every 32-bit accumulator and multiplier and every shift 0..62 for which
   the reference itself does not overflow its left shift. *)
Theorem scale_tfl_is_reference :
  forall x q s, in32 x -> in32 q -> 0 <= s <= 62 -> in32 (x * 2 ^ (Z.max 0 (31 - s))) ->
    scale_tfl x q s = MultiplyByQuantizedMultiplier x q (31 - s).
Proof. exact NpuExecProofs.scale_tfl_is_reference. Qed.

(* Composition with the compiler's derivation (scaling.quantise_scale as translated from the source on this
   run): whatever real scale m * 2^e the graph carries, the pair Vela writes into the scale record makes the
   hardware compute, on every accumulator, exactly what the reference kernel computes with the pair the
   reference derives (QuantizeMultiplier) from the same scale. *)
Theorem requantisation_end_to_end :
  forall m e q s x, 0 < m ->
    GenScaling.quantise_scale (Dy m e) = (q, s) -> q <> 0 -> 0 <= s <= 62 ->
    in32 x -> in32 (x * 2 ^ (Z.max 0 (31 - s))) ->
    exists qt st, tfl_quantize_multiplier (Dy m e) = (qt, st) /\ scale_tfl x q s = MultiplyByQuantizedMultiplier x qt st.
Proof.
  intros m e q s x Hm Hq Hnz Hs Hx Hp.
  destruct (ScalingProofs.quantise_scale_is_tflite_lemma m e q s Hm Hq Hnz Hs) as [Ht Hr].
  exists q, (31 - s). split; [exact Ht|].
  apply NpuExecProofs.scale_tfl_is_reference; try assumption.
  change (2 ^ 30) with 1073741824 in Hr. change (2 ^ 31) with 2147483648 in Hr. unfold in32. lia.
Qed.

(* non-vacuity: 0.1 = 7205759403792794 * 2^-56 gives (1717986918, 34) and the accumulator 12345 scales to 1235 *)
Example requantisation_example :
  GenScaling.quantise_scale (Dy 7205759403792794 (-56)) = (1717986918, 34) /\ scale_tfl 12345 1717986918 34 = 1235 /\ MultiplyByQuantizedMultiplier 12345 1717986918 (-3) = 1235.
Proof. repeat split; vm_compute; reflexivity. Qed.

(* The output stage of convolution / depthwise / fully connected as the hardware semantics executes it
   (hw/NpuExec.v `finish`: bias, scale in the programmed rounding mode, output zero point, activation clamp)
   is the reference kernels' output stage  clamp (MultiplyByQuantizedMultiplier (acc + bias) M S + output_offset)
   with the reference's own (M, S) = QuantizeMultiplier(scale), whenever Vela programmed the TFL rounding mode
   and the pair it derived from that scale. *)
Theorem conv_output_stage_is_reference :
  forall r m e q s acc bias, 0 < m ->
    rounding_mode r = 0 ->
    GenScaling.quantise_scale (Dy m e) = (q, s) -> q <> 0 -> 0 <= s <= 62 ->
    in32 (acc + bias) -> in32 ((acc + bias) * 2 ^ (Z.max 0 (31 - s))) ->
    exists qt st, tfl_quantize_multiplier (Dy m e) = (qt, st) /\
      finish r acc bias q s =
      clampz (s16 (r0 r cmd0_NPU_SET_ACTIVATION_MIN)) (s16 (r0 r cmd0_NPU_SET_ACTIVATION_MAX))
             (MultiplyByQuantizedMultiplier (acc + bias) qt st + ofm_zp r).
Proof.
  intros r m e q s acc bias Hm Hr Hq Hnz Hs Hx Hp.
  destruct (requantisation_end_to_end m e q s (acc + bias) Hm Hq Hnz Hs Hx Hp) as [qt [st [Ht He]]].
  exists qt, st. split; [exact Ht|].
  unfold finish, finish_raw, apply_scale. rewrite Hr. cbn [Z.eqb]. rewrite He. reflexivity.
Qed.

(* Elementwise ADD / SUB on 8-bit operands with one operand scaled by the 32-bit OPA scale (the form Vela emits
   whenever the input scales differ): the value the hardware semantics computes for one element (hw/NpuExec.v
   ew_value, the function exec_elementwise maps over the output volume) is the reference AddElementwise /
   SubElementwise value, where the reference's multiplier of the scaled operand is (q, 31 - s - 20) - the pair C09's
   elementwise_add_sub_eq_reference_partial proves Vela's (q, s) to be - the other operand's multiplier is the
   reference's 0.5 = (2^30, 0), and the output pair is (qo, 31 - so). *)
Theorem elementwise_addsub_scaled_a_is_reference :
  forall mode a b q s opb qo so,
    mode = 1 \/ mode = 2 ->
    -255 <= a <= 255 -> -255 <= b <= 255 -> 0 <= q <= 2147483647 -> 11 <= s <= 42 ->
    in32 qo -> 31 <= so <= 62 ->
    ew_value 1 mode 1 0 true q s opb qo so a b
    = tfl_addsub (mode =? 2) a b q (31 - s - 20) 1073741824 0 qo (31 - so).
Proof. exact NpuExecProofs.ew_addsub_opa32_is_reference. Qed.

Theorem elementwise_addsub_scaled_b_is_reference :
  forall mode a b q s opb qo so,
    mode = 1 \/ mode = 2 ->
    -255 <= a <= 255 -> -255 <= b <= 255 -> 0 <= q <= 2147483647 -> 11 <= s <= 42 ->
    in32 qo -> 31 <= so <= 62 ->
    ew_value 1 mode 2 0 true q s opb qo so a b
    = tfl_addsub (mode =? 2) a b 1073741824 0 q (31 - s - 20) qo (31 - so).
Proof. exact NpuExecProofs.ew_addsub_opb32_is_reference. Qed.

(* Elementwise MUL: MultiplyByQuantizedMultiplier of the product with the output pair, as mul.cc *)
Theorem elementwise_mul_is_reference :
  forall smode a b opa opash opb qo so,
    -255 <= a <= 255 -> -255 <= b <= 255 -> in32 qo -> 0 <= so <= 62 ->
    in32 (a * b * 2 ^ Z.max 0 (31 - so)) ->
    ew_value 1 0 smode 0 true opa opash opb qo so a b = MultiplyByQuantizedMultiplier (a * b) qo (31 - so).
Proof. exact NpuExecProofs.ew_mul_is_reference. Qed.

(* non-vacuity: a concrete parameter set inside the hypotheses; both sides evaluate to 54 *)
Example elementwise_add_example :
  ew_value 1 1 1 0 true 1717986918 12 0 1342177280 49 100 (-37) = tfl_addsub false 100 (-37) 1717986918 (-1) 1073741824 0 1342177280 (-18)
  /\ ew_value 1 1 1 0 true 1717986918 12 0 1342177280 49 100 (-37) = 54.
Proof. split; vm_compute; reflexivity. Qed.

(* the executable semantics and the footprint model (hw/Npu.v, used by the C02 / C03 / C04 validators) agree on the table
   look-up: the byte `activate` reads lies inside the LUT read footprint of the operation *)
Theorem lut_lookup_inside_read_footprint :
  forall x m r v i,
    lut_index r = Some i -> 0 <= i <= 7 ->
    (prec_elem_ofm (r0 r cmd0_NPU_SET_OFM_PRECISION) =? 4) = false ->
    (prec_elem_ofm (r0 r cmd0_NPU_SET_OFM_PRECISION) =? 2) = false ->
    (if ofm_signed r then -128 <= v <= 127 else 0 <= v <= 255) ->
    exists a, activate x m r v = rd8 (get_bank m SHRAM) a /\
              x_lut_addr x + i * 256 <= a < x_lut_addr x + i * 256 + lut_read_bytes 1 i.
Proof.
  intros x m r v i Hl Hi H8 H16 Hv. exists (lut_read_addr (x_lut_addr x) i (ofm_signed r) v). split.
  - apply activate_reads_lut_read_addr; assumption.
  - apply lut_read_inside_footprint; assumption.
Qed.

(* the same for the 32-bit table of the softmax: the four bytes of the entry lie inside the 1024-byte footprint *)
Theorem lut32_lookup_inside_read_footprint :
  forall x m r v i,
    lut_index r = Some i -> 0 <= i <= 4 ->
    (prec_elem_ofm (r0 r cmd0_NPU_SET_OFM_PRECISION) =? 4) = true ->
    -128 <= v <= 127 ->
    exists a, activate x m r v = to_signed 32 (rd_le (get_bank m SHRAM) a 4) /\
              x_lut_addr x + i * 256 <= a /\ a + 4 <= x_lut_addr x + i * 256 + lut_read_bytes 4 i.
Proof.
  intros x m r v i Hl Hi H32 Hv. exists (x_lut_addr x + i * 256 + 4 * (v + 128)). split.
  - unfold activate. rewrite Hl, H32. reflexivity.
  - apply lut32_read_inside_footprint; assumption.
Qed.

(* the 32-bit helper operations of the executable semantics that Vela's softmax and ARG_MAX rewrites use *)
Theorem clz_counts_leading_zeros :
  forall a, 0 < a < 2 ^ 31 -> 0 <= clz32 a <= 31 /\ 2 ^ (31 - clz32 a) <= a < 2 ^ (32 - clz32 a).
Proof. exact clz32_spec. Qed.

Theorem shr_natural_rounds_to_nearest :
  forall a b, 0 < b -> let q := shr_round 2 a b in 2 ^ b * q - 2 ^ (b - 1) <= a < 2 ^ b * q + 2 ^ (b - 1).
Proof. exact shr_round_natural. Qed.

Theorem wide_elementwise_results_saturate :
  forall v, - 2147483648 <= sat32 4 v <= 2147483647.
Proof. exact sat32_in_range. Qed.

(* the 16-bit table that convert_argmax_to_depthwise_conv_and_max_pool builds (every entry: slope -128, base c - 1),
   read by the 16-bit table look-up of the executable semantics, returns c - 1 minus the lower seven bits of the value:
   the channel index, since the preceding convolution put c - 1 - index into those bits *)
Theorem argmax_table_extracts_channel_index :
  forall c u, 0 <= c - 1 <= 127 -> 0 <= u ->
    lut16_interp ((-128 mod 65536) * 65536 + (c - 1)) u = c - 1 - u mod 128.
Proof. exact lut16_interp_argmax. Qed.

(* before the repair c949748 the multiplier 2^31 was kept where the reference renormalises: the TFL mode
   then differs from the reference (the witness found by trying to prove the theorem above) *)
Theorem unrenormalised_multiplier_differs :
  scale_tfl 31 (2 ^ 31) 37 = 0 /\ MultiplyByQuantizedMultiplier 31 (2 ^ 30) (31 - 36) = 1.
Proof. exact NpuExecProofs.scale_tfl_unrenormalised_differs. Qed.

(* the clamp keeps every produced value inside the programmed activation range *)
Theorem clamp_in_range : forall lo hi v, lo <= hi -> lo <= clampz lo hi v <= hi.
Proof. intros lo hi v H. unfold clampz. lia. Qed.

(* natural rounding is round-half-up division by 2^shift *)
Theorem scale_natural_is_round_half_up :
  forall x scale shift, 0 < shift ->
  scale_natural x scale shift = (2 * (x * scale) + 2 ^ shift) / (2 * 2 ^ shift).
Proof.
  intros x scale shift Hs. unfold scale_natural.
  destruct (Z.leb_spec shift 0); [lia|].
  replace (2 ^ shift) with (2 * 2 ^ (shift - 1)) at 2 3
    by (rewrite <- Z.pow_succ_r by lia; f_equal; lia).
  assert (Hp : 0 < 2 ^ (shift - 1)) by (apply Z.pow_pos_nonneg; lia).
  replace (2 * (x * scale) + 2 * 2 ^ (shift - 1)) with ((x * scale + 2 ^ (shift - 1)) * 2) by lia.
  replace (2 * (2 * 2 ^ (shift - 1))) with ((2 * 2 ^ (shift - 1)) * 2) by lia.
  rewrite Z.div_mul_cancel_r by lia.
  replace (2 * 2 ^ (shift - 1)) with (2 ^ shift) by (rewrite <- Z.pow_succ_r by lia; f_equal; lia).
  reflexivity.
Qed.

(* ---- graph rewrites across operators the NPU does not run (model/Rewrites.v) ---- *)
(* SPACE_TO_BATCH_ND, a VALID convolution of every phase, BATCH_TO_SPACE_ND: a correlation with dilation d - for every
   block size, filter, signal and position *)
Theorem space_to_batch_conv_batch_to_space_is_dilation :
  forall d k w (x : Z -> Z) i, 0 < d ->
    batch_to_space d (fun p => conv_valid k w (space_to_batch d x p)) i = taps k w x i d.
Proof. exact s2b_conv_b2s_lemma. Qed.

(* with pt zeros padded in front and ct results cropped in front, the chain is the dilated convolution with pt - ct
   zeros in front of the input *)
Theorem dilated_chain_equals_dilated_convolution :
  forall d k w n pt ct x y, 0 < d -> chain d k w n pt ct x y = dilated_conv d k w n (pt - ct) x y.
Proof. exact chain_is_dilated_lemma. Qed.

(* when the rewrite fires (decision 1 = SAME, 2 = VALID) the zeros Vela's padding computation puts in front of the
   dilated convolution are pt - ct on both axes, and the output extents are those of that padding mode; so by the
   theorem above the operator it emits computes the chain it replaces *)
Theorem dilated_rewrite_decision_sound :
  forall ih iw oh ow kh kw bh bw pt pl ct cl m,
    dilated_decision ih iw oh ow kh kw bh bw pt pl ct cl = m -> m <> 0 ->
    (m = 1 \/ m = 2) /\
    pt - ct = vela_lead_pad m ((kh - 1) * bh) /\ pl - cl = vela_lead_pad m ((kw - 1) * bw) /\
    oh = (if m =? 1 then ih else ih - (kh - 1) * bh) /\ ow = (if m =? 1 then iw else iw - (kw - 1) * bw).
Proof. exact dilated_decision_sound_lemma. Qed.

(* the behaviour before the repair (SAME whatever the paddings) is refuted by a VALID chain *)
Theorem dilated_rewrite_always_same_refuted :
  exists d k w n x y, 0 < d /\
    chain d k w n 0 0 x y <> dilated_conv d k w n (((Z.of_nat k - 1) * d) / 2) x y.
Proof. exact always_same_refuted_lemma. Qed.

(* ---- fixup_dilation_gt2: dilations beyond the hardware's 1 and 2 ---- *)
(* spreading the k taps of a filter over (k - 1) * r + 1 positions and filling the positions in between with the
   weights' zero point is the dilation by r: for every filter, zero point, signal, position and tap distance *)
Theorem widened_kernel_is_dilation :
  forall (r k : nat) w zp f q s, (1 <= r)%nat -> (1 <= k)%nat ->
    taps (widened_len k r) (fun j => widened r w zp j - zp) f q s =
    taps k (fun j => w j - zp) f q (Z.of_nat r * s).
Proof. exact widened_taps_lemma. Qed.

(* the hardware's share (1 for odd, 2 for even dilations) times the kernel's share is the dilation asked for *)
Theorem dilation_split_exact :
  forall d, 0 < d -> hw_dilation d * kernel_spread d = d /\ (hw_dilation d = 1 \/ hw_dilation d = 2).
Proof. exact dilation_split. Qed.

(* the two-dimensional kernel the code writes is, row by row, the widened row or filling only *)
Theorem widened_kernel_rows :
  forall kh kw rh rw w fill h', (h' < widened_len kh rh)%nat ->
    nth h' (widened2 kh kw rh rw w fill) [] =
    if (h' mod rh =? 0)%nat then widened_list kw rw (nth (h' / rh)%nat w []) fill
    else map (fun _ => fill) (seq 0 (widened_len kw rw)).
Proof. exact widened2_rows. Qed.

(* ---- split_pad_to_sub_pad: one PAD as two ---- *)
(* padding (lo2, hi2) first and lo1 afterwards is padding lo1 + lo2 in one go: every rank, extents, index; paddings >= 0 *)
Theorem pad_twice_is_pad_once :
  forall lo1 lo2 hi2 n x i,
    Forall (fun v => 0 <= v) lo2 -> Forall (fun v => 0 <= v) hi2 ->
    length lo1 = length n -> length lo2 = length n -> length hi2 = length n -> length i = length n ->
    pad_nd lo1 (zadd (zadd n lo2) hi2) (pad_nd lo2 n x) i = pad_nd (zadd lo1 lo2) n x i.
Proof. exact pad_twice_is_pad_once_lemma. Qed.

(* the two paddings matrices of the split add up to the original, the kept one pads only the batch or only the
   channels, the moved one does not pad that axis *)
Theorem pad_split_sound :
  forall m axis kept moved, pad_split m = Some (axis, kept, moved) ->
    madd kept moved = m /\ (axis = 0%nat \/ axis = 3%nat) /\
    nth axis moved (0, 0) = (0, 0) /\ (forall a, a <> axis -> nth a kept (0, 0) = (0, 0)) /\
    nth axis kept (0, 0) = nth axis m (0, 0).
Proof. exact pad_split_sound_lemma. Qed.

(* ---- convert_avg_pool_to_conv2d: an average pool with stride >= 4 as a convolution ---- *)
(* with ones on the diagonal of the input-channel x output-channel plane every output channel receives exactly its own
   input channel: for every depth, channel and window content *)
Theorem diagonal_kernel_keeps_channels_apart :
  forall depth co f, (co < depth)%nat -> channel_mix depth diag_weight f co = f co.
Proof. exact diag_channel_sum_lemma. Qed.

(* a kernel of ones everywhere (what the code wrote before e8de583) mixes the channels *)
Theorem all_ones_kernel_refuted :
  exists depth co f, (co < depth)%nat /\ channel_mix depth (fun _ _ => 1) f co <> f co.
Proof. exact all_ones_kernel_refuted_lemma. Qed.

(* ---- convert_conv_groups: a grouped convolution as split / convolutions / concatenation ---- *)
(* splitting the input channels into groups, convolving each group with its slice of the filters and concatenating
   the results is the grouped convolution, for every group size, filter count per group, weights, window and channel *)
Theorem split_convolve_concatenate_is_grouped_convolution :
  forall icg ocg w x co, (0 < ocg)%nat ->
    concat_groups ocg (fun g co' => group_conv icg ocg g w x co') co = grouped_mix icg ocg w x co.
Proof. exact conv_groups_lemma. Qed.

(* ---- fixup_strided_conv: strides beyond the hardware's, by folding the width into the depth ---- *)
(* n neighbouring positions become n * c channels, the kernel (padded with l zeros in front to a multiple of n) is
   folded the same way, the stride is divided by n: the result is the original convolution with stride n * s and
   offq * n - l zeros in front - for every fold factor, channel count, kernel, map, stride, offset and output position *)
Theorem width_folded_convolution_is_strided_convolution :
  forall kq n c l kw w x s offq o,
    (0 < n)%nat -> (0 < c)%nat -> (l + kw <= kq * n)%nat ->
    folded_conv kq n c (pad_kernel l kw w) x s offq o =
    dsum kw c (fun k ch => w k ch * x (o * (Z.of_nat n * s) - offq * Z.of_nat n + Z.of_nat l + Z.of_nat k) ch).
Proof. exact strided_fold_lemma. Qed.

(* what the check validates on every fold the implementation performs *)
Theorem fold_conditions_sound :
  forall stride n s width kw l r pad_old pad_new,
    fold_conditions stride n s width kw l r pad_old pad_new = true ->
    0 < n /\ stride = n * s /\ width mod n = 0 /\ (kw + l + r) mod n = 0 /\ pad_new * n - l = pad_old.
Proof. exact fold_conditions_sound_lemma. Qed.

(* ---- convert_prelu: PRELU with constant slopes ---- *)
(* slope a / d with d > 0; values scaled by d.  MAXIMUM (x, slope * x) is PRELU when the slope is at most 1 ... *)
Theorem prelu_as_maximum : forall a d x, 0 < d -> a <= d -> Z.max (a * x) (d * x) = prelu_val a d x.
Proof. exact prelu_as_max_lemma. Qed.
(* ... and not otherwise *)
Theorem prelu_as_maximum_needs_slope_at_most_one : exists a d x, 0 < d /\ Z.max (a * x) (d * x) <> prelu_val a d x.
Proof. exact prelu_as_max_needs_slope_below_one_lemma. Qed.
(* RELU (x) + slope * MINIMUM (x, 0) is PRELU for every slope *)
Theorem prelu_as_relu_plus_minimum : forall a d x, d * Z.max x 0 + a * Z.min x 0 = prelu_val a d x.
Proof. exact prelu_as_relu_plus_min_lemma. Qed.
(* when the decision is MAXIMUM every slope of the tensor is below 1 *)
Theorem prelu_kind_maximum_sound :
  forall codes zp sn sd, 0 < sn -> 0 < sd -> prelu_kind codes zp sn sd = 2 ->
    forall c, In c codes -> (c - zp) * sn < sd.
Proof. exact prelu_kind_max_sound_lemma. Qed.

(* ---- rewrite_concat_ops / rewrite_split_ops: the parts of a tensor along one axis ---- *)
(* with offsets that are the running sum of the (positive) extents, every position of the axis lies in a part ... *)
Theorem axis_parts_cover :
  forall es start k i0, Forall (fun e => 0 < e) es -> start <= k < start + zsum es ->
    exists i, find_slice start es k i0 = Some (i0 + i)%nat /\ (i < length es)%nat /\
              nth i (offsets_from start es) 0 <= k < nth i (offsets_from start es) 0 + nth i es 0.
Proof. exact find_slice_total_lemma. Qed.
(* ... and no two parts overlap *)
Theorem axis_parts_disjoint :
  forall es start i j, Forall (fun e => 0 <= e) es -> (i < j)%nat -> (j < length es)%nat ->
    nth i (offsets_from start es) 0 + nth i es 0 <= nth j (offsets_from start es) 0.
Proof. exact slices_disjoint_lemma. Qed.

(* Vela's closed form of the total SAME padding equals the reference's, for every extent, stride and kernel *)
Theorem needed_total_padding_is_reference :
  forall input stride kernel, 0 < stride -> 0 <= input ->
    needed_total_padding input stride kernel = tflite_total_padding input stride kernel.
Proof. exact needed_total_padding_is_reference_lemma. Qed.

(* ---- transposed convolution on the NPU: a convolution over the zero-inserted input ---- *)
(* with zeros inserted between the input samples, the kernel flipped and K - 1 - pt zeros in front, the stride-1
   convolution computes the reference's transposed convolution with leading padding pt: every input length, kernel
   length, upscaling factor s > 0, padding, input, kernel and output position *)
Theorem transposed_convolution_as_convolution :
  forall n K s pt x w o, 0 < s -> tconv_hw n K s (Z.of_nat K - 1 - pt) x w o = tconv_ref n K s pt x w o.
Proof. exact tconv_as_conv_lemma. Qed.
(* what the check validates on the (top, bottom) / (left, right) padding Vela computes for such an operator *)
Theorem tconv_pad_ok_sound :
  forall n K s on top bottom, tconv_pad_ok n K s on top bottom = true ->
    top = K - 1 - tconv_ref_pad n K s on /\ on - n * s - top + K - 1 <= bottom /\ 0 <= bottom.
Proof. exact tconv_pad_ok_sound_lemma. Qed.

(* ---- calc_padding_and_skirt: SAME padding of convolutions and pools ---- *)
(* the (front, behind) pair Vela computes is the reference's total padding for the dilated kernel, split with the smaller
   half in front - the reference's padding value - for every extent, stride, kernel and dilation *)
Theorem conv_same_padding_is_reference :
  forall input stride k d, 0 < stride -> 0 <= input ->
    let t := tflite_total_padding input stride (dilated_extent k d) in
    conv_pads 1 input stride k d = (t / 2, t - t / 2).
Proof. exact conv_pads_reference_lemma. Qed.

Print Assumptions space_to_batch_conv_batch_to_space_is_dilation.
Print Assumptions conv_same_padding_is_reference.
Print Assumptions transposed_convolution_as_convolution.
Print Assumptions tconv_pad_ok_sound.
Print Assumptions needed_total_padding_is_reference.
Print Assumptions axis_parts_cover.
Print Assumptions axis_parts_disjoint.
Print Assumptions prelu_as_maximum.
Print Assumptions prelu_as_maximum_needs_slope_at_most_one.
Print Assumptions prelu_as_relu_plus_minimum.
Print Assumptions prelu_kind_maximum_sound.
Print Assumptions width_folded_convolution_is_strided_convolution.
Print Assumptions fold_conditions_sound.
Print Assumptions split_convolve_concatenate_is_grouped_convolution.
Print Assumptions diagonal_kernel_keeps_channels_apart.
Print Assumptions all_ones_kernel_refuted.
Print Assumptions pad_twice_is_pad_once.
Print Assumptions pad_split_sound.
Print Assumptions widened_kernel_is_dilation.
Print Assumptions dilation_split_exact.
Print Assumptions widened_kernel_rows.
Print Assumptions dilated_chain_equals_dilated_convolution.
Print Assumptions dilated_rewrite_decision_sound.
Print Assumptions dilated_rewrite_always_same_refuted.

Print Assumptions scale_natural_is_round_half_up.
Print Assumptions scale_tfl_is_reference.
Print Assumptions requantisation_end_to_end.
Print Assumptions conv_output_stage_is_reference.
Print Assumptions elementwise_addsub_scaled_a_is_reference.
Print Assumptions elementwise_addsub_scaled_b_is_reference.
Print Assumptions elementwise_mul_is_reference.
Print Assumptions lut_lookup_inside_read_footprint.
Print Assumptions lut32_lookup_inside_read_footprint.
Print Assumptions clz_counts_leading_zeros.
Print Assumptions shr_natural_rounds_to_nearest.
Print Assumptions wide_elementwise_results_saturate.
Print Assumptions argmax_table_extracts_channel_index.
Print Assumptions clamp_in_range.
