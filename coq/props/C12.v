(* C12 -- the offline arena plan is self-consistent and reported memory is sufficient.
   Soundness of the validator run on every output model. Statements only. *)
From Coq Require Import ZArith List Bool.
From VV Require Import model.Arena proofs.ArenaProofs.
Import ListNotations.
Open Scope Z_scope.

Theorem check_arena_sound :
  forall align l has_scratch s_off s_size fp_ends touched reported,
  check_arena align l has_scratch s_off s_size fp_ends touched reported = true ->
  (forall i j a b, i <> j -> nth_error l i = Some a -> nth_error l j = Some b ->
     forall t x, live_at a t -> live_at b t -> occupies a x -> occupies b x -> False) /\
  (forall a, In a l -> a_off a mod align = 0 /\ 0 <= a_off a) /\
  (has_scratch = true ->
     s_off = 0 /\ (forall e, In e fp_ends -> e <= s_size) /\
     (forall a x, In a touched -> occupies a x -> 0 <= a_off a -> 0 <= x < s_size)) /\
  (forall a x, In a l -> occupies a x -> x < reported).
Proof. exact check_arena_sound_lemma. Qed.

Print Assumptions check_arena_sound.
