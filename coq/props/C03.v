(* C03 -- no NPU operation consumes memory that was not defined for it.
   Soundness of the def-use validator run on every emitted stream. Statements only. *)
From Coq Require Import ZArith List Bool.
From VV Require Import gen.GenTables hw.Npu hw.Defuse hw.Inference proofs.NpuProofs proofs.DefuseProofs proofs.InferenceProofs.
Import ListNotations.
Open Scope Z_scope.

(* acceptance implies the byte-level run: starting from the initial definitions (constants of the
   file, tensors written by the CPU), for every operation in program order every byte of every
   demanded range carries, at that moment, exactly the demanded identity (object, logical offset);
   then the operation's writes re-tag their bytes *)
Theorem check_defuse_sound :
  forall hw init evs ids,
    check_defuse hw init evs ids = true ->
    exists ops, stream_tagged hw evs ids = Some ops /\
                sh_run (fold_left sh_write init empty_shadow) ops.
Proof. exact check_defuse_sound_lemma. Qed.

(* the demanded ranges of a feature-map operand cover every element of its box and demand, for
   each element, the element of the intended tensor at the intended coordinates *)
Theorem fm_tsegs_cover :
  forall v i y x c,
    0 < fv_elem v -> fmid_ok v i = true -> 0 <= i_c0 i ->
    0 <= y < fv_h v -> 0 <= x < fv_w v -> 0 <= c < fv_d v ->
    tcovers (fm_tsegs v i) (fv_region v) (elem_addr v y x c) (elem_addr v y x c + fv_elem v)
            (elem_tag v i y x c).
Proof. exact fm_tsegs_cover_lemma. Qed.

Theorem read_elements_defined :
  forall (s : shadow) v i rs y x c,
    (forall rd, In rd rs -> sh_read_ok s rd) ->
    (forall rd, In rd (fm_tsegs v i) -> In rd rs) ->
    0 < fv_elem v -> fmid_ok v i = true -> 0 <= i_c0 i ->
    0 <= y < fv_h v -> 0 <= x < fv_w v -> 0 <= c < fv_d v ->
    forall a, elem_addr v y x c <= a < elem_addr v y x c + fv_elem v ->
    s (fv_region v) a = Some (elem_tag v i y x c).
Proof. exact read_elements_defined_lemma. Qed.

(* ---- the whole inference: the operator sequence of the output model over the tensor arena ---- *)

(* acceptance implies the byte-level run over the operators of the output file: starting from the network inputs,
   every byte of every arena tensor an operator (CPU or Ethos-U) consumes carries, at that moment, the identity of
   that tensor; the last entry of the list demands the network outputs *)
Theorem check_inference_sound :
  forall hw init l,
    check_inference hw init l = true ->
    exists ops, top_ops hw 0 l = Some ops /\
                sh_run (fold_left sh_write init empty_shadow) ops.
Proof. exact check_inference_sound_lemma. Qed.

(* the entry built for an Ethos-U custom operator demands its inputs, and tags its outputs only when every byte of
   every output lies inside a write footprint of an operation of its command stream - or the output occupies exactly
   the bytes of one of the operator's own (demanded) inputs *)
Theorem npu_top_op_spec :
  forall hw evs b1 b2 k ins outs rs ws,
    npu_top_op hw evs b1 b2 k ins outs = Some (rs, ws) ->
    rs = ins /\ ws = clobbers k (arena_ivs b1 b2 (stream_writes hw evs)) ++ outs /\
    forall rg lo hi t, In (rg, lo, hi, t) outs ->
      rg = ARENA /\
      ((forall a, lo <= a < hi ->
         exists s iv, In s (stream_writes hw evs) /\ In iv (arena_iv b1 b2 s) /\ fst iv <= a < snd iv) \/
       (exists t', In (rg, lo, hi, t') ins)).
Proof. exact npu_top_op_spec_lemma. Qed.

(* every arena byte the stream of an Ethos-U operator writes carries afterwards that operator's scratch identity or
   the identity of one of its outputs - whatever tensor lived there before is no longer readable by anybody *)
Theorem stream_writes_retagged :
  forall hw evs b1 b2 k outs (s : shadow) a,
    (exists sg iv, In sg (stream_writes hw evs) /\ In iv (arena_iv b1 b2 sg) /\ fst iv <= a < snd iv) ->
    exists t, fold_left sh_write (clobbers k (arena_ivs b1 b2 (stream_writes hw evs)) ++ outs) s ARENA a = Some t /\
              (t = scratch_tag k \/ exists rg lo hi, In (rg, lo, hi, t) outs /\ rg = ARENA /\ lo <= a < hi).
Proof. exact stream_writes_retagged_lemma. Qed.

Print Assumptions check_defuse_sound.
Print Assumptions check_inference_sound.
Print Assumptions npu_top_op_spec.
Print Assumptions stream_writes_retagged.
Print Assumptions read_elements_defined.
