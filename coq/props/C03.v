(* C03 -- no NPU operation consumes memory that was not defined for it.
   Soundness of the def-use validator run on every emitted stream. Statements only. *)
From Coq Require Import ZArith List Bool.
From VV Require Import gen.GenTables hw.Npu hw.Defuse proofs.NpuProofs proofs.DefuseProofs.
Import ListNotations.
Open Scope Z_scope.

(* acceptance implies the byte-level run: starting from the initial definitions (constants of the
   file, tensors written by the CPU), for every operation in program order every byte of every
   demanded range carries, at that moment, exactly the demanded identity (object, logical offset);
   then the operation's writes re-tag their bytes *)
Theorem check_defuse_sound :
  forall hw init evs ids,
    check_defuse hw init evs ids = true ->
    exists ops, stream_tagged hw evs ids = Some ops /\
                sh_run (fold_left sh_write init empty_shadow) ops.
Proof. exact check_defuse_sound_lemma. Qed.

(* the demanded ranges of a feature-map operand cover every element of its box and demand, for
   each element, the element of the intended tensor at the intended coordinates *)
Theorem fm_tsegs_cover :
  forall v i y x c,
    0 < fv_elem v -> fmid_ok v i = true -> 0 <= i_c0 i ->
    0 <= y < fv_h v -> 0 <= x < fv_w v -> 0 <= c < fv_d v ->
    tcovers (fm_tsegs v i) (fv_region v) (elem_addr v y x c) (elem_addr v y x c + fv_elem v)
            (elem_tag v i y x c).
Proof. exact fm_tsegs_cover_lemma. Qed.

Theorem read_elements_defined :
  forall (s : shadow) v i rs y x c,
    (forall rd, In rd rs -> sh_read_ok s rd) ->
    (forall rd, In rd (fm_tsegs v i) -> In rd rs) ->
    0 < fv_elem v -> fmid_ok v i = true -> 0 <= i_c0 i ->
    0 <= y < fv_h v -> 0 <= x < fv_w v -> 0 <= c < fv_d v ->
    forall a, elem_addr v y x c <= a < elem_addr v y x c + fv_elem v ->
    s (fv_region v) a = Some (elem_tag v i y x c).
Proof. exact read_elements_defined_lemma. Qed.

Print Assumptions check_defuse_sound.
Print Assumptions read_elements_defined.
