(* C07 -- weight compression is lossless, hardware-ordered and memory-safe (PARTIAL).
   Statements only.  What is a theorem here: the brick traversal of mlw_encode.c `reorder` (model
   Reorder.reorder) is a padded permutation of the source volume in the documented nesting order;
   the bit writer/reader pair round-trips; the model of the reference decoder mlw_decode.c
   terminates on every input and never reads outside the buffer.  NOT a theorem: that the C
   encoder's output decodes to its input (palette search and GRC chunking are not modelled), the
   16-byte length multiple, and memory safety of the C code; these are checked per input by
   tools/checks/c07.py and labelled as correspondence/testing there. *)
From Coq Require Import ZArith List Bool Sorting.Sorted.
From VV Require Import model.Reorder model.MlwDecode proofs.ReorderProofs proofs.MlwDecodeProofs.
Import ListNotations.
Open Scope Z_scope.

(* every source position of the OHWI volume occurs exactly once in the stream, every other stream
   position is zero padding; for all valid configurations (positive sizes; ofm block depth a
   multiple of the ofm micro-block depth or a single ofm block; ifm block depth 16/32 a multiple of
   the ifm micro-block depth; depthwise volumes of ifm depth 1 and not part-kernel-first) *)
Theorem reorder_is_padded_permutation :
  forall c, valid_cfg c ->
    (forall i, In (Some i) (reorder c) -> in_volume c i) /\
    (forall i, in_volume c i -> count_occ oidx_dec (reorder c) (Some i) = 1%nat).
Proof. exact reorder_is_padded_permutation_lemma. Qed.

(* the same in flat positions of a C-contiguous source volume *)
Theorem reorder_flat_is_padded_permutation :
  forall c, valid_cfg c ->
    (forall p, In (Some p) (reorder_flat c) -> 0 <= p < volume c) /\
    (forall p, 0 <= p < volume c -> count_occ oz_dec (reorder_flat c) (Some p) = 1%nat).
Proof. exact reorder_flat_is_padded_permutation_lemma. Qed.

(* the source weights appear in the stream in strictly increasing order of the nesting key
   [ofm block; ifm block; sub-kernel y; sub-kernel x; ifm ublock (part-kernel); ofm ublock; kernel
   element; ifm ublock (depth-first); ofm channel; ifm channel]; the order is a strict order, so
   together with the permutation theorem the relative stream order of all weights is determined *)
Theorem reorder_order_spec :
  forall c, valid_cfg c ->
    StronglySorted (fun a b => lex_lt (order_key c a) (order_key c b)) (somes (reorder c)).
Proof. exact reorder_order_spec_lemma. Qed.

Theorem order_key_strict_order :
  (forall a, ~ lex_lt a a) /\ (forall a b d, lex_lt a b -> lex_lt b d -> lex_lt a d).
Proof. exact (conj lex_lt_irrefl lex_lt_trans). Qed.

(* bitbuf_put then bitbuf_get at the same position returns the value (its low len bits), the
   buffer keeps its size and no other bit changes *)
Theorem bitbuf_put_get_roundtrip :
  forall buf pos len data,
    0 <= pos -> 0 <= len -> pos + len <= 8 * Z.of_nat (length buf) ->
    let buf' := put_bits buf pos (Z.to_nat len) data in
    get (Z.of_nat (length buf')) len (mk_reader buf' pos) = Some (data mod 2 ^ len, mk_reader buf' (pos + len)) /\
    length buf' = length buf /\
    (forall p, 0 <= p -> p < pos \/ pos + len <= p -> getbit_lit buf' p = getbit_lit buf p).
Proof. exact bitbuf_put_get_roundtrip_lemma. Qed.

(* the decoder model never runs out of its fuel, whatever the bytes and the assertion mode *)
Theorem decode_total : forall strict buf, decode strict buf <> DFuel.
Proof. exact decode_total_lemma. Qed.

(* every bit the decoder model consumes is bit pos&7 of byte pos>>3 of the buffer, with pos>>3
   inside the buffer; a read outside is an underrun result, never a value *)
Theorem reader_never_past_buffer :
  forall buf pos b r',
    0 <= pos -> getbit (Z.of_nat (length buf)) (mk_reader buf pos) = Some (b, r') ->
    getbit_lit buf pos = Some b /\ 0 <= pos / 8 < Z.of_nat (length buf) /\ r' = mk_reader buf (pos + 1).
Proof. exact reader_never_past_buffer_lemma. Qed.

Print Assumptions reorder_is_padded_permutation.
Print Assumptions reorder_flat_is_padded_permutation.
Print Assumptions reorder_order_spec.
Print Assumptions bitbuf_put_get_roundtrip.
Print Assumptions decode_total.
Print Assumptions reader_never_past_buffer.
