(* C06 -- the register command stream encodes exactly the operations it was given.  Statements only.
   The model (model/Emit.v) is tied to register_command_stream_generator.py by the correspondence runs of
   tools/checks/c06.py; the decoder is hw/Npu.v (decode, exec). *)
From Coq Require Import ZArith List Bool.
From VV Require Import gen.GenTables gen.GenEmitTables hw.Npu model.Emit proofs.EmitProofs.
Import ListNotations.
Open Scope Z_scope.

(* EVERY sequence of emitter calls (any values, any interleaving of cmd0/cmd1 register writes, waits and
   operation commands, DMA and non-DMA opcodes mixed): the words of the eliding emitter decode, and the
   decoder's event list -- every wait, every operation with its FULL register snapshot -- is the one obtained
   by applying all writes un-elided (ref_events), which is also what the never-eliding emitter decodes to. *)
Theorem elision_transparent :
  forall cs, Forall call_ok cs ->
    run_stream (emitted cs) = Some (ref_events [] cs) /\
    run_stream (emitted_plain cs) = Some (ref_events [] cs).
Proof. exact elision_transparent_lemma. Qed.

(* ... spelled out key by key: at every operation command the decoded register file reads, on every
   register key, the last (masked) value written by the calls before it, elided or not *)
Theorem elision_transparent_at_every_op :
  forall pre code p post, Forall call_ok (pre ++ DoOp code p :: post) ->
    exists evs1 snap evs2,
      run_stream (emitted (pre ++ DoOp code p :: post)) =
        Some (evs1 ++ classify code (p mod 65536) snap :: evs2) /\
      List.length evs1 = count_ops pre /\
      forall k, rget k snap = last_written k pre 0.
Proof. exact elision_pointwise_lemma. Qed.

(* the split into two RegisterMachines is part of the statement: the theorem holds for the split the
   source makes (is_dma0/is_dma1, regenerated from the opcode names) and for any other split *)
Theorem elision_transparent_any_split :
  forall (d0 d1 : Z -> bool) cs, Forall call_ok cs ->
    run_stream (snd (emit_all_gen d0 d1 est_init cs)) = Some (ref_events [] cs).
Proof. exact elision_transparent_generic. Qed.

Theorem emitter_split_is :
  map fst (filter snd cmd0_dma_table) =
    [cmd0_NPU_OP_DMA_START; cmd0_NPU_OP_DMA_WAIT; cmd0_NPU_SET_DMA0_SRC_REGION; cmd0_NPU_SET_DMA0_DST_REGION;
     cmd0_NPU_SET_DMA0_SIZE0; cmd0_NPU_SET_DMA0_SIZE1] /\
  map fst (filter snd cmd1_dma_table) =
    [cmd1_NPU_SET_DMA0_SRC; cmd1_NPU_SET_DMA0_DST; cmd1_NPU_SET_DMA0_LEN; cmd1_NPU_SET_DMA0_SKIP0;
     cmd1_NPU_SET_DMA0_SKIP1].
Proof. exact dma_split. Qed.

Theorem emitter_has_one_bank : n_banks = 1.
Proof. exact one_bank. Qed.

Theorem opcodes_are_legal_calls :
  forallb (fun p => (0 <=? fst p) && (fst p <? 1024)) cmd0_dma_table = true /\
  forallb (fun p => (0 <=? fst p) && (fst p <? 1024)) cmd1_dma_table = true /\
  map fst cmd0_dma_table = cmd0_codes /\ map fst cmd1_dma_table = cmd1_codes.
Proof. exact (conj cmd0_table_codes_ok (conj cmd1_table_codes_ok tables_match_opcodes)). Qed.

(* masking is the identity exactly on the field range *)
Theorem no_truncation :
  (forall code p, write_of (Cmd0 code p) = Some (code, p) <-> 0 <= p < 65536) /\
  (forall code p, (exists v, write_of (Cmd0 code p) = Some (code, v) /\ s16 v = p) <-> -32768 <= p < 32768) /\
  (forall code off p, 0 <= p < 65536 ->
     (write_of (Cmd1Offset code off p) = Some (1024 + code, off + p * 4294967296) <-> 0 <= off < 4294967296)) /\
  (forall code off p, 0 <= off < 4294967296 ->
     (write_of (Cmd1Offset code off p) = Some (1024 + code, off + p * 4294967296) <-> 0 <= p < 65536)) /\
  (forall code a, write_of (Cmd1Address code a) = Some (1024 + code, a) <-> 0 <= a < 281474976710656).
Proof. exact no_truncation_lemma. Qed.

(* REFUTED reading "out-of-range values are rejected": the emitter has no rejection path; an OFM height of 70000
   (HEIGHT_M1 = 69999) is emitted masked and decodes to 4463.  Replayed on the real generator by the malformed
   stream of tools/checks/c06.py (known finding "silent_truncation"). *)
Theorem out_of_range_rejected_refuted :
  exists code p snap,
    call_ok (Cmd0 code p) /\ ~ (0 <= p < 65536) /\
    run_stream (emitted [Cmd0 code p; DoOp cmd0_NPU_OP_POOL 0; DoOp cmd0_NPU_OP_STOP 65535]) = Some [EOp cmd0_NPU_OP_POOL 0 snap; EStop 65535] /\
    rget code snap <> p.
Proof. exact out_of_range_rejected_refuted_lemma. Qed.

(* derived fields of an operation within the register-level limits fit and read back *)
Theorem field_fits :
  (forall x, 1 <= x <= 65536 -> 0 <= x - 1 < 65536 /\ Z.land (x - 1) 65535 + 1 = x) /\
  (forall dil size, 1 <= dil <= 2 -> 1 <= size <= 32768 -> 0 <= kernel_size_field dil size < 65536) /\
  (forall sx sy dx dy pk, 1 <= sx <= 16 -> 1 <= sy <= 16 -> 1 <= dx <= 2 -> 1 <= dy <= 2 ->
     kstride_ok sx sy dx dy pk = true) /\
  (forall sg bits gs b16 x, bits_ok bits = true -> 0 <= x <= 2 ->
     ifm_prec_ok sg bits b16 x = true /\ ofm_prec_ok sg bits gs b16 x = true) /\
  (forall idx i32, 0 <= idx < 8 ->
     let f := activation_lut_field idx i32 in
     0 <= f < 65536 /\ f mod 4096 = 16 + idx /\ f / 4096 = (if i32 then 3 else 0)) /\
  (forall rv sc bh bw bc, 0 <= broadcast_field rv sc bh bw bc < 256) /\
  (forall a, 0 <= a < 1099511627776 ->
     addr_lo a + addr_hi a * 4294967296 = a /\ 0 <= addr_hi a < 256 /\ 0 <= addr_lo a < 4294967296) /\
  (forall (sg : bool) bits zp, bits_ok bits = true -> bits <= 16 ->
     (if sg then - 2 ^ (bits - 1) <= zp < 2 ^ (bits - 1) else 0 <= zp < 2 ^ bits) ->
     (if sg then s16 (Z.land zp 65535) = zp else Z.land zp 65535 = zp)) /\
  (forall b16 elem w d, 1 <= elem <= 4 -> 1 <= w <= 65536 -> 1 <= d <= 65536 ->
     let '(sc, sy, sx) := default_strides b16 elem w d in
     0 <= sc < 1099511627776 /\ 0 <= sy < 1099511627776 /\ 0 <= sx < 1099511627776).
Proof. exact field_fits_lemma. Qed.

(* operand order and scale mode of elementwise ADD/SUB: for either operand order the pair written to
   IFM2_BROADCAST bit 6 / IFM_PRECISION[9:8] selects for the 32-bit rescale the feature map the reference chose;
   swapping the operands swaps the mode (an unswapped mode selects the other feature map); the mode survives
   the IFM_PRECISION bit packing *)
Theorem scale_mode_denotes :
  forall reversed ifm_smaller : bool,
    rescaled_is_ifm reversed (scale_mode reversed (op_to_scale_ref ifm_smaller)) = ifm_smaller.
Proof. exact scale_mode_denotes_lemma. Qed.

Theorem scale_mode_swap :
  forall (r : bool) m, m = scale_OPa \/ m = scale_OPb ->
    scale_mode (negb r) m = swap_operand (scale_mode r m) /\
    rescaled_is_ifm (negb r) (scale_mode r m) = negb (rescaled_is_ifm r (scale_mode r m)).
Proof. exact scale_mode_swap_lemma. Qed.

Theorem scale_mode_field :
  forall sg bits b16 (r sm : bool), bits_ok bits = true ->
    (ifm_precision_field sg bits b16 (scale_mode r (op_to_scale_ref sm)) / 256) mod 4 = scale_mode r (op_to_scale_ref sm).
Proof. exact scale_mode_field_lemma. Qed.

(* framing of generate_command_stream: writes, then the frame's waits, then its operation command; one STOP,
   at the end *)
Theorem stream_wellformed :
  forall par fs, Forall frame_ok fs ->
  exists pre body,
    decode (emitted (stream_calls par fs)) = Some (pre ++ body ++ [stop_cmd]) /\
    forallb cmd_is_write pre = true /\ framed body fs /\
    filter cmd_is_stop (pre ++ body ++ [stop_cmd]) = [stop_cmd] /\
    last (pre ++ body ++ [stop_cmd]) stop_cmd = stop_cmd /\
    exists evs, run_stream (emitted (stream_calls par fs)) = Some (evs ++ [EStop 65535]) /\
                Forall (fun e => match e with EStop _ => False | _ => True end) evs.
Proof. exact stream_wellformed_lemma. Qed.

(* the check_* guards accept exactly the aligned addresses / strides / lengths *)
Theorem alignment_checks_complete :
  (forall a n, 0 < n -> check_alignment_ok a n = true <-> (n | a)) /\
  (forall a n, 0 < n -> check_size_ok a n = true <-> (n | a)) /\
  (forall (b16 : bool) elem sc sy sx, 0 < elem ->
     check_strides_ok b16 elem sc sy sx = true <->
     (if b16 then (16 | sc) /\ (16 | sy) else (elem | sy) /\ (elem | sx))) /\
  (forall (b16 : bool) elem q16 addrs, 0 < elem -> 0 < q16 ->
     check_addresses_ok b16 elem q16 addrs = true <-> Forall (fun a => ((if b16 then q16 else elem) | a)) addrs) /\
  (forall (u65 : bool) sr sa dr da len,
     check_dma_ok u65 sr sa dr da len = true <->
     (if u65 then (sr = MEM2MEM -> (16 | sa)) /\ (dr = MEM2MEM -> (16 | da) /\ (16 | len))
      else (16 | sa) /\ (16 | da) /\ (16 | len))) /\
  (forall addr len, check_weight_ok addr len = true <-> (16 | addr) /\ (16 | len)) /\
  (forall len, check_bias_ok len = true <-> (16 | len)).
Proof. exact alignment_checks_complete_lemma. Qed.

Print Assumptions elision_transparent.
Print Assumptions elision_transparent_at_every_op.
Print Assumptions elision_transparent_any_split.
Print Assumptions no_truncation.
Print Assumptions field_fits.
Print Assumptions stream_wellformed.
Print Assumptions alignment_checks_complete.
Print Assumptions out_of_range_rejected_refuted.
Print Assumptions scale_mode_denotes.
