(* C16 -- operators within the documented constraints are accelerated, others stay on the CPU.  Statements only.
   Predicates and tables are regenerated from the working tree (gen/GenConstraints.v); readings of the report's
   sentences and the driver models are in model/Constraints.v; proofs in proofs/ConstraintsProofs.v. *)
From Coq Require Import ZArith List Bool String.
From VV Require Import lib.PyInt gen.GenConstraints model.Constraints proofs.ConstraintsProofs.
Import ListNotations.
Open Scope Z_scope.

(* ---- each translated predicate is the documented range / sentence, for all integer arguments ---- *)
Theorem constraint_matches_doc_tens_dimension : forall shapes, constraint_tens_dimension shapes = doc_tens_dimension shapes.
Proof. exact ConstraintsProofs.constraint_matches_doc_tens_dimension. Qed.
Theorem constraint_matches_doc_stride_range : forall w h, constraint_stride_range w h = doc_stride_range w h.
Proof. exact ConstraintsProofs.constraint_matches_doc_stride_range. Qed.
Theorem constraint_matches_doc_dilated_height_range : forall kh dh,
  constraint_dilated_height_range kh dh = doc_dilated_height_range kh dh.
Proof. exact ConstraintsProofs.constraint_matches_doc_dilated_height_range. Qed.
Theorem constraint_matches_doc_dilated_product_range : forall kw kh dw dh,
  constraint_dilated_product_range kw kh dw dh = doc_dilated_product_range kw kh dw dh.
Proof. exact ConstraintsProofs.constraint_matches_doc_dilated_product_range. Qed.
Theorem constraint_matches_doc_weights_limit : forall s, constraint_weights_limit s = doc_weights_limit s.
Proof. exact ConstraintsProofs.constraint_matches_doc_weights_limit. Qed.
Theorem constraint_matches_doc_bias_40bit : forall has_bias is64 has_values vals,
  constraint_bias_40bit has_bias is64 has_values vals = doc_bias_40bit has_bias is64 has_values vals.
Proof. exact ConstraintsProofs.constraint_matches_doc_bias_40bit. Qed.
Theorem constraint_matches_doc_batch_size : forall ifm ifm2 has_ifm has_ifm2,
  constraint_batch_size ifm ifm2 has_ifm has_ifm2 = doc_batch_size ifm ifm2 has_ifm has_ifm2.
Proof. exact ConstraintsProofs.constraint_matches_doc_batch_size. Qed.
Theorem constraint_matches_doc_depth_multiplier : forall dm ifm ofm,
  constraint_depth_multiplier dm ifm ofm = doc_depth_multiplier dm ifm ofm.
Proof. exact ConstraintsProofs.constraint_matches_doc_depth_multiplier. Qed.
Theorem constraint_matches_doc_depthwise_conv_stride : forall w h,
  constraint_depthwise_conv_stride w h = doc_depthwise_conv_stride w h.
Proof. exact ConstraintsProofs.constraint_matches_doc_depthwise_conv_stride. Qed.
Theorem constraint_matches_doc_tconv_stride : forall sw sh kh ifm,
  constraint_tconv_stride sw sh kh ifm = doc_tconv_stride sw sh kh (py_nth ifm 1).
Proof. exact ConstraintsProofs.constraint_matches_doc_tconv_stride. Qed.
Theorem constraint_matches_doc_tconv_same : forall sw sh padding ifm ofm,
  constraint_tconv_same sw sh padding ifm ofm = doc_tconv_same sw sh padding ifm ofm.
Proof. exact ConstraintsProofs.constraint_matches_doc_tconv_same. Qed.
Theorem constraint_matches_doc_filter_height_range : forall kh, constraint_filter_height_range kh = doc_filter_height_range kh.
Proof. exact ConstraintsProofs.constraint_matches_doc_filter_height_range. Qed.
Theorem constraint_matches_doc_filter_product_range : forall kw kh,
  constraint_filter_product_range kw kh = doc_filter_product_range kw kh.
Proof. exact ConstraintsProofs.constraint_matches_doc_filter_product_range. Qed.
Theorem constraint_matches_doc_filter_height_range_valid_pad : forall kh padding,
  constraint_filter_height_range_valid_pad kh padding = doc_filter_height_range_valid_pad kh padding.
Proof. exact ConstraintsProofs.constraint_matches_doc_filter_height_range_valid_pad. Qed.
Theorem constraint_matches_doc_filter_product_range_valid_pad : forall kw kh padding,
  constraint_filter_product_range_valid_pad kw kh padding = doc_filter_product_range_valid_pad kw kh padding.
Proof. exact ConstraintsProofs.constraint_matches_doc_filter_product_range_valid_pad. Qed.
Theorem constraint_matches_doc_mean_height_width_product : forall shape axis is16 isu8,
  constraint_mean_height_width_product shape axis is16 isu8 = doc_mean_height_width_product shape axis is16 isu8.
Proof. exact ConstraintsProofs.constraint_matches_doc_mean_height_width_product. Qed.
Theorem constraint_matches_doc_mean_width : forall shape axis, constraint_mean_width shape axis = doc_mean_width shape axis.
Proof. exact ConstraintsProofs.constraint_matches_doc_mean_width. Qed.
Theorem constraint_matches_doc_mean_depth : forall shape axis, constraint_mean_depth shape axis = doc_mean_depth shape axis.
Proof. exact ConstraintsProofs.constraint_matches_doc_mean_depth. Qed.
Theorem constraint_matches_doc_argmax_depth : forall shape, constraint_argmax_depth shape = doc_argmax_depth shape.
Proof. exact ConstraintsProofs.constraint_matches_doc_argmax_depth. Qed.
Theorem constraint_matches_doc_stride_range_no_padding : forall sw sh padding ifm ofm,
  py_nth ofm 2 <> 1 ->
  constraint_stride_range_no_padding sw sh padding ifm ofm =
  constraint_stride_width_no_upper_limit sw sh ifm ofm && doc_stride_range_no_padding sw padding.
Proof. exact ConstraintsProofs.constraint_matches_doc_stride_range_no_padding. Qed.
Theorem constraint_matches_doc_resize : forall (ifm ofm : list Z) (align : bool),
  (align = false -> py_nth ifm 1 <> 0) ->
  constraint_resize ifm ofm align = Some (doc_resize ifm ofm align).
Proof. exact ConstraintsProofs.constraint_matches_doc_resize. Qed.
Theorem constraint_resize_total : forall ifm ofm align, 1 <= py_nth ifm 1 -> constraint_resize ifm ofm align <> None.
Proof. exact ConstraintsProofs.constraint_resize_total. Qed.
Theorem constraint_matches_doc_resizebi_half_pixel_centers_dims : forall ifm ofm half,
  py_nth ifm (-3) <> 0 -> py_nth ifm (-2) <> 0 ->
  constraint_resizebi_half_pixel_centers_dims ifm ofm half = Some (doc_resizebi_half_pixel_centers_dims ifm ofm half).
Proof. exact ConstraintsProofs.constraint_matches_doc_resizebi_half_pixel_centers_dims. Qed.

(* ---- where the code and the sentence differ: what holds (partial) and a witness of the difference (refuted) ---- *)
(* average pool filter range: only checked for SAME padding, and a width equal to the stride width passes *)
Theorem constraint_matches_doc_filter_range_partial : forall sw sh kw kh padding,
  doc_filter_range kw kh = true -> constraint_filter_range sw sh kw kh padding = true.
Proof. exact ConstraintsProofs.constraint_matches_doc_filter_range_partial. Qed.
Theorem constraint_matches_doc_filter_range_refuted : exists sw sh kw kh padding,
  constraint_filter_range sw sh kw kh padding = true /\ doc_filter_range kw kh = false.
Proof. exact ConstraintsProofs.constraint_matches_doc_filter_range_refuted. Qed.
(* convolution / average pool strides: a stride width dividing the IFM width passes although it is not a multiple of 2 or 3 *)
Theorem constraint_matches_doc_stride_width_no_upper_limit_partial : forall sw sh ifm ofm,
  1 <= py_nth ofm 1 -> 1 <= py_nth ofm 2 ->
  (doc_stride_width_no_upper_limit sw sh (py_nth ifm 2) (py_nth ofm 1) (py_nth ofm 2) = true ->
   constraint_stride_width_no_upper_limit sw sh ifm ofm = true) /\
  (constraint_stride_width_no_upper_limit sw sh ifm ofm = true ->
   doc_stride_width_no_upper_limit sw sh (py_nth ifm 2) (py_nth ofm 1) (py_nth ofm 2) = true \/
   (3 < sw /\ py_nth ifm 2 mod sw = 0)).
Proof. exact ConstraintsProofs.constraint_matches_doc_stride_width_no_upper_limit_partial. Qed.
Theorem constraint_matches_doc_stride_width_no_upper_limit_refuted : exists sw sh ifm ofm,
  constraint_stride_width_no_upper_limit sw sh ifm ofm = true /\
  doc_stride_width_no_upper_limit sw sh (py_nth ifm 2) (py_nth ofm 1) (py_nth ofm 2) = false.
Proof. exact ConstraintsProofs.constraint_matches_doc_stride_width_no_upper_limit_refuted. Qed.
(* transpose convolution, VALID padding: the code accepts the TFLite output size, the sentence read literally says otherwise *)
Theorem constraint_tconv_valid_spec : forall sw sh kw kh padding ifm ofm,
  constraint_tconv_valid sw sh kw kh padding ifm ofm = spec_tconv_valid sw sh kw kh padding ifm ofm.
Proof. exact ConstraintsProofs.constraint_tconv_valid_spec. Qed.
Theorem constraint_matches_doc_tconv_valid_partial : forall s padding ifm ofm,
  constraint_tconv_valid s s s s padding ifm ofm = doc_tconv_valid_literal s s s s padding ifm ofm.
Proof. exact ConstraintsProofs.constraint_matches_doc_tconv_valid_partial. Qed.
Theorem constraint_matches_doc_tconv_valid_refuted : exists sw sh kw kh padding ifm ofm,
  constraint_tconv_valid sw sh kw kh padding ifm ofm = true /\ doc_tconv_valid_literal sw sh kw kh padding ifm ofm = false.
Proof. exact ConstraintsProofs.constraint_matches_doc_tconv_valid_refuted. Qed.
(* ---- the sentences the readings were written from are the ones the report prints (modulo digits and spacing) ---- *)
Theorem documented_sentences_hold :
  says doc_text_constraint_stride_range "Stride values for both width and height must be in the range [, ]"%string /\
  says doc_text_constraint_bias_40bit "Optional Bias tensor values must fit within -bits"%string /\
  says doc_text_constraint_mean_width "If Width axis is reduced its shape must be no greater than ."%string.
Proof. exact documented_sentences_3. Qed.

(* ---- the drivers and the report ---- *)
Theorem supported_is_conjunction : forall res op,
  fst (is_operator_supported res op) = mem op supported_operators && forallb res (sup_list op).
Proof. exact ConstraintsProofs.supported_is_conjunction. Qed.
Theorem unsupported_type_is_rejected : forall res op,
  mem op supported_operators = false -> is_operator_supported res op = (false, []).
Proof. exact ConstraintsProofs.unsupported_type_is_rejected. Qed.
Theorem drivers_match_traced :
  forallb traced_ok traced = true /\
  map (fun r => let '(op, _, _, _, _) := r in op) traced = map Z.of_nat (seq 0 (Z.to_nat n_ops)).
Proof. exact ConstraintsProofs.drivers_match_traced. Qed.
Theorem report_lists_enforced : forall code op ngen idx,
  In (code, op, ngen, idx) report_rows ->
  report_text idx = map doc_of (enforced_generic op) ++ map doc_of (enforced_specific op) /\
  mem op supported_operators = true /\
  (forall res, forallb res (enforced_generic op ++ enforced_specific op) = forallb res (sem_list op) && forallb res (sup_list op)) /\
  sup_list op = filter (fun c => negb (mem c (assoc op sup_exceptions))) sup_generic ++ assoc op sup_specific.
Proof. exact ConstraintsProofs.report_lists_enforced. Qed.
Theorem report_values_are_enforced_values : forall c prefix printed enforced,
  In (c, prefix, printed, enforced) value_lists ->
  doc_of c = prefix ++ join_comma printed /\ dedup_adjacent printed = enforced.
Proof. exact ConstraintsProofs.report_values_are_enforced_values_each. Qed.
Theorem report_value_lists_nonempty : value_lists <> [].
Proof. exact (proj2 ConstraintsProofs.report_values_are_enforced_values). Qed.
(* ---- UNIDIRECTIONAL_SEQUENCE_LSTM: structural constraints (hand model, tied by correspondence) ---- *)
Theorem lstm_supported_is_documented : forall present ranks,
  List.length present = 24%nat -> List.length ranks = 24%nat ->
  lstm_supported present ranks = doc_lstm_supported present ranks.
Proof. exact ConstraintsProofs.lstm_supported_is_documented. Qed.
Theorem lstm_no_cifg_subsumed : forall present,
  List.length present = 24%nat -> lstm_weights present = true -> lstm_no_cifg present = true.
Proof. exact ConstraintsProofs.lstm_no_cifg_subsumed. Qed.
Theorem lstm_constraint_lists :
  0 <= lstm_op /\ mem lstm_op supported_operators = true /\
  map name_of (assoc lstm_op sup_specific) =
  map codes ["sup.constraint_lstm_no_cifg"; "sup.constraint_lstm_no_peep_hole"; "sup.constraint_lstm_no_projection";
             "sup.constraint_lstm_no_normalisation"; "sup.constraint_lstm_weights"; "sup.constraint_lstm_weight_dimensions"]%string /\
  map name_of (assoc lstm_op sem_specific) =
  map codes ["sem.constraint_input_signed"; "sem.constraint_matching_in_out_types"; "sem.constraint_lstm_dimensions";
             "sem.constraint_lstm_inputs"; "sem.constraint_lstm_intermediates"; "sem.constraint_lstm_variables"]%string.
Proof. exact ConstraintsProofs.lstm_constraint_lists. Qed.
Theorem report_rows_are_the_supported_builtins : pairs_eqb rows_head expected_rows = true.
Proof. exact (proj2 report_rows_check). Qed.
Theorem npu_candidate_iff_report : forall res code op ngen idx,
  In (code, op, ngen, idx) report_rows ->
  mem op [op_id_Placeholder; op_id_SubgraphInput; op_id_Const] = false ->
  fst (is_operator_semantic_valid res op) && fst (is_operator_supported res op) =
  forallb res (enforced_generic op ++ enforced_specific op).
Proof. exact ConstraintsProofs.npu_candidate_iff_report. Qed.

Print Assumptions constraint_matches_doc_stride_range.
Print Assumptions constraint_matches_doc_stride_width_no_upper_limit_partial.
Print Assumptions constraint_matches_doc_bias_40bit.
Print Assumptions constraint_matches_doc_resize.
Print Assumptions report_lists_enforced.
Print Assumptions supported_is_conjunction.
Print Assumptions lstm_supported_is_documented.
Print Assumptions report_values_are_enforced_values.
Print Assumptions drivers_match_traced.
Print Assumptions npu_candidate_iff_report.
