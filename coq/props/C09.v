(* C09 -- quantised multipliers reproduce the real scale to reference precision.  Statements only.
   A float (binary32/binary64, Python float or NumPy scalar) is the exact dyadic  m * 2^e  (Dy m e).
   L = Z.log2 m; math.frexp's exponent is E = e + L + 1 (2^(E-1) <= scale < 2^E).  rnd m = 1 when the
   significand rounds up to 2^31 (m >= 2^(L+1) * (1 - 2^-32)) and quantise_scale renormalises it to 2^30
   as the reference does, else 0.  Vela's shift is  vshift m e = 31 - E - rnd m.  The hardware range is
   0 <= vshift m e <= 63, i.e. 2^-33 * (1 - 2^-32) <= scale < 2^31 * (1 - 2^-32). *)
From Coq Require Import ZArith List Bool QArith Qabs.
From VV Require Import lib.PyInt lib.PyFloat gen.GenScaling model.Scaling
  proofs.ScalingProofs proofs.ScalingPoolProofs proofs.ScalingFloatProofs.
Import ListNotations.
Open Scope Z_scope.

(* ---- the translated source functions are the ones the twins are about ---- *)
Theorem gen_quantise_scale_is_model : forall m e, GenScaling.quantise_scale (Dy m e) = q_scale m e.
Proof. exact gen_quantise_scale_eq. Qed.
Theorem gen_reduced_quantise_scale_is_model : forall m e, GenScaling.reduced_quantise_scale (Dy m e) = r_scale m e.
Proof. exact gen_reduced_quantise_scale_eq. Qed.
Theorem gen_quantise_pooling_scale_is_model : forall n rb, GenScaling.quantise_pooling_scale n rb = pool_scale n rb.
Proof. exact gen_quantise_pooling_scale_eq. Qed.

(* ---- quantise_scale ---- *)
Theorem vshift_def : forall m e, vshift m e = 31 - (e + Z.log2 m + 1) - rnd m.
Proof. reflexivity. Qed.
Theorem rnd_def : forall m, rnd m = if qpos m =? 2 ^ 31 then 1 else 0.
Proof. reflexivity. Qed.

(* In range: multiplier in [2^30, 2^31] (indeed < 2^31), shift in [0, 63].  The pair denotes q * 2^-s and
   the scale is m * 2^e; multiplied by 2^(s+rnd+L+1) these are q * 2^(L+1+rnd) and m * 2^31, so
   |q * 2^(L+1+rnd) - m * 2^31| <= 2^L <= m  is exactly  |q * 2^-s - scale| <= 2^-31 * scale. *)
Theorem quantise_scale_accurate :
  forall m e, 0 < m ->
    let L := Z.log2 m in let s := vshift m e in
    0 <= s <= 63 ->
    exists q, GenScaling.quantise_scale (Dy m e) = (q, s) /\
              2 ^ 30 <= q <= 2 ^ 31 /\ q < 2 ^ 31 /\
              Z.abs (q * 2 ^ (L + 1 + rnd m) - m * 2 ^ 31) <= 2 ^ L /\ 2 ^ L <= m.
Proof. exact quantise_scale_accurate_lemma. Qed.

(* the same statement over the rationals *)
Theorem quantise_scale_accurate_Q :
  forall m e, 0 < m ->
    let s := vshift m e in
    0 <= s <= 63 ->
    exists q, GenScaling.quantise_scale (Dy m e) = (q, s) /\
              (Qabs.Qabs (pair_Q q s - dy_Q (Dy m e)) <= QArith_base.Qpower 2 (-31) * dy_Q (Dy m e))%Q.
Proof. exact quantise_scale_accurate_Q_lemma. Qed.

(* Out of range the multiplier is zero.  This includes the scales just below 2^31 whose significand rounds
   up (vshift = -1); the scales just below 2^-33 whose significand rounds up are in range (vshift = 63):
   Example quantise_scale_ex_degrade. *)
Theorem quantise_scale_degrades :
  forall m e, 0 < m ->
    ~ (0 <= vshift m e <= 63) -> GenScaling.quantise_scale (Dy m e) = (0, 16).
Proof. exact quantise_scale_degrades_lemma. Qed.

(* nothing wraps: for every positive input the pair fits the 32-bit scale / 6-bit shift fields *)
Theorem quantise_scale_fits :
  forall m e, 0 < m ->
    0 <= fst (GenScaling.quantise_scale (Dy m e)) < 2 ^ 31 /\
    0 <= snd (GenScaling.quantise_scale (Dy m e)) <= 63.
Proof. exact quantise_scale_fits_lemma. Qed.

(* Reference equality, shift in [0, 62]: the SAME pair as QuantizeMultiplier, whose left shift is 31 - s *)
Theorem quantise_scale_eq_tflite :
  forall m e, 0 < m ->
    let s := vshift m e in
    0 <= s <= 62 ->
    exists q,
      GenScaling.quantise_scale (Dy m e) = (q, s) /\ tfl_quantize_multiplier (Dy m e) = (q, 31 - s) /\
      2 ^ 30 <= q < 2 ^ 31.
Proof. exact quantise_scale_eq_tflite_lemma. Qed.

(* the form other properties compose with (C01), driven by the result of the code: a non-zero
   multiplier (the pair is not the degraded (0, 16)) with shift <= 62 is the reference's pair *)
Theorem quantise_scale_is_tflite :
  forall m e q s, 0 < m ->
    GenScaling.quantise_scale (Dy m e) = (q, s) -> q <> 0 -> 0 <= s <= 62 ->
    tfl_quantize_multiplier (Dy m e) = (q, 31 - s) /\ 2 ^ 30 <= q < 2 ^ 31.
Proof. exact quantise_scale_is_tflite_lemma. Qed.

(* ... and driven by the input: 2^-31 <= scale < 2^30 (un-renormalised shift in [1, 62]) *)
Theorem quantise_scale_is_tflite_in_range :
  forall m e, 0 < m ->
    let s0 := 31 - (e + Z.log2 m + 1) in
    1 <= s0 <= 62 ->
    exists q s, GenScaling.quantise_scale (Dy m e) = (q, s) /\ s0 - 1 <= s <= s0 /\
                tfl_quantize_multiplier (Dy m e) = (q, 31 - s) /\ 2 ^ 30 <= q < 2 ^ 31.
Proof. exact quantise_scale_is_tflite_in_range_lemma. Qed.

(* the degraded pair is recognised by its zero multiplier *)
Theorem quantise_scale_nonzero :
  forall m e q s, 0 < m -> GenScaling.quantise_scale (Dy m e) = (q, s) -> q <> 0 ->
    s = vshift m e /\ q = qn m /\ 0 <= s <= 63.
Proof. exact quantise_scale_nonzero_lemma. Qed.

(* At shift 63 the reference flushes to zero while Vela keeps the accurate pair: the two clauses of the
   property cannot both hold there; Vela satisfies the accuracy clause.  Stated, not hidden. *)
Theorem quantise_scale_tflite_shift63 :
  forall m e, 0 < m -> vshift m e = 63 ->
    GenScaling.quantise_scale (Dy m e) = (qn m, 63) /\ 2 ^ 30 <= qn m < 2 ^ 31 /\
    tfl_quantize_multiplier (Dy m e) = (0, 0).
Proof. exact quantise_scale_tflite_shift63_lemma. Qed.

(* ---- reduced_quantise_scale ---- *)
(* The pair (rm, s - 16) denotes rm * 2^-(s-16); scaled by 2^(s+rnd+L+1): rm * 2^(L+17+rnd) against m * 2^31.
   True bound 2^-15 + 2^-31 (first inequality), hence the 2^-14 of the property text. *)
Theorem reduced_quantise_scale_accurate :
  forall m e, 0 < m ->
    let L := Z.log2 m in let s := vshift m e in
    0 <= s <= 63 ->
    exists rm, GenScaling.reduced_quantise_scale (Dy m e) = (rm, s - 16) /\
               2 ^ 14 <= rm <= 32767 /\
               Z.abs (rm * 2 ^ (L + 17 + rnd m) - m * 2 ^ 31) * 2 ^ 31 <= (2 ^ 16 + 1) * (m * 2 ^ 31) /\
               Z.abs (rm * 2 ^ (L + 17 + rnd m) - m * 2 ^ 31) * 2 ^ 14 <= m * 2 ^ 31.
Proof. exact reduced_quantise_scale_accurate_lemma. Qed.

Theorem reduced_quantise_scale_degrades :
  forall m e, 0 < m ->
    ~ (0 <= vshift m e <= 63) -> GenScaling.reduced_quantise_scale (Dy m e) = (0, 0).
Proof. exact reduced_quantise_scale_degrades_lemma. Qed.

(* what is guaranteed about the reduced shift: in [-16, 47]; non-negative iff Vela's shift >= 16 (scale < 2^15) *)
Theorem reduced_quantise_scale_shift :
  forall m e, 0 < m ->
    -16 <= snd (GenScaling.reduced_quantise_scale (Dy m e)) <= 47 /\
    (0 <= vshift m e <= 63 ->
     (0 <= snd (GenScaling.reduced_quantise_scale (Dy m e)) <-> 16 <= vshift m e)).
Proof. exact reduced_quantise_scale_shift_lemma. Qed.

(* ---- quantise_pooling_scale ---- *)
Theorem pooling_scale_exact :
  forall n A acc, 1 <= n -> 1 <= A -> 2 * n * A < 2 ^ 31 -> 0 <= acc <= n * A ->
    exists scale shift,
      GenScaling.quantise_pooling_scale n 0 = Some (scale, shift) /\
      2 ^ 31 <= scale < 2 ^ 32 /\ 31 <= shift <= 62 /\
      apply_scale acc scale shift = div_half_up acc n.
Proof. exact pooling_scale_exact_lemma. Qed.

Theorem pooling_scale_exact_8bit :
  forall n acc, 1 <= n <= 65536 -> 0 <= acc <= n * 255 ->
    exists scale shift,
      GenScaling.quantise_pooling_scale n 0 = Some (scale, shift) /\
      2 ^ 31 <= scale < 2 ^ 32 /\ 31 <= shift <= 62 /\
      apply_scale acc scale shift = div_half_up acc n.
Proof. exact pooling_scale_exact_8bit_lemma. Qed.

Theorem pooling_scale_exact_16bit :
  forall n acc, 1 <= n <= 16384 -> 0 <= acc <= n * 65535 ->
    exists scale shift,
      GenScaling.quantise_pooling_scale n 0 = Some (scale, shift) /\
      2 ^ 31 <= scale < 2 ^ 32 /\ 31 <= shift <= 62 /\
      apply_scale acc scale shift = div_half_up acc n.
Proof. exact pooling_scale_exact_16bit_lemma. Qed.

(* Modelled hardware semantics: apply_scale is natural rounding,  (acc * scale + 2^(shift-1)) >> shift.
   Under TFLite-style double rounding (round at bit 31, then at shift - 31) the same pair is NOT
   exact for every 8-bit window; stated so that the dependence on the rounding the NPU applies
   to the pooling scale is visible. *)
Theorem pooling_scale_double_round_differs :
  exists n acc scale shift,
    1 <= n <= 65536 /\ 0 <= acc <= n * 255 /\
    GenScaling.quantise_pooling_scale n 0 = Some (scale, shift) /\
    apply_scale acc scale shift = div_half_up acc n /\
    apply_scale_double acc scale shift <> div_half_up acc n.
Proof. exact pooling_scale_double_round_differs_lemma. Qed.

(* beyond the bound a 32-bit multiplier is not precise enough: 16-bit data, 256x256 window *)
Theorem pooling_scale_16bit_refuted :
  exists n acc scale shift,
    1 <= n <= 65536 /\ 0 <= acc <= n * 65535 /\
    GenScaling.quantise_pooling_scale n 0 = Some (scale, shift) /\
    apply_scale acc scale shift = 32810 /\ div_half_up acc n = 32809.
Proof. exact pooling_scale_16bit_refuted_lemma. Qed.

(* signed 16-bit data, the only 16-bit type the TFLite front end produces (|x| <= 32768, zero point 0):
   exact for every window up to 2^15 elements, for both signs ... *)
Theorem pooling_scale_exact_int16 :
  forall n acc, 1 <= n <= 32768 -> 0 <= acc <= n * 32768 ->
    exists scale shift,
      GenScaling.quantise_pooling_scale n 0 = Some (scale, shift) /\
      apply_scale acc scale shift = div_half_up acc n /\
      (0 < acc -> apply_scale (- acc) scale shift = - div_half_up acc n).
Proof. exact pooling_scale_exact_int16_lemma. Qed.

(* ... and not beyond: a 135 x 247 window (accepted by the operator checks) with mean 32646.49998 *)
Theorem pooling_scale_int16_refuted :
  exists n acc scale shift,
    n = 135 * 247 /\ 0 <= acc <= n * 32767 /\
    GenScaling.quantise_pooling_scale n 0 = Some (scale, shift) /\
    apply_scale acc scale shift = 32647 /\ div_half_up acc n = 32646.
Proof. exact pooling_scale_int16_refuted_lemma. Qed.

(* negative accumulators: nearest, halfway cases away from zero (what the signed reference kernel does) *)
Theorem pooling_scale_negative :
  forall n A acc, 1 <= n -> 1 <= A -> 2 * n * A < 2 ^ 31 -> 0 < acc <= n * A ->
    exists scale shift,
      GenScaling.quantise_pooling_scale n 0 = Some (scale, shift) /\
      apply_scale (- acc) scale shift = - div_half_up acc n.
Proof. exact pooling_scale_negative_lemma. Qed.

Theorem pooling_assert_holds :
  forall n rb, (1 <= n <= 65536 /\ -16 <= rb) \/ (n = 1 /\ -32 <= rb) ->
    exists scale, GenScaling.quantise_pooling_scale n rb = Some (scale, 31 - rb + pool_k n) /\
                  31 - rb + pool_k n <= 63.
Proof. exact pooling_assert_holds_lemma. Qed.

Theorem pooling_scale_headroom :
  forall n rb, 1 <= n <= 65536 -> 0 <= rb <= 14 ->
    exists scale shift, GenScaling.quantise_pooling_scale n rb = Some (scale, shift) /\
                        2 ^ (31 - rb) <= scale < 2 ^ (32 - rb).
Proof. exact pooling_scale_headroom_lemma. Qed.

(* ---- elementwise mul / add / sub ---- *)
Theorem same_value_def : forall v t ls, same_value v t ls <-> fst v = fst t /\ snd t = 31 - snd v - ls.
Proof. intros; reflexivity. Qed.

(* PARTIAL: the float expressions of scaling.py are modelled by round-to-nearest-even dyadic
   arithmetic with p-bit significands and unbounded exponents (no overflow/underflow/subnormal
   results), one precision for the whole expression; the model is tied to the Python functions by
   correspondence only (they are not translated).  same_value v t ls: Vela's pair v = (q, s),
   denoting q * 2^-s, has the multiplier of the reference pair t = (q', s') (denoting q' * 2^(s'-31)) and
   s' = 31 - s - ls, i.e. the same value times 2^ls (unfolded in same_value_def below).
   Evaluated in binary64 (p = 53: Python float / np.float64 operands), advanced add/sub scaling gives
   the operand with the smaller scale the reference's (add.cc / sub.cc Prepare) input multiplier with
   the left shift folded into the shift, and the reference's output multiplier, wherever Vela's pair
   is in range with shift <= 62 and the reference does not flush its (unshifted) input multiplier.
   With p = 24 (np.float32 operands under NumPy >= 2) the conclusion fails: Example ew_advanced_ex. *)
Theorem elementwise_add_sub_eq_reference_partial :
  forall in1 in2 out bitdepth, 0 < dm in1 -> 0 < dm in2 -> 0 < dm out ->
    let ls := if bitdepth =? 8 then 20 else 15 in
    let '(vin, vout, op) := ew_advanced 53 in1 in2 out bitdepth in
    let '(_, _, tout) := tfl_add_params in1 in2 out ls in
    op = (if dy_ltb in1 in2 then 1 else 2) /\
    (fst vin <> 0 -> snd vin + ls <= 62 -> same_value vin (tfl_min_input in1 in2) ls) /\
    (fst vout <> 0 -> snd vout <= 62 -> same_value vout tout 0).
Proof. exact ew_advanced_eq_reference_lemma. Qed.

(* tfl_min_input is the reference's real_input1/2_multiplier of the operand with the smaller scale *)
Theorem elementwise_add_sub_reference_operand :
  forall in1 in2 out ls,
    let '(t1, t2, _) := tfl_add_params in1 in2 out ls in
    (dy_ltb in1 in2 = true -> tfl_min_input in1 in2 = t1) /\
    (dy_ltb in2 in1 = true -> tfl_min_input in1 in2 = t2) /\
    (dy_ltb in1 in2 = false -> dy_ltb in2 in1 = false -> tfl_min_input in1 in2 = t1).
Proof. exact tfl_min_input_is. Qed.

(* mul: whatever the precision p of the evaluation, Vela's pair and QuantizeMultiplier of the same
   rounded real multiplier denote the same value (p = 24: mul.cc evaluates in float; p = 53:
   TFLite Micro evaluates in double) *)
Theorem elementwise_mul_eq_reference_partial :
  forall p in1 in2 out, 1 <= p -> 0 < dm in1 -> 0 < dm in2 -> 0 < dm out ->
    let v := ew_mul_scale p in1 in2 out in
    fst v <> 0 -> snd v <= 62 -> same_value v (tfl_mul_params p in1 in2 out) 0.
Proof. exact ew_mul_eq_reference_lemma. Qed.

(* Which TENSOR each programmed scale reaches (the triple of the property is per tensor).  ew_scale_mode is the hand
   model of generate_scaling_for_elementwise's choice of IFM_PRECISION.scale_mode (advanced_elementwise_add_sub_scale's
   op_to_scale, exchanged for reversed operands), tied by correspondence; ifm_gets_opa is the hardware reading of
   (scale mode, operand order) from coq/hw/NpuExec.v.  For BOTH operand orders the 32-bit OPA pair reaches the IFM
   exactly when the IFM has the smaller scale ... *)
Theorem elementwise_add_sub_operand_choice :
  forall ifm ifm2 rev, ifm_gets_opa (ew_scale_mode ifm ifm2 rev) rev = dy_ltb ifm ifm2.
Proof. exact ew_operand_choice_lemma. Qed.

(* ... and the tensor that is only shifted (an exact 1/2) is the one whose reference multiplier is exactly 1/2,
   (2^30, 0).  With elementwise_add_sub_eq_reference_partial (the pair itself is the reference multiplier of the tensor
   with the smaller scale) the effective per-tensor input multipliers equal the reference's for both orders. *)
Theorem elementwise_add_sub_per_tensor_partial :
  forall ifm ifm2 out ls rev, 0 < dm ifm -> 0 < dm ifm2 ->
    let smode := ew_scale_mode ifm ifm2 rev in
    let '(t1, t2, _) := tfl_add_params ifm ifm2 out ls in
    (dy_ltb ifm ifm2 = true -> ifm_gets_opa smode rev = true /\ t2 = (2 ^ 30, 0)) /\
    (dy_ltb ifm ifm2 = false -> ifm_gets_opa smode rev = false /\ t1 = (2 ^ 30, 0)).
Proof. exact ew_per_tensor_lemma. Qed.

(* ---- the requantisation scale of QUANTIZE (generate_ofm_scaling_for_pooling, branch fused_quantize) ---- *)
(* PARTIAL (hand model of the float expression, tied by correspondence at the call site and by the OFM_SCALE in force
   in compiled networks): the quotient of the widened scales, quantised, is the reference's QuantizeMultiplier pair
   (quantize.cc: double(input scale) / double(output scale)) ... *)
Theorem fused_quantize_eq_reference_partial :
  forall ifm ofm, 0 < dm ifm -> 0 < dm ofm ->
    let v := fused_quantize_scale 53 ifm ofm in
    fst v <> 0 -> snd v <= 62 -> same_value v (tfl_requantize_params ifm ofm) 0.
Proof. exact fused_quantize_eq_reference_lemma. Qed.

(* ... and the quotient formed in float32 is not *)
Theorem fused_quantize_float32_quotient_refuted :
  exists ifm ofm, 0 < dm ifm /\ 0 < dm ofm /\
    fused_quantize_scale 53 ifm ofm = (1784628124, 33) /\ tfl_requantize_params ifm ofm = (1784628124, -2) /\
    fused_quantize_scale 24 ifm ofm = (1784628096, 33).
Proof. exact fused_quantize_float32_quotient_refuted_lemma. Qed.

(* ---- packed scale records of CONV_2D / DEPTHWISE_CONV_2D / FULLY_CONNECTED (weight_compressor) ---- *)
(* PARTIAL in the same sense as the elementwise theorems (hand model of _prepare_scale_and_bias's float
   expression, tied by reading the records back from compiled networks: tools/checks/c09.py section G).
   pprod = 53: int8/int16 convolutions (double product); pprod = 24: uint8 and FULLY_CONNECTED (float product).
   Evaluated with the rule of the source operator, the packed pair is the reference's QuantizeMultiplier pair ... *)
Theorem conv_packed_eq_reference_partial :
  forall p ifm w ofm, 1 <= p -> 0 < dm ifm -> 0 < dm w -> 0 < dm ofm ->
    let v := conv_packed_scale p false ifm w ofm in
    fst v <> 0 -> snd v <= 62 -> same_value v (tfl_conv_params p ifm w ofm) 0.
Proof. exact conv_packed_eq_reference_lemma. Qed.

(* ... and for int16 with an int64 bias the run-time reduction the reference kernel applies to it *)
Theorem conv_packed_reduced_eq_reference_partial :
  forall p ifm w ofm, 1 <= p -> 0 < dm ifm -> 0 < dm w -> 0 < dm ofm ->
    let v := conv_packed_scale p false ifm w ofm in
    fst v <> 0 -> snd v <= 62 ->
    conv_packed_scale p true ifm w ofm = tfl_reduce (tfl_conv_params p ifm w ofm).
Proof. exact conv_packed_reduced_eq_reference_lemma. Qed.

Print Assumptions quantise_scale_accurate.
Print Assumptions quantise_scale_accurate_Q.
Print Assumptions quantise_scale_degrades.
Print Assumptions quantise_scale_eq_tflite.
Print Assumptions quantise_scale_is_tflite.
Print Assumptions quantise_scale_is_tflite_in_range.
Print Assumptions quantise_scale_tflite_shift63.
Print Assumptions reduced_quantise_scale_accurate.
Print Assumptions pooling_scale_exact.
Print Assumptions pooling_scale_double_round_differs.
Print Assumptions pooling_scale_16bit_refuted.
Print Assumptions pooling_scale_exact_int16.
Print Assumptions pooling_scale_int16_refuted.
Print Assumptions pooling_scale_negative.
Print Assumptions elementwise_add_sub_eq_reference_partial.
Print Assumptions elementwise_mul_eq_reference_partial.
Print Assumptions conv_packed_eq_reference_partial.
Print Assumptions conv_packed_reduced_eq_reference_partial.
Print Assumptions elementwise_add_sub_operand_choice.
Print Assumptions elementwise_add_sub_per_tensor_partial.
Print Assumptions fused_quantize_eq_reference_partial.
Print Assumptions fused_quantize_float32_quotient_refuted.
