(* C15 -- every block configuration used or offered is valid for the hardware.  Statements only. *)
From Coq Require Import ZArith List Bool String.
From VV Require Import lib.PyInt gen.GenArchTables gen.GenBlockCfg model.BlockCfg proofs.BlockCfgProofs.
Import ListNotations.
Open Scope Z_scope.

(* ---- the translated source functions are the ones the model is about ---- *)
Theorem gen_try_block_config_is_model :
  forall s ew ofm ifm bits ig ab ag lut,
    GenBlockCfg._try_block_config (s_bank_size_bytes s) (s_total_banks s) (s_reserved_output_banks s) ew
      (b_w ofm) (b_h ofm) (b_d ofm) (b_w ifm) (b_h ifm) (b_d ifm) bits ig ab ag lut
    = option_map layout_tuple (try_layout s ew ofm ifm bits ig ab ag lut).
Proof. exact gen_try_block_config_eq. Qed.

Theorem gen_ifm_blockdepth_is_model :
  forall ud d bits pk, GenBlockCfg._ifm_blockdepth ud d bits pk = ifm_blockdepth ud d bits pk.
Proof. exact gen_ifm_blockdepth_eq. Qed.

Theorem gen_required_size_is_model :
  forall value stride border upscale nearest, 0 < upscale ->
    GenBlockCfg._required_size value stride border upscale nearest = Some (required_size value stride border upscale nearest).
Proof. exact gen_required_size_eq. Qed.

Theorem gen_get_ifm_blocksize_is_model :
  forall ofm k ub_w ub_h sk_w sk_h upscale nearest, 0 < upscale ->
    GenBlockCfg._get_ifm_blocksize (b_h ofm) (b_w ofm) (b_d ofm) (k_sy k) (area_h k) (k_sx k) (area_w k) ub_h ub_w sk_h sk_w
      upscale nearest
    = let b := get_ifm_blocksize ofm k ub_w ub_h sk_w sk_h upscale nearest in Some (1, b_h b, b_w b, b_d b).
Proof. exact gen_get_ifm_blocksize_eq. Qed.

(* ---- the bank arithmetic, for ALL inputs and any SHRAM configuration with a positive bank size ---- *)
(* layout_wf (proofs/BlockCfgProofs.v):  reserved_output_banks = ib_start <= ib_start2 <= ib_end <= ab_start <= lut_start
   = total - lut_banks <= total;  IFM partition = 2*ceil(ifm_bytes/bank) rounded up to the IFM granule;
   non-elementwise: IFM2 empty, accumulators = 2*ceil(acc_bytes/bank) rounded up to the accumulator granule;
   elementwise: ib_end = ab_start = lut_start (no accumulators), IFM2 >= an IFM partition when Full *)
Theorem try_layout_wellformed :
  forall s ew ofm ifm bits ig ab ag lut l,
    0 < s_bank_size_bytes s -> 0 <= lut -> block_nonneg ofm -> block_nonneg ifm ->
    try_layout s ew ofm ifm bits ig ab ag lut = Some l ->
    layout_wf s ew ofm ifm bits ig ab ag lut l.
Proof. exact try_layout_wellformed_lemma. Qed.

(* the executable predicate used by the register validator means what the property says *)
Theorem layout_okb_means :
  forall s ew ofm ifm bits ig ab ag lut l,
    layout_okb s ew ofm ifm bits ig ab ag lut l = true ->
    let ifm_part := (if ew =? EW_No then ib_end l else ib_start2 l) - ib_start l in
    ib_start l = s_reserved_output_banks s /\ ib_start l <= ib_start2 l <= ib_end l /\ ib_end l <= ab_start l <= lut_start l /\
    lut_start l = s_total_banks s - lut /\ lut_start l <= s_total_banks s /\
    2 * ifm_bytes_of ifm bits <= ifm_part * s_bank_size_bytes s /\ ifm_part mod ig = 0 /\
    (ew = EW_No -> 2 * acc_bytes_of ofm ab <= (lut_start l - ab_start l) * s_bank_size_bytes s /\
                   (lut_start l - ab_start l) mod ag = 0) /\
    (ew = EW_Full -> 2 * ifm_bytes_of ifm bits <= (ib_end l - ib_start2 l) * s_bank_size_bytes s).
Proof. exact layout_okb_sound. Qed.

(* ---- the search: six regenerated accelerator rows x ALL shapes ---- *)
Theorem arch_rows_wellformed : forall a, In a arch_table -> arch_wf a.
Proof. exact arch_table_wf. Qed.

Theorem find_config_valid :
  forall a bt ofm ifm ifm2 us bits k lut scaled rs cf,
    In a arch_table -> 0 <= lut -> kernel_ok k -> 0 <= sh_d (larger_ifm ifm ifm2) ->
    find_block_config a bt ofm ifm ifm2 us bits k lut scaled rs = Some (Some cf) ->
    exists ig, ifm_granule_of a (ew_usage bt us) bits = Some ig /\
      config_valid a (ew_usage bt us) (sh_h ofm) k bits ig (acc_bits_of (acc_type bt bits scaled))
        (acc_granule_of a (acc_type bt bits scaled)) (Z.max lut (ar_reserved_end_banks a)) (cf_cfg cf).
Proof. exact find_config_valid_lemma. Qed.

(* the model's loop bound never cuts the Python `while` loop short *)
Theorem find_fuel_adequate :
  forall a x ofm n st, arch_wf a -> x_arch x = a ->
    let ss := search_space a ofm in
    depth_loop (Z.to_nat (b_d ss) + 1 + n) x ss (first_depth a (sh_d ofm) (b_d ss)) st =
    depth_loop (Z.to_nat (b_d ss) + 1) x ss (first_depth a (sh_d ofm) (b_d ss)) st.
Proof. exact find_fuel_adequate_lemma. Qed.

(* ---- the public query and the generator: every block that passes try_block_config ---- *)
Theorem offered_config_valid :
  forall a blk bt ofm ifm ifm2 us bits pk k lut scaled rs cf,
    In a arch_table -> 0 <= lut -> kernel_ok k ->
    0 <= sh_d (larger_ifm (shape_of_block ifm) (option_map shape_of_block ifm2)) ->
    try_block_config a blk bt ofm ifm ifm2 us bits pk k lut scaled rs = Some (Some cf) ->
    c_ofm_block (cf_cfg cf) = blk /\
    exists ig, ifm_granule_of a (ew_usage bt us) bits = Some ig /\
      config_valid a (ew_usage bt us) (b_h ofm) k bits ig (acc_bits_of (acc_type bt bits scaled))
        (acc_granule_of a (acc_type bt bits scaled)) (Z.max lut (ar_reserved_end_banks a)) (cf_cfg cf).
Proof. exact try_config_valid_lemma. Qed.

(* selected => accepted: the block the scheduler's search (find_block_config) selects passes, with the same layout,
   the validity test the command stream generator runs on it (try_block_config, traversal as chosen by the search) *)
Theorem selected_is_accepted :
  forall a bt ofm ifm ifm2 us bits k lut scaled rs cf,
    In a arch_table ->
    find_block_config a bt (shape_of_block ofm) (shape_of_block ifm) (option_map shape_of_block ifm2) us bits k lut scaled rs
      = Some (Some cf) ->
    try_block_config a (c_ofm_block (cf_cfg cf)) bt ofm ifm ifm2 us bits (cf_partkernel cf) k lut scaled rs = Some (Some cf).
Proof. exact selected_is_accepted_lemma. Qed.

(* offered => accepted holds on the accelerators whose accumulator granules make a 32-bit accumulator block never
   need more banks than the 40-bit one ... *)
Theorem offered_is_accepted_partial :
  forall a blk bt ofm ifm ifm2 ifm2' us bits pk k lut rs (s s' : bool) cf,
    In a arch_table -> scaling_agnostic a ->
    (ifm2' = ifm2 \/ bt = BT_ElementWise) -> (s' = true -> s = true) ->
    try_block_config a blk bt ofm ifm ifm2 us bits pk k lut s rs = Some (Some cf) ->
    exists cf', try_block_config a blk bt ofm ifm ifm2' us bits pk k lut s' rs = Some (Some cf').
Proof. exact offered_is_accepted_lemma. Qed.

(* ... which are all rows but ethos-u55-128 (order of arch_names) ... *)
Theorem scaling_agnostic_rows :
  Forall2 (fun a ok => if ok : bool then scaling_agnostic a else ~ scaling_agnostic a) arch_table
          [true; true; false; true; true; true].
Proof. exact scaling_agnostic_rows_lemma. Qed.

(* ... and on ethos-u55-128 the faithful model offers a block that the generator rejects *)
Theorem offered_is_accepted_refuted :
  exists a blk ofm ifm k cf,
    nth_error arch_table 2 = Some a /\ nth_error arch_names 2 = Some "ethos-u55-128"%string /\ kernel_ok k /\
    try_block_config a blk BT_ConvolutionMxN ofm ifm None false 16 false k 0 true RS_NONE = Some (Some cf) /\
    try_block_config a blk BT_ConvolutionMxN ofm ifm None false 16 false k 0 false RS_NONE = Some None.
Proof. exact offered_is_accepted_refuted_lemma. Qed.

(* ---- the validator run on the registers of every emitted operation is sound ---- *)
Theorem check_blockcfg_sound :
  forall a blk bt ofm ifm ifm2 us bits pk k lut rs r_ib_end r_ib_start2 r_ab_start r_fmt has2,
    check_blockcfg a blk bt ofm ifm ifm2 us bits pk k lut rs r_ib_end r_ib_start2 r_ab_start r_fmt has2 = true ->
    block_valid a blk = true /\
    exists ig t fb ib l,
      ifm_granule_of a (ew_usage bt us) bits = Some ig /\
      (t = SHRAM_Acc40 /\ r_fmt = acc_format_Acc40 \/ t = SHRAM_Acc32 /\ r_fmt = acc_format_Acc32) /\
      fb = fit_block_for_ofm a (b_h ofm) k {| b_w := b_w blk; b_h := b_h blk; b_d := b_d blk |} /\
      ib_end l = r_ib_end /\ ab_start l = r_ab_start /\ (has2 = true -> ib_start2 l = r_ib_start2) /\
      layout_okb (shram_of a) (ew_usage bt us) fb ib bits ig (acc_bits_of t) (acc_granule_of a t)
        (Z.max lut (ar_reserved_end_banks a)) l = true.
Proof. exact check_blockcfg_sound_lemma. Qed.

Print Assumptions gen_try_block_config_is_model.
Print Assumptions try_layout_wellformed.
Print Assumptions layout_okb_means.
Print Assumptions find_config_valid.
Print Assumptions find_fuel_adequate.
Print Assumptions offered_config_valid.
Print Assumptions selected_is_accepted.
Print Assumptions offered_is_accepted_partial.
Print Assumptions scaling_agnostic_rows.
Print Assumptions offered_is_accepted_refuted.
Print Assumptions check_blockcfg_sound.
