(* C10 -- placeholder while the proofs are being written *)
From Coq Require Import ZArith List Bool.
From VV Require Import model.Stripe.
Open Scope Z_scope.
