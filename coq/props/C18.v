(* C18 -- system configuration and memory mode resolve as documented.  Statements only.
   Model: model/Config.v (hand model of _read_config, _get_vela_config, main()'s --config handling, tied by
   correspondence in tools/checks/c18.py); SPEC: second half of model/Config.v (OPTIONS.md transcribed). *)
From Coq Require Import ZArith List Bool.
From VV Require Import model.Config proofs.ConfigProofs.
Import ListNotations.
Open Scope Z_scope.

(* child overrides parent, transitively: on acyclic inheritance (a finite lineage s, parent, grandparent, ...
   through existing sections) _read_config returns the value bound in the nearest section of the lineage that
   binds the key, else the value passed in (the default); the `found` flag says whether any section binds it *)
Theorem read_config_spec :
  forall c s l k cur, wf_lineage c s l ->
    exists fl, read_config (fuel_of c) c s k cur = Ok (odflt cur (nearest c l k), fl)
               /\ last fl false = is_some (nearest c l k).
Proof. exact read_config_spec_lemma. Qed.

Theorem read_config_terminates :
  forall c s l k cur, wf_lineage c s l ->
    (List.length l <= List.length c)%nat /\ read_config (fuel_of c) c s k cur <> Err ERecursion.
Proof. exact read_config_terminates_lemma. Qed.

(* the model runs out of fuel exactly on cyclic inheritance, where no amount of fuel helps *)
Theorem read_config_recursion_iff_cyclic :
  forall c s k cur, read_config (fuel_of c) c s k cur = Err ERecursion <-> (forall f, walk f c s = None).
Proof. exact ConfigProofs.read_config_recursion_iff_cyclic. Qed.

(* P7: A -> B -> A; every parent exists, no section names itself, and _read_config never returns *)
Theorem inherit_cycle_refuted :
  exists c s,
    (forall x p, get_opt c x K_inherit = Some p -> has_section c p = true /\ p <> x) /\
    has_section c s = true /\
    forall fuel k cur, read_config fuel c s k cur = Err ERecursion.
Proof. exact inherit_cycle_refuted_lemma. Qed.

(* the fuel-free lineage is the one the SPEC computes *)
Theorem lineage_is_wf : forall c s l, wf_lineage c s l <-> lineage c s = Some l.
Proof. exact wf_lineage_is_lineage. Qed.

(* ALL files x selections x overrides: ArchitectureFeatures resolves the record the documented rules give and
   raises exactly when they reject *)
Theorem resolve_matches_doc :
  forall u65 files sys mem cli,
    to_option (get_vela_config u65 false files sys mem cli) = spec_resolve u65 files sys mem cli.
Proof. exact resolve_matches_doc_lemma. Qed.

(* main() with the documented hand-off: all file-system views x command lines *)
Theorem main_matches_doc :
  forall fs a, to_option (main_model (mkMP None true false) fs a) = spec_main fs a.
Proof. exact main_matches_doc_lemma. Qed.

(* the three ways in which main() can differ from the documented hand-off, each refuted *)
Theorem main_handoff_refuted :
  exists fs1 fs2 fs3 a,
    bundled_agree fs1 fs2 /\ bundled_agree fs1 fs3 /\ forallb ca_dirfile (a_config a) = true /\
    (exists s, spec_main fs1 a = Some s /\ spec_main fs2 a = Some s /\ spec_main fs3 a = Some s /\
               to_option (main_model (mkMP None false false) fs2 a) = Some s /\
               main_model (mkMP None false false) fs1 a = Err EVela /\
               exists w, main_model (mkMP None false false) fs3 a = Ok w /\ w <> s /\ core_clock w = 5 * 1024).
Proof. exact main_handoff_refuted_lemma. Qed.

Theorem main_arena_default_refuted :
  exists fs a, a_acs a = None /\
    exists m s, main_model (mkMP (Some 393216) true false) fs a = Ok m /\ spec_main fs a = Some s /\
                acs s = 524288 /\ acs_loc s = 1 /\ acs m = 393216 /\ acs_loc m = 2.
Proof. exact main_arena_default_refuted_lemma. Qed.

Theorem main_imx93_default_refuted :
  (exists m s, main_model (mkMP None true true) [] (mkCli [] true SEC_SYS_DEFAULT SEC_MEM_DEFAULT None) = Ok m /\
               spec_main [] (mkCli [] true SEC_SYS_DEFAULT SEC_MEM_DEFAULT None) = Some s /\
               getT (scales m) 2 = 240 /\ getT (scales s) 2 = 768) /\
  (exists m s, main_model (mkMP None true true) [] (mkCli [] false SEC_SYS_DEFAULT SEC_MEM_DEFAULT None) = Ok m /\
               spec_main [] (mkCli [] false SEC_SYS_DEFAULT SEC_MEM_DEFAULT None) = Some s /\
               axi1 m = 2 /\ axi1 s = 4 /\ core_clock m = 1000000000 * 1024 /\ core_clock s = 500000000 * 1024).
Proof. exact main_imx93_default_refuted_lemma. Qed.

(* Dir/file.ini is looked up in the bundled directory, whatever the working directory *)
Theorem config_path_spec :
  forall fs a, ca_ini a = true -> ca_dirfile a = true ->
    parse_config_path fs a = if readable fs (Bundled (ca_path a)) then Ok (Bundled (ca_path a)) else Err EVela.
Proof. exact config_path_dirfile_lemma. Qed.

Theorem config_path_cwd_independent :
  forall pm fs1 fs2 a,
    pm_pass_resolved pm = true -> bundled_agree fs1 fs2 -> forallb ca_dirfile (a_config a) = true ->
    main_model pm fs1 a = main_model pm fs2 a.
Proof. exact config_path_cwd_independent_lemma. Qed.

(* rejects_illegal, clause by clause; `imx` ranges over both classes main() instantiates *)
Theorem rejects_unknown_sys :
  forall u65 imx files sys mem cli,
    sys <> SEC_SYS_DEFAULT ->
    match files with Some c => has_section c sys = false | None => True end ->
    get_vela_config u65 imx files sys mem cli = Err EVela.
Proof. exact rejects_unknown_sys_lemma. Qed.

Theorem rejects_unknown_mem :
  forall u65 imx files sys mem cli,
    mem <> SEC_MEM_DEFAULT ->
    match files with Some c => has_section c mem = false | None => True end ->
    exists e, get_vela_config u65 imx files sys mem cli = Err e.
Proof. exact rejects_unknown_mem_lemma. Qed.

Theorem rejects_self_inheritance :
  forall u65 imx c s other cli,
    has_section c s = true -> get_opt c s K_inherit = Some s ->
    get_vela_config u65 imx (Some c) s other cli = Err EVela /\
    (exists e, get_vela_config u65 imx (Some c) other s cli = Err e) /\
    forall fuel k cur, read_config (S fuel) c s k cur = Err EVela.
Proof. exact rejects_self_inheritance_lemma. Qed.

Theorem rejects_missing_parent :
  forall u65 imx c s p other cli,
    has_section c s = true -> get_opt c s K_inherit = Some p -> has_section c p = false ->
    get_vela_config u65 imx (Some c) s other cli = Err EVela /\
    (exists e, get_vela_config u65 imx (Some c) other s cli = Err e).
Proof. exact rejects_missing_parent_lemma. Qed.

Theorem rejects_broken_lineage :
  forall u65 imx c sys mem cli l o,
    has_section c sys = true -> walk (fuel_of c) c sys = Some (l, o) -> o <> ORoot ->
    get_vela_config u65 imx (Some c) sys mem cli = Err EVela.
Proof. exact rejects_broken_sys_lemma. Qed.

Theorem rejects_illegal :
  forall u65 imx files sys mem cli a,
    get_vela_config u65 imx files sys mem cli = Ok a ->
    spec_legal u65 a = true /\ (forall v, cli = Some v -> acs a = v /\ acs_loc a = 2).
Proof. exact accepted_is_legal_lemma. Qed.

Theorem rejects_illegal_mapping :
  forall u65 a, spec_legal u65 a = false -> exists e, validate u65 a = Err e.
Proof. exact rejects_illegal_mapping_lemma. Qed.

Theorem rejects_out_of_range_cli :
  forall u65 imx files sys mem v,
    v < 0 \/ max_addr u65 < v -> exists e, get_vela_config u65 imx files sys mem (Some v) = Err e.
Proof. exact rejects_out_of_range_cli_lemma. Qed.

(* the path-resolution rule over (working-directory components, argument components, bundled directory):
   absolute argument -> that file, whatever the working directory; exactly two ordinary relative components ->
   bundled directory; arguments of these two kinds make the whole resolution independent of the working directory *)
Theorem resolve_path_absolute :
  forall bdir cwd p, p_abs p = true -> resolve_path bdir cwd p = if ends_ini (norm p) then Some (norm p) else None.
Proof. exact resolve_path_absolute_lemma. Qed.

Theorem resolve_path_dirfile :
  forall bdir cwd d i f l,
    resolve_path bdir cwd (mkPath false [CName d i 0; CName f true l]) = Some (bdir ++ [CName d i 0; CName f true l]).
Proof. exact resolve_path_dirfile_lemma. Qed.

Theorem resolve_path_two_components :
  forall bdir cwd p d i c2,
    p_abs p = false -> norm p = [CName d i 0; c2] -> ends_ini (norm p) = true ->
    resolve_path bdir cwd p = Some (bdir ++ norm p).
Proof. exact resolve_path_two_components_lemma. Qed.

Theorem resolve_path_cwd_free :
  forall bdir cwd1 cwd2 p, cwd_free p = true -> resolve_path bdir cwd1 p = resolve_path bdir cwd2 p.
Proof. exact resolve_path_cwd_free_lemma. Qed.

Theorem main_concrete_cwd_independent :
  forall pm w cwd1 cwd2 a,
    pm_pass_resolved pm = true -> forallb cwd_free (c_config a) = true ->
    main_concrete pm w cwd1 a = main_concrete pm w cwd2 a.
Proof. exact main_concrete_cwd_independent_lemma. Qed.

Theorem main_concrete_matches_doc :
  forall w cwd a, to_option (main_concrete (mkMP None true false) w cwd a) = spec_main_c w cwd a.
Proof. exact main_concrete_matches_doc_lemma. Qed.

(* making the argument relative to the working directory before classifying it (os.path.relpath) breaks the first fact *)
Theorem relpath_variant_refuted :
  exists bdir cwd p,
    p_abs p = true /\ resolve_path bdir cwd p = Some (norm p) /\
    resolve_path bdir cwd (relpath cwd p) <> resolve_path bdir cwd p /\
    resolve_path bdir cwd (relpath cwd p) = Some (bdir ++ [CName 12 false 0; CName 13 true 0]).
Proof. exact relpath_variant_refuted_lemma. Qed.

Print Assumptions read_config_spec.
Print Assumptions read_config_terminates.
Print Assumptions read_config_recursion_iff_cyclic.
Print Assumptions inherit_cycle_refuted.
Print Assumptions resolve_matches_doc.
Print Assumptions main_matches_doc.
Print Assumptions main_handoff_refuted.
Print Assumptions main_arena_default_refuted.
Print Assumptions main_imx93_default_refuted.
Print Assumptions config_path_spec.
Print Assumptions config_path_cwd_independent.
Print Assumptions rejects_unknown_sys.
Print Assumptions rejects_self_inheritance.
Print Assumptions rejects_illegal.
Print Assumptions rejects_out_of_range_cli.
Print Assumptions resolve_path_absolute.
Print Assumptions resolve_path_cwd_free.
Print Assumptions main_concrete_cwd_independent.
Print Assumptions main_concrete_matches_doc.
Print Assumptions relpath_variant_refuted.
