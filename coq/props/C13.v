(* C13 -- exception-freedom of the modelled arithmetic cores (the whole-compiler totality claim
   is NOT a theorem; see DESIGN.md C13). Statements only. *)
From Coq Require Import ZArith List Bool.
From VV Require Import lib.PyInt gen.GenTables model.Crash proofs.CrashProofs.
Open Scope Z_scope.

Theorem snapshot_arith_no_overflow :
  forall staging usage, 0 <= staging <= max_staging_limit -> 0 <= usage <= 2^60 ->
  slack_buffering_memory staging usage = Some (staging - usage).
Proof. exact snapshot_arith_no_overflow_lemma. Qed.

Theorem snapshot_arith_int32_refuted :
  exists staging usage, 0 <= staging <= max_staging_limit /\ 0 <= usage <= 2^60 /\
                        np_pyint_minus 32 staging usage = None.
Proof. exact snapshot_arith_int32_refuted_lemma. Qed.

Print Assumptions snapshot_arith_no_overflow.

(* ---- exception-freedom of other modelled cores, re-exported here because a raised assertion or
   overflow in them would be an internal exception of the compiler (the statements are proved in the
   developments of C19, C09, C05, C07 and C08; importing them makes C13 fail when they fail) ---- *)
From VV Require props.C19 props.C09 props.C05 props.C07.
From VV Require Import gen.GenFpMath gen.GenScaling model.Scaling model.Alloc model.MlwDecode
  proofs.AllocHillProofs proofs.AllocHillSearchProofs proofs.AllocHillOutcomeProofs.

(* fp_math.exp_on_negative_values (softmax / exp tables): no assert fires and no NumPy overflow happens
   for any non-positive int32 argument *)
Theorem fp_math_exp_no_exception :
  forall a, in_int 32 a = true -> a <= 0 ->
  exists r, GenFpMath.exp_on_negative_values a = Some r /\ in_int 32 r = true /\ 0 <= r.
Proof. exact C19.exp_on_negative_values_total. Qed.

(* scaling.quantise_pooling_scale: `assert shift < (1 << 6)` cannot fire for any window the
   supported-operator checks admit and any rescale the call sites pass *)
Theorem pooling_scale_no_assert :
  forall n rb, (1 <= n <= 65536 /\ -16 <= rb) \/ (n = 1 /\ -32 <= rb) ->
    exists scale, GenScaling.quantise_pooling_scale n rb = Some (scale, 31 - rb + pool_k n) /\
                  31 - rb + pool_k n <= 63.
Proof. exact C09.pooling_assert_holds. Qed.

(* HillClimb: every run, for every random stream, ends normally within its iteration bound (no
   ValueError from randint, no IndexError, no endless predecessor walk) *)
Theorem hillclimb_no_exception :
  forall (S : Type) (next : S -> Z * S) lrs mi limit s,
  Forall hc_wf lrs -> footprint_bound lrs <= 2 ^ 63 ->
  exists addrs best iters draws,
    hillclimb S next lrs mi limit s = Ok (addrs, best, iters, draws) /\ 0 <= iters <= hc_iteration_bound lrs mi.
Proof. exact C05.hillclimb_terminates. Qed.

(* the model of the reference weight-stream decoder always terminates *)
Theorem mlw_decode_model_total : forall strict buf, decode strict buf <> DFuel.
Proof. exact C07.decode_total. Qed.

Print Assumptions fp_math_exp_no_exception.
Print Assumptions hillclimb_no_exception.
