(* C13 -- exception-freedom of the modelled arithmetic cores (the whole-compiler totality claim
   is NOT a theorem; see DESIGN.md C13). Statements only. *)
From Coq Require Import ZArith List Bool.
From VV Require Import lib.PyInt gen.GenTables model.Crash proofs.CrashProofs.
Open Scope Z_scope.

Theorem snapshot_arith_no_overflow :
  forall staging usage, 0 <= staging <= max_staging_limit -> 0 <= usage <= 2^60 ->
  slack_buffering_memory staging usage = Some (staging - usage).
Proof. exact snapshot_arith_no_overflow_lemma. Qed.

Theorem snapshot_arith_int32_refuted :
  exists staging usage, 0 <= staging <= max_staging_limit /\ 0 <= usage <= 2^60 /\
                        np_pyint_minus 32 staging usage = None.
Proof. exact snapshot_arith_int32_refuted_lemma. Qed.

Print Assumptions snapshot_arith_no_overflow.
