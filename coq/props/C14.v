(* C14 -- compilation is deterministic and independent of process history (partial): the memo
   stores as state machines. Statements only. *)
From Coq Require Import ZArith List Bool.
From VV Require Import model.Caches proofs.CachesProofs.
Import ListNotations.
Open Scope Z_scope.

(* a store whose key determines the fresh value is invisible: every history of requests is
   answered exactly as without the store *)
Theorem cache_transparent :
  forall fresh key,
  (forall r1 r2, key r1 = key r2 -> fresh r1 = fresh r2) ->
  forall reqs t, table_ok fresh key t -> run fresh key t reqs = map fresh reqs.
Proof. exact cache_transparent_lemma. Qed.

(* and a key that omits something the computation depends on yields a history-dependent answer *)
Theorem cache_collision_refutes :
  forall fresh key r1 r2, key r1 = key r2 -> fresh r1 <> fresh r2 ->
  run fresh key [] [r1; r2] <> map fresh [r1; r2].
Proof. exact cache_collision_refutes_lemma. Qed.

(* TensorAddressMap: an identifier that survives from one compilation to the next with a different
   address trips the assertion; a history that completes assigns every key one address *)
Theorem address_map_history :
  forall id mt a1 a2, a1 <> a2 -> amap_run [] [(id, mt, a1); (id, mt, a2)] = None.
Proof. exact address_map_history_lemma. Qed.

Theorem address_map_consistent :
  forall sets m m', amap_run m sets = Some m' ->
  forall id mt a, In (id, mt, a) sets -> amap_find m' id mt = Some a.
Proof. exact address_map_consistent_lemma. Qed.

Print Assumptions cache_transparent.
Print Assumptions address_map_consistent.
