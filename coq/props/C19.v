(* C19 -- compile-time fixed-point maths equals the gemmlowp / TFLite reference; integer-only lookup
   tables equal the reference kernels.  Statements only.  GenFpMath.* is regenerated from
   ethosu/vela/fp_math.py on every run; FpMath.* are the transcribed reference functions. *)
From Coq Require Import ZArith List Bool.
From VV Require Import lib.PyInt lib.PyFloat gen.GenFpMath model.FpMath proofs.FpMathProofs.
Import ListNotations.
Open Scope Z_scope.

(* saturating rounding doubling high multiply, every pair of int32 operands *)
Theorem srdhm32_eq_gemmlowp : forall a b,
  in_int 32 a = true -> in_int 32 b = true ->
  GenFpMath.saturating_rounding_mul32 a b = Some (SRDHM32 a b).
Proof. exact srdhm32_eq_gemmlowp_lemma. Qed.

(* its meaning: a*b / 2^31 rounded to the nearest integer, ties upward (floor of the nudged quotient) *)
Theorem srdhm32_is_round_half_up : forall a b,
  in_int 32 a = true -> in_int 32 b = true -> (a =? b) && (a =? -2147483648) = false ->
  SRDHM32 a b = (a * b + 2 ^ 30) / 2 ^ 31.
Proof. exact srdhm32_round_half_up. Qed.

Theorem srdhm32_in_range : forall a b,
  in_int 32 a = true -> in_int 32 b = true -> in_int 32 (SRDHM32 a b) = true.
Proof. exact srdhm32_result_in_int32. Qed.

(* operands outside int32: the Python function stops (assert / OverflowError), it does not wrap *)
Theorem srdhm32_rejects_outside : forall a b,
  in_int 32 a = false \/ in_int 32 b = false -> GenFpMath.saturating_rounding_mul32 a b = None.
Proof. exact srdhm32_outside. Qed.

Theorem srdhm16_eq : forall a b,
  in_int 16 a = true -> in_int 16 b = true ->
  GenFpMath.saturating_rounding_mul16 a b = Some (SRDHM16 a b).
Proof. exact srdhm16_eq_lemma. Qed.

Theorem srdhm16_in_range : forall a b,
  in_int 16 a = true -> in_int 16 b = true -> in_int 16 (SRDHM16 a b) = true.
Proof. exact srdhm16_result_in_int16. Qed.

(* saturating_mul16 is TFLite's SaturatingDoublingHighMul (hard-swish kernel): truncation toward zero *)
Theorem sat_mul16_eq : forall a b,
  in_int 16 a = true -> in_int 16 b = true ->
  GenFpMath.saturating_mul16 a b = Some (SaturatingDoublingHighMul16 a b) /\
  SaturatingDoublingHighMul16 a b =
    (if (a =? b) && (a =? -32768) then 32767 else Z.quot (a * b) (2 ^ 15)) /\
  in_int 16 (SaturatingDoublingHighMul16 a b) = true.
Proof. exact sat_mul16_eq_lemma. Qed.

Theorem rdbpot_eq_gemmlowp : forall x e,
  in_int 32 x = true -> 0 <= e <= 31 ->
  GenFpMath.rounding_divide_by_pot x e = Some (RoundingDivideByPOT x e) /\
  in_int 32 (RoundingDivideByPOT x e) = true.
Proof. exact rdbpot_eq_gemmlowp_lemma. Qed.

(* and that value is x / 2^e rounded to nearest, ties away from zero *)
Theorem rdbpot_rounds_to_nearest : forall x e,
  in_int 32 x = true -> 1 <= e <= 31 ->
  let r := RoundingDivideByPOT x e in
  2 * Z.abs (2 ^ e * r - x) <= 2 ^ e /\ (2 * Z.abs (2 ^ e * r - x) = 2 ^ e -> Z.abs x < Z.abs (2 ^ e * r)).
Proof. exact rdbpot_is_nearest. Qed.

Theorem srmbpot_eq : forall x e,
  in_int 32 x = true -> 0 <= e <= 30 ->
  GenFpMath.saturating_rounding_multiply_by_pot x e = Some (SaturatingRoundingMultiplyByPOT e x) /\
  in_int 32 (SaturatingRoundingMultiplyByPOT e x) = true.
Proof. exact srmbpot_eq_lemma. Qed.

Theorem rescale_eq : forall src dst x,
  in_int 32 src = true -> in_int 32 dst = true -> in_int 32 x = true -> -31 <= src - dst <= 30 ->
  GenFpMath.rescale src dst x = Some (Rescale src dst x) /\ in_int 32 (Rescale src dst x) = true.
Proof. exact rescale_eq_lemma. Qed.

Theorem shift_left32_saturates : forall a off,
  in_int 32 a = true -> 0 <= off ->
  GenFpMath.shift_left32 a off = Some (Z.max (-2147483648) (Z.min 2147483647 (a * 2 ^ off))) /\
  (off <= 30 -> GenFpMath.shift_left32 a off = Some (ShiftLeft32 a off)).
Proof. exact shift_left32_saturates_lemma. Qed.

Theorem shift_left16_saturates : forall a off,
  in_int 16 a = true -> 0 <= off ->
  GenFpMath.shift_left16 a off = Some (Z.max (-32768) (Z.min 32767 (a * 2 ^ off))) /\
  (off <= 30 -> GenFpMath.shift_left16 a off = Some (SaturatingLeftShift16 a off)).
Proof. exact shift_left16_saturates_lemma. Qed.

Theorem downscale_multiplier_eq : forall a,
  in_int 32 a = true ->
  GenFpMath.downscale_multiplier_int32_to_int16 a = Some (DownScaleInt32ToInt16Multiplier a) /\
  in_int 16 (DownScaleInt32ToInt16Multiplier a) = true /\
  DownScaleInt32ToInt16Multiplier a = (if a >=? 2147450879 then 32767 else (a + 32768) / 65536).
Proof. exact downscale_multiplier_eq_lemma. Qed.

(* quantised multiply: Vela shift s is TFLite shift 31 - s; every int32 multiplier (quantise_scale yields
   [0, 2^31)); precondition: the left-shifted operand is an int32 *)
Theorem mbqm_eq_reference : forall x m s,
  in_int 32 x = true -> in_int 32 m = true -> 0 <= s <= 62 ->
  in_int 32 (x * 2 ^ (Z.max 0 (31 - s))) = true ->
  GenFpMath.multiply_by_quantized_multiplier x m s = Some (MultiplyByQuantizedMultiplier x m (31 - s)) /\
  in_int 32 (MultiplyByQuantizedMultiplier x m (31 - s)) = true.
Proof. exact mbqm_eq_reference_lemma. Qed.

(* outside that precondition (where the C reference overflows) the Python-int path stops with an error *)
Theorem mbqm_outside : forall x m s,
  in_int 32 (x * 2 ^ (Z.max 0 (31 - s))) = false -> s <= 31 ->
  GenFpMath.multiply_by_quantized_multiplier x m s = None.
Proof. exact mbqm_outside_lemma. Qed.

Theorem exp_on_interval_eq : forall a,
  -536870912 <= a < 0 ->
  GenFpMath.exp_on_interval_between_negative_one_quarter_and_0_excl a =
    Some (FpMath.exp_on_interval_between_negative_one_quarter_and_0_excl a) /\
  0 < FpMath.exp_on_interval_between_negative_one_quarter_and_0_excl a <= 2147483647.
Proof. exact exp_on_interval_eq_lemma. Qed.

Theorem exp_on_negative_values_eq : forall a,
  in_int 32 a = true -> a <= 0 ->
  GenFpMath.exp_on_negative_values a = Some (FpMath.exp_on_negative_values a).
Proof. exact exp_on_negative_values_eq_lemma. Qed.

(* no assert fires and no intermediate leaves int32, for every non-positive int32 input *)
Theorem exp_on_negative_values_total : forall a,
  in_int 32 a = true -> a <= 0 ->
  exists r, GenFpMath.exp_on_negative_values a = Some r /\ in_int 32 r = true /\ 0 <= r.
Proof. exact exp_on_negative_values_total_lemma. Qed.

Print Assumptions srdhm32_eq_gemmlowp.
Print Assumptions srdhm16_eq.
Print Assumptions sat_mul16_eq.
Print Assumptions rdbpot_eq_gemmlowp.
Print Assumptions rdbpot_rounds_to_nearest.
Print Assumptions srmbpot_eq.
Print Assumptions rescale_eq.
Print Assumptions shift_left32_saturates.
Print Assumptions shift_left16_saturates.
Print Assumptions downscale_multiplier_eq.
Print Assumptions mbqm_eq_reference.
Print Assumptions mbqm_outside.
Print Assumptions exp_on_interval_eq.
Print Assumptions exp_on_negative_values_eq.
Print Assumptions exp_on_negative_values_total.

(* ---- integer-only tables: every entry equals the reference kernel's value ---- *)
(* convert_lrelu_to_lut: all codes x of an int8/uint8 table, any int32 multipliers, shifts 9..62
   (multiplier below 2^22), alpha_scalar = 1 *)
Theorem lut_lrelu_correct : forall zi zo ids idsh als alsh qmin qmax x,
  same8 x zi -> code8 zo ->
  in_int 32 ids = true -> in_int 32 als = true -> 9 <= idsh <= 62 -> 9 <= alsh <= 62 ->
  vela_lrelu_entry zi zo ids idsh 1 als alsh qmin qmax x =
    Some (LeakyReluRef zi zo ids (31 - idsh) als (31 - alsh) qmin qmax x).
Proof. exact lut_lrelu_correct_lemma. Qed.

(* convert_prelu (constant alpha, the same in every channel: alpha_scaling = (alpha_code - alpha_zp, scale, shift))
   followed by convert_lrelu_to_lut: every entry equals the Prelu reference kernel; alpha shift 16..62
   (multiplier below 2^15) *)
Theorem lut_prelu_correct : forall zi zo azp acode ids idsh als alsh qmin qmax x,
  same8 x zi -> same8 acode azp -> code8 zo ->
  in_int 32 ids = true -> in_int 32 als = true -> 9 <= idsh <= 62 -> 16 <= alsh <= 62 ->
  vela_prelu_entry zi zo azp acode ids idsh als alsh qmin qmax x =
    Some (PReluRef zi zo azp acode ids (31 - idsh) als (31 - alsh) qmin qmax x).
Proof. exact lut_prelu_correct_lemma. Qed.
Print Assumptions lut_prelu_correct.

(* convert_mul_max_to_abs_or_lrelu -> convert_lrelu_to_lut on Maximum(x, Mul(x, c)) or Maximum(x, Mul(c, x)):
   for either operand order the table is the MUL-kernel reference whose multiplier is
   qs(feature-map scale, CONSTANT's scale, Mul output scale)  (qs = scaling.elementwise_mul_scale) *)
Theorem lut_mulmax_correct : forall qs fm ct mul_ofm (const_first : bool) zo ids idsh qmin qmax x,
  let in1 := if const_first then ct else fm in
  let in2 := if const_first then fm else ct in
  let als := fst (qs (q_scale fm) (q_scale ct) (q_scale mul_ofm)) in
  let alsh := snd (qs (q_scale fm) (q_scale ct) (q_scale mul_ofm)) in
  same8 x (q_zp fm) -> same8 (q_code ct) (q_zp ct) -> code8 zo ->
  in_int 32 ids = true -> in_int 32 als = true -> 9 <= idsh <= 62 -> 16 <= alsh <= 62 ->
  vela_mulmax_entry qs fm in1 in2 mul_ofm (negb const_first) zo ids idsh qmin qmax x =
    Some (PReluRef (q_zp fm) zo (q_zp ct) (q_code ct) ids (31 - idsh) als (31 - alsh) qmin qmax x).
Proof. exact lut_mulmax_correct_lemma. Qed.

(* the rewrite decision: LeakyRelu iff 0 <= (code - zp) * scale <= 1, Abs iff it is -1 (scale = m * 2^e, e <= 0) *)
Theorem mulmax_decision_by_value : forall code zp m e,
  e <= 0 ->
  (mulmax_kind code zp (Dy m e) = 1 <-> 0 <= m * (code - zp) <= 2 ^ (- e)) /\
  (mulmax_kind code zp (Dy m e) = 2 <-> m * (code - zp) = - 2 ^ (- e)).
Proof. exact mulmax_kind_spec. Qed.
Print Assumptions lut_mulmax_correct.
Print Assumptions mulmax_decision_by_value.

(* convert_hardswish_to_lut under Python-int evaluation of fp_math (see the check for NumPy scalars):
   output multiplier exponent <= 0 as the reference kernel requires *)
Theorem lut_hardswish_correct : forall zi zo os osh rs rsh qmin qmax x,
  same8 x zi -> zo_ok zo osh ->
  in_int 32 os = true -> in_int 32 rs = true -> 31 <= osh <= 46 -> 0 <= rsh <= 46 -> qmin <= qmax ->
  vela_hardswish_entry zi zo os osh rs rsh qmin qmax x =
    Some (HardSwishRef zi zo (DownScaleInt32ToInt16Multiplier rs) (31 - rsh)
                       (DownScaleInt32ToInt16Multiplier os) (31 - osh) qmin qmax x).
Proof. exact lut_hardswish_correct_lemma. Qed.

(* optimise_quantize: int8->int8 / int16->int16 constant folding equals the reference Requantize *)
Theorem optimise_quantize_fold_correct : forall zi zo m s qmin qmax v,
  in_int 16 v = true -> in_int 16 zi = true -> -512 <= zo <= 511 -> in_int 32 m = true -> 16 <= s <= 62 ->
  vela_requant_entry zi zo m s qmin qmax v = Some (RequantizeRef zi zo m (31 - s) qmin qmax v).
Proof. exact quantize_fold_correct_lemma. Qed.

Print Assumptions lut_lrelu_correct.
Print Assumptions lut_hardswish_correct.
Print Assumptions optimise_quantize_fold_correct.
Print Assumptions srdhm32_is_round_half_up.

(* NumPy scalars: with an np.int16 operand (as convert_hardswish_to_lut passes) shift_left16, as the code is now
   (`int(a) * (1 << offset)`), equals the saturating reference; model tied to the real function by correspondence *)
Theorem shift_left16_np_int16_eq : forall a off,
  in_int 16 a = true -> 0 <= off <= 30 ->
  np_shift_left16_int16 a off = Some (SaturatingLeftShift16 a off).
Proof. exact shift_left16_np_int16_eq_lemma. Qed.

(* the expression before /repo d51cb08 (product evaluated in int16) wrapped instead of saturating *)
Theorem shift_left16_old_np_int16_refuted :
  exists a off, in_int 16 a = true /\ 0 <= off <= 30 /\
    np_shift_left16_int16_old a off = Some (-256) /\ SaturatingLeftShift16 a off = 32767 /\
    np_shift_left16_int16 a off = Some 32767.
Proof. exact shift_left16_old_np_int16_refuted_lemma. Qed.
Print Assumptions shift_left16_np_int16_eq.
Print Assumptions shift_left16_old_np_int16_refuted.
