(* C05 -- tensor allocators never overlap live buffers and report their true footprint.
   Statements only; the model is coq/model/Alloc.v (hand model, tied by correspondence). *)
From Coq Require Import ZArith List Bool Permutation Sorting.Sorted.
From VV Require Import gen.GenNumeric model.Alloc proofs.AllocProofs proofs.AllocGreedyProofs proofs.AllocLinearProofs
  proofs.AllocHillProofs proofs.AllocHillNbrProofs proofs.AllocHillSearchProofs proofs.AllocHillPeakProofs
  proofs.AllocHillTermProofs proofs.AllocHillOutcomeProofs proofs.AllocHillIndexProofs proofs.AllocHillWalkProofs
  proofs.AllocAlignProofs proofs.AllocDispatchProofs proofs.AllocExamples.
Import ListNotations.
Open Scope Z_scope.

(* the translated numeric_util.round_up is the function the models use *)
Theorem gen_round_up_is_model : forall a b, GenNumeric.round_up a b = round_up a b.
Proof. exact gen_round_up_eq. Qed.

(* ------------------------------ Greedy ------------------------------ *)
(* any two ranges alive at a common time step get disjoint byte intervals (0 < size, 0 < alignment) *)
Theorem greedy_no_overlap : forall lrs out m,
  Forall g_wf lrs -> greedy lrs = (out, m) ->
  Permutation (map fst out) lrs /\
  forall i j r1 a1 r2 a2,
    i <> j -> nth_error out i = Some (r1, a1) -> nth_error out j = Some (r2, a2) ->
    time_overlap r1 r2 -> disjoint a1 (lr_size r1) a2 (lr_size r2).
Proof. exact greedy_no_overlap_lemma. Qed.

(* the same for every processing order that is sorted by start time: Python's order of ranges that are
   equal in (start, end, size, name) depends on object hashes *)
Theorem greedy_no_overlap_any_order : forall order out m i j r1 a1 r2 a2,
  StronglySorted by_start order -> Forall g_wf order ->
  greedy_run order [] 0 = (out, m) ->
  i <> j -> nth_error out i = Some (r1, a1) -> nth_error out j = Some (r2, a2) ->
  time_overlap r1 r2 -> disjoint a1 (lr_size r1) a2 (lr_size r2).
Proof. exact greedy_run_no_overlap_lemma. Qed.

Theorem greedy_aligned : forall lrs out m r a,
  Forall g_wf lrs -> greedy lrs = (out, m) -> In (r, a) out -> (lr_align r | a) /\ 0 <= a.
Proof. exact greedy_aligned_lemma. Qed.

(* memory_required bounds every end address, is the alignment-padded end of some buffer and exceeds the
   highest end address by less than one alignment unit *)
Theorem greedy_total_is_extent : forall lrs out m,
  Forall g_wf lrs -> greedy lrs = (out, m) ->
  (forall r a, In (r, a) out -> a + lr_size r <= a + padded r <= m) /\
  (lrs <> [] -> exists r a, In (r, a) out /\ m = a + padded r /\ m < a + lr_size r + lr_align r) /\
  (lrs = [] -> m = 0).
Proof. exact greedy_total_is_extent_lemma. Qed.

(* sizes that are multiples of their alignment: memory_required is exactly the highest end address *)
Theorem greedy_total_exact : forall lrs out m,
  Forall g_wf lrs -> Forall (fun r => (lr_align r | lr_size r)) lrs -> lrs <> [] -> greedy lrs = (out, m) ->
  (forall r a, In (r, a) out -> a + lr_size r <= m) /\ exists r a, In (r, a) out /\ m = a + lr_size r.
Proof. exact greedy_total_exact_lemma. Qed.

(* without 0 < size the statement is false for the code as it is *)
Theorem greedy_zero_size_refuted :
  exists lrs out m r1 a1 r2 a2 i j,
    Forall (fun r => 0 <= lr_size r /\ 0 < lr_align r) lrs /\ greedy lrs = (out, m) /\ i <> j /\
    nth_error out i = Some (r1, a1) /\ nth_error out j = Some (r2, a2) /\
    0 < lr_size r1 /\ 0 < lr_size r2 /\ time_overlap r1 r2 /\ ~ disjoint a1 (lr_size r1) a2 (lr_size r2).
Proof. exact greedy_zero_size_refuted_lemma. Qed.

(* ------------------------------ Linear ------------------------------ *)
(* R: any equivalence containing what the input declares between its own entries (equal compression config,
   equal equivalence id); tensors declared equivalent have equal sizes.  Tensors that are not R-related get disjoint
   intervals (whatever their live ranges). *)
Theorem linear_no_overlap : forall g (R : lin -> lin -> Prop), 0 < g ->
  (forall a, R a a) -> (forall a b, R a b -> R b a) -> (forall a b c, R a b -> R b c -> R a c) ->
  forall es, (forall a b, In a es -> In b es -> linked a b -> R a b) ->
  forall addrs total,
    (forall e, In e es -> 0 <= l_size e) ->
    (forall e1 e2, In e1 es -> In e2 es -> linked e1 e2 -> l_size e1 = l_size e2) ->
    linear g es = Ok (addrs, total) ->
    length addrs = length es /\
    forall i j e1 e2 a1 a2, i <> j ->
       nth_error es i = Some e1 -> nth_error es j = Some e2 ->
       nth_error addrs i = Some a1 -> nth_error addrs j = Some a2 ->
       R e1 e2 \/ disjoint a1 (l_size e1) a2 (l_size e2).
Proof.
  intros g R Hg Hr Hs Ht es Hl addrs total H1 H2 H3.
  destruct (linear_spec_lemma g Hg R Hr Hs Ht es Hl addrs total H1 H2 H3) as (A & B & _). split; assumption.
Qed.

(* tensors declared equivalent share one address *)
Theorem linear_equivalent_share : forall g es addrs total i j e1 e2 a1 a2,
  linear g es = Ok (addrs, total) ->
  nth_error es i = Some e1 -> nth_error es j = Some e2 ->
  nth_error addrs i = Some a1 -> nth_error addrs j = Some a2 ->
  (l_lut e1 = 0 /\ l_lut e2 = 0 /\ l_wcc e1 <> 0 /\ l_wcc e1 = l_wcc e2) \/
  (l_lut e1 <> 0 /\ l_lut e2 <> 0 /\ l_eq e1 = l_eq e2) ->
  a1 = a2.
Proof. exact linear_share_lemma. Qed.

(* every address is a non-negative multiple of the allocation granularity (verify_alignment never raises) *)
Theorem linear_aligned : forall g es addrs total i e a, 0 < g ->
  (forall e, In e es -> 0 <= l_size e) ->
  (forall e1 e2, In e1 es -> In e2 es -> linked e1 e2 -> l_size e1 = l_size e2) ->
  linear g es = Ok (addrs, total) ->
  nth_error es i = Some e -> nth_error addrs i = Some a -> (g | a) /\ 0 <= a.
Proof.
  intros g es addrs total i e a Hg H1 H2 H3 He Ha.
  destruct (linear_spec_lemma g Hg (fun _ _ => True) (fun _ => I) (fun _ _ _ => I) (fun _ _ _ _ _ => I) es (fun _ _ _ _ _ => I)
              addrs total H1 H2 H3) as (_ & _ & C & _).
  destruct (C i e a He Ha) as (X & Y & _). split; assumption.
Qed.

(* total_sz bounds every (granule padded) end address, is the padded end of some tensor and exceeds the
   highest end address by less than one granule *)
Theorem linear_total_is_extent : forall g es addrs total, 0 < g ->
  (forall e, In e es -> 0 <= l_size e) ->
  (forall e1 e2, In e1 es -> In e2 es -> linked e1 e2 -> l_size e1 = l_size e2) ->
  linear g es = Ok (addrs, total) ->
  (forall i e a, nth_error es i = Some e -> nth_error addrs i = Some a ->
     a + l_size e <= a + round_up (l_size e) g <= total) /\
  (es = [] -> total = 0) /\
  (es <> [] -> exists i e a, nth_error es i = Some e /\ nth_error addrs i = Some a /\
                             total = a + round_up (l_size e) g /\ total < a + l_size e + g).
Proof.
  intros g es addrs total Hg H1 H2 H3.
  destruct (linear_spec_lemma g Hg (fun _ _ => True) (fun _ => I) (fun _ _ _ => I) (fun _ _ _ _ _ => I) es (fun _ _ _ _ _ => I)
              addrs total H1 H2 H3) as (_ & _ & C & D & E).
  split; [|split; assumption]. intros i e a He Ha. destruct (C i e a He Ha) as (_ & _ & Z). exact Z.
Qed.

(* ------------------------------ HillClimb ------------------------------ *)
(* hypotheses: hc_wf = 0 <= start_time, 0 <= size, 0 < alignment; footprint_bound = sum of size + alignment
   (the initial pass cannot exceed best_size = 2^63).  For every oracle stream: *)
Theorem hillclimb_no_overlap : forall (S : Type) (next : S -> Z * S) lrs mi limit s addrs best iters draws,
  Forall hc_wf lrs -> footprint_bound lrs <= 2 ^ 63 ->
  hillclimb S next lrs mi limit s = Ok (addrs, best, iters, draws) ->
  length addrs = length lrs /\
  forall i j r1 r2 a1 a2, i <> j ->
     nth_error lrs i = Some r1 -> nth_error lrs j = Some r2 ->
     nth_error addrs i = Some a1 -> nth_error addrs j = Some a2 ->
     time_overlap r1 r2 -> disjoint a1 (lr_size r1) a2 (lr_size r2).
Proof.
  intros S next lrs mi limit s addrs best iters draws Hwf Hfb H.
  destruct (hillclimb_valid_lemma S next lrs Hwf mi limit s addrs best iters draws Hfb H) as (A & B & _). split; assumption.
Qed.

Theorem hillclimb_aligned : forall (S : Type) (next : S -> Z * S) lrs mi limit s addrs best iters draws i r a,
  Forall hc_wf lrs -> footprint_bound lrs <= 2 ^ 63 ->
  hillclimb S next lrs mi limit s = Ok (addrs, best, iters, draws) ->
  nth_error lrs i = Some r -> nth_error addrs i = Some a -> (lr_align r | a) /\ 0 <= a.
Proof.
  intros S next lrs mi limit s addrs best iters draws i r a Hwf Hfb H.
  destruct (hillclimb_valid_lemma S next lrs Hwf mi limit s addrs best iters draws Hfb H) as (_ & _ & C). apply C.
Qed.

(* the total computed by tensor_allocation.hillclimb_allocate_live_ranges is exactly the highest end address *)
Theorem hillclimb_total_is_extent : forall lrs addrs,
  0 <= hc_total lrs addrs 0 /\
  (forall i r a, nth_error lrs i = Some r -> nth_error addrs i = Some a -> a + lr_size r <= hc_total lrs addrs 0) /\
  (hc_total lrs addrs 0 = 0 \/
   exists i r a, nth_error lrs i = Some r /\ nth_error addrs i = Some a /\ hc_total lrs addrs 0 = a + lr_size r).
Proof. intros lrs addrs. exact (hc_total_spec lrs addrs 0). Qed.

(* the footprint is never below the sum of the sizes alive at any time step, nor below min_required_size *)
Theorem hillclimb_ge_peak : forall (S : Type) (next : S -> Z * S) lrs mi limit s addrs best iters draws,
  Forall hc_wf lrs -> footprint_bound lrs <= 2 ^ 63 ->
  hillclimb S next lrs mi limit s = Ok (addrs, best, iters, draws) ->
  (forall t, size_at_time lrs t <= hc_total lrs addrs 0) /\ min_required_size lrs <= hc_total lrs addrs 0.
Proof.
  intros S next lrs mi limit s addrs best iters draws Hwf Hfb H.
  pose proof (hillclimb_valid_lemma S next lrs Hwf mi limit s addrs best iters draws Hfb H) as Hv.
  split; [intros t; apply valid_ge_peak; exact Hv | apply valid_ge_min_required; exact Hv].
Qed.

(* allocate_lr's while loop ends within |neighbours| + 1 rounds *)
Theorem hillclimb_allocate_lr_terminates : forall lrs nbrs st i,
  0 < lr_align (lget lrs i) -> exists st', allocate_lr lrs nbrs st i = Ok st'.
Proof. exact allocate_lr_terminates_lemma. Qed.

(* the while loop of search exits within search_fuel evaluations of its condition, for every stream *)
Theorem hillclimb_search_terminates : forall (S : Type) (next : S -> Z * S) lrs nbrs minreq maxit limit (x : sstate S),
  ss_last S x = 0 -> ss_i S x = 0 -> minreq < ss_best S x ->
  exists r, iter_pos (search_fuel minreq maxit (ss_best S x)) (search_step S next lrs nbrs minreq maxit limit) x = Done r.
Proof. exact search_loop_terminates_lemma. Qed.

(* and the iteration counter it ends with is at most max(max_iterations, 500) + 500 * (size0 - min_required - 1) *)
Theorem hillclimb_search_iterations_bound : forall (S : Type) (next : S -> Z * S) lrs nbrs minreq maxit limit (x : sstate S),
  ss_last S x = 0 -> ss_i S x = 0 -> minreq < ss_best S x ->
  iters_ok (Z.max maxit MIN_ITERATIONS_IMPROVE + MIN_ITERATIONS_IMPROVE * (ss_best S x - minreq) - MIN_ITERATIONS_IMPROVE)
           (search S next lrs nbrs minreq maxit limit x).
Proof. exact search_iterations_bound_lemma. Qed.

(* the whole run, for every stream: it ends with addresses after at most hc_iteration_bound iterations of
   the search loop.  No modelled exception is possible: random.randint is never asked for an empty range
   (1, after the repair of P8), no list access leaves its list (2), the predecessor walk always ends although
   aborted passes leave stale predecessor/turn fields (3), allocate_lr and search end within their bounds (4, 5). *)
Theorem hillclimb_terminates : forall (S : Type) (next : S -> Z * S) lrs mi limit s,
  Forall hc_wf lrs -> footprint_bound lrs <= 2 ^ 63 ->
  exists addrs best iters draws,
    hillclimb S next lrs mi limit s = Ok (addrs, best, iters, draws) /\ 0 <= iters <= hc_iteration_bound lrs mi.
Proof.
  intros S next lrs mi limit s Hwf Hfb.
  pose proof (hillclimb_terminates_lemma S next lrs mi limit s Hwf Hfb) as A.
  pose proof (hillclimb_no_error_lemma S next lrs mi limit s Hwf Hfb) as B.
  destruct (hillclimb S next lrs mi limit s) as [[[[ad bs] it] dr]|c]; [|destruct B].
  exists ad, bs, it, dr. split; [reflexivity | exact A].
Qed.

(* the code before the repair (bound len(turn_list) - 2 without the max; AllocExamples.old_hillclimb):
   ValueError on a five-range input with Python's own random stream *)
Theorem hillclimb_randint_old_code_refuted :
  exists lrs mi limit s,
    Forall hc_wf lrs /\ footprint_bound lrs <= 2 ^ 63 /\
    old_hillclimb (list Z) next_list lrs mi limit s = Err 1.
Proof. exact hillclimb_randint_old_code_refuted_lemma. Qed.

(* ------------------------------ the dispatcher ------------------------------ *)
(* tensor_allocation.allocate on a prepared live-range graph (one tensor per range, none declared equivalent;
   d_wf A: 0 <= start, 0 < size, 0 < alignment, alignment divides the requested alignment A): for each of the
   three allocators and every stream the call ends with addresses; co-live ranges are disjoint, every address
   honours its range's alignment and is non-negative, every end is below the reported total; LinearAlloc
   addresses are multiples of the requested alignment itself. *)
Theorem allocate_ok : forall (S : Type) (next : S -> Z * S) tag A lrs mi limit s,
  0 < A -> Forall (d_wf A) lrs -> footprint_bound lrs <= 2 ^ 63 -> tag = 1 \/ tag = 2 \/ tag = 3 ->
  match allocate S next tag A lrs mi limit s with
  | InOrder out m => Permutation (map fst out) lrs /\ pairs_ok out m
  | ByIndex (Ok (addrs, total)) =>
      length addrs = length lrs /\ pairs_ok (combine lrs addrs) total /\ (tag = 1 -> forall a, In a addrs -> (A | a))
  | ByIndex (Err _) => False
  | BadAllocator => False
  end.
Proof. exact allocate_ok_lemma. Qed.

(* ------------------------------ the alignment of a live range ------------------------------ *)
(* LiveRange.__init__ + set_alignment: the stored alignment is the largest request, it is one of the requests ... *)
Theorem range_alignment_is_strictest : forall later first,
  first <= range_alignment first later /\
  (forall a, In a later -> a <= range_alignment first later) /\
  In (range_alignment first later) (first :: later).
Proof. exact range_alignment_spec. Qed.

(* ... and, when the requests form a divisibility chain (powers of two do: requests_pow2_chain), every request divides it *)
Theorem range_alignment_divides_every_request : forall first later q,
  div_chain (first :: later) -> In q (first :: later) -> (q | range_alignment first later).
Proof. exact range_alignment_divides. Qed.

Theorem requests_pow2_chain : forall l, (forall x, In x l -> pow2 x) -> div_chain l.
Proof. exact pow2_chain. Qed.

(* LiveRangeGraph.get_or_create_range over a sequence of (equivalence id, alignment) requests: one range per id, and
   its get_alignment() is a multiple of (and at least) every alignment requested for that id *)
Theorem graph_alignment_honours_requests : forall requests k q,
  In (k, q) requests -> div_chain (requests_of k requests) ->
  exists a, In (k, a) (range_alignments requests) /\ (q | a) /\ q <= a.
Proof. exact graph_alignment_divides. Qed.

(* allocate_ok lifted: through the dispatcher, every address honours every alignment ever requested for its range *)
Theorem allocate_honours_every_request : forall (S : Type) (next : S -> Z * S) tag A lrs mi limit s,
  0 < A -> Forall (d_wf A) lrs -> footprint_bound lrs <= 2 ^ 63 -> tag = 1 \/ tag = 2 \/ tag = 3 ->
  forall r a, In (r, a) (result_pairs lrs (allocate S next tag A lrs mi limit s)) ->
  forall first later q,
    lr_align r = range_alignment first later -> div_chain (first :: later) -> In q (first :: later) -> (q | a).
Proof. exact allocate_honours_every_request_lemma. Qed.

Print Assumptions greedy_no_overlap.
Print Assumptions greedy_no_overlap_any_order.
Print Assumptions greedy_aligned.
Print Assumptions greedy_total_is_extent.
Print Assumptions greedy_total_exact.
Print Assumptions greedy_zero_size_refuted.
Print Assumptions linear_no_overlap.
Print Assumptions linear_equivalent_share.
Print Assumptions linear_aligned.
Print Assumptions linear_total_is_extent.
Print Assumptions hillclimb_no_overlap.
Print Assumptions hillclimb_aligned.
Print Assumptions hillclimb_total_is_extent.
Print Assumptions hillclimb_ge_peak.
Print Assumptions hillclimb_allocate_lr_terminates.
Print Assumptions hillclimb_search_terminates.
Print Assumptions hillclimb_search_iterations_bound.
Print Assumptions hillclimb_terminates.
Print Assumptions hillclimb_randint_old_code_refuted.
Print Assumptions allocate_ok.
Print Assumptions range_alignment_is_strictest.
Print Assumptions range_alignment_divides_every_request.
Print Assumptions graph_alignment_honours_requests.
Print Assumptions allocate_honours_every_request.
Print Assumptions gen_round_up_is_model.
