(* C02 -- every NPU memory access stays inside the region the output model declares.
   Soundness of the validator that is run on every emitted stream. Statements only. *)
From Coq Require Import ZArith List Bool.
From VV Require Import gen.GenTables hw.Npu proofs.NpuProofs.
Import ListNotations.
Open Scope Z_scope.

(* if the checker accepts a decoded stream then, for every block operation and DMA in it, every
   element address of IFM, IFM2 and OFM (through tiles, strides and NHCWB16 bricks) and every
   weight / scale / LUT / SHRAM / DMA range lies inside [0, size) of the region it names, and no
   write goes to a region listed as read-only *)
Theorem check_bounds_sound :
  forall hw sizes ro evs,
    check_bounds hw sizes ro evs = true ->
    forall code param r, In (EOp code param r) evs -> op_accesses_inside hw sizes ro code param r.
Proof. exact check_bounds_sound_lemma. Qed.

Print Assumptions check_bounds_sound.
