(* C04 -- conflicting NPU/DMA accesses are always separated by a wait or block dependency.
   Statements only. *)
From Coq Require Import ZArith List Bool.
From VV Require Import gen.GenTables hw.Npu hw.Queues hw.Hazard model.Waits model.RangeSet model.Blockdep
  proofs.QueuesProofs proofs.WaitsProofs proofs.RangeSetProofs proofs.BlockdepProofs proofs.HazardProofs.
Import ListNotations.
Open Scope Z_scope.

(* D1, the wait logic.  For EVERY operation sequence [ops] (any interleaving of DMA and kernel
   operations, operations may repeat), every symmetric conflict relation and every pair of
   outstanding limits: replay the waits and operations that generate_command_stream emits
   (model/Waits.v: get_wait_dependency + generate_cmd_waits) in the two-queue machine of
   hw/Queues.v.  In every reachable state, no kernel operation and DMA operation that are
   unfinished together conflict. *)
Theorem waits_separate :
  forall (op : Type) (is_dma : op -> bool) (conflict : op -> op -> bool) (max_dma max_kern : Z),
    (forall a b, conflict a b = conflict b a) ->
    forall (ops : list op) (h : qstate op) (rest : list (qcmd op)),
      qsteps op is_dma max_dma max_kern
             (q_init, emit op is_dma conflict max_dma max_kern w_init ops) (h, rest) ->
      forall k d, In k (q_kern h) -> In d (q_dma h) -> conflict k d = false.
Proof. exact waits_separate_lemma. Qed.

(* the same with the conflict relation instantiated by the model of MemoryAccessSet.conflicts over
   access sets that satisfy the class invariant: no kernel operation and DMA operation unfinished
   together have a byte (region, address) written by one and read or written by the other *)
Theorem waits_separate_bytes :
  forall (op : Type) (is_dma : op -> bool) (acc : op -> maset) (max_dma max_kern : Z),
    (forall o, ma_wf (acc o)) ->
    forall (ops : list op) (h : qstate op) (rest : list (qcmd op)),
      qsteps op is_dma max_dma max_kern
             (q_init, emit op is_dma (acc_conflict op acc) max_dma max_kern w_init ops) (h, rest) ->
      forall k d, In k (q_kern h) -> In d (q_dma h) -> ~ byte_conflict (acc k) (acc d).
Proof. exact waits_separate_bytes_lemma. Qed.

(* the invariant behind it, on the model's own state: after any history, every cross pair of
   outstanding_npu_ops x outstanding_dma_ops is conflict-free and the lists respect the limits *)
Theorem waits_model_invariant :
  forall (op : Type) (is_dma : op -> bool) (conflict : op -> op -> bool) (max_dma max_kern : Z),
    (forall a b, conflict a b = conflict b a) ->
    forall ops, 0 <= max_dma -> 0 <= max_kern ->
      model_inv op conflict max_dma max_kern (final_state op is_dma conflict max_dma max_kern w_init ops).
Proof. exact model_invariant_lemma. Qed.

(* RangeSet.intersects under the class invariant (sorted by start, non-empty ranges): never the
   assertion, and true exactly when some range of a and some range of b have max lo < min hi *)
Theorem rangeset_intersects_spec :
  forall a b, rs_wf a -> rs_wf b ->
    (rs_intersects a b = Some true <->
     exists ra rb, In ra a /\ In rb b /\ Z.max (fst ra) (fst rb) < Z.min (snd ra) (snd rb)) /\
    rs_intersects a b <> None.
Proof. exact rangeset_intersects_spec_lemma. Qed.

(* the invariant is established by the constructor and preserved by `|` *)
Theorem rangeset_or_invariant :
  forall a b, rs_wf a -> rs_wf b ->
    rs_wf (rs_or a b) /\ forall r, In r (rs_or a b) <-> In r a \/ In r b.
Proof. exact rangeset_or_invariant_lemma. Qed.

(* MemoryAccessSet.conflicts: true exactly when some byte (region, address) is written by one set
   and read or written by the other; never the assertion; symmetric *)
Theorem conflicts_spec :
  forall x y, ma_wf x -> ma_wf y ->
    (ma_conflicts x y = Some true <-> byte_conflict x y) /\
    ma_conflicts x y <> None /\
    ma_conflicts x y = ma_conflicts y x.
Proof. exact conflicts_spec_lemma. Qed.

(* access sets built by add() from MemoryRangeSet(area, start, end) satisfy the invariant and
   contain exactly the bytes added *)
Theorem access_set_add :
  forall x m w, ma_wf x -> mrs_wf m ->
    ma_wf (ma_add x m w) /\
    (forall k a, reads (ma_add x m w) k a <-> reads x k a \/ (w = false /\ mrs_has m k a)) /\
    (forall k a, writes (ma_add x m w) k a <-> writes x k a \/ (w = true /\ mrs_has m k a)).
Proof. exact access_set_add_lemma. Qed.

(* calc_blockdep's double loop over ABSTRACT job volumes (first_job f = input volume of the f-th job
   of the consumer, prev_job b = output volume of the b-th last block of the producer, meets = the
   intersection test, maxdep = MAX_BLOCKDEP): the result k never exceeds MAX_BLOCKDEP and for all
   f, b with f + b < k job f does not intersect the b-th last previous block *)
Theorem blockdep_sound :
  forall (area : Type) (first_job prev_job : Z -> option area) (meets : area -> area -> bool) (maxdep : Z),
    let k := blockdep_loop area first_job prev_job meets maxdep in
    k <= maxdep /\
    forall f b ia oa,
      0 <= f -> 0 <= b -> f + b < k ->
      (forall g, 0 <= g <= f -> first_job g <> None) ->
      first_job f = Some ia -> prev_job b = Some oa -> meets ia oa = false.
Proof. exact blockdep_loop_sound. Qed.

(* the same for the concrete geometry of calc_blockdep (get_first_job_input_volume,
   get_prev_job_output_volume, intersects), where the prefix condition on job volumes is proved *)
Theorem blockdep_sound_concrete :
  forall ar p c fm ibd,
    0 < round_up_divide (fm_d (co_ifm c)) ibd ->
    let k := blockdep_core ar p c fm ibd in
    k <= ar_maxdep ar /\
    forall f b ia oa,
      0 <= f -> 0 <= b -> f + b < k ->
      get_first_job_input_volume ar c ibd f = Some ia ->
      get_prev_job_output_volume p b = Some oa ->
      intersects fm ia (po_ofm p) oa = false.
Proof. exact blockdep_core_sound. Qed.

(* with the corrected geometry (top padding for the row coordinate, repo commit 08d9aae) the input
   volume of job `off` contains the receptive field of its OFM block: all non-negative rows / columns
   read through the dilated kernel (up to 32 x 64) by the outputs of the block; this statement was
   false for the earlier code, which subtracted the right padding from the row coordinate *)
Theorem first_job_volume_covers :
  forall ar c ibd off ia,
    0 < ar_ublock_h ar -> 0 < ar_ublock_w ar ->
    get_first_job_input_volume ar c ibd off = Some ia ->
    exists oc,
      get_offset_block_coords (co_ow c) (co_oh c) (co_od c) (co_bw c) (co_bh c) (co_bd c)
                              (off / round_up_divide (fm_d (co_ifm c)) ibd) = Some oc /\
      (forall r, 0 <= r ->
         py oc * co_sy c - co_pt c <= r < (py oc + co_bh c - 1) * co_sy c - co_pt c + Z.min 32 ((co_kh c - 1) * co_dy c + 1) ->
         py (fst ia) <= r < py (snd ia)) /\
      (forall q, 0 <= q ->
         px oc * co_sx c - co_pl c <= q < (px oc + co_bw c - 1) * co_sx c - co_pl c + Z.min 64 ((co_kw c - 1) * co_dx c + 1) ->
         px (fst ia) <= q < px (snd ia)).
Proof. exact first_job_volume_covers_lemma. Qed.

(* calc_blockdep returns 0 (early exits), MAX_BLOCKDEP (the producer's OFM overlaps neither
   operand's bounding ranges) or the loop result for the overlapping operand *)
Theorem calc_blockdep_result :
  forall ar p c k,
    calc_blockdep ar (Some p) c = Some k ->
    k = 0 \/ k = ar_maxdep ar \/
    exists fm ibd, (fm = co_ifm c \/ fm = co_ifm2 c) /\ get_ifm_ofm_block_depth ar c = Some ibd /\
                   k = blockdep_core ar p c fm ibd.
Proof. exact calc_blockdep_cases. Qed.

Theorem calc_blockdep_zero :
  forall ar p c,
    (calc_blockdep ar None c = Some 0) /\
    (po_lut p = true -> ar_reserved_unused ar = 0 -> co_lut c = false -> calc_blockdep ar (Some p) c = Some 0).
Proof. exact calc_blockdep_zero_cases. Qed.

(* get_address_ranges (the per-tile bounding ranges handed to the conflict test and used by
   calc_blockdep to classify overlap) over-approximates the feature map: every element, in whichever
   of the four tiles, lies in a reported range (non-negative strides; NHCWB16: stride_c >= 16 elements).
   Hence the conflict relation get_wait_dependency works with is a superset of the byte-level one. *)
Theorem footprint_overapprox :
  forall fm y x c,
    strides_ok fm ->
    0 <= y < fm_h fm -> 0 <= x < fm_w fm -> 0 <= c < fm_d fm ->
    covered_by fm y x c (get_address_ranges fm).
Proof. exact footprint_overapprox_lemma. Qed.

(* history: the code before repo commit de3dc4c (model get_address_ranges_old: tile 3 reported only
   when tile 2 is in use) was refuted by a feature map using tiles 0, 1 and 3; the repaired code
   reports the missing range *)
Theorem footprint_overapprox_old_code_refuted :
  exists fm y x c,
    strides_ok fm /\ 0 <= y < fm_h fm /\ 0 <= x < fm_w fm /\ 0 <= c < fm_d fm /\
    get_address fm (get_strides fm) y x c = 8192 /\
    get_address_ranges_old fm = [Some (1, 0, 960); Some (1, 4096, 448); None; None] /\
    ~ covered_by fm y x c (get_address_ranges_old fm) /\
    get_address_ranges fm = [Some (1, 0, 960); Some (1, 4096, 448); None; Some (1, 8192, 448)].
Proof. exact footprint_overapprox_old_code_refuted_lemma. Qed.

(* device T: the coordinate intersection test of the model is the one regenerated from
   register_command_stream_util.coords_intersect on every run (a change of the source breaks this) *)
Theorem gen_coords_intersect_agrees :
  forall sa ea sb eb,
    VV.gen.GenWaits.coords_intersect (px sa) (py sa) (pz sa) (px ea) (py ea) (pz ea) (px sb) (py sb) (pz sb) (px eb) (py eb) (pz eb)
    = coords_intersect sa ea sb eb.
Proof. exact gen_coords_intersect_eq. Qed.

(* D2, the validator run on every decoded stream.  If check_hazards accepts the events then
   (1) replaying the stream in the queue machine (every EOp issued to its queue with the exact
       footprint of Npu.op_footprint, KERNEL_WAIT / DMA_WAIT as waits, the accelerator's outstanding
       limits), in EVERY reachable state no kernel operation and DMA operation that are unfinished
       together share a byte one of them writes (RAW / WAR / WAW; external memory or SHRAM);
   (2) for all consecutive kernel operations A ; B with no KERNEL_WAIT 0 between them:
       BLOCKDEP_B = 0, or for all f, b with f + b < BLOCKDEP_B no byte read by job f of B is written
       by the b-th last block of A (block traversal of hw/Hazard.v, element addresses through
       tiles / strides / bricks), B's weight / scale reads avoid A's OFM and B does not overwrite
       the SHRAM bytes A reads its LUT from. *)
Theorem check_hazards_sound :
  forall c evs,
    check_hazards c evs = true ->
    (forall h rest,
       qsteps hop h_isdma (hz_max_dma c) (hz_max_kern c) (q_init, hz_prog c evs 0) (h, rest) ->
       forall k d, In k (q_kern h) -> In d (q_dma h) -> ~ fp_hazard (h_fp k) (h_fp d)) /\
    (forall pre ca pa ra mid cb pb rb rest,
       evs = pre ++ EOp ca pa ra :: mid ++ EOp cb pb rb :: rest ->
       ca <> cmd0_NPU_OP_DMA_START -> cb <> cmd0_NPU_OP_DMA_START -> Forall quiet mid ->
       blockdep_safe (hz_hw c) (ca, pa, ra) (cb, pb, rb)).
Proof. exact check_hazards_sound_lemma. Qed.

(* the generic fact both halves rest on: the possibly-unfinished-set simulation of hw/Queues.v is
   sound for the small-step queue machine, for any operation type and any symmetric hazard relation
   the conflict test detects *)
Theorem queue_simulation_sound :
  forall (op : Type) (is_dma : op -> bool) (max_dma max_kern : Z) (conflict : op -> op -> bool)
         (hazard : op -> op -> Prop),
    (forall a b, hazard a b -> hazard b a) ->
    (forall a b, hazard a b -> conflict a b = true) ->
    forall p, qcheck op is_dma max_dma max_kern conflict q_init p = true ->
    forall h p', qsteps op is_dma max_dma max_kern (q_init, p) (h, p') ->
    forall k d, In k (q_kern h) -> In d (q_dma h) -> ~ hazard k d.
Proof. exact qcheck_sound. Qed.

Print Assumptions waits_separate.
Print Assumptions waits_separate_bytes.
Print Assumptions waits_model_invariant.
Print Assumptions rangeset_intersects_spec.
Print Assumptions rangeset_or_invariant.
Print Assumptions conflicts_spec.
Print Assumptions access_set_add.
Print Assumptions blockdep_sound.
Print Assumptions blockdep_sound_concrete.
Print Assumptions first_job_volume_covers.
Print Assumptions calc_blockdep_result.
Print Assumptions calc_blockdep_zero.
Print Assumptions footprint_overapprox.
Print Assumptions footprint_overapprox_old_code_refuted.
Print Assumptions gen_coords_intersect_agrees.
Print Assumptions check_hazards_sound.
Print Assumptions queue_simulation_sound.
