(* C04 -- conflicting NPU/DMA accesses are always separated by a wait or block dependency.
   Statements only. *)
From Coq Require Import ZArith List Bool.
From VV Require Import hw.Queues model.Waits model.RangeSet proofs.QueuesProofs proofs.WaitsProofs proofs.RangeSetProofs.
Import ListNotations.
Open Scope Z_scope.

(* D1, the wait logic.  For EVERY operation sequence [ops] (any interleaving of DMA and kernel
   operations, operations may repeat), every symmetric conflict relation and every pair of
   outstanding limits: replay the waits and operations that generate_command_stream emits
   (model/Waits.v: get_wait_dependency + generate_cmd_waits) in the two-queue machine of
   hw/Queues.v.  In every reachable state, no kernel operation and DMA operation that are
   unfinished together conflict. *)
Theorem waits_separate :
  forall (op : Type) (is_dma : op -> bool) (conflict : op -> op -> bool) (max_dma max_kern : Z),
    (forall a b, conflict a b = conflict b a) ->
    forall (ops : list op) (h : qstate op) (rest : list (qcmd op)),
      qsteps op is_dma max_dma max_kern
             (q_init, emit op is_dma conflict max_dma max_kern w_init ops) (h, rest) ->
      forall k d, In k (q_kern h) -> In d (q_dma h) -> conflict k d = false.
Proof. exact waits_separate_lemma. Qed.

(* the invariant behind it, on the model's own state: after any history, every cross pair of
   outstanding_npu_ops x outstanding_dma_ops is conflict-free and the lists respect the limits *)
Theorem waits_model_invariant :
  forall (op : Type) (is_dma : op -> bool) (conflict : op -> op -> bool) (max_dma max_kern : Z),
    (forall a b, conflict a b = conflict b a) ->
    forall ops, 0 <= max_dma -> 0 <= max_kern ->
      model_inv op conflict max_dma max_kern (final_state op is_dma conflict max_dma max_kern w_init ops).
Proof. exact model_invariant_lemma. Qed.

(* RangeSet.intersects under the class invariant (sorted by start, non-empty ranges): never the
   assertion, and true exactly when some range of a and some range of b have max lo < min hi *)
Theorem rangeset_intersects_spec :
  forall a b, rs_wf a -> rs_wf b ->
    (rs_intersects a b = Some true <->
     exists ra rb, In ra a /\ In rb b /\ Z.max (fst ra) (fst rb) < Z.min (snd ra) (snd rb)) /\
    rs_intersects a b <> None.
Proof. exact rangeset_intersects_spec_lemma. Qed.

(* the invariant is established by the constructor and preserved by `|` *)
Theorem rangeset_or_invariant :
  forall a b, rs_wf a -> rs_wf b ->
    rs_wf (rs_or a b) /\ forall r, In r (rs_or a b) <-> In r a \/ In r b.
Proof. exact rangeset_or_invariant_lemma. Qed.

(* MemoryAccessSet.conflicts: true exactly when some byte (region, address) is written by one set
   and read or written by the other; never the assertion; symmetric *)
Theorem conflicts_spec :
  forall x y, ma_wf x -> ma_wf y ->
    (ma_conflicts x y = Some true <-> byte_conflict x y) /\
    ma_conflicts x y <> None /\
    ma_conflicts x y = ma_conflicts y x.
Proof. exact conflicts_spec_lemma. Qed.

(* access sets built by add() from MemoryRangeSet(area, start, end) satisfy the invariant and
   contain exactly the bytes added *)
Theorem access_set_add :
  forall x m w, ma_wf x -> mrs_wf m ->
    ma_wf (ma_add x m w) /\
    (forall k a, reads (ma_add x m w) k a <-> reads x k a \/ (w = false /\ mrs_has m k a)) /\
    (forall k a, writes (ma_add x m w) k a <-> writes x k a \/ (w = true /\ mrs_has m k a)).
Proof. exact access_set_add_lemma. Qed.

Print Assumptions waits_separate.
Print Assumptions waits_model_invariant.
Print Assumptions rangeset_intersects_spec.
Print Assumptions rangeset_or_invariant.
Print Assumptions conflicts_spec.
Print Assumptions access_set_add.
