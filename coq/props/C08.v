(* C08 -- encoded weight and scale tensors cover each output channel exactly once.  Statements only.
   Model: coq/model/WLayout.v (encode_weight_and_scale_tensor's slice/core loop, encode_bias, create_weights,
   create_dma_op, CompressedWeightCache); the weight codec is the universally quantified `enc` / `codec`. *)
From Coq Require Import ZArith List Bool.
From VV Require Import lib.PyInt gen.GenWLayout model.WLayout proofs.WLayoutProofs.
Import ListNotations.
Open Scope Z_scope.

(* the translated source function is the one the model is about *)
Theorem gen_encode_bias_is_model :
  forall bias scale shift, GenWLayout.encode_bias bias scale shift = encode_bias bias scale shift.
Proof. exact gen_encode_bias_eq. Qed.

(* 40-bit signed bias, 32-bit unsigned scale, 6-bit shift <-> 10 bytes; out-of-range arguments are rejected *)
Theorem encode_bias_roundtrip :
  forall b s sh,
    (bias_ok b /\ scale_ok s /\ shift_ok sh ->
       exists bs, encode_bias b s sh = Some bs /\ length bs = 10%nat /\ Forall is_byte bs /\
                  nth 9 bs 0 < 64 /\ decode_bias bs = Some (b, s, sh)) /\
    (~ (bias_ok b /\ scale_ok s /\ shift_ok sh) -> encode_bias b s sh = None).
Proof. exact encode_bias_roundtrip_lemma. Qed.

(* for ANY codec and any inputs on which the function returns: keys are the (core, slice) pairs in stream order, every
   range starts at a multiple of 16, each range begins where the previous one ends (chain), the ranges cover the
   buffer, they are pairwise disjoint, and index = position *)
Theorem ranges_aligned_disjoint_ordered :
  forall enc nc n bd do_w biases qs offs t,
    encode_layout enc nc n bd do_w biases qs offs = Some t -> strictly_increasing offs ->
    map key_of_range (t_ranges t) = map key_of_sec (sections nc n bd offs) /\
    chain 0 0 (t_ranges t) /\
    total_ext (t_ranges t) = zlen (t_buffer t) /\
    Forall (range_wf do_w (zlen (t_buffer t))) (t_ranges t) /\
    (forall i j ri rj, (i < j)%nat -> nth_error (t_ranges t) i = Some ri -> nth_error (t_ranges t) j = Some rj ->
                       r_offset ri + ext ri <= r_offset rj) /\
    (forall j rj, nth_error (t_ranges t) j = Some rj -> r_index rj = Z.of_nat j).
Proof. exact ranges_aligned_disjoint_ordered_lemma. Qed.

(* strictly increasing closed slices 0 .. n, every slice length a multiple of the core count unless the slice ends at n,
   block depth at least the core count: the scale section of (core, [d, d+len)) is exactly the records of channels
   d+core, d+core+ncores, .. < d+len, and every channel 0 .. n-1 occurs exactly once over all sections *)
Theorem scales_one_record_per_channel :
  forall enc nc n bd do_w biases qs offs t,
    encode_layout enc nc n bd do_w biases qs offs = Some t ->
    wf_slices nc n offs -> 0 < nc -> nc <= bd -> zlen biases = n -> zlen qs = n ->
    Forall2 (fun r sec => exists bytes, records biases qs (spec_channels nc sec) = Some bytes /\
                                        r_scale_bytes r = 10 * zlen (spec_channels nc sec) /\
                                        sub (t_buffer t) (r_offset r) (r_scale_bytes r) = bytes)
            (t_ranges t) (sections nc n bd offs) /\
    (forall c, count_occ Z.eq_dec (flat_map (spec_channels nc) (sections nc n bd offs)) c =
               if (0 <=? c) && (c <? n) then 1%nat else 0%nat).
Proof. exact scales_one_record_per_channel_lemma. Qed.

(* the hypothesis on slice lengths is needed: two cores, slices [0,3) [3,8): the Python slice of core 1 of the first
   slice takes channel 3, which then occurs in two scale sections *)
Theorem scales_odd_slice_refuted :
  code_channels 2 8 (1, 0, 3) = [1; 3] /\ spec_channels 2 (1, 0, 3) = [1] /\
  count_occ Z.eq_dec (flat_map (code_channels 2 8) (sections 2 8 16 [0; 3; 8])) 3 = 2%nat.
Proof. exact scales_odd_slice_refuted_lemma. Qed.

(* the channels the code takes are the Python slice; they are the property's channels under the hypothesis *)
Theorem code_channels_are_spec_channels :
  forall nc n core d len,
    0 < nc -> 0 <= core < nc -> 0 <= d -> 0 <= len -> d + len <= n -> (len mod nc = 0 \/ d + len = n) ->
    code_channels nc n (core, d, len) = spec_channels nc (core, d, len).
Proof. exact code_channels_spec. Qed.

(* double_buffer_sizes[i mod 2] bounds the bytes of slice i (the sum of the extents of its ranges) *)
Theorem double_buffer_bounds :
  forall enc nc n bd do_w biases qs offs t i d len,
    encode_layout enc nc n bd do_w biases qs offs = Some t -> strictly_increasing offs ->
    nth_error (slice_pairs offs) i = Some (d, len) ->
    group_size (t_ranges t) d <= db_get (t_db t) (Z.of_nat i).
Proof. exact double_buffer_bounds_lemma. Qed.

(* ... and only of that parity: double_buffer_sizes[0] alone does not bound slice 1 here.  This is why a SINGLE weight buffer
   must not be sized with it (scheduler.propose_weight_buffering did so before repo commit 375f89a) *)
Theorem single_buffer_refuted :
  exists t, encode_layout uneven_enc 1 48 16 true (repeat 0 48) (repeat (1, 0) 48) [0; 16; 32; 48] = Some t /\
            strictly_increasing [0; 16; 32; 48] /\
            db_get (t_db t) 0 < group_size (t_ranges t) 16 /\ group_size (t_ranges t) 16 <= db_get (t_db t) 1 /\
            group_size (t_ranges t) 16 <= single_buffer_size (zlen (t_buffer t)) (t_db t).
Proof. exact single_buffer_refuted_lemma. Qed.

(* the size the scheduler gives a single weight buffer now, min(len(buffer), max(double_buffer_sizes)), bounds EVERY slice *)
Theorem single_buffer_bounds :
  forall enc nc n bd do_w biases qs offs t i d len,
    encode_layout enc nc n bd do_w biases qs offs = Some t -> strictly_increasing offs ->
    nth_error (slice_pairs offs) i = Some (d, len) ->
    group_size (t_ranges t) d <= single_buffer_size (zlen (t_buffer t)) (t_db t).
Proof. exact single_buffer_bounds_lemma. Qed.

(* create_weights: the address ranges of slice i are its weight / scale sections, aligned, inside the tensor or (buffered)
   inside any buffer of at least the slice's bytes: double_buffer_sizes[i mod 2] (double_buffer_bounds) for a double buffer,
   single_buffer_size (single_buffer_bounds) for a single one *)
Theorem npu_ranges_inside_tensor :
  forall enc nc n bd do_w biases qs offs t i d len,
    encode_layout enc nc n bd do_w biases qs offs = Some t -> do_w = true -> strictly_increasing offs ->
    nth_error (slice_pairs offs) i = Some (d, len) -> 0 < nc ->
    exists R1 Rd R2,
      t_ranges t = R1 ++ Rd ++ R2 /\ (forall r, In r Rd -> r_depth r = d) /\ (forall r, In r (R1 ++ R2) -> r_depth r <> d) /\
      forall (buffered : bool) (w_addr bsz : Z), group_size (t_ranges t) d <= bsz ->
        let base := if buffered then w_addr - total_ext R1 else w_addr in
        let ws := map (fun r => (base + r_offset r + r_weight_offset r, r_weight_bytes r)) Rd in
        let bs := map (fun r => (base + r_offset r, r_weight_offset r)) Rd in
        create_weights nc (t_ranges t) d buffered w_addr None = Some (ws, bs) /\
        Forall (in_window w_addr (w_addr + (if buffered then bsz else zlen (t_buffer t))) w_addr) (ws ++ bs).
Proof. exact npu_ranges_inside_tensor_lemma. Qed.

(* the same with a separate scale tensor (weights reused from the cache, scales encoded alone) *)
Theorem npu_scale_ranges_inside_scale_tensor :
  forall enc enc' nc n bd biases qs biases' qs' offs t ts i d len,
    encode_layout enc nc n bd true biases qs offs = Some t ->
    encode_layout enc' nc n bd false biases' qs' offs = Some ts ->
    strictly_increasing offs -> nth_error (slice_pairs offs) i = Some (d, len) -> 0 < nc ->
    exists R1 Rd R2 S1 Sd S2,
      t_ranges t = R1 ++ Rd ++ R2 /\ t_ranges ts = S1 ++ Sd ++ S2 /\
      map r_core Sd = map r_core Rd /\ (forall r, In r (Rd ++ Sd) -> r_depth r = d) /\
      (forall r, In r (R1 ++ R2 ++ S1 ++ S2) -> r_depth r <> d) /\
      forall (buffered : bool) (w_addr s_addr : Z),
        let base := if buffered then w_addr - total_ext R1 else w_addr in
        let ws := map (fun r => (base + r_offset r + r_weight_offset r, r_weight_bytes r)) Rd in
        let bs := map (fun sr => (s_addr + r_offset sr, round_up (r_scale_bytes sr) 16)) Sd in
        create_weights nc (t_ranges t) d buffered w_addr (Some (t_ranges ts, s_addr)) = Some (ws, bs) /\
        Forall (in_window s_addr (s_addr + zlen (t_buffer ts)) s_addr) bs.
Proof. exact npu_scale_ranges_inside_scale_tensor_lemma. Qed.

(* create_dma_op: source = start of the slice's first range, length = exactly the slice's bytes, inside the tensor,
   bounded by the double-buffer size of the slice's parity *)
Theorem dma_length_is_slice :
  forall enc nc n bd do_w biases qs offs t i d len in_addr,
    encode_layout enc nc n bd do_w biases qs offs = Some t -> strictly_increasing offs ->
    nth_error (slice_pairs offs) i = Some (d, len) ->
    0 < nc -> 0 < n -> core_block_depth nc bd 0 <> 0 ->
    exists R1 Rd R2,
      t_ranges t = R1 ++ Rd ++ R2 /\ (forall r, In r Rd -> r_depth r = d) /\ (forall r, In r (R1 ++ R2) -> r_depth r <> d) /\
      create_dma nc (t_ranges t) d in_addr = Some (in_addr + total_ext R1, total_ext Rd) /\
      total_ext R1 mod 16 = 0 /\ 0 <= total_ext R1 /\ total_ext R1 + total_ext Rd <= zlen (t_buffer t) /\
      total_ext Rd = group_size (t_ranges t) d /\ total_ext Rd <= db_get (t_db t) (Z.of_nat i).
Proof. exact dma_length_is_slice_lemma. Qed.

(* with a codec returning multiples of 16 bytes, closed slices inside the depth and in-range records, no assertion fails *)
Theorem encoding_exists :
  forall enc nc n bd do_w biases qs,
    (do_w = true -> forall c d l b, zlen (enc c d l b) mod 16 = 0) ->
    forall offs,
      1 < zlen offs -> (forall p, In p (slice_pairs offs) -> 0 <= fst p < n) ->
      (forall sec, In sec (sections nc n bd offs) -> sec_scales nc biases qs sec <> None) ->
      exists t, encode_layout enc nc n bd do_w biases qs offs = Some t.
Proof. exact encode_layout_total. Qed.

(* the cache, for the key function of the code that exists (wkey_of: block type, clipped block depth, slices, dilation,
   weight value id, IFM bit depth, transpose flip): if equal keys imply equal inputs, every response (miss, hit, hit with
   re-encoded scales) holds for every (core, slice) key the same scale bytes and weight bytes as a fresh encoding *)
Theorem cache_reuse_sound :
  forall codec, (forall w c d l b, zlen (codec w c d l b) mod 16 = 0) ->
  forall h resps,
    key_determines_inputs wkey_of h -> Forall wf_request h -> run codec wkey_of [] h = Some resps ->
    Forall2 (fun q r => exists tf, fresh codec q = Some tf /\ effective r = effective tf) h resps.
Proof. exact (fun codec H => cache_reuse_sound_lemma codec H wkey_of). Qed.

(* inputs of the encoding that the key still does not contain: accelerator (micro-block depths), core count, weight
   content behind a value id, unclipped block depth; and (scale key) the quantised scales: each request below has the keys
   of q0 and differs from it.  (One architecture per compilation and caches cleared per compilation: no two requests of a
   compilation differ in accelerator or cores; value ids identify contents; the codec ignores the unclipped block depth.) *)
Theorem key_omits :
  Forall (fun q => wkey_of q = wkey_of q0 /\ skey_of q = skey_of q0 /\ q <> q0)
         [q_accel; q_cores; q_content; q_blockdepth; q_qscales'].
Proof. exact key_omits_lemma. Qed.

(* the IFM bit depth and the transpose-convolution flip are in the key (since 845322f); the old key omitted them *)
Theorem key_contains :
  wkey_of q_bits <> wkey_of q0 /\ wkey_of q_flip <> wkey_of q0 /\
  wkey_of_old q_bits = wkey_of_old q0 /\ wkey_of_old q_flip = wkey_of_old q0.
Proof. exact key_contains_lemma. Qed.

(* with an omitted input reuse is not sound in the model: a codec that depends on the accelerator (as mlw_codec does through
   the micro-block depths) and the history [q0; q_accel].  On the implementation this needs two architectures in one process:
   replayed on the real function only, not reachable through the compiler *)
Theorem cache_reuse_refuted :
  exists (codec : wparams -> Z -> Z -> Z -> Z -> list Z) (h : list request) resps,
    (forall w c d l b, zlen (codec w c d l b) mod 16 = 0) /\ Forall wf_request h /\
    run codec wkey_of [] h = Some resps /\
    ~ Forall2 (fun q r => exists tf, fresh codec q = Some tf /\ effective r = effective tf) h resps.
Proof. exact cache_reuse_refuted_lemma. Qed.

(* the refutation that motivated 845322f -- about the OLD key function, kept as a regression statement: with a codec that
   depends on the IFM bit depth the history [q0; q_bits] answered the second request with the first request's bytes *)
Theorem cache_reuse_old_key_refuted :
  exists (codec : wparams -> Z -> Z -> Z -> Z -> list Z) (h : list request) resps,
    (forall w c d l b, zlen (codec w c d l b) mod 16 = 0) /\ Forall wf_request h /\
    run codec wkey_of_old [] h = Some resps /\
    ~ Forall2 (fun q r => exists tf, fresh codec q = Some tf /\ effective r = effective tf) h resps.
Proof. exact cache_reuse_old_key_refuted_lemma. Qed.

Print Assumptions gen_encode_bias_is_model.
Print Assumptions encode_bias_roundtrip.
Print Assumptions ranges_aligned_disjoint_ordered.
Print Assumptions scales_one_record_per_channel.
Print Assumptions scales_odd_slice_refuted.
Print Assumptions double_buffer_bounds.
Print Assumptions single_buffer_refuted.
Print Assumptions single_buffer_bounds.
Print Assumptions npu_ranges_inside_tensor.
Print Assumptions npu_scale_ranges_inside_scale_tensor.
Print Assumptions dma_length_is_slice.
Print Assumptions encoding_exists.
Print Assumptions cache_reuse_sound.
Print Assumptions key_omits.
Print Assumptions key_contains.
Print Assumptions cache_reuse_refuted.
Print Assumptions cache_reuse_old_key_refuted.
