(* Extraction of the Scaling model: ExtrOcamlBasic only, Z stays the extracted inductive. *)
From Coq Require Import ZArith List Extraction ExtrOcamlBasic.
From VV Require Import model.DispatchScaling.
Extraction Language OCaml.
Extraction "extract/scaling.ml" DispatchScaling.run Z.add Z.mul Z.opp Z.div_eucl Z.ltb Z.eqb.
