(* Extraction of the C11 whole-model validator: ExtrOcamlBasic only, Z stays the extracted inductive. *)
From Coq Require Import ZArith List Extraction ExtrOcamlBasic.
From VV Require Import model.DispatchPreserve.
Extraction Language OCaml.
Extraction "extract/preserve.ml" DispatchPreserve.run Z.add Z.mul Z.opp Z.div_eucl Z.ltb Z.eqb.
