(* Extraction of the C19 models: ExtrOcamlBasic only, Z stays the extracted inductive. *)
From Coq Require Import ZArith List Extraction ExtrOcamlBasic.
From VV Require Import model.DispatchFpMath.
Extraction Language OCaml.
Extraction "extract/fpMath.ml" DispatchFpMath.run Z.add Z.mul Z.opp Z.div_eucl Z.ltb Z.eqb.
