(* Extraction of the C16 model: ExtrOcamlBasic only, Z stays the extracted inductive. *)
From Coq Require Import ZArith List Extraction ExtrOcamlBasic.
From VV Require Import model.DispatchConstraints.
Extraction Language OCaml.
Extraction "extract/constraints.ml" DispatchConstraints.run Z.add Z.mul Z.opp Z.div_eucl Z.ltb Z.eqb.
