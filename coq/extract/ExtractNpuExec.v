From Coq Require Import ZArith List Extraction ExtrOcamlBasic.
From VV Require Import model.DispatchNpuExec.
Extraction Language OCaml.
Extraction "extract/npuExec.ml" DispatchNpuExec.run Z.add Z.mul Z.opp Z.div_eucl Z.ltb Z.eqb.
