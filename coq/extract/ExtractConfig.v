(* Extraction of the C18 model: ExtrOcamlBasic only, Z stays the extracted inductive. *)
From Coq Require Import ZArith List Extraction ExtrOcamlBasic.
From VV Require Import model.DispatchConfig.
Extraction Language OCaml.
Extraction "extract/config.ml" DispatchConfig.run Z.add Z.mul Z.opp Z.div_eucl Z.ltb Z.eqb.
