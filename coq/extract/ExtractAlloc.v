(* Extraction of the allocator models: ExtrOcamlBasic only, Z stays the extracted inductive. *)
From Coq Require Import ZArith List Extraction ExtrOcamlBasic.
From VV Require Import model.DispatchAlloc.
Extraction Language OCaml.
Extraction "extract/alloc.ml" DispatchAlloc.run Z.add Z.mul Z.opp Z.div_eucl Z.ltb Z.eqb.
