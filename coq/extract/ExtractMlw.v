(* Extraction of the C07 models: ExtrOcamlBasic only, Z stays the extracted inductive. *)
From Coq Require Import ZArith List Extraction ExtrOcamlBasic.
From VV Require Import model.DispatchMlw.
Extraction Language OCaml.
Extraction "extract/mlw.ml" DispatchMlw.run Z.add Z.mul Z.opp Z.div_eucl Z.ltb Z.eqb.
