(* Extraction of the emitter model (C06): ExtrOcamlBasic only, Z stays the extracted inductive. *)
From Coq Require Import ZArith List Extraction ExtrOcamlBasic.
From VV Require Import model.DispatchEmit.
Extraction Language OCaml.
Extraction "extract/emit.ml" DispatchEmit.run Z.add Z.mul Z.opp Z.div_eucl Z.ltb Z.eqb.
