(* Extraction of the BlockCfg model: ExtrOcamlBasic only, Z stays the extracted inductive. *)
From Coq Require Import ZArith List Extraction ExtrOcamlBasic.
From VV Require Import model.DispatchBlockCfg.
Extraction Language OCaml.
Extraction "extract/blockCfg.ml" DispatchBlockCfg.run Z.add Z.mul Z.opp Z.div_eucl Z.ltb Z.eqb.
