(* Extraction of the Stripe model: ExtrOcamlBasic only, Z stays the extracted inductive. *)
From Coq Require Import ZArith List Extraction ExtrOcamlBasic.
From VV Require Import model.DispatchStripe.
Extraction Language OCaml.
Extraction "extract/stripe.ml" DispatchStripe.run Z.add Z.mul Z.opp Z.div_eucl Z.ltb Z.eqb.
