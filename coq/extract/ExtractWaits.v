(* Extraction of the C04 models and validator: ExtrOcamlBasic only, Z stays the extracted inductive. *)
From Coq Require Import ZArith List Extraction ExtrOcamlBasic.
From VV Require Import model.DispatchWaits.
Extraction Language OCaml.
Extraction "extract/waits.ml" DispatchWaits.run Z.add Z.mul Z.opp Z.div_eucl Z.ltb Z.eqb.
