(* Extraction of the executable models: ExtrOcamlBasic only, Z stays the extracted inductive. *)
From Coq Require Import ZArith List Extraction ExtrOcamlBasic.
From VV Require Import model.Dispatch.
Extraction Language OCaml.
Extraction "extract/velamodel.ml" Dispatch.run Z.add Z.mul Z.opp Z.div_eucl Z.ltb Z.eqb.
