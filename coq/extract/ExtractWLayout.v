(* Extraction of the WLayout model: ExtrOcamlBasic only, Z stays the extracted inductive. *)
From Coq Require Import ZArith List Extraction ExtrOcamlBasic.
From VV Require Import model.DispatchWLayout.
Extraction Language OCaml.
Extraction "extract/wLayout.ml" DispatchWLayout.run Z.add Z.mul Z.opp Z.div_eucl Z.ltb Z.eqb.
