"""Plans, runs (in parallel, one fresh process each) and caches compilations of generated networks.

Cache key = sha256(source state of /repo/ethosu, tools that define the job, job).  Artefacts live under
/verif/build/cache/<key>/ (never /tmp)."""
import concurrent.futures
import glob
import hashlib
import json
import os
import random
import shutil
import subprocess
import sys

import vlib

CACHE = os.path.join(vlib.BUILD, "cache")
WORKER = os.path.join(vlib.ROOT, "tools", "vela_worker.py")
CONFIG_INI = os.path.join(vlib.REPO, "ethosu", "config_files", "Arm", "vela.ini")

U55 = ["ethos-u55-32", "ethos-u55-64", "ethos-u55-128", "ethos-u55-256"]
U65 = ["ethos-u65-256", "ethos-u65-512"]
U55_SYS = ["Ethos_U55_High_End_Embedded", "Ethos_U55_Deep_Embedded"]
U65_SYS = ["Ethos_U65_High_End", "Ethos_U65_Mid_End", "Ethos_U65_Embedded"]

_state = None


def repo_state():
    global _state
    if _state is None:
        h = hashlib.sha256()
        files = sorted(glob.glob(os.path.join(vlib.REPO, "ethosu", "**", "*.py"), recursive=True) +
                       glob.glob(os.path.join(vlib.REPO, "ethosu", "**", "*.c"), recursive=True) +
                       glob.glob(os.path.join(vlib.REPO, "ethosu", "**", "*.h"), recursive=True) +
                       glob.glob(os.path.join(vlib.REPO, "ethosu", "**", "*.ini"), recursive=True))
        for f in files:
            h.update(f.encode())
            h.update(open(f, "rb").read())
        for f in ("netgen.py", "vela_worker.py", "wrap.py"):
            p = os.path.join(vlib.ROOT, "tools", f)
            if os.path.exists(p):
                h.update(open(p, "rb").read())
        _state = h.hexdigest()
    return _state


def config_args(rng, acc=None, mode=None):
    """one point of the configuration space as CLI args"""
    acc = acc or rng.choice(U55 + U65)
    args = ["--accelerator-config", acc]
    mode = mode or rng.choice(["default", "Sram_Only", "Shared_Sram", "Dedicated_Sram"])
    if mode != "default":
        if acc in U55 and mode == "Dedicated_Sram":
            mode = "Shared_Sram"
        sysc = rng.choice(U55_SYS if acc in U55 else U65_SYS)
        if mode == "Dedicated_Sram":
            sysc = rng.choice(["Ethos_U65_High_End", "Ethos_U65_Mid_End", "Ethos_U65_Client_Server"])
        args += ["--config", CONFIG_INI, "--system-config", sysc, "--memory-mode", mode]
    args += ["--optimise", rng.choice(["Size", "Performance"])]
    args += ["--tensor-allocator", rng.choice(["Greedy", "LinearAlloc", "HillClimb", "HillClimb"])]
    if rng.random() < 0.5:
        args += ["--arena-cache-size", str(rng.choice([4096, 16384, 65536, 131072, 262144, 1048576]))]
    if rng.random() < 0.25:
        args += ["--cpu-tensor-alignment", str(rng.choice([16, 32, 64, 128, 256]))]
    return args


D2_FAMS = ["conv_chain", "conv_chain_big", "weights_heavy", "single", "diamond", "mixed_cpu", "lut_heavy", "ew_dag", "weights_heavy",
           "multi_custom", "siamese", "lut_mixed", "pow2_rescale", "narrowing_chain", "memcpy_reshape", "one_channel_tail", "mixed_exact", "lstm", "rewrite_patterns", "cpu_fan"]
D2_STRATA = [  # (accelerator, memory mode, system config) combinations that must always be present
    ("ethos-u65-512", "Dedicated_Sram", "Ethos_U65_High_End"), ("ethos-u65-256", "Dedicated_Sram", "Ethos_U65_Mid_End"),
    ("ethos-u65-512", "Shared_Sram", "Ethos_U65_Embedded"), ("ethos-u65-256", "Sram_Only", "Ethos_U65_High_End"),
    ("ethos-u55-128", "Shared_Sram", "Ethos_U55_High_End_Embedded"), ("ethos-u55-256", "Sram_Only", "Ethos_U55_High_End_Embedded"),
    ("ethos-u55-32", "Shared_Sram", "Ethos_U55_Deep_Embedded"), ("ethos-u55-64", "Sram_Only", "Ethos_U55_Deep_Embedded"),
    ("ethos-u65-512", "default", None), ("ethos-u55-128", "default", None)]


def plan_d2(n, seed, capture=True):
    """the plan shared by every end-to-end (D2) check: a stratified core - every stratum of D2_STRATA with a
    weights-heavy and a big convolution chain, both optimisation strategies - then random points"""
    rng = random.Random("plan/d2/%s" % seed)
    jobs = []
    i = 0
    for fam in ("weights_heavy", "conv_chain_big"):
        for acc, mode, sysc in D2_STRATA:
            args = ["--accelerator-config", acc]
            if mode != "default":
                args += ["--config", CONFIG_INI, "--system-config", sysc, "--memory-mode", mode]
            args += ["--optimise", "Size" if i % 2 else "Performance"]
            if mode == "Dedicated_Sram" and i % 3 == 0:
                args += ["--arena-cache-size", "65536"]
            jobs.append({"family": fam, "seed": "d2s-%s-%d" % (seed, i), "args": args, "capture": capture})
            i += 1
    while len(jobs) < n:
        fam = D2_FAMS[len(jobs) % len(D2_FAMS)]
        jobs.append({"family": fam, "seed": "d2-%s-%d" % (seed, len(jobs)), "args": config_args(rng), "capture": capture})
    return jobs[:max(n, 20)]


def plan(families, n, seed, tag="", capture=True, fixed_first=True):
    """n jobs spread over the families; every accelerator and memory mode at least once when n allows.
    tag "d2" selects the shared stratified plan (families argument ignored)."""
    if os.environ.get("VERIF_FAMS"):        # development aid: every generated plan of every check over these families only
        families, tag = os.environ["VERIF_FAMS"].split(","), tag + "dev"
    if tag == "d2":
        return plan_d2(n, seed, capture)
    rng = random.Random("plan/%s/%s" % (tag, seed))
    jobs = []
    accs = U55 + U65
    modes = ["default", "Sram_Only", "Shared_Sram", "Dedicated_Sram"]
    for i in range(n):
        fam = families[i % len(families)]
        acc = accs[i % len(accs)] if i < 2 * len(accs) else None
        mode = modes[(i // 2) % len(modes)] if i < 16 else None
        jobs.append({"family": fam, "seed": "%s-%d-%d" % (tag, seed, i), "args": config_args(rng, acc, mode), "capture": capture})
    return jobs


def job_key(job):
    j = {k: v for k, v in job.items() if k != "out_dir"}
    return hashlib.sha256((repo_state() + json.dumps(j, sort_keys=True)).encode()).hexdigest()[:24]


def run_one(job, timeout=600):
    """one compilation (cached). A per-key lock file makes concurrent checks wait for each other instead of
    reading half-written artefacts."""
    import fcntl
    key = job_key(job)
    out = os.path.join(CACHE, key)
    rj = os.path.join(out, "result.json")
    if os.path.exists(rj):
        try:
            return json.load(open(rj))
        except Exception:
            pass
    os.makedirs(CACHE, exist_ok=True)
    with open(os.path.join(CACHE, key + ".lock"), "w") as lf:
        fcntl.flock(lf, fcntl.LOCK_EX)
        try:
            if os.path.exists(rj):
                try:
                    return json.load(open(rj))
                except Exception:
                    pass
            if os.path.exists(out):
                shutil.rmtree(out, ignore_errors=True)
            os.makedirs(out, exist_ok=True)
            j = dict(job, out_dir=out)
            jf = os.path.join(out, "job.json")
            json.dump(j, open(jf, "w"))
            try:
                p = subprocess.run([vlib.PY, WORKER, jf], env=vlib.py_env(), capture_output=True, text=True, timeout=timeout)
                if os.path.exists(rj):
                    return json.load(open(rj))
                res = {"job": j, "status": "crash", "exception": "worker died without result (rc=%s)" % p.returncode,
                       "traceback": (p.stderr or "")[-3000:], "stdout": (p.stdout or "")[-3000:], "files": []}
            except subprocess.TimeoutExpired:
                res = {"job": j, "status": "timeout", "exception": "no termination within %d s" % timeout, "files": []}
            tmp = rj + ".tmp"
            json.dump(res, open(tmp, "w"))
            os.replace(tmp, rj)
            return res
        finally:
            fcntl.flock(lf, fcntl.LOCK_UN)
            try:
                os.unlink(os.path.join(CACHE, key + ".lock"))
            except OSError:
                pass


def run_all(jobs, timeout=600, workers=None):
    workers = workers or vlib.NCPU
    os.makedirs(CACHE, exist_ok=True)
    with concurrent.futures.ThreadPoolExecutor(max_workers=workers) as ex:
        return list(ex.map(lambda j: run_one(j, timeout), jobs))


def prune_cache(max_entries=6000):
    """keep disk use bounded: drop entries of other repo states first, then oldest"""
    if not os.path.isdir(CACHE):
        return
    ents = [os.path.join(CACHE, d) for d in os.listdir(CACHE) if not d.endswith(".lock")]
    if len(ents) <= max_entries:
        return
    ents.sort(key=lambda p: os.path.getmtime(p))
    for p in ents[:len(ents) - max_entries]:
        shutil.rmtree(p, ignore_errors=True)


def artefact(res, suffix="_vela.tflite"):
    out = res["job"]["out_dir"]
    for f in res.get("files", []):
        if f.endswith(suffix):
            return os.path.join(out, f)
    return None


def corpus_jobs(capture=True, skip_for=None):
    """networks kept from earlier findings; run first by the end-to-end checks. skip_for = (check id, tier): entries whose
    sidecar lists the check under "thorough_only_for" are left to the thorough tier (their validation is slow)"""
    jobs = []
    cdir = os.path.join(vlib.ROOT, "corpus")
    for f in sorted(glob.glob(os.path.join(cdir, "*.json"))):
        d = json.load(open(f))
        if "tflite" not in d:
            continue
        if skip_for and skip_for[1] == "quick" and skip_for[0] in d.get("thorough_only_for", []):
            continue
        path = os.path.join(cdir, d["tflite"])
        sha = hashlib.sha256(open(path, "rb").read()).hexdigest()[:16]
        args = [CONFIG_INI if a == "@CONFIG_INI@" else a for a in d["args"]]
        jobs.append({"tflite": path, "sha": sha, "args": args, "capture": capture, "family": "corpus", "seed": os.path.basename(f),
                     "inputs": d.get("inputs")})
    return jobs
