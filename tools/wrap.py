"""Run-time wrappers (no source hooks): installed by vela_worker before vela.main().

Captures, per NPU subgraph: the NpuOperation list handed to generate_command_stream together with the
high-level command each came from (tensor identities, boxes), the memory limits and the emitted words;
per allocation call: the live ranges and the result; per weight-encoding call: arguments summary and
ranges.  Everything is dumped as JSON next to the output model."""
import enum
import json
import os

import numpy as np


def ser(o, depth=0):
    """generic serialiser of api objects"""
    if o is None or isinstance(o, (bool, str)):
        return o
    if isinstance(o, enum.Enum):
        return o.name
    if isinstance(o, (int, np.integer)):
        return int(o)
    if isinstance(o, (float, np.floating)):
        return float(o)
    if isinstance(o, np.ndarray):
        return o.tolist() if o.size <= 64 else {"ndarray_shape": list(o.shape)}
    if isinstance(o, tuple) and hasattr(o, "_fields"):
        return {f: ser(getattr(o, f), depth + 1) for f in o._fields}
    if isinstance(o, (list, tuple)):
        return [ser(x, depth + 1) for x in o]
    if isinstance(o, dict):
        return {str(k): ser(v, depth + 1) for k, v in o.items()}
    if depth > 6:
        return str(o)
    if hasattr(o, "__dict__"):
        return {k: ser(v, depth + 1) for k, v in vars(o).items() if not k.startswith("_")}
    return str(o)


def tens_info(t):
    if t is None:
        return None
    d = {"name": t.name, "eq_id": str(t.equivalence_id), "address": ser(t.address), "shape": ser(list(t.shape)),
         "storage_shape": ser(list(t.storage_shape)), "dtype": str(t.dtype), "mem_area": t.mem_area.name,
         "mem_type": t.mem_type.name, "purpose": t.purpose.name, "format": t.format.name,
         "storage_size": int(t.storage_size()), "element_size": int(t.element_size()),
         "is_const": bool(t.values is not None)}
    sz = getattr(t, "src_tensor", None)
    if sz is not None:
        d["src_tensor"] = sz.name
    return d


def box_info(b):
    if b is None:
        return None
    return {"start": ser(list(b.start_coord)), "end": ser(list(b.end_coord))}


class Capture:
    def __init__(self):
        self.streams = []
        self.allocs = []
        self.weights = []

    def dump(self, out_dir):
        p = os.path.join(out_dir, "capture.json")
        with open(p, "w") as f:
            json.dump({"streams": self.streams, "allocs": self.allocs, "weights": self.weights}, f)
        return {"streams": len(self.streams), "allocs": len(self.allocs), "weights": len(self.weights),
                "ops": sum(len(s["ops"]) for s in self.streams)}


def install():
    cap = Capture()
    from ethosu.vela import high_level_command_to_npu_op as h2n
    from ethosu.vela import high_level_command_stream as hlcs
    from ethosu.vela import tensor_allocation

    orig_gen = h2n.generate_command_stream

    def gen(npu_op_list, arch, verbose, mem_limits, add_to_debug_db=None, npu_op_to_cmd=None):
        words = orig_gen(npu_op_list, arch, verbose, mem_limits, add_to_debug_db, npu_op_to_cmd)
        ops = []
        for op in npu_op_list:
            d = {"api": ser(op), "cls": type(op).__name__}
            cmd = (npu_op_to_cmd or {}).get(op)
            if isinstance(cmd, hlcs.NpuStripe):
                ps = cmd.ps
                d["cmd"] = {
                    "kind": "stripe", "pass": ps.name, "primary_op": str(ps.primary_op.type) if ps.primary_op else None,
                    "primary_op_name": ps.primary_op.name if ps.primary_op else None,
                    "block_type": ps.npu_block_type.name,
                    "ifm": tens_info(cmd.ifm_tensor), "ifm_box": box_info(cmd.ifm_box),
                    "ifm2": tens_info(cmd.ifm2_tensor), "ifm2_box": box_info(cmd.ifm2_box),
                    "ofm": tens_info(cmd.ofm_tensor), "ofm_box": box_info(cmd.ofm_box),
                    "weight": tens_info(cmd.weight_tensor), "weight_box": box_info(cmd.weight_box),
                    "scale": tens_info(cmd.scale_tensor),
                    "pad_top": ser(cmd.pad_top), "pad_bottom": ser(cmd.pad_bottom),
                    "lut": tens_info(getattr(ps, "lut_tensor", None)),
                    "ifm_shapes": [ser(s.as_list()) for s in ps.ifm_shapes], "ofm_shapes": [ser(s.as_list()) for s in ps.ofm_shapes],
                    "read_offsets": [ser(s.as_list()) if s is not None else None for s in ps.primary_op.read_offsets] if ps.primary_op else None,
                    "write_offset": ser(ps.primary_op.write_offset.as_list()) if ps.primary_op and ps.primary_op.write_offset is not None else None,
                    "kernel": ser(vars(ps.primary_op.kernel)) if ps.primary_op is not None else None,
                    "op_padding": ser(ps.primary_op.attrs.get("explicit_padding")) if ps.primary_op else None,
                    "skirt": ser(ps.primary_op.attrs.get("skirt")) if ps.primary_op else None,
                }
                try:  # C10: what the stripe geometry check needs in addition (best effort)
                    po = ps.primary_op
                    d["cmd"]["is_first_h_stripe"] = bool(cmd.is_first_h_stripe)
                    d["cmd"]["is_last_h_stripe"] = bool(cmd.is_last_h_stripe)
                    if po is not None:
                        d["cmd"]["read_shapes"] = [ser(s.as_list()) if s is not None else None for s in po.read_shapes]
                        d["cmd"]["write_shape"] = ser(po.write_shape.as_list()) if po.write_shape is not None else None
                        d["cmd"]["padding_type"] = ser(po.attrs.get("padding"))
                        d["cmd"]["ifm_resampling_mode"] = ser(po.ifm_resampling_mode)
                        d["cmd"]["original_type"] = str(po.original_type)
                except Exception as ex:
                    d["cmd"]["c10_capture_error"] = repr(ex)
                w = cmd.weight_tensor
                if w is not None:
                    wsrc = w.src_tensor if getattr(w, "src_tensor", None) is not None else w
                    d["cmd"]["weight_src"] = tens_info(wsrc)
                    d["cmd"]["encoded_ranges"] = [[list(map(int, k)) if isinstance(k, tuple) else int(k), int(v.offset), int(v.scale_bytes),
                                                   int(v.weight_offset), int(v.weight_bytes), int(v.index)]
                                                  for k, v in getattr(wsrc, "encoded_ranges", {}).items()]
                    if cmd.scale_tensor is not None:
                        d["cmd"]["scale_ranges"] = [[list(map(int, k)), int(v.offset), int(v.scale_bytes), int(v.weight_offset),
                                                     int(v.weight_bytes), int(v.index)]
                                                    for k, v in getattr(cmd.scale_tensor, "encoded_ranges", {}).items()]
            elif isinstance(cmd, hlcs.DMA):
                d["cmd"] = {"kind": "dma", "pass": cmd.ps.name, "in": tens_info(cmd.in_tensor), "out": tens_info(cmd.out_tensor),
                            "box": box_info(cmd.box)}
                w = cmd.in_tensor
                if getattr(w, "encoded_ranges", None):
                    d["cmd"]["encoded_ranges"] = [[list(map(int, k)) if isinstance(k, tuple) else int(k), int(v.offset), int(v.scale_bytes),
                                                   int(v.weight_offset), int(v.weight_bytes), int(v.index)]
                                                  for k, v in w.encoded_ranges.items()]
            ops.append(d)
        cap.streams.append({
            "ops": ops, "words": [int(w) for w in words], "mem_limits": {str(k): int(v) for k, v in mem_limits.items()},
            "accelerator": arch.accelerator_config.value, "ncores": int(arch.ncores),
            "max_outstanding_dma": int(arch.max_outstanding_dma), "max_outstanding_kernels": int(arch.max_outstanding_kernels),
            "max_blockdep": int(arch.max_blockdep), "shram_size_bytes": int(arch.shram_size_bytes),
            "arena_cache_size": int(arch.arena_cache_size), "is_spilling_enabled": bool(arch.is_spilling_enabled()),
        })
        return words

    h2n.generate_command_stream = gen

    orig_alloc = tensor_allocation.allocate

    import inspect
    sig = inspect.signature(orig_alloc)

    def alloc(*a, **k):
        r = orig_alloc(*a, **k)
        try:
            ba = sig.bind(*a, **k)
            ba.apply_defaults()
            lrs, total = r
            seen = []
            rows = []
            for lr in lrs.lrs:
                rows.append([int(lr.start_time), int(lr.end_time), int(lr.size), int(lr.get_alignment()),
                             int(next(iter(lr.tensors)).address) if lr.tensors else -1, lr.name,
                             [t.name for t in lr.tensors][:4]])
            cap.allocs.append({
                "sg": ba.arguments["sg"].name, "mem_area": ba.arguments["mem_area"].name,
                "mem_types": sorted(m.name for m in ba.arguments["mem_type_set"]),
                "allocator": str(ba.arguments["tensor_allocator"]), "alignment": int(ba.arguments["cpu_tensor_alignment"]),
                "total": int(total), "ranges": rows})
        except Exception as ex:  # capture is best effort, never disturbs the compilation
            cap.allocs.append({"error": repr(ex)})
        return r

    tensor_allocation.allocate = alloc

    # (C08) every call of weight_compressor.encode_weight_and_scale_tensor: when what it returns was handed out before (it
    # came from the process-wide CompressedWeightCache), compare it per (core, depth) range - weight section bytes and the
    # scale section bytes the operator will be pointed at - with a fresh encoding of the very same call from an emptied
    # cache; the cache is restored afterwards.  One comparison per distinct (returned tensor, operator, tensors, slices).
    from ethosu.vela import weight_compressor as wcmp
    orig_enc = wcmp.encode_weight_and_scale_tensor
    handed_out = {}
    compared = set()

    def eff(pair):
        tw, ts = pair
        out = []
        for k, v in tw.encoded_ranges.items():
            if ts is None:
                sb = bytes(tw.buffer[v.offset: v.offset + v.scale_bytes])
            else:
                y = ts.encoded_ranges.get(k)
                sb = bytes(ts.buffer[y.offset: y.offset + y.scale_bytes]) if y is not None else None
            out.append(((int(k[0]), int(k[1])), sb,
                        bytes(tw.buffer[v.offset + v.weight_offset: v.offset + v.weight_offset + v.weight_bytes])))
        return out

    def enc(arch, op, weight_tens, scale_tens, kernel, block_config, depth_offsets):
        r = orig_enc(arch, op, weight_tens, scale_tens, kernel, block_config, depth_offsets)
        try:
            hit = r[0] is not None and id(r[0]) in handed_out
            if r[0] is not None:
                handed_out[id(r[0])] = r[0]
            rec = {"op": op.name, "op_type": str(op.type), "hit": bool(hit)}
            key = (id(r[0]), id(op), id(weight_tens), id(scale_tens), str(list(depth_offsets)), int(block_config.ofm_block.depth))
            if hit and key not in compared:
                compared.add(key)
                cache = wcmp.CompressedWeightCache.cache
                saved = dict(cache)
                cache.clear()
                try:
                    try:
                        f = orig_enc(arch, op, weight_tens, scale_tens, kernel, block_config, depth_offsets)
                    except Exception as ex:
                        f = None
                        rec["fresh_error"] = repr(ex)[:300]
                finally:
                    cache.clear()
                    cache.update(saved)
                a = eff(r)
                rec.update({
                    "compared": True, "weights_shape": [int(x) for x in weight_tens.values.shape],
                    "kernel": [int(kernel.height), int(kernel.width)], "depth_offsets": [int(x) for x in depth_offsets],
                    "block_depth": int(block_config.ofm_block.depth), "ncores": int(arch.ncores),
                    "accelerator": arch.accelerator_config.value, "ifm_bits": int(op.inputs[0].dtype.size_in_bits()),
                    "scale_tensor_returned": r[1] is not None, "returned_weight_bytes": [len(x[2]) for x in a]})
                if f is not None:
                    b = eff(f)
                    rec.update({
                        "keys_equal": [x[0] for x in a] == [x[0] for x in b],
                        "weights_equal": [x[2] for x in a] == [x[2] for x in b],
                        "scales_equal": [x[1] for x in a] == [x[1] for x in b],
                        "fresh_weight_bytes": [len(x[2]) for x in b]})
            cap.weights.append(rec)
        except Exception as ex:  # capture is best effort, never disturbs the compilation
            cap.weights.append({"error": repr(ex)[:300]})
        return r

    wcmp.encode_weight_and_scale_tensor = enc
    return cap
