#!/bin/bash
# seedall.sh [name-glob]: regression pass over every kept seeded change: scratch worktree of /repo HEAD + patch,
# private copy of /verif, `check <own property> quick`; one line per change, results in /verif/seeded/<name>/regress.txt
GLOB=${1:-*}
rsync -a --delete --exclude .git --exclude 'build/cache' --exclude replay /verif/ /tmp/verif_seedall/
for D in /verif/seeded/$GLOB/; do
  N=$(basename $D); [ -f $D/meta.json ] || continue
  P=$(/venv/bin/python -c "import json;print(json.load(open('$D/meta.json'))['property'])")
  NB=$(/venv/bin/python -c "import json;print(json.load(open('$D/meta.json')).get('neutralised_by',''))")
  if [ -n "$NB" ]; then echo "$N $P NEUTRALISED-BY-$NB"; continue; fi
  WT=/tmp/wt_seedall
  git -C /repo worktree remove --force $WT 2>/dev/null
  git -C /repo worktree add -q --detach $WT main || { echo "$N worktree failed"; continue; }
  if ! git -C $WT apply $D/patch.diff 2>/dev/null; then echo "$N $P PATCH-DOES-NOT-APPLY"; git -C /repo worktree remove --force $WT; continue; fi
  OUT=$(VERIF_REPO=$WT timeout 3000 /tmp/verif_seedall/check $P quick 2>&1 | grep -E "^VIOLATION|quick:" | head -3 | tr '\n' ' ' | cut -c1-200)
  case "$OUT" in *VIOLATION*) R=DETECTED;; *) R=MISSED;; esac
  echo "$N $P $R"
  echo "$R | $OUT" > $D/regress.txt
  git -C /repo worktree remove --force $WT
done
rm -rf /tmp/verif_seedall
