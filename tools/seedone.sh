#!/bin/bash
# seedone.sh <name> <slot>: regression of one kept seeded change (see seedall.sh); private worktree and /verif copy per slot
N=$1; SLOT=$2; D=/verif/seeded/$N
[ -f $D/meta.json ] || exit 0
P=$(/venv/bin/python -c "import json;print(json.load(open('$D/meta.json'))['property'])")
NB=$(/venv/bin/python -c "import json;print(json.load(open('$D/meta.json')).get('neutralised_by',''))")
if [ -n "$NB" ]; then echo "$N $P NEUTRALISED-BY-$NB"; exit 0; fi
WT=/tmp/wt_seedall_$SLOT; SC=/tmp/verif_seedall_$SLOT
git -C /repo worktree remove --force $WT 2>/dev/null
git -C /repo worktree add -q --detach $WT main || { echo "$N worktree failed"; exit 0; }
if ! git -C $WT apply $D/patch.diff 2>/dev/null; then echo "$N $P PATCH-DOES-NOT-APPLY"; git -C /repo worktree remove --force $WT; exit 0; fi
OUT=$(VERIF_REPO=$WT timeout 3000 $SC/check $P quick 2>&1 | grep -E "^VIOLATION|quick:" | head -3 | tr '\n' ' ' | cut -c1-200)
case "$OUT" in *VIOLATION*) R=DETECTED;; *) R=MISSED;; esac
echo "$N $P $R"
echo "$R | $OUT" > $D/regress.txt
git -C /repo worktree remove --force $WT
