#!/bin/bash
# seedall_par.sh [jobs] [name-glob]: seedall.sh with several changes evaluated at once (one private /verif copy and one
# scratch worktree per slot)
J=${1:-4}; GLOB=${2:-*}
for s in $(seq 1 $J); do rsync -a --delete --exclude .git --exclude 'build/cache' --exclude replay /verif/ /tmp/verif_seedall_$s/; done
ls -d /verif/seeded/$GLOB/ | xargs -n1 basename | awk -v j=$J '{print $0, (NR % j) + 1}' > /tmp/seedall_list.txt
for s in $(seq 1 $J); do
  ( grep " $s\$" /tmp/seedall_list.txt | while read N SLOT; do /verif/tools/seedone.sh $N $SLOT; done ) &
done
wait
for s in $(seq 1 $J); do rm -rf /tmp/verif_seedall_$s; done
