#!/venv/bin/python
"""A history of compilations in ONE process.  usage: hist_worker.py <history.json>
history: {out_dir, steps: [{family, seed, args, entry: main|convert|convert_bytes}]}
Writes <out_dir>/history_result.json: [{status, sha256, exception, size, summary: {...}}]"""
import contextlib
import csv
import glob
import hashlib
import io
import json
import os
import sys
import traceback

HERE = os.path.dirname(os.path.abspath(__file__))
sys.path.insert(0, HERE)
REPO = os.environ.get("VERIF_REPO", "/repo")
sys.path.insert(0, REPO)
import codec_build  # noqa: E402
codec_build.install()


def summary_of(d):
    out = {}
    for f in glob.glob(os.path.join(d, "*_summary_*.csv")):
        rows = list(csv.reader(open(f)))
        if len(rows) >= 2:
            m = dict(zip(rows[0], rows[1]))
            for k in ("sram_memory_used", "dram_memory_used", "off_chip_flash_memory_used", "on_chip_flash_memory_used",
                      "cycles_total", "nn_macs", "passes_after_fusing", "total_npu_encoded_weights"):
                if k in m:
                    out[k] = m[k]
    return out


def main():
    hist = json.load(open(sys.argv[1]))
    base = hist["out_dir"]
    os.makedirs(base, exist_ok=True)
    import netgen
    from ethosu.vela import vela
    # observation only: how often the randomised search of the HillClimb allocator ran in each step (a network whose first
    # placement is optimal never draws a random number, so its compilation cannot show a dependence on generator state)
    search_calls = [0]
    try:
        from ethosu.vela import hillclimb_allocation as _hc
        _orig_search = _hc.HillClimbAllocator.search

        def _counted(self, *a, **k):
            search_calls[0] += 1
            return _orig_search(self, *a, **k)
        _hc.HillClimbAllocator.search = _counted
    except Exception:
        pass
    results = []
    buffers = {}      # the caller's model buffers of the bytes entry point, one object per model for the whole history
    for i, st in enumerate(hist["steps"]):
        d = os.path.join(base, "step%d" % i)
        os.makedirs(d, exist_ok=True)
        net = netgen.generate(st["family"], st["seed"])
        mp = os.path.join(d, "model.tflite")
        data = net.build()
        open(mp, "wb").write(data)
        r = {"entry": st["entry"], "net": net.name, "ops": net.desc}
        calls_before = search_calls[0]
        buf = io.StringIO()
        cwd = os.getcwd()
        try:
            with contextlib.redirect_stdout(buf), contextlib.redirect_stderr(buf):
                if st["entry"] == "main":
                    rc = vela.main([mp, "--output-dir", d] + list(st.get("args", [])))
                    out = os.path.join(d, "model_vela.tflite")
                    blob = open(out, "rb").read() if rc == 0 and os.path.exists(out) else None
                elif st["entry"] == "convert":
                    os.chdir(d)
                    outp = vela.convert(mp)
                    blob = open(outp, "rb").read()
                    rc = 0
                elif st["entry"] == "convert_bytes_ro":      # a read-only view of the caller's buffer
                    mv = vela.convert_bytes(memoryview(bytes(data)))
                    blob = bytes(mv)
                    rc = 0
                else:
                    # the same caller-owned buffer object every time this model is compiled in this process
                    cb = buffers.setdefault((st["family"], st["seed"]), bytearray(data))
                    r["input_changed_before"] = bytes(cb) != data
                    mv = vela.convert_bytes(cb)
                    blob = bytes(mv)
                    r["input_changed"] = bytes(cb) != data
                    rc = 0
            r["status"] = "ok" if rc == 0 else "vela_error"
            if blob is not None:
                r["sha256"] = hashlib.sha256(blob).hexdigest()
                r["size"] = len(blob)
        except SystemExit as ex:
            r["status"] = "vela_error"
        except BaseException as ex:  # noqa
            r["status"] = "crash"
            r["exception"] = "%s: %s" % (type(ex).__name__, ex)
            r["traceback"] = traceback.format_exc()[-2500:]
        finally:
            os.chdir(cwd)
        r["hillclimb_search_calls"] = search_calls[0] - calls_before
        r["summary"] = summary_of(d if st["entry"] != "convert" else os.path.join(d, "output"))
        r["stdout_tail"] = buf.getvalue()[-600:]
        results.append(r)
    json.dump(results, open(os.path.join(base, "history_result.json"), "w"))


if __name__ == "__main__":
    main()
