#!/bin/bash
# seedeval.sh <seed worktree> <name> <property> [more properties]: verify a seeded change in its scratch worktree
# (demo fails with it, passes without), keep it as /verif/seeded/<name>/, and run the given checks against it
# from a private copy of /verif (so that nobody else's build or cache is disturbed).
WT=$1; NAME=$2; shift 2
D=/verif/seeded/$NAME; mkdir -p $D
cd $WT || exit 2
git diff -- ethosu > $D/patch.diff
cp SEED/demo.py $D/demo.py; cp SEED/notes.md $D/notes.md 2>/dev/null
export TMPDIR=$WT/SEED_TMP; mkdir -p $TMPDIR
PYTHONPATH=$WT timeout 1200 /venv/bin/python SEED/demo.py > $D/demo_with.log 2>&1; W=$?
git apply -R $D/patch.diff      # (not git stash: the stash is shared by all worktrees of a repository)
PYTHONPATH=$WT timeout 1200 /venv/bin/python SEED/demo.py > $D/demo_without.log 2>&1; WO=$?
git apply $D/patch.diff
echo "demo with change: exit $W ; without: exit $WO"
unset TMPDIR
SC=${SEED_SCRATCH:-/tmp/verif_seed}     # set SEED_SCRATCH to run several evaluations at once
rsync -a --exclude .git --exclude 'build/cache' --exclude replay /verif/ $SC/
RES=""
for P in "$@"; do
  OUT=$(VERIF_REPO=$WT timeout 3000 $SC/check $P quick 2>&1 | grep -E "^VIOLATION|quick:|^  " | head -4)
  echo "--- $P: $OUT"
  RES="$RES\n$P: $OUT"
done
echo -e "$RES" > $D/check_output.txt
echo "{\"demo_exit_with_change\": $W, \"demo_exit_without\": $WO}" > $D/verify.json
