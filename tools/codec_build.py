"""The C weight codec must be the one of /repo's CURRENT sources: build ethosu/mlw_codec from them into
/verif/build/codec/<hash of the sources>/ (never into /repo) and make `from ethosu import mlw_codec` resolve to it."""
import glob
import hashlib
import importlib.util
import os
import subprocess
import sys
import sysconfig

ROOT = os.path.dirname(os.path.dirname(os.path.abspath(__file__)))
REPO = os.environ.get("VERIF_REPO", "/repo")


def sources():
    d = os.path.join(REPO, "ethosu", "mlw_codec")
    return sorted(glob.glob(os.path.join(d, "*.c")) + glob.glob(os.path.join(d, "*.h")))


def ensure():
    """returns the path of the built extension for the current sources (building it if necessary), or None"""
    srcs = sources()
    if not srcs:
        return None
    h = hashlib.sha256()
    for f in srcs:
        h.update(os.path.basename(f).encode())
        h.update(open(f, "rb").read())
    out_dir = os.path.join(ROOT, "build", "codec", h.hexdigest()[:20])
    so = os.path.join(out_dir, "mlw_codec" + (sysconfig.get_config_var("EXT_SUFFIX") or ".so"))
    if os.path.exists(so):
        return so
    os.makedirs(out_dir, exist_ok=True)
    try:
        import numpy
        inc = [sysconfig.get_paths()["include"], numpy.get_include()]
    except Exception:
        return None
    tmp = so + ".tmp%d" % os.getpid()
    cmd = ["gcc", "-shared", "-fPIC", "-O3", "-DNDEBUG", "-fno-strict-overflow", "-DNPY_NO_DEPRECATED_API=NPY_1_9_API_VERSION"]
    cmd += ["-I" + i for i in inc] + [f for f in srcs if f.endswith(".c")] + ["-o", tmp]
    p = subprocess.run(cmd, capture_output=True, text=True, timeout=600)
    if p.returncode != 0:
        sys.stderr.write("codec build failed:\n" + p.stderr[-2000:])
        return None
    os.replace(tmp, so)
    return so


def install():
    """make `ethosu.mlw_codec` the freshly built module (call before ethosu.vela is imported)"""
    so = ensure()
    if so is None:
        return None
    if REPO not in sys.path:
        sys.path.insert(0, REPO)
    import ethosu
    spec = importlib.util.spec_from_file_location("ethosu.mlw_codec", so)
    mod = importlib.util.module_from_spec(spec)
    spec.loader.exec_module(mod)
    sys.modules["ethosu.mlw_codec"] = mod
    ethosu.mlw_codec = mod
    return so
