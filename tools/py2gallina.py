#!/usr/bin/env python3
"""Fail-closed Python-ast -> Gallina translator (device T of DESIGN.md section 3).

Accepted subset (anything else raises Unsupported and the function is reported as an
un-translatable obligation):
  * integer locals, + - * // % << >> & | ^, unary -, comparisons (chained), and/or/not,
    conditional expressions, min/max/abs/int/len, tuple construction and tuple assignment
  * if/elif/else, early return, `assert e` / np.intN(x) == x guards (function becomes partial:
    option result, None = AssertionError/OverflowError)
  * np.int8/16/32/64(e): checked conversion (None when e is outside the type: NumPy 2 raises
    for Python ints and wraps for wider NumPy scalars; both are "not the mathematical value")
  * np.iinfo(np.intN).min/.max/.bits
  * for _ in range(...) with loop-carried locals, no return/break/assert in the body
  * `while cond: body` with integer loop-carried locals, only with an iteration bound spec["while_fuel"] (expression over
    the parameters): a local structural fix over S (Z.to_nat bound); out of fuel = None (C10: calc_explicit_padding)
  * lst.append(e) on a parameter declared "list"
  * calls of other translated functions, attribute reads of parameters declared as records
    (flattened to one Gallina parameter per used field), method calls through METHODS
  * float intrinsics on parameters declared "dyadic" (exact dyadic rationals, see lib/PyFloat.v):
    math.frexp, round_away_zero, float * int, int(float)
  * `/` only with both operands integer-typed and a divisor literal: emitted as exact_div
    which is None when the division is not exact.
  * plain result objects: `x = C()` where class C has only an `__init__(self)` made of `self.f = <int>`
    lines, `x.f = e`, `return x`: the object is the tuple of its fields in __init__ order.
  * `int(math.ceil(a / b))` with integer a, b: ceiling division -((-a) // b), None unless b > 0 (float true
    division of ints is correctly rounded, so the float ceiling is the exact one for |a| < 2^53).
  * `C(e1, .., en)` for a class named in the spec's "tuples" ({"Shape4D": 4}): the tuple of its arguments;
    `C([e1, .., en])` with an n-element list literal likewise.
  * `x = bytearray(<literal n>)` (n zero bytes) and `x[<literal k>] = e` on it (None = IndexError, or ValueError when
    e is not a byte); `assert isinstance(param, int | np.intN)` on an integer parameter is a no-op.
Semantics: Python ints are Z; // and % are Z.div / Z.modulo (floor; same sign convention).
"""
import ast
import sys
import textwrap


class Unsupported(Exception):
    pass


BINOPS = {
    ast.Add: "Z.add", ast.Sub: "Z.sub", ast.Mult: "Z.mul", ast.FloorDiv: "Z.div", ast.Mod: "Z.modulo",
    ast.LShift: "Z.shiftl", ast.RShift: "Z.shiftr", ast.BitAnd: "Z.land", ast.BitOr: "Z.lor", ast.BitXor: "Z.lxor",
}
CMPOPS = {ast.Lt: "Z.ltb", ast.LtE: "Z.leb", ast.Eq: "Z.eqb", ast.Gt: "Z.gtb", ast.GtE: "Z.geb"}
NPW = {"int8": 8, "int16": 16, "int32": 32, "int64": 64}

# method tables for flattened record parameters:  (method name) -> fields used, template
METHODS = {
    "elements_wh": (("width", "height"), "(Z.mul {width} {height})"),
    "area_width": (("area_width",), "{area_width}"),
    "area_height": (("area_height",), "{area_height}"),
}


COQ_RESERVED = {"end", "at", "fix", "cofix", "using", "where", "struct", "exists", "forall", "fun", "then", "Type",
                "Set", "Prop", "mod", "length", "fst", "snd", "map", "app", "rev", "nat", "list", "option", "bool",
                "Some", "None", "true", "false", "pair", "S", "O", "Z", "N", "tt", "unit"}


def mangle(name):
    return name + "_" if name in COQ_RESERVED else name


def zlit(n):
    return "(%d)" % n if n < 0 else "%d" % n


class Fn:
    """One translated function."""

    def __init__(self, tr, node, spec):
        self.tr = tr
        self.node = node
        self.name = node.name
        self.spec = spec or {}
        self.ptypes = dict(self.spec.get("params", {}))  # name -> 'Z'|'bool'|'list'|'dyadic'|'record'
        self.params = []  # gallina parameter list (name, type)
        self.fields = {}  # record param -> ordered list of used fields
        self.partial = False
        self.tmp = 0
        self.nested = {}
        self.consts = dict(self.spec.get("consts", {}))

    def fresh(self, base="t"):
        self.tmp += 1
        return "%s_%d" % (base, self.tmp)

    # ---------------------------------------------------------------- expressions
    # returns (text, type); `pre` collects (var, text_of_option_expr) binds for partial calls
    def expr(self, e, env, pre, guard_ok=True):
        if isinstance(e, ast.Constant):
            if isinstance(e.value, bool):
                return ("true" if e.value else "false"), "bool"
            if isinstance(e.value, int):
                return zlit(e.value), "Z"
            if isinstance(e.value, float) and e.value == 0.5:
                return "dy_half", "dyadic"
            if isinstance(e.value, float) and e.value == -0.5:
                return "dy_neg_half", "dyadic"
            raise Unsupported("constant %r" % (e.value,))
        if isinstance(e, ast.Name):
            if e.id in env:
                return env[e.id]
            if e.id in self.consts:
                return zlit(self.consts[e.id]), "Z"
            if e.id in self.tr.module_consts:
                return zlit(self.tr.module_consts[e.id]), "Z"
            raise Unsupported("free name %s" % e.id)
        if isinstance(e, ast.Attribute):
            return self.attribute(e, env, pre)
        if isinstance(e, ast.UnaryOp):
            if isinstance(e.op, ast.USub):
                if isinstance(e.operand, ast.Constant) and e.operand.value == 0.5:
                    return "dy_neg_half", "dyadic"
                t, ty = self.expr(e.operand, env, pre, guard_ok)
                self.need(ty, "Z", e)
                return "(Z.opp %s)" % t, "Z"
            if isinstance(e.op, ast.Not):
                t = self.cond(e.operand, env, pre)
                return "(negb %s)" % t, "bool"
            if isinstance(e.op, ast.UAdd):
                return self.expr(e.operand, env, pre, guard_ok)
            raise Unsupported("unary op")
        if isinstance(e, ast.BinOp):
            return self.binop(e, env, pre)
        if isinstance(e, ast.Compare):
            return self.compare(e, env, pre), "bool"
        if isinstance(e, ast.BoolOp):
            sub = []
            for v in e.values:
                p2 = []
                sub.append(self.cond(v, env, p2))
                if p2:
                    raise Unsupported("partial call under short-circuit operator")
            op = "andb" if isinstance(e.op, ast.And) else "orb"
            t = sub[-1]
            for s in reversed(sub[:-1]):
                t = "(%s %s %s)" % (op, s, t)
            return t, "bool"
        if isinstance(e, ast.IfExp):
            c = self.cond(e.test, env, pre)
            p2 = []
            a, ta = self.expr(e.body, env, p2)
            b, tb = self.expr(e.orelse, env, p2)
            if p2:
                raise Unsupported("partial call under conditional expression")
            if ta != tb:
                raise Unsupported("conditional expression of mixed type")
            return "(if %s then %s else %s)" % (c, a, b), ta
        if isinstance(e, ast.Tuple):
            parts = [self.expr(x, env, pre) for x in e.elts]
            return "(" + ", ".join(p[0] for p in parts) + ")", tuple(p[1] for p in parts)
        if isinstance(e, ast.Call):
            return self.call(e, env, pre)
        raise Unsupported("expression %s" % type(e).__name__)

    def need(self, ty, want, node):
        if ty != want:
            raise Unsupported("type %s where %s expected (line %d)" % (ty, want, getattr(node, "lineno", 0)))

    def cond(self, e, env, pre):
        t, ty = self.expr(e, env, pre)
        if ty == "bool":
            return t
        if ty == "Z":
            return "(negb (Z.eqb %s 0))" % t
        raise Unsupported("truth value of %s" % (ty,))

    def attribute(self, e, env, pre):
        # np.iinfo(np.int32).max etc
        if isinstance(e.value, ast.Call) and self.dotted(e.value.func) == "np.iinfo":
            w = NPW.get(self.dotted(e.value.args[0]).split(".")[-1])
            if w is None:
                raise Unsupported("iinfo of unknown type")
            return {"max": zlit(2 ** (w - 1) - 1), "min": zlit(-(2 ** (w - 1))), "bits": zlit(w)}[e.attr], "Z"
        if isinstance(e.value, ast.Name) and e.value.id in env and env[e.value.id][1] == "iinfo":
            w = int(env[e.value.id][0])
            return {"max": zlit(2 ** (w - 1) - 1), "min": zlit(-(2 ** (w - 1))), "bits": zlit(w)}[e.attr], "Z"
        d = self.dotted(e)
        if d in self.tr.class_consts:
            return zlit(self.tr.class_consts[d]), "Z"
        # record parameter field, possibly nested (kernel.stride.y -> kernel_stride_y)
        parts = d.split(".")
        if parts[0] in self.ptypes and self.ptypes[parts[0]] == "record":
            fld = "_".join(parts[1:])
            return self.field(parts[0], fld), "Z"
        raise Unsupported("attribute %s" % d)

    def field(self, rec, fld):
        lst = self.fields.setdefault(rec, [])
        if fld not in lst:
            lst.append(fld)
        return "%s_%s" % (rec, fld)

    def dotted(self, e):
        if isinstance(e, ast.Name):
            return e.id
        if isinstance(e, ast.Attribute):
            return self.dotted(e.value) + "." + e.attr
        raise Unsupported("not a dotted name")

    def binop(self, e, env, pre):
        a, ta = self.expr(e.left, env, pre)
        b, tb = self.expr(e.right, env, pre)
        if ta == "dyadic" or tb == "dyadic":
            if isinstance(e.op, ast.Mult) and ta == "dyadic" and tb == "Z":
                return "(dy_mul_int %s %s)" % (a, b), "dyadic"
            if isinstance(e.op, ast.Add) and ta == "dyadic" and tb == "dyadic":
                return "(dy_add %s %s)" % (a, b), "dyadic"
            raise Unsupported("float operation")
        self.need(ta, "Z", e)
        self.need(tb, "Z", e)
        if isinstance(e.op, ast.Div):
            v = self.fresh("q")
            pre.append((v, "exact_div %s %s" % (a, b)))
            return v, "Z"
        op = BINOPS.get(type(e.op))
        if op is None:
            raise Unsupported("binary op %s" % type(e.op).__name__)
        # np.intN(a) * np.intN(b): fixed-width product
        w = self.np_width(e.left) or self.np_width(e.right)
        t = "(%s %s %s)" % (op, a, b)
        if w:
            v = self.fresh("w")
            pre.append((v, "chk_int %d %s" % (w, t)))
            return v, "Z"
        return t, "Z"

    def np_width(self, e):
        if isinstance(e, ast.Call):
            try:
                d = self.dotted(e.func)
            except Unsupported:
                return None
            if d.startswith("np.") and d[3:] in NPW:
                return NPW[d[3:]]
        return None

    def compare(self, e, env, pre):
        # np.intN(x) == x  guard
        if len(e.ops) == 1 and isinstance(e.ops[0], ast.Eq) and self.np_width(e.left):
            inner = e.left.args[0]
            if ast.dump(inner) == ast.dump(e.comparators[0]):
                x, tx = self.expr(inner, env, pre)
                self.need(tx, "Z", e)
                return "(in_int %d %s)" % (self.np_width(e.left), x)
        operands = [e.left] + list(e.comparators)
        texts = []
        for o in operands:
            t, ty = self.expr(o, env, pre)
            texts.append((t, ty))
        res = []
        for i, op in enumerate(e.ops):
            (a, ta), (b, tb) = texts[i], texts[i + 1]
            if isinstance(op, ast.NotEq):
                self.need(ta, "Z", e), self.need(tb, "Z", e)
                res.append("(negb (Z.eqb %s %s))" % (a, b))
                continue
            f = CMPOPS.get(type(op))
            if f is None:
                raise Unsupported("comparison %s" % type(op).__name__)
            if "dyadic" in (ta, tb) and isinstance(op, (ast.Lt, ast.LtE)):
                a = a if ta == "dyadic" else "(dy_of_Z %s)" % a
                b = b if tb == "dyadic" else "(dy_of_Z %s)" % b
                res.append("(%s %s %s)" % ("dy_ltb" if isinstance(op, ast.Lt) else "dy_leb", a, b))
                continue
            self.need(ta, "Z", e), self.need(tb, "Z", e)
            res.append("(%s %s %s)" % (f, a, b))
        t = res[-1]
        for s in reversed(res[:-1]):
            t = "(andb %s %s)" % (s, t)
        return t

    def call(self, e, env, pre):
        if e.keywords:
            raise Unsupported("keyword arguments")
        # method call on a record parameter
        if isinstance(e.func, ast.Attribute):
            try:
                d = self.dotted(e.func)
            except Unsupported:
                d = None
            if d:
                parts = d.split(".")
                if parts[0] in self.ptypes and self.ptypes[parts[0]] == "record" and parts[-1] in METHODS:
                    flds, tmpl = METHODS[parts[-1]]
                    prefix = "_".join(parts[1:-1])
                    m = {f: self.field(parts[0], (prefix + "_" if prefix else "") + f) for f in flds}
                    return tmpl.format(**m), "Z"
                if d == "math.frexp":
                    a, ta = self.expr(e.args[0], env, pre)
                    if ta == "dyadic":
                        return "(dy_frexp_sig %s, dy_frexp_exp %s)" % (a, a), ("dyadic", "Z")
                    if ta == "Z":
                        return "(tt, frexp_exp_int %s)" % a, ("unit", "Z")
                    raise Unsupported("frexp of %s" % (ta,))
                if d.startswith("np.") and d[3:] in NPW:
                    a, ta = self.expr(e.args[0], env, pre)
                    self.need(ta, "Z", e)
                    v = self.fresh("c")
                    pre.append((v, "chk_int %d %s" % (NPW[d[3:]], a)))
                    return v, "Z"
                if d == "np.trunc":
                    a, ta = self.expr(e.args[0], env, pre)
                    self.need(ta, "dyadic", e)
                    return "(dy_of_Z (dy_trunc %s))" % a, "dyadic"
                if d == "np.iinfo":
                    w = NPW.get(self.dotted(e.args[0]).split(".")[-1])
                    return str(w), "iinfo"
            raise Unsupported("call of %s" % (d,))
        if not isinstance(e.func, ast.Name):
            raise Unsupported("call target")
        f = e.func.id
        if (f == "int" and len(e.args) == 1 and isinstance(e.args[0], ast.Call) and not e.args[0].keywords
                and isinstance(e.args[0].func, ast.Attribute) and len(e.args[0].args) == 1
                and isinstance(e.args[0].args[0], ast.BinOp) and isinstance(e.args[0].args[0].op, ast.Div)):
            try:
                inner = self.dotted(e.args[0].func)
            except Unsupported:
                inner = None
            if inner == "math.ceil":
                a, ta = self.expr(e.args[0].args[0].left, env, pre)
                b, tb = self.expr(e.args[0].args[0].right, env, pre)
                self.need(ta, "Z", e), self.need(tb, "Z", e)
                v = self.fresh("c")
                pre.append((v, "(if Z.gtb %s 0 then Some (Z.opp (Z.div (Z.opp %s) %s)) else None)" % (b, a, b)))
                return v, "Z"
        if (f in self.spec.get("tuples", {}) and len(e.args) == 1 and isinstance(e.args[0], ast.List)
                and len(e.args[0].elts) == self.spec["tuples"][f]):
            # `C([e1, .., en])` (C10: Shape4D built from a 4-element list literal): the tuple of the elements
            elts = [self.expr(a, env, pre) for a in e.args[0].elts]
            for a in elts:
                self.need(a[1], "Z", e)
            return "(" + ", ".join(a[0] for a in elts) + ")", tuple("Z" for _ in elts)
        args = [self.expr(a, env, pre) for a in e.args]
        if f in self.spec.get("tuples", {}) and len(args) == self.spec["tuples"][f]:
            for a in args:
                self.need(a[1], "Z", e)
            return "(" + ", ".join(a[0] for a in args) + ")", tuple("Z" for _ in args)
        if f in ("min", "max") and len(args) >= 2:
            for a in args:
                self.need(a[1], "Z", e)
            t = args[-1][0]
            for a in reversed(args[:-1]):
                t = "(Z.%s %s %s)" % (f, a[0], t)
            # python min/max return the first on ties; identical for integers
            return t, "Z"
        if f == "abs" and len(args) == 1:
            self.need(args[0][1], "Z", e)
            return "(Z.abs %s)" % args[0][0], "Z"
        if f == "int" and len(args) == 1:
            if args[0][1] == "Z":
                return args[0][0], "Z"
            if args[0][1] == "dyadic":
                return "(dy_trunc %s)" % args[0][0], "Z"
            raise Unsupported("int() of %s" % (args[0][1],))
        if f == "len" and len(args) == 1 and args[0][1] == "list":
            return "(Z.of_nat (List.length %s))" % args[0][0], "Z"
        if f in self.nested:
            return self.inline_nested(f, args, env, pre)
        callee = self.tr.lookup(f)
        if callee is None:
            raise Unsupported("call of unknown function %s" % f)
        # flatten record args
        if len(args) < len(callee.pos_params):
            # defaults
            dflt = callee.defaults
            for pn in callee.pos_params[len(args):]:
                if pn not in dflt:
                    raise Unsupported("missing argument %s of %s" % (pn, f))
                args.append((zlit(dflt[pn]), "Z"))
        argtxt = []
        for (pn, a, an) in zip(callee.pos_params, args, list(e.args) + [None] * 10):
            pty = callee.ptypes.get(pn, "Z")
            if pty == "record":
                if not (isinstance(an, ast.Name) and self.ptypes.get(an.id) == "record"):
                    raise Unsupported("record argument must be a record parameter")
                for fld in callee.fields.get(pn, []):
                    argtxt.append(self.field(an.id, fld))
            else:
                if a[1] != pty:
                    raise Unsupported("argument %s of %s has type %s, expected %s" % (pn, f, a[1], pty))
                argtxt.append(a[0])
        t = "(%s %s)" % (self.tr.prefix + f, " ".join(argtxt)) if argtxt else self.tr.prefix + f
        if callee.partial:
            v = self.fresh("r")
            pre.append((v, t[1:-1] if argtxt else t))
            return v, callee.rettype
        return t, callee.rettype

    def inline_nested(self, f, args, env, pre):
        # nested helper def: translated as a local pure/partial lambda by inlining the body
        node = self.nested[f]
        env2 = dict(env)
        for a, (t, ty) in zip(node.args.args, args):
            env2[a.arg] = (t, ty)
        v = self.fresh("n")
        body = self.block(node.body, env2, None, force_option=True)
        pre.append((v, "(" + body + ")"))  # a `let`/`if` scrutinee of `match` must be parenthesised
        self.rettype_nested = "Z"
        return v, "Z"

    # ---------------------------------------------------------------- statements
    def ret(self, text):
        return "Some %s" % text if self.opt else text

    def wrap(self, pre, body):
        """bind the partial pre-computations in order around body (body is of result type)"""
        for v, t in reversed(pre):
            self.partial_used = True
            body = "match %s with Some %s => %s | None => None end" % (t, v, body)
        return body

    def block(self, stmts, env, rest_k, force_option=False):
        """translate stmts; rest_k(env) gives the continuation text (or None = must return)"""
        if not stmts:
            if rest_k is None:
                raise Unsupported("function may fall off its end")
            return rest_k(env)
        s, tail = stmts[0], stmts[1:]
        nxt = lambda env2: self.block(tail, env2, rest_k)
        if isinstance(s, ast.Expr) and isinstance(s.value, ast.Constant) and isinstance(s.value.value, str):
            return nxt(env)
        if isinstance(s, ast.Return):
            pre = []
            if s.value is None:
                raise Unsupported("bare return")
            if isinstance(s.value, ast.Constant) and s.value.value is None:
                self.returns_none = True
                return "None"
            t, ty = self.expr(s.value, env, pre)
            if isinstance(ty, tuple) and len(ty) == 2 and ty[0] == "obj":
                flds = [f for f, _ in self.tr.object_classes[ty[1]]]
                t, ty = "(" + ", ".join(t[f] for f in flds) + ")", tuple("Z" for _ in flds)
            self.note_ret(ty)
            return self.wrap(pre, self.ret(t))
        if isinstance(s, ast.Assert):
            t = s.test
            if (isinstance(t, ast.Compare) and len(t.ops) == 1 and isinstance(t.ops[0], ast.IsNot)
                    and isinstance(t.comparators[0], ast.Constant) and t.comparators[0].value is None
                    and isinstance(t.left, ast.Name) and t.left.id in env):
                return nxt(env)  # `assert param is not None`: parameters of the model are never None
            if (isinstance(t, ast.Call) and isinstance(t.func, ast.Name) and t.func.id == "isinstance" and not t.keywords
                    and len(t.args) == 2 and isinstance(t.args[0], ast.Name) and t.args[0].id in env
                    and env[t.args[0].id][1] == "Z" and t.args[0].id in self.pos_params
                    and isinstance(t.args[1], (ast.Name, ast.Attribute))
                    and self.dotted(t.args[1]) in ("int", "np.int8", "np.int16", "np.int32", "np.int64")):
                # `assert isinstance(param, <integer type>)`: the model's parameters are integers (Z) by construction
                return nxt(env)
            pre = []
            c = self.cond(s.test, env, pre)
            self.partial_used = True
            return self.wrap(pre, "if %s then %s else None" % (c, nxt(env)))
        if isinstance(s, ast.Assign):
            if len(s.targets) != 1:
                raise Unsupported("multiple assignment targets")
            return self.assign(s.targets[0], s.value, env, nxt)
        if isinstance(s, ast.AnnAssign):
            if s.value is None:
                return nxt(env)
            return self.assign(s.target, s.value, env, nxt)
        if isinstance(s, ast.AugAssign):
            val = ast.BinOp(left=ast.Name(id=s.target.id, ctx=ast.Load()), op=s.op, right=s.value)
            ast.copy_location(val, s)
            return self.assign(s.target, val, env, nxt)
        if isinstance(s, ast.If):
            pre = []
            c = self.cond(s.test, env, pre)
            a = self.block(list(s.body) + tail, env, rest_k)
            b = self.block(list(s.orelse) + tail, env, rest_k)
            return self.wrap(pre, "if %s then %s else %s" % (c, a, b))
        if isinstance(s, ast.For):
            return self.forloop(s, env, nxt)
        if isinstance(s, ast.While):
            return self.whileloop(s, env, nxt)
        if isinstance(s, ast.Expr) and isinstance(s.value, ast.Call):
            c = s.value
            if isinstance(c.func, ast.Attribute) and c.func.attr == "append" and isinstance(c.func.value, ast.Name):
                lst = c.func.value.id
                if lst in env and env[lst][1] == "list":
                    pre = []
                    t, ty = self.expr(c.args[0], env, pre)
                    self.need(ty, "Z", s)
                    v = self.fresh(lst)
                    env2 = dict(env)
                    env2[lst] = (v, "list")
                    return self.wrap(pre, "let %s := (%s ++ [%s]) in %s" % (v, env[lst][0], t, nxt(env2)))
            # call of a translated list-mutating procedure: f(data, args...)
            if isinstance(c.func, ast.Name) and self.tr.lookup(c.func.id) is not None:
                callee = self.tr.lookup(c.func.id)
                if callee.mutates:
                    pre = []
                    t, ty = self.call(c, env, pre)
                    lst = c.args[0].id
                    v = self.fresh(lst)
                    env2 = dict(env)
                    env2[lst] = (v, "list")
                    return self.wrap(pre, "let %s := %s in %s" % (v, t, nxt(env2)))
            raise Unsupported("expression statement")
        if isinstance(s, ast.FunctionDef):
            self.nested[s.name] = s
            return nxt(env)
        if isinstance(s, ast.Raise):
            self.partial_used = True
            return "None"
        raise Unsupported("statement %s (line %d)" % (type(s).__name__, s.lineno))

    def note_ret(self, ty):
        if self.rettype is None:
            self.rettype = ty
        elif self.rettype != ty:
            raise Unsupported("return types differ: %s vs %s" % (self.rettype, ty))

    def assign(self, target, value, env, nxt):
        pre = []
        if (isinstance(target, ast.Name) and isinstance(value, ast.Call) and isinstance(value.func, ast.Name)
                and value.func.id in self.tr.object_classes and not value.args and not value.keywords):
            env2 = dict(env)
            env2[target.id] = ({f: zlit(v) for f, v in self.tr.object_classes[value.func.id]}, ("obj", value.func.id))
            return nxt(env2)
        if (isinstance(target, ast.Name) and isinstance(value, ast.Call) and isinstance(value.func, ast.Name)
                and value.func.id == "bytearray" and not value.keywords and len(value.args) == 1
                and isinstance(value.args[0], ast.Constant) and isinstance(value.args[0].value, int)
                and not isinstance(value.args[0].value, bool) and 0 <= value.args[0].value <= 4096):
            # `x = bytearray(<literal n>)`: n zero bytes; later stores `x[k] = e` are byte-range checked
            v = self.fresh(target.id)
            env2 = dict(env)
            env2[target.id] = (v, "list")
            self.bytearrays = getattr(self, "bytearrays", set()) | {target.id}
            return "let %s := (repeat 0 (Z.to_nat %d)) in %s" % (v, value.args[0].value, nxt(env2))
        if (isinstance(target, ast.Subscript) and isinstance(target.value, ast.Name) and target.value.id in env
                and env[target.value.id][1] == "list" and isinstance(target.slice, ast.Constant)
                and isinstance(target.slice.value, int) and not isinstance(target.slice.value, bool)
                and 0 <= target.slice.value <= 4096):
            # `x[<literal k>] = e` on a list: IndexError when k >= len(x); on a bytearray also ValueError unless
            # 0 <= e < 256.  Both are the error result None.
            t, ty = self.expr(value, env, pre)
            self.need(ty, "Z", target)
            lst, k = target.value.id, target.slice.value
            old = env[lst][0]
            v = self.fresh(lst)
            env2 = dict(env)
            env2[lst] = (v, "list")
            guard = "(Z.ltb %d (Z.of_nat (List.length %s)))" % (k, old)
            if lst in getattr(self, "bytearrays", set()):
                guard = "(andb (andb (Z.leb 0 %s) (Z.ltb %s 256)) %s)" % (t, t, guard)
            self.partial_used = True
            return self.wrap(pre, "if %s then let %s := (firstn (Z.to_nat %d) %s ++ %s :: skipn (Z.to_nat %d) %s) in %s else None"
                             % (guard, v, k, old, t, k + 1, old, nxt(env2)))
        t, ty = self.expr(value, env, pre)
        env2 = dict(env)
        if (isinstance(target, ast.Attribute) and isinstance(target.value, ast.Name) and target.value.id in env
                and isinstance(env[target.value.id][1], tuple) and env[target.value.id][1][:1] == ("obj",)):
            flds, oty = env[target.value.id]
            if target.attr not in flds:
                raise Unsupported("store to undeclared field %s" % target.attr)
            self.need(ty, "Z", target)
            v = self.fresh(target.value.id + "_" + target.attr)
            flds2 = dict(flds)
            flds2[target.attr] = v
            env2[target.value.id] = (flds2, oty)
            return self.wrap(pre, "let %s := %s in %s" % (v, t, nxt(env2)))
        if isinstance(target, ast.Name):
            if ty == "iinfo":
                env2[target.id] = (t, ty)
                return self.wrap(pre, nxt(env2))
            v = self.fresh(target.id)
            env2[target.id] = (v, ty)
            return self.wrap(pre, "let %s := %s in %s" % (v, t, nxt(env2)))
        if isinstance(target, ast.Tuple) and isinstance(ty, tuple) and len(ty) == len(target.elts):
            names = []
            for el, ety in zip(target.elts, ty):
                if not isinstance(el, ast.Name):
                    raise Unsupported("nested tuple target")
                v = self.fresh(el.id if el.id != "_" else "u")
                env2[el.id] = (v, ety)
                names.append(v)
            pat = "'(" + ", ".join(names) + ")"
            return self.wrap(pre, "let %s := %s in %s" % (pat, t, nxt(env2)))
        raise Unsupported("assignment target")

    def whileloop(self, s, env, nxt):
        """`while cond: body` with loop-carried locals, only when the spec bounds the number of iterations:
        spec["while_fuel"] = a Python expression over the parameters; the loop is a local structural `fix` over
        S (Z.to_nat fuel) and running out of fuel is the error result None (the function becomes partial)."""
        if s.orelse:
            raise Unsupported("while-else")
        if "while_fuel" not in self.spec:
            raise Unsupported("statement While (no while_fuel bound in the spec)")
        for n in ast.walk(s):
            if isinstance(n, (ast.Return, ast.Break, ast.Continue, ast.Assert, ast.Raise, ast.For)) or (n is not s and isinstance(n, ast.While)):
                raise Unsupported("control transfer or nested loop inside while")
        pre = []
        fuel, fty = self.expr(ast.parse(self.spec["while_fuel"], mode="eval").body, env, pre)
        self.need(fty, "Z", s)
        carried = []
        for n in ast.walk(ast.Module(body=s.body, type_ignores=[])):
            tgt = n.targets[0] if isinstance(n, ast.Assign) else n.target if isinstance(n, ast.AugAssign) else None
            if isinstance(tgt, ast.Name) and tgt.id in env and tgt.id not in carried:
                carried.append(tgt.id)
        if not carried:
            raise Unsupported("loop without carried state")
        for c in carried:
            if env[c][1] != "Z":
                raise Unsupported("while: carried variable %s is not an integer" % c)
        env_in = dict(env)
        acc_names = []
        for c in carried:
            v = self.fresh(c)
            env_in[c] = (v, "Z")
            acc_names.append(v)
        tup = lambda names: names[0] if len(names) == 1 else "(" + ", ".join(names) + ")"
        cpre = []
        cnd = self.cond(s.test, env_in, cpre)
        if cpre:
            raise Unsupported("while: partial operation in the loop condition")
        saved_opt = self.opt
        self.opt = False
        pu = self.partial_used
        self.partial_used = False
        body = self.block(list(s.body), env_in, lambda e2: tup([e2[c][0] for c in carried]))
        if self.partial_used:
            raise Unsupported("while: partial operation in the loop body")
        self.partial_used = pu
        self.opt = saved_opt
        accty = "Z" if len(carried) == 1 else "(" + " * ".join("Z" for _ in carried) + ")"
        wl, fv, av = self.fresh("wl"), self.fresh("fuel"), self.fresh("acc")
        bind = "" if len(carried) == 1 else "let '%s := %s in " % (tup(acc_names), av)
        if len(carried) == 1:
            av = acc_names[0]
        loop = ("(fix %s (%s : nat) (%s : %s) {struct %s} : option %s := match %s with O => None | S %s' => %s"
                "if %s then %s %s' (%s) else Some %s end)" % (wl, fv, av, accty, fv, accty, fv, fv, bind, cnd, wl, fv, body, av))
        out_names = []
        env2 = dict(env)
        for c in carried:
            v = self.fresh(c)
            env2[c] = (v, "Z")
            out_names.append(v)
        init = tup([env[c][0] for c in carried])
        self.partial_used = True
        return self.wrap(pre, "match %s (S (Z.to_nat %s)) %s with Some %s => %s | None => None end" % (
            loop, fuel, init, tup(out_names) if len(out_names) == 1 else "(" + ", ".join(out_names) + ")", nxt(env2)))

    def forloop(self, s, env, nxt):
        if s.orelse:
            raise Unsupported("for-else")
        if not (isinstance(s.iter, ast.Call) and isinstance(s.iter.func, ast.Name) and s.iter.func.id == "range"):
            raise Unsupported("for over non-range")
        for n in ast.walk(s):
            if isinstance(n, (ast.Return, ast.Break, ast.Continue, ast.Assert, ast.Raise)):
                raise Unsupported("control transfer inside loop")
        pre = []
        ra = [self.expr(a, env, pre) for a in s.iter.args]
        for a in ra:
            self.need(a[1], "Z", s)
        if len(ra) == 1:
            lo, hi, st = "0", ra[0][0], "1"
        elif len(ra) == 2:
            lo, hi, st = ra[0][0], ra[1][0], "1"
        else:
            lo, hi, st = ra[0][0], ra[1][0], ra[2][0]
        # loop-carried variables: names assigned in body that exist in env
        carried = []
        for n in ast.walk(ast.Module(body=s.body, type_ignores=[])):
            tgt = None
            if isinstance(n, (ast.Assign,)):
                tgt = n.targets[0]
            elif isinstance(n, ast.AugAssign):
                tgt = n.target
            elif isinstance(n, ast.Expr) and isinstance(n.value, ast.Call) and isinstance(n.value.func, ast.Attribute):
                if n.value.func.attr == "append" and isinstance(n.value.func.value, ast.Name):
                    tgt = n.value.func.value
            if isinstance(tgt, ast.Name) and tgt.id in env and tgt.id not in carried:
                carried.append(tgt.id)
        if not carried:
            raise Unsupported("loop without carried state")
        if not isinstance(s.target, ast.Name):
            raise Unsupported("loop target")
        iv = self.fresh("i" if s.target.id == "_" else s.target.id)
        env_in = dict(env)
        acc_names = []
        for c in carried:
            v = self.fresh(c)
            env_in[c] = (v, env[c][1])
            acc_names.append(v)
        env_in[s.target.id] = (iv, "Z")
        tup = lambda names: names[0] if len(names) == 1 else "(" + ", ".join(names) + ")"
        pat = lambda names: names[0] if len(names) == 1 else "'(" + ", ".join(names) + ")"
        saved_opt = self.opt
        self.opt = False
        body = self.block(list(s.body), env_in, lambda e2: tup([e2[c][0] for c in carried]))
        self.opt = saved_opt
        out_names = []
        env2 = dict(env)
        for c in carried:
            v = self.fresh(c)
            env2[c] = (v, env[c][1])
            out_names.append(v)
        init = tup([env[c][0] for c in carried])
        loop = "py_for_range %s %s %s (fun %s %s => %s) %s" % (lo, hi, st, iv, pat(acc_names), body, init)
        return self.wrap(pre, "let %s := %s in %s" % (pat(out_names), loop, nxt(env2)))

    # ---------------------------------------------------------------- whole function
    def coq_type(self, ty):
        if ty == "Z" or ty == "bool":
            return ty
        if ty == "list":
            return "(list Z)"
        if ty == "dyadic":
            return "dyadic"
        if ty == "unit":
            return "unit"
        if isinstance(ty, tuple):
            return "(" + " * ".join(self.coq_type(t) for t in ty) + ")"
        raise Unsupported("type %r" % (ty,))

    def translate(self):
        node = self.node
        a = node.args
        if a.vararg or a.kwarg or a.kwonlyargs:
            raise Unsupported("varargs")
        self.pos_params = [x.arg for x in a.args]
        self.defaults = {}
        for x, d in zip(reversed(a.args), reversed(a.defaults)):
            if isinstance(d, ast.Constant) and isinstance(d.value, int):
                self.defaults[x.arg] = d.value
        self.mutates = bool(self.spec.get("mutates"))
        # first pass in option mode to learn whether the function is partial
        for opt in (False, True):
            self.opt = opt
            self.partial_used = False
            self.returns_none = False
            self.rettype = None
            self.tmp = 0
            self.fields = {}
            env = {}
            for p in self.pos_params:
                ty = self.ptypes.get(p, "Z")
                if ty != "record":
                    env[p] = (mangle(p), ty)
            if self.mutates:
                lst = self.pos_params[0]
                rest = lambda e2: self.ret(e2[lst][0])
                body = self.block(list(node.body), env, rest)
                self.rettype = "list"
            else:
                body = self.block(list(node.body), env, None)
            if not opt and not (self.partial_used or self.returns_none):
                break
        self.partial = self.opt
        gp = []
        for p in self.pos_params:
            ty = self.ptypes.get(p, "Z")
            if ty == "record":
                for f in self.fields.get(p, []):
                    gp.append("(%s_%s : Z)" % (p, f))
            else:
                gp.append("(%s : %s)" % (mangle(p), self.coq_type(ty)))
        rt = self.coq_type(self.rettype)
        if self.partial:
            rt = "option " + rt
        self.text = "Definition %s%s %s : %s :=\n  %s." % (self.tr.prefix, self.name, " ".join(gp), rt, body)
        return self.text


class Translator:
    def __init__(self, prefix=""):
        self.prefix = prefix
        self.fns = {}
        self.module_consts = {}
        self.class_consts = {}
        self.object_classes = {}  # class name -> [(field, default int)] for plain result objects
        self.errors = {}

    def lookup(self, name):
        return self.fns.get(name)

    def load_consts(self, tree):
        for n in tree.body:
            if isinstance(n, ast.ClassDef):
                self.load_object_class(n)
                env = {}
                for s in n.body:
                    if isinstance(s, ast.Assign) and len(s.targets) == 1 and isinstance(s.targets[0], ast.Name):
                        try:
                            v = eval(compile(ast.Expression(s.value), "<c>", "eval"), {"__builtins__": {}}, dict(env))
                        except Exception:
                            continue
                        if isinstance(v, int) and not isinstance(v, bool):
                            env[s.targets[0].id] = v
                            self.class_consts["%s.%s" % (n.name, s.targets[0].id)] = v

    def load_object_class(self, n):
        """class whose whole body is `def __init__(self): self.f = <int> ...` -> plain result object"""
        if len(n.body) != 1 or not isinstance(n.body[0], ast.FunctionDef) or n.body[0].name != "__init__":
            return
        init = n.body[0]
        if [a.arg for a in init.args.args] != ["self"] or init.args.vararg or init.args.kwarg or init.args.kwonlyargs:
            return
        flds = []
        for s in init.body:
            if not (isinstance(s, ast.Assign) and len(s.targets) == 1 and isinstance(s.targets[0], ast.Attribute)
                    and isinstance(s.targets[0].value, ast.Name) and s.targets[0].value.id == "self"
                    and isinstance(s.value, ast.Constant) and isinstance(s.value.value, int)
                    and not isinstance(s.value.value, bool)):
                return
            flds.append((s.targets[0].attr, s.value.value))
        if flds and len(set(f for f, _ in flds)) == len(flds):
            self.object_classes[n.name] = flds

    def translate_file(self, path, wanted):
        """wanted: list of (function name, spec). Returns list of (name, text or None, error)"""
        src = open(path).read()
        tree = ast.parse(src)
        self.load_consts(tree)
        defs = {n.name: n for n in tree.body if isinstance(n, ast.FunctionDef)}
        out = []
        for name, spec in wanted:
            if name not in defs:
                self.errors[name] = "function not found in %s" % path
                out.append((name, None, self.errors[name]))
                continue
            fn = Fn(self, defs[name], spec)
            try:
                text = fn.translate()
                self.fns[name] = fn
                out.append((name, text, None))
            except Unsupported as ex:
                self.errors[name] = str(ex)
                out.append((name, None, str(ex)))
        return out


if __name__ == "__main__":
    tr = Translator()
    for name, text, err in tr.translate_file(sys.argv[1], [(n, None) for n in sys.argv[2:]]):
        print(text if text else "(* %s: UNSUPPORTED %s *)" % (name, err))
