#!/venv/bin/python
"""C16 device T: ethosu/vela/tflite_supported_operators.py -> coq/gen/GenConstraints.v (regenerated on every run).

Three things are written, all obtained from the working tree named by VERIF_REPO:

1. TRANSLATED PREDICATES.  A dedicated, fail-closed Python-ast -> Gallina translator for the numeric `constraint_*`
   methods of class TFLiteSupportedOperators (plus `Kernel.area_width/area_height/elements_wh` of operation.py,
   `numeric_util.full_shape` and `utils.calc_resize_factor`, which they call).  A constraint method reads its operator
   through accessor expressions; the ACCESSOR TABLE below maps each accepted accessor expression (compared as
   normalised source text after inlining local aliases such as `bias = op.bias`) to a named Gallina parameter.  Only the
   validity (first component of the returned pair) is translated; the message strings are ignored.
   Accepted subset (anything else raises Unsupported; the function is then absent and every lemma about it fails):
     * literals (int, bool, None as the padding code -1), names of locals, `cls.<CONST>` (emitted as K_<CONST>, value
       read by introspection of the imported class), `Padding.<X>` (K_Padding_<X>, introspected)
     * + - * // %, `<<` / `>>` by a non-negative literal, unary -, comparisons (chained), and/or/not, conditional
       expressions, min/max/len/int/abs,
       `x in (a, b, ..)`, `x in <list>`, tuple assignment, list subscript `l[i]` (negative i from the end; out of range
       is IndexError in Python and 0 here), `a, b = l[i : i + 2]`, `l[-n:]` (py_last), `[e] * n`, list `+`,
       `[l[k] for k in ks]`, `np.prod(l)`, `all(e for v in l)`, `len(bin(v)[2:])`, list equality,
       chained assignment of a pure value `a = b = e`
     * `/` (true division of NumPy int32 shape elements as the reader produces them: IEEE, x/0 is inf or nan and raises
       nothing) kept as an exact fraction (num, den); `==` between fractions / with an integer, `in (2.0, 4.0, 8.0)`,
       `int(fraction)` (raises for inf/nan: the function becomes partial, result `option bool`, None = exception).
       Exactness of the fraction reading needs |operands| < 2^26 (distinct fractions with denominators below 2^26 have
       distinct float64 quotients); tensor dimensions are at most 65535 when these constraints are evaluated.
     * statements: assignment, `if/elif/else` (with or without return), `return valid, msg`, `return <other translated
       constraint>(op)`, `valid, message = <other translated constraint>(op)`, side-effect stores `op.attrs[..] = e`
       (e is evaluated for its exceptions only), the loops
           for t in (acc1, acc2): <body>                                  (unrolled)
           for t in <list param>: if c: valid = False [; extra.append(..)]       (forallb)
           for a, b, c in zip(l1, l2, l3): <assigns>; if c: valid = False; break  (forallb over the zip)
       and a few whole statements recognised by exact text (STATEMENT TABLE: the `tensors = [...]` prelude of the
       generic constraints, the `axis = ...` prelude of the MEAN constraints).
     * generator filters over a literal tuple `(x for x in <tuple|gen> if c)` and `next(gen, d)` (filter / hd).
   Semantics: Python/NumPy integers are Z (no overflow is possible below 2^31 * small factors; np.prod of at most four
   dimensions <= 65535 with batch 1 stays below 2^63); // and % are Z.div / Z.modulo and are only claimed for non-zero
   divisors (every divisor here is a literal, a stride guarded by `> 1`, or a quotient of it by one of its divisors).

2. DOCUMENTED BOUNDS.  For every translated constraint the integer literals of its *formatted* docstring (the text the
   report prints) are emitted as `doc_nums_<name>`, the text itself as `doc_text_<name>` (character codes): the proofs
   relate the predicate to these, so a `<`/`<=` slip or a drift between a class constant and the docstring breaks them.

3. TABLES (introspection of the live classes, nothing copied by hand): every constraint function of TFLiteSemantic and
   TFLiteSupportedOperators (id, qualified name, formatted docstring); for every member of `Op`: whether it is in
   `supported_operators`, the ordered list of constraint functions the REAL `is_operator_supported` and
   `is_operator_semantic_valid` evaluate for it (recorded by running them on a stub operator with every constraint
   replaced by a recording wrapper that answers True) and their result; the raw generic / exception / specific lists; and
   the report: `generate_supported_ops()` is run in a scratch directory and SUPPORTED_OPS.md is parsed into, per listed
   operator, the ordered list of constraint lines that apply to it (generic lines that do not name it in brackets, then
   its specific section).  For the constraints whose sentence ends in a formatted value list (data types, operator types):
   the printed values and, rendered independently, the set-valued class constant the predicate body reads (`value_lists`).
"""
import ast
import collections
import contextlib
import io
import json
import os
import re
import sys
import tempfile
import types

REPO = os.environ.get("VERIF_REPO", "/repo")


class Unsupported(Exception):
    pass


# ------------------------------------------------------------------------------------------------------------------
# ACCESSOR TABLE: normalised source text -> Gallina parameter(s).  ("tuple", [(name, type), ..]) for tuple-valued ones.
PARAM_ORDER = ["stride_w", "stride_h", "kernel_w", "kernel_h", "dilation_w", "dilation_h", "padding", "depth_multiplier",
               "ifm_shape", "ifm2_shape", "ofm_shape", "in0_shape", "axis", "has_ifm", "has_ifm2", "has_bias",
               "bias_is_int64", "bias_has_values", "bias_values", "weights_sum_max", "ifm_is_int16", "ifm_is_uint8",
               "align_corners", "half_pixel_centers", "tensor_shapes",
               # Kernel / helper function parameters
               "width", "height", "dilation_x", "dilation_y", "dim", "shape", "fill", "ifm_width", "stride_x"]
GTYPE = {"Z": "Z", "bool": "bool", "listZ": "list Z", "listlistZ": "list (list Z)"}

ACCESSORS = {
    "op.get_kernel_stride()": ("tuple", [("stride_w", "Z"), ("stride_h", "Z")]),
    "op.kernel.stride.x": ("stride_w", "Z"),
    "op.kernel.stride.y": ("stride_h", "Z"),
    "op.kernel.width": ("kernel_w", "Z"),
    "op.kernel.height": ("kernel_h", "Z"),
    "op.kernel.area_width()": ("call", "Kernel_area_width", [("kernel_w", "Z"), ("dilation_w", "Z")]),
    "op.kernel.area_height()": ("call", "Kernel_area_height", [("kernel_h", "Z"), ("dilation_h", "Z")]),
    "op.kernel.elements_wh()": ("call", "Kernel_elements_wh", [("kernel_w", "Z"), ("kernel_h", "Z")]),
    "op.ifm.shape": ("ifm_shape", "listZ"),
    "op.ifm2.shape": ("ifm2_shape", "listZ"),
    "op.ofm.shape": ("ofm_shape", "listZ"),
    "op.inputs[0].shape": ("in0_shape", "listZ"),
    "op.attrs['padding']": ("padding", "Z"),
    "op.attrs.get('padding', None)": ("padding", "Z"),
    "op.attrs.get('depth_multiplier', 1)": ("depth_multiplier", "Z"),
    "op.attrs.get('align_corners', False)": ("align_corners", "bool"),
    "op.attrs.get('half_pixel_centers', False)": ("half_pixel_centers", "bool"),
    "op.ifm is not None": ("has_ifm", "bool"),
    "op.ifm2 is not None": ("has_ifm2", "bool"),
    "op.bias": ("has_bias", "bool"),                       # only used for its truth value
    "op.bias.dtype == DataType.int64": ("bias_is_int64", "bool"),
    "op.bias.values is not None": ("bias_has_values", "bool"),
    "op.bias.values": ("bias_values", "listZ"),
    "np.amax(np.sum(np.absolute(op.weights.values.astype(np.int64) - op.weights.quantization.zero_point), "
    "axis=(0, 1, 2)))": ("weights_sum_max", "Z"),
    "op.ifm.dtype == DataType.int16": ("ifm_is_int16", "bool"),
    "op.ifm.dtype == DataType.uint8": ("ifm_is_uint8", "bool"),
}
# alias-only accessors: a local bound to one of these is inlined textually into later expressions
ALIASABLE = {"op.weights", "op.bias", "op.ifm", "op.ifm2", "op.ofm", "op.inputs[0]", "op.inputs[1]",
             "op.weights.values.astype(np.int64) - op.weights.quantization.zero_point"}
# STATEMENT TABLE: whole statements recognised by exact normalised text: text -> (bound python name, param, type)
STATEMENTS = {
    "tensors = [tens for tens in op.get_ifm_ifm2_weights_ofm() if tens]": ("tensors", "tensor_shapes", "listlistZ", "first"),
    "if not tensors:\n    tensors = [tens for tens in op.inputs if tens]": ("tensors", "tensor_shapes", "listlistZ", "second"),
    "if op.inputs[1].shape == []:\n    axis = [int(op.inputs[1].values)]\nelse:\n    axis = list(op.inputs[1].values)":
        ("axis", "axis", "listZ", "whole"),
    "if op.inputs[1].shape == []:\n    axis = [int(op.inputs[1].values)]\nelse:\n    axis = [int(ax) for ax in op.inputs[1].values]":
        ("axis", "axis", "listZ", "whole"),
}
IGNORED_NAMES = {"extra", "datatype", "message"}

PRELUDE = r"""
(* ---- intrinsics of the accepted subset (fixed text; their agreement with Python is part of the correspondence run) *)
Definition py_len (l : list Z) : Z := Z.of_nat (List.length l).
(* l[i]: negative i counts from the end; out of range (IndexError in Python) gives 0 *)
Definition py_nth (l : list Z) (i : Z) : Z :=
  let j := if i <? 0 then py_len l + i else i in
  if j <? 0 then 0 else nth (Z.to_nat j) l 0.
(* l[-n:] for n >= 0 (n = 0 is the whole list) *)
Definition py_last (l : list Z) (n : Z) : list Z :=
  if n <=? 0 then l else skipn (List.length l - Z.to_nat n) l.
Definition py_repeat (x n : Z) : list Z := repeat x (Z.to_nat n).
Definition py_prod (l : list Z) : Z := fold_left Z.mul l 1.
Definition py_in (x : Z) (l : list Z) : bool := existsb (Z.eqb x) l.
Fixpoint list_eqb (a b : list Z) : bool :=
  match a, b with
  | [], [] => true
  | x :: a', y :: b' => (x =? y) && list_eqb a' b'
  | _, _ => false
  end.
(* len(bin(v)[2:]) : "0b101" -> 3, "-0b101" -> "b101" -> 4, "0b0" -> 1 *)
Definition py_bin_len2 (v : Z) : Z :=
  if v =? 0 then 1 else if 0 <? v then Z.log2 v + 1 else Z.log2 (- v) + 2.
Fixpoint zip3 (a b c : list Z) : list (Z * Z * Z) :=
  match a, b, c with
  | x :: a', y :: b', z :: c' => (x, y, z) :: zip3 a' b' c'
  | _, _, _ => []
  end.
(* exact fractions standing for the float64 quotient of two NumPy int32 scalars (den = 0: inf or nan) *)
Definition fr_eq (a b : Z * Z) : bool :=
  let '(n1, d1) := a in let '(n2, d2) := b in
  if (d1 =? 0) || (d2 =? 0)
  then (d1 =? 0) && (d2 =? 0) && negb (n1 =? 0) && negb (n2 =? 0) && Bool.eqb (0 <? n1) (0 <? n2)  (* inf == inf *)
  else n1 * d2 =? n2 * d1.
Definition fr_is (a : Z * Z) (k : Z) : bool := let '(n, d) := a in negb (d =? 0) && (n =? k * d).
Definition fr_finite (a : Z * Z) : bool := negb (snd a =? 0).   (* int(a) does not raise *)
"""


def norm(node):
    return ast.unparse(node)


class Subst(ast.NodeTransformer):
    def __init__(self, aliases):
        self.aliases = aliases

    def visit_Name(self, n):
        if n.id in self.aliases:
            return ast.parse(self.aliases[n.id], mode="eval").body
        return n


def zlit(n):
    return "(%d)" % n if n < 0 else "%d" % n


class Fn:
    def __init__(self, tr, node, kind):
        self.tr, self.node, self.kind = tr, node, kind   # kind: "constraint" | "kernel" | "plain"
        self.name = node.name
        self.params = {}      # gallina param -> type
        self.partial = any(isinstance(n, ast.Div) for n in ast.walk(node))
        self.n = 0

    def fresh(self, base):
        self.n += 1
        return "%s_%d" % (base, self.n)

    def use(self, name, ty):
        if name in self.params and self.params[name] != ty:
            raise Unsupported("parameter %s used at two types" % name)
        self.params[name] = ty

    # ------------------------------------------------------------------------------------------- accessors
    def text_of(self, e, env):
        import copy
        aliases = {k: v[1] for k, v in env.items() if v[0] == "alias"}
        return norm(Subst(aliases).visit(copy.deepcopy(e)))

    def accessor(self, e, env):
        """(text, type) if e (after alias inlining) is a table accessor, else None"""
        if self.kind == "kernel":
            t = norm(e)
            m = {"self.width": "width", "self.height": "height", "self.dilation.x": "dilation_x", "self.dilation.y": "dilation_y"}
            if t in m:
                self.use(m[t], "Z")
                return m[t], "Z"
            return None
        if self.kind != "constraint":
            return None
        t = self.text_of(e, env)
        a = ACCESSORS.get(t)
        if a is None:
            return None
        if a[0] == "tuple":
            for n, ty in a[1]:
                self.use(n, ty)
            return [(n, ty) for n, ty in a[1]], "tuple"
        if a[0] == "call":
            if a[1] not in self.tr.done:
                raise Unsupported("helper %s was not translated" % a[1])
            for n, ty in a[2]:
                self.use(n, ty)
            return "(%s %s)" % (a[1], " ".join(n for n, _ in a[2])), "Z"
        self.use(a[0], a[1])
        return a[0], a[1]

    # ------------------------------------------------------------------------------------------- expressions
    def expr(self, e, env):
        acc = self.accessor(e, env) if not isinstance(e, (ast.Constant, ast.Name)) else None
        if acc is not None:
            return acc
        if isinstance(e, ast.Constant):
            if isinstance(e.value, bool):
                return ("true" if e.value else "false"), "bool"
            if isinstance(e.value, int):
                return zlit(e.value), "Z"
            if e.value is None:
                return "(-1)", "none"
            if isinstance(e.value, float) and e.value == int(e.value):
                return zlit(int(e.value)), "floatlit"
            raise Unsupported("constant %r" % (e.value,))
        if isinstance(e, ast.Name):
            if e.id in env:
                v = env[e.id]
                if v[0] == "val":
                    return v[1], v[2]
                if v[0] == "alias":
                    acc = self.accessor(e, env)
                    if acc is not None:
                        return acc
                raise Unsupported("name %s is not a value here" % e.id)
            raise Unsupported("free name %s" % e.id)
        if isinstance(e, ast.Attribute):
            t = norm(e)
            if isinstance(e.value, ast.Name) and e.value.id == "cls" and self.kind == "constraint":
                return self.tr.class_const(e.attr)
            if isinstance(e.value, ast.Name) and e.value.id == "Padding":
                return self.tr.padding_const(e.attr), "Z"
            raise Unsupported("attribute %s" % t)
        if isinstance(e, ast.Tuple):
            parts = [self.expr(x, env) for x in e.elts]
            return parts, "tuple"
        if isinstance(e, ast.UnaryOp):
            if isinstance(e.op, ast.USub):
                t, ty = self.expr(e.operand, env)
                self.need(ty, "Z")
                return "(- %s)" % t, "Z"
            if isinstance(e.op, ast.Not):
                return "(negb %s)" % self.cond(e.operand, env), "bool"
            raise Unsupported("unary operator")
        if isinstance(e, ast.BinOp):
            return self.binop(e, env)
        if isinstance(e, ast.BoolOp):
            parts = [self.cond(x, env) for x in e.values]
            op = " && " if isinstance(e.op, ast.And) else " || "
            return "(" + op.join(parts) + ")", "bool"
        if isinstance(e, ast.Compare):
            return self.compare(e, env), "bool"
        if isinstance(e, ast.IfExp):
            c = self.cond(e.test, env)
            a, ta = self.expr(e.body, env)
            b, tb = self.expr(e.orelse, env)
            if ta == "tuple" and tb == "tuple" and len(a) == len(b):
                return [("(if %s then %s else %s)" % (c, x[0], y[0]), self.same(x[1], y[1])) for x, y in zip(a, b)], "tuple"
            if ta == "tuple" or tb == "tuple":
                raise Unsupported("conditional expression mixing tuples")
            return "(if %s then %s else %s)" % (c, a, b), self.same(ta, tb)
        if isinstance(e, ast.Subscript):
            return self.subscript(e, env)
        if isinstance(e, ast.Call):
            return self.call(e, env)
        if isinstance(e, ast.List):
            parts = [self.expr(x, env) for x in e.elts]
            for _, ty in parts:
                self.need(ty, "Z")
            return "[%s]" % "; ".join(p for p, _ in parts), "listZ"
        if isinstance(e, ast.ListComp):
            return self.listcomp(e, env)
        if isinstance(e, ast.GeneratorExp):
            return self.genfilter(e, env)
        raise Unsupported("expression %s" % type(e).__name__)

    def need(self, ty, want):
        if ty != want:
            raise Unsupported("type %s where %s is needed" % (ty, want))

    def same(self, a, b):
        if a == "none":
            a = b
        if b == "none":
            b = a
        if a != b:
            raise Unsupported("branches of different types %s / %s" % (a, b))
        return a

    def cond(self, e, env):
        t, ty = self.expr(e, env)
        if ty == "bool":
            return t
        if ty == "listZ":   # truth value of a list
            return "(negb (py_len %s =? 0))" % t
        raise Unsupported("truth value of a %s" % ty)

    def binop(self, e, env):
        a, ta = self.expr(e.left, env)
        b, tb = self.expr(e.right, env)
        if isinstance(e.op, ast.Div):
            self.need(ta, "Z")
            self.need(tb, "Z")
            return "(%s, %s)" % (a, b), "frac"
        if isinstance(e.op, ast.Mult) and ta == "listZ" and tb == "Z":
            m = re.fullmatch(r"\[([^;\]]+)\]", a)
            if not m:
                raise Unsupported("list repetition of a non-singleton")
            return "(py_repeat %s %s)" % (m.group(1), b), "listZ"
        if isinstance(e.op, ast.Add) and ta == "listZ" and tb == "listZ":
            return "(%s ++ %s)" % (a, b), "listZ"
        if isinstance(e.op, (ast.LShift, ast.RShift)):
            # shifts by a non-negative literal only (a negative count raises ValueError in Python)
            if not (isinstance(e.right, ast.Constant) and isinstance(e.right.value, int) and not isinstance(e.right.value, bool)
                    and e.right.value >= 0):
                raise Unsupported("shift by a non-literal or negative count")
            self.need(ta, "Z")
            return "(Z.%s %s %s)" % ("shiftl" if isinstance(e.op, ast.LShift) else "shiftr", a, b), "Z"
        ops = {ast.Add: "+", ast.Sub: "-", ast.Mult: "*", ast.FloorDiv: "/", ast.Mod: "mod"}
        if type(e.op) not in ops:
            raise Unsupported("binary operator %s" % type(e.op).__name__)
        self.need(ta, "Z")
        self.need(tb, "Z")
        return "(%s %s %s)" % (a, ops[type(e.op)], b), "Z"

    def compare(self, e, env):
        parts = []
        left = e.left
        for op, right in zip(e.ops, e.comparators):
            parts.append(self.cmp1(left, op, right, env))
            left = right
        return parts[0] if len(parts) == 1 else "(" + " && ".join(parts) + ")"

    def cmp1(self, l, op, r, env):
        whole = ast.Compare(left=l, ops=[op], comparators=[r])
        acc = self.accessor(whole, env)
        if acc is not None:
            self.need(acc[1], "bool")
            return acc[0]
        if isinstance(op, (ast.In, ast.NotIn)):
            a, ta = self.expr(l, env)
            if isinstance(r, ast.Tuple):
                alts = []
                for x in r.elts:
                    b, tb = self.expr(x, env)
                    alts.append(self.eq(a, ta, b, tb))
                res = "(" + " || ".join(alts) + ")"
            else:
                b, tb = self.expr(r, env)
                self.need(ta, "Z")
                self.need(tb, "listZ")
                res = "(py_in %s %s)" % (a, b)
            return res if isinstance(op, ast.In) else "(negb %s)" % res
        a, ta = self.expr(l, env)
        b, tb = self.expr(r, env)
        if isinstance(op, ast.Eq):
            return self.eq(a, ta, b, tb)
        if isinstance(op, ast.NotEq):
            return "(negb %s)" % self.eq(a, ta, b, tb)
        if isinstance(op, (ast.Is, ast.IsNot)):
            raise Unsupported("identity test outside the accessor table: %s" % norm(whole))
        sym = {ast.Lt: "<?", ast.LtE: "<=?", ast.Gt: ">?", ast.GtE: ">=?"}
        if type(op) not in sym:
            raise Unsupported("comparison")
        self.need(ta, "Z")
        self.need(tb, "Z")
        return "(%s %s %s)" % (a, sym[type(op)], b)

    def eq(self, a, ta, b, tb):
        if ta == "frac" and tb == "frac":
            return "(fr_eq %s %s)" % (a, b)
        if ta == "frac" and tb in ("Z", "floatlit"):
            return "(fr_is %s %s)" % (a, b)
        if tb == "frac" and ta in ("Z", "floatlit"):
            return "(fr_is %s %s)" % (b, a)
        if ta == "listZ" and tb == "listZ":
            return "(list_eqb %s %s)" % (a, b)
        if {ta, tb} <= {"Z", "none"}:
            return "(%s =? %s)" % (a, b)
        if ta == "bool" and tb == "bool":
            return "(Bool.eqb %s %s)" % (a, b)
        raise Unsupported("equality between %s and %s" % (ta, tb))

    def subscript(self, e, env):
        v, tv = self.expr(e.value, env)
        self.need(tv, "listZ")
        s = e.slice
        if isinstance(s, ast.Slice):
            if s.step is None and s.upper is None and isinstance(s.lower, ast.UnaryOp) and isinstance(s.lower.op, ast.USub):
                n, tn = self.expr(s.lower.operand, env)
                self.need(tn, "Z")
                return "(py_last %s %s)" % (v, n), "listZ"
            raise Unsupported("slice %s" % norm(e))
        i, ti = self.expr(s, env)
        self.need(ti, "Z")
        return "(py_nth %s %s)" % (v, i), "Z"

    def call(self, e, env):
        f = norm(e.func)
        if e.keywords:
            raise Unsupported("keyword arguments in %s" % norm(e))
        if f in ("max", "min") and len(e.args) == 2:
            a, ta = self.expr(e.args[0], env)
            b, tb = self.expr(e.args[1], env)
            self.need(ta, "Z")
            self.need(tb, "Z")
            return "(Z.%s %s %s)" % (f, a, b), "Z"
        if f == "len" and len(e.args) == 1:
            if norm(e.args[0]).startswith("bin(") and norm(e.args[0]).endswith(")[2:]"):
                inner = e.args[0].value.args[0]
                a, ta = self.expr(inner, env)
                self.need(ta, "Z")
                return "(py_bin_len2 %s)" % a, "Z"
            a, ta = self.expr(e.args[0], env)
            self.need(ta, "listZ")
            return "(py_len %s)" % a, "Z"
        if f == "int" and len(e.args) == 1:
            a, ta = self.expr(e.args[0], env)
            if ta == "frac":
                return a, "intfrac"     # only usable as a side-effect store (raises for inf/nan)
            self.need(ta, "Z")
            return a, "Z"
        if f == "abs" and len(e.args) == 1:
            a, ta = self.expr(e.args[0], env)
            self.need(ta, "Z")
            return "(Z.abs %s)" % a, "Z"
        if f == "np.prod" and len(e.args) == 1:
            a, ta = self.expr(e.args[0], env)
            self.need(ta, "listZ")
            return "(py_prod %s)" % a, "Z"
        if f == "all" and len(e.args) == 1 and isinstance(e.args[0], ast.GeneratorExp):
            g = e.args[0]
            if len(g.generators) != 1 or g.generators[0].ifs or not isinstance(g.generators[0].target, ast.Name):
                raise Unsupported("all() over a complex generator")
            it, tit = self.expr(g.generators[0].iter, env)
            self.need(tit, "listZ")
            var = g.generators[0].target.id
            gv = self.fresh(var)
            env2 = dict(env)
            env2[var] = ("val", gv, "Z")
            body = self.cond(g.elt, env2)
            return "(forallb (fun %s => %s) %s)" % (gv, body, it), "bool"
        if f == "next" and len(e.args) == 2:
            g, tg = self.expr(e.args[0], env)
            self.need(tg, "listZ")
            d, td = self.expr(e.args[1], env)
            self.need(td, "Z")
            return "(hd %s %s)" % (d, g), "Z"
        if f in self.tr.done and self.tr.done[f]["kind"] == "plain":
            callee = self.tr.done[f]
            if len(e.args) != len(callee["params"]):
                raise Unsupported("arity of %s" % f)
            args = []
            for x, (pn, pty) in zip(e.args, callee["params"]):
                a, ta = self.expr(x, env)
                self.need(ta, pty)
                args.append(a)
            txt = "(%s %s)" % (f, " ".join(args))
            if callee["ret"] == "tuple":
                return [("(%s %s)" % (["fst", "snd"][k], txt), "Z") for k in range(2)], "tuple"
            return txt, callee["ret"]
        m = re.fullmatch(r"TFLiteSupportedOperators\.(constraint_\w+)", f)
        if m and len(e.args) == 1 and norm(e.args[0]) == "op" and self.kind == "constraint":
            return self.constraint_call(m.group(1)), "cresult"
        raise Unsupported("call %s" % norm(e))

    def constraint_call(self, name):
        callee = self.tr.done.get(name)
        if callee is None:
            raise Unsupported("callee %s was not translated (order or failure)" % name)
        if callee["partial"]:
            raise Unsupported("call of a partial constraint")
        for pn, pty in callee["params"]:
            self.use(pn, pty)
        return "(%s %s)" % (name, " ".join(pn for pn, _ in callee["params"]))

    def listcomp(self, e, env):
        if len(e.generators) != 1 or e.generators[0].ifs or not isinstance(e.generators[0].target, ast.Name):
            raise Unsupported("list comprehension %s" % norm(e))
        it, tit = self.expr(e.generators[0].iter, env)
        self.need(tit, "listZ")
        var = e.generators[0].target.id
        gv = self.fresh(var)
        env2 = dict(env)
        env2[var] = ("val", gv, "Z")
        body, tb = self.expr(e.elt, env2)
        self.need(tb, "Z")
        return "(map (fun %s => %s) %s)" % (gv, body, it), "listZ"

    def genfilter(self, e, env):
        if len(e.generators) != 1 or len(e.generators[0].ifs) != 1 or not isinstance(e.generators[0].target, ast.Name):
            raise Unsupported("generator %s" % norm(e))
        g = e.generators[0]
        if not (isinstance(e.elt, ast.Name) and e.elt.id == g.target.id):
            raise Unsupported("generator that is not a filter")
        it, tit = self.expr(g.iter, env)
        if tit == "tuple":
            for _, ty in it:
                self.need(ty, "Z")
            it, tit = "[%s]" % "; ".join(p for p, _ in it), "listZ"
        self.need(tit, "listZ")
        gv = self.fresh(g.target.id)
        env2 = dict(env)
        env2[g.target.id] = ("val", gv, "Z")
        c = self.cond(g.ifs[0], env2)
        return "(filter (fun %s => %s) %s)" % (gv, c, it), "listZ"

    # ------------------------------------------------------------------------------------------- statements
    # Every statement is compiled to a text with one hole `%s` for its continuation (`bind`), so that the same code
    # serves the main block (continuation = rest of the function, ends by returning) and the branches of a conditional
    # without return (continuation = the tuple of the variables the conditional defines).
    def ret(self, text):
        return "Some %s" % text if self.partial else text

    def is_skip(self, s):
        if isinstance(s, ast.Expr) and isinstance(s.value, ast.Constant) and isinstance(s.value.value, str):
            return True
        if isinstance(s, ast.Expr) and norm(s).startswith("extra.append("):
            return True
        if isinstance(s, ast.Assign) and len(s.targets) == 1 and isinstance(s.targets[0], ast.Name) and s.targets[0].id in IGNORED_NAMES:
            return True
        return False

    def block(self, stmts, env):
        """Gallina term of the function result for the statement list (which must end by returning on every path)."""
        if not stmts:
            raise Unsupported("a path falls off the end of the function")
        s, rest = stmts[0], stmts[1:]
        if self.is_skip(s):
            return self.block(rest, env)
        if isinstance(s, ast.Return):
            return self.ret(self.retval(s.value, env))
        if isinstance(s, ast.If) and self.contains_return([s]) and norm(s) not in STATEMENTS:
            c = self.cond(s.test, env)
            if self.always_returns(s.body):
                a = self.block(list(s.body), env)
                b = self.block(list(s.orelse) + rest, env)
                return "if %s then\n  %s\n  else\n  %s" % (c, a, b)
            if self.always_returns(s.orelse) and not self.contains_return(s.body):
                a = self.block(list(s.body) + rest, env)
                b = self.block(list(s.orelse), env)
                return "if %s then\n  %s\n  else\n  %s" % (c, a, b)
            raise Unsupported("conditional that returns on some paths only")
        if isinstance(s, ast.For) and isinstance(s.iter, ast.Tuple) and isinstance(s.target, ast.Name) and self.kind == "constraint":
            # for t in (acc1, acc2): body   -> unrolled with t as an alias of each accessor in turn
            items = [self.text_of(x, env) for x in s.iter.elts]
            if all(i in ALIASABLE for i in items) and not s.orelse:
                flat = []
                for i in items:
                    flat.append(ast.parse("%s = %s" % (s.target.id, i)).body[0])
                    flat += [_copy(x) for x in s.body]
                return self.block(flat + rest, env)
        pre, env = self.bind(s, env)
        return pre % self.block(rest, env)

    def tuple_of(self, names, env):
        vals, tys = [], []
        for nme in names:
            v = env.get(nme)
            if v is None or v[0] != "val":
                raise Unsupported("variable %s has no value at the end of a branch" % nme)
            vals.append(v[1])
            tys.append(v[2])
        t = vals[0] if len(vals) == 1 else "(" + ", ".join(vals) + ")"
        return (("Some %s" % t) if self.partial else t), tys

    def block_k(self, stmts, env, names):
        """statements without return: (term producing the tuple of `names` (an option when partial), their types)"""
        if not stmts:
            return self.tuple_of(names, env)
        s, rest = stmts[0], stmts[1:]
        if self.is_skip(s):
            return self.block_k(rest, env, names)
        if isinstance(s, ast.Return) or (isinstance(s, ast.If) and self.contains_return([s])):
            raise Unsupported("return inside a merged conditional")
        pre, env = self.bind(s, env)
        t, tys = self.block_k(rest, env, names)
        return pre % t, tys

    def retval(self, v, env):
        if isinstance(v, ast.Tuple) and len(v.elts) == 2:
            return self.cond(v.elts[0], env)
        t, ty = self.expr(v, env)
        if ty == "cresult":
            return t
        raise Unsupported("return value %s" % norm(v))

    def newvar(self, env, name, ty):
        gv = self.fresh(name)
        env[name] = ("val", gv, ty)
        return gv

    def bind(self, s, env):
        """(text with a %s hole, new environment) for a statement that does not return"""
        env = dict(env)
        key = norm(s)
        st = STATEMENTS.get(key) if self.kind == "constraint" else None
        if st is not None:
            pyname, param, ty, which = st
            if which == "second" and env.get(pyname, (None, None))[1] != param:
                raise Unsupported("`if not tensors` without the tensors prelude")
            self.use(param, ty)
            env[pyname] = ("val", param, ty)
            return "%s", env
        if isinstance(s, ast.Assign):
            if len(s.targets) != 1:
                # a = b = e : e is pure, so this is a = e; b = e
                if not all(isinstance(t, ast.Name) for t in s.targets):
                    raise Unsupported("chained assignment to non-names")
                pre = "%s"
                for t in s.targets:
                    p1, env = self.bind_assign(t, s.value, env)
                    pre = pre % p1 if pre != "%s" else p1
                return pre, env
            return self.bind_assign(s.targets[0], s.value, env)
        if isinstance(s, ast.If):
            return self.bind_if(s, env)
        if isinstance(s, ast.For):
            return self.bind_for(s, env)
        raise Unsupported("statement %s" % type(s).__name__)

    def bind_assign(self, target, value, env):
        if isinstance(target, ast.Subscript) and norm(target.value) == "op.attrs" and self.kind == "constraint":
            # side-effect store: only the exceptions of evaluating the value matter
            t, ty = self.expr(value, env)
            if ty == "intfrac":
                return "if fr_finite %s then\n  %%s\n  else None" % t, env
            if ty in ("Z", "bool"):
                return "%s", env
            raise Unsupported("store of a %s" % ty)
        if isinstance(target, ast.Name):
            if self.kind == "constraint":
                txt = self.text_of(value, env)
                if txt in ALIASABLE:
                    env[target.id] = ("alias", txt)
                    return "%s", env
            t, ty = self.expr(value, env)
            if ty == "floatlit":     # an integer-valued float literal bound to a name: the fraction n/1
                t, ty = "(%s, 1)" % t, "frac"
            if ty not in ("Z", "bool", "listZ", "frac"):
                raise Unsupported("binding of a %s to %s" % (ty, target.id))
            gv = self.newvar(env, target.id, ty)
            return "let %s := %s in\n  %%s" % (gv, t.replace("%", "%%")), env
        if isinstance(target, ast.Tuple) and all(isinstance(x, ast.Name) for x in target.elts):
            names = [x.id for x in target.elts]
            if isinstance(value, ast.Subscript) and isinstance(value.slice, ast.Slice) and len(names) == 2:
                # a, b = l[i : i + 2]
                sl = value.slice
                if sl.step is not None or sl.lower is None or sl.upper is None:
                    raise Unsupported("slice %s" % norm(value))
                ok = norm(sl.upper) == "%s + 2" % norm(sl.lower)
                try:
                    lo, hi = ast.literal_eval(sl.lower), ast.literal_eval(sl.upper)
                    ok = ok or (hi - lo == 2 and (lo < 0) == (hi < 0))
                except Exception:
                    pass
                if not ok:
                    raise Unsupported("slice %s is not visibly of length 2" % norm(value))
                l, tl = self.expr(value.value, env)
                self.need(tl, "listZ")
                i, ti = self.expr(sl.lower, env)
                self.need(ti, "Z")
                g0 = self.newvar(env, names[0], "Z")
                g1 = self.newvar(env, names[1], "Z")
                return "let %s := py_nth %s %s in\n  let %s := py_nth %s (%s + 1) in\n  %%s" % (g0, l, i, g1, l, i), env
            t, ty = self.expr(value, env)
            if ty == "cresult" and len(names) == 2:
                if names[1] not in IGNORED_NAMES:
                    raise Unsupported("message of a constraint call is used")
                gv = self.newvar(env, names[0], "bool")
                return "let %s := %s in\n  %%s" % (gv, t), env
            if ty != "tuple" or len(t) != len(names):
                raise Unsupported("tuple assignment from %s" % norm(value))
            pre = ""
            for nme, (txt, tty) in zip(names, t):
                if nme == "_" or nme in IGNORED_NAMES:
                    continue
                if tty not in ("Z", "bool"):
                    raise Unsupported("tuple component of type %s" % tty)
                gv = self.newvar(env, nme, tty)
                pre += "let %s := %s in\n  " % (gv, txt)
            return pre.replace("%", "%%") + "%s", env
        raise Unsupported("assignment target %s" % norm(target))

    def always_returns(self, stmts):
        if not stmts:
            return False
        last = stmts[-1]
        if isinstance(last, ast.Return):
            return True
        if isinstance(last, ast.If):
            return self.always_returns(last.body) and self.always_returns(last.orelse)
        return False

    def contains_return(self, stmts):
        return any(isinstance(n, ast.Return) for s in stmts for n in ast.walk(s))

    def assigned(self, stmts):
        """names bound by plain / tuple assignments anywhere in the statements (not subscript stores)"""
        out = []
        for s in stmts:
            for n in ast.walk(s):
                if isinstance(n, ast.Assign):
                    for t in n.targets:
                        elts = t.elts if isinstance(t, ast.Tuple) else [t]
                        for x in elts:
                            if isinstance(x, ast.Name) and x.id not in IGNORED_NAMES and x.id != "_" and x.id not in out:
                                out.append(x.id)
        return out

    def bind_if(self, s, env):
        if self.contains_return([s]):
            raise Unsupported("conditional with a return in a position where it cannot be compiled")
        c = self.cond(s.test, env)
        ab, ae = self.assigned(s.body), self.assigned(s.orelse)
        # variables that survive the conditional: those that had a value before, or get one on both paths;
        # anything else is local to a branch (a later use is a free name: Unsupported)
        names = [n for n in self.assigned(list(s.body) + list(s.orelse))
                 if (n in env and env[n][0] == "val") or (n in ab and n in ae)]
        if not names and not self.partial:
            return "%s", env
        a, ta = self.block_k(list(s.body), env, names)
        b, tb = self.block_k(list(s.orelse), env, names)
        gvs = []
        for nme, x, y in zip(names, ta, tb):
            gvs.append(self.newvar(env, nme, self.same(x, y)))
        if not names:
            pat, unit = "_", True
        else:
            pat = gvs[0] if len(gvs) == 1 else "'(" + ", ".join(gvs) + ")"
        if self.partial:
            if not names:
                # branches only matter for their exceptions
                a, b = a.replace("Some ()", "Some tt"), b.replace("Some ()", "Some tt")
            one = gvs[0] if len(gvs) == 1 else ("(" + ", ".join(gvs) + ")" if gvs else "_")
            return ("match (if %s then\n  %s\n  else\n  %s) with\n  | Some %s =>\n  %%s\n  | None => None\n  end"
                    % (c, a.replace("%", "%%"), b.replace("%", "%%"), one)), env
        return "let %s := if %s then\n  %s\n  else\n  %s in\n  %%s" % (pat, c, a.replace("%", "%%"), b.replace("%", "%%")), env

    def sets_false(self, stmts, allow_break=False):
        seen = False
        for st in stmts:
            if isinstance(st, ast.Assign) and norm(st) == "valid = False":
                seen = True
            elif isinstance(st, ast.Expr) and norm(st).startswith("extra.append("):
                pass
            elif allow_break and isinstance(st, ast.Break):
                pass
            else:
                return False
        return seen

    def bind_for(self, s, env):
        if s.orelse:
            raise Unsupported("for-else")
        cur = env.get("valid")
        if cur is None or cur[0] != "val" or cur[2] != "bool":
            raise Unsupported("loop before `valid` is defined")
        # (b) for t in <list>: if c: valid = False
        if isinstance(s.target, ast.Name) and len(s.body) == 1 and isinstance(s.body[0], ast.If):
            it, tit = self.expr(s.iter, env)
            inner = s.body[0]
            if tit in ("listZ", "listlistZ") and not inner.orelse and self.sets_false(inner.body):
                var = s.target.id
                gv = self.fresh(var)
                env2 = dict(env)
                if tit == "listlistZ":
                    # the loop variable is a tensor; only its shape is available
                    env2.pop(var, None)
                    env2["@shape@" + var] = ("val", gv, "listZ")
                    c = self.cond(TensorShape(gv, var).visit(_copy(inner.test)), env2)
                else:
                    env2[var] = ("val", gv, "Z")
                    c = self.cond(inner.test, env2)
                nv = self.newvar(env, "valid", "bool")
                return "let %s := %s && forallb (fun %s => negb %s) %s in\n  %%s" % (nv, cur[1], gv, c, it), env
        # (c) for a, b, c in zip(l1, l2, l3): assigns; if c: valid = False; break
        if isinstance(s.target, ast.Tuple) and isinstance(s.iter, ast.Call) and norm(s.iter.func) == "zip" and len(s.iter.args) == 3 \
                and len(s.target.elts) == 3 and all(isinstance(x, ast.Name) for x in s.target.elts):
            ls = []
            for x in s.iter.args:
                t, ty = self.expr(x, env)
                self.need(ty, "listZ")
                ls.append(t)
            body = [b for b in s.body if not self.is_skip(b)]
            last = body[-1]
            if not (isinstance(last, ast.If) and not last.orelse and self.sets_false(last.body, allow_break=True)):
                raise Unsupported("zip loop body")
            env2 = dict(env)
            gvs = [self.newvar(env2, x.id, "Z") for x in s.target.elts]
            pre = ""
            for st in body[:-1]:
                if not (isinstance(st, ast.Assign) and len(st.targets) == 1 and isinstance(st.targets[0], ast.Name)):
                    raise Unsupported("zip loop body statement")
                t, ty = self.expr(st.value, env2)
                self.need(ty, "Z")
                gv = self.newvar(env2, st.targets[0].id, "Z")
                pre += "let %s := %s in " % (gv, t)
            c = self.cond(last.test, env2)
            nv = self.newvar(env, "valid", "bool")
            return "let %s := %s && forallb (fun '(%s, %s, %s) => %snegb %s) (zip3 %s %s %s) in\n  %%s" % (
                nv, cur[1], gvs[0], gvs[1], gvs[2], pre, c, ls[0], ls[1], ls[2]), env
        raise Unsupported("for loop over %s" % norm(s.iter))


def _copy(n):
    import copy
    return copy.deepcopy(n)


class TensorShape(ast.NodeTransformer):
    """inside a loop over the tensor list: `<var>.shape` is the bound list variable"""

    def __init__(self, gv, var):
        self.gv, self.var = gv, var

    def visit_Attribute(self, n):
        if isinstance(n.value, ast.Name) and n.value.id == self.var and n.attr == "shape":
            return ast.Name(id="@shape@" + self.var, ctx=ast.Load())
        return self.generic_visit(n)


class Translator:
    def __init__(self, cls, padding_enum):
        self.cls = cls
        self.padding_enum = padding_enum
        self.done = collections.OrderedDict()   # name -> dict(kind, params, ret, partial, text)
        self.consts = collections.OrderedDict()
        self.failed = collections.OrderedDict()

    def class_const(self, name):
        v = getattr(self.cls, name, None)
        if isinstance(v, bool):
            raise Unsupported("class constant %s is a bool" % name)
        if isinstance(v, int):
            self.consts["K_" + name] = ("Z", zlit(v))
            return "K_" + name, "Z"
        if isinstance(v, tuple) and all(isinstance(x, int) and not isinstance(x, bool) for x in v):
            self.consts["K_" + name] = ("tuple%d" % len(v), v)
            return [("K_%s_%d" % (name, i), "Z") for i in range(len(v))], "tuple"
        raise Unsupported("class constant %s is not an int or a tuple of ints" % name)

    def padding_const(self, name):
        v = getattr(self.padding_enum, name).value
        self.consts["K_Padding_" + name] = ("Z", zlit(int(v)))
        return "K_Padding_" + name

    def translate(self, node, kind, gname=None, fixed_params=None):
        gname = gname or node.name
        try:
            fn = Fn(self, node, kind)
            env = {}
            if fixed_params is not None:
                for a, ty in fixed_params:
                    fn.use(a, ty)
                    env[a] = ("val", a, ty)
            body = fn.block(list(node.body), env)
            if kind == "plain":
                params = list(fixed_params)
            else:
                params = [(p, fn.params[p]) for p in PARAM_ORDER if p in fn.params]
                if len(params) != len(fn.params):
                    raise Unsupported("parameter outside PARAM_ORDER: %r" % sorted(set(fn.params) - set(PARAM_ORDER)))
            ret = fn.rettype if hasattr(fn, "rettype") else ("option bool" if fn.partial else "bool")
            sig = " ".join("(%s : %s)" % (p, GTYPE[t]) for p, t in params)
            text = "Definition %s %s : %s :=\n  %s." % (gname, sig, ret, body)
            self.done[gname] = dict(kind=kind, params=params, ret="bool", partial=fn.partial, text=text)
        except Unsupported as ex:
            self.failed[gname] = str(ex)
        except RecursionError as ex:   # pragma: no cover
            self.failed[gname] = "recursion"

    def translate_plain(self, node, params, ret):
        """helper functions returning an int, a list or a pair of ints"""
        gname = node.name
        try:
            fn = Fn(self, node, "plain")
            fn.partial = False
            env = {a: ("val", a, ty) for a, ty in params}
            body = PlainBody(fn, ret).block(list(node.body), env)
            sig = " ".join("(%s : %s)" % (p, GTYPE[t]) for p, t in params)
            rty = {"Z": "Z", "listZ": "list Z", "tuple": "Z * Z"}[ret]
            self.done[gname] = dict(kind="plain", params=list(params), ret=ret, partial=False,
                                    text="Definition %s %s : %s :=\n  %s." % (gname, sig, rty, body))
        except Unsupported as ex:
            self.failed[gname] = str(ex)

    def translate_kernel_method(self, node):
        gname = "Kernel_" + node.name
        try:
            fn = Fn(self, node, "kernel")
            fn.partial = False
            body = PlainBody(fn, "Z").block(list(node.body), {})
            params = [(p, "Z") for p in PARAM_ORDER if p in fn.params]
            sig = " ".join("(%s : Z)" % p for p, _ in params)
            self.done[gname] = dict(kind="kernelfn", params=params, ret="Z", partial=False,
                                    text="Definition %s %s : Z :=\n  %s." % (gname, sig, body))
        except Unsupported as ex:
            self.failed[gname] = str(ex)


class PlainBody:
    """statement compiler for helper functions whose result is a value (not a validity pair)"""

    def __init__(self, fn, ret):
        self.fn, self.ret = fn, ret

    def block(self, stmts, env):
        fn = self.fn
        if not stmts:
            raise Unsupported("a path falls off the end")
        s, rest = stmts[0], stmts[1:]
        if fn.is_skip(s):
            return self.block(rest, env)
        if isinstance(s, ast.Return):
            t, ty = fn.expr(s.value, env)
            if self.ret == "tuple":
                if ty != "tuple" or len(t) != 2:
                    raise Unsupported("return of a non-pair")
                return "(%s, %s)" % (t[0][0], t[1][0])
            fn.need(ty, self.ret)
            return t
        if isinstance(s, ast.Assign) and len(s.targets) == 1 and isinstance(s.targets[0], ast.Name) and \
                isinstance(s.value, ast.Tuple) and all(isinstance(x, ast.Constant) and isinstance(x.value, int) for x in s.value.elts):
            # a literal tuple of ints used as a sequence
            env = dict(env)
            gv = fn.newvar(env, s.targets[0].id, "listZ")
            return "let %s := [%s] in\n  %s" % (gv, "; ".join(zlit(x.value) for x in s.value.elts), self.block(rest, env))
        pre, env = fn.bind(s, env)
        return pre % self.block(rest, env)


# ------------------------------------------------------------------------------------------------------------------
WANTED = [  # order matters: callees first
    "constraint_tens_dimension", "constraint_stride_range", "constraint_dilated_height_range",
    "constraint_dilated_product_range", "constraint_weights_limit", "constraint_bias_40bit", "constraint_batch_size",
    "constraint_depth_multiplier", "constraint_stride_width_no_upper_limit", "constraint_stride_range_no_padding",
    "constraint_depthwise_conv_stride", "constraint_tconv_stride", "constraint_tconv_same", "constraint_tconv_valid",
    "constraint_filter_range", "constraint_filter_height_range", "constraint_filter_product_range",
    "constraint_filter_height_range_valid_pad", "constraint_filter_product_range_valid_pad", "constraint_resize",
    "constraint_resizebi_half_pixel_centers_dims", "constraint_mean_height_width_product", "constraint_mean_width",
    "constraint_mean_depth", "constraint_argmax_depth",
]


def find_class(tree, name):
    for n in tree.body:
        if isinstance(n, ast.ClassDef) and n.name == name:
            return n
    raise Unsupported("class %s not found" % name)


def find_func(body, name):
    for n in body:
        if isinstance(n, ast.FunctionDef) and n.name == name:
            return n
    return None


def codes(s):
    return "[" + "; ".join(str(ord(c)) for c in s) + "]"


def zlist(l):
    return "[" + "; ".join(zlit(int(x)) for x in l) + "]"


def parse_report(md):
    """SUPPORTED_OPS.md text -> (ordered operator names, {name: has_specific}, generic [(text, [excluded names])],
    {name: [specific texts]})"""
    lines = md.split("\n")
    ops, has_spec = [], {}
    sections = {}
    cur = None
    i = 0
    bullets = None
    while i < len(lines):
        ln = lines[i]
        m = re.fullmatch(r"\| (\w+) \| (.*) \|", ln)
        if m and m.group(1) not in ("Operator",) and not set(m.group(1)) <= set("-"):
            ops.append(m.group(1))
            has_spec[m.group(1)] = "[Specific]" in m.group(2)
        m = re.fullmatch(r"### TFLite (.+) Constraints", ln)
        if m:
            cur = m.group(1)
            sections[cur] = []
            i += 1
            continue
        if ln.startswith("## ") or ln.startswith("### "):
            cur = None
        if cur is not None:
            if ln.startswith("- "):
                sections[cur].append(ln[2:])
            elif sections[cur] and ln != "" and not ln.startswith("This is a list") and not ln.startswith("(Operators excluded"):
                sections[cur][-1] += "\n" + ln      # continuation of a multi-line docstring
        i += 1
    generic = []
    for b in sections.get("Generic", []):
        text = b.replace("  \n", "\n")
        m = re.fullmatch(r"(.*?) - \[([A-Z0-9_, ]+)\]", text, re.S)
        if m:
            generic.append((m.group(1), [x.strip() for x in m.group(2).split(",")]))
        else:
            generic.append((text, []))
    spec = {k: [b.replace("  \n", "\n") for b in v] for k, v in sections.items() if k != "Generic"}
    return ops, has_spec, generic, spec


def introspect():
    """everything that needs the live modules; returns a dict of plain data"""
    sys.path.insert(0, REPO)
    from ethosu.vela import vela
    from ethosu.vela.operation import Op, Padding
    from ethosu.vela.tflite_mapping import builtin_operator_map, builtin_operator_name_map, optype_to_builtintype
    from ethosu.vela.tflite_model_semantic import TFLiteSemantic
    from ethosu.vela.tflite_supported_operators import TFLiteSupportedOperators

    out = {}
    classes = [("sem", TFLiteSemantic), ("sup", TFLiteSupportedOperators)]
    fns = []      # (qualified name, doc)
    fid = {}
    for tag, cls in classes:
        for name, desc in vars(cls).items():
            if name.startswith("constraint_") and isinstance(desc, (staticmethod, classmethod)):
                fid[(tag, name)] = len(fns)
                fns.append(("%s.%s" % (tag, name), desc.__func__.__doc__ or ""))
    out["fns"] = fns

    def ident(tag, c):
        f = getattr(c, "__func__", c)
        return fid[(tag, f.__name__)]

    oplist = list(Op)
    opid = {o: i for i, o in enumerate(oplist)}
    out["ops"] = [o.name for o in oplist]
    out["supported"] = sorted(opid[o] for o in TFLiteSupportedOperators.supported_operators)
    out["named_ops"] = {n: opid[getattr(Op, n)] for n in ("Placeholder", "SubgraphInput", "Const")}
    # report (unpatched classes)
    old = os.getcwd()
    with tempfile.TemporaryDirectory(dir=os.environ.get("VERIF_SCRATCH") or None) as d:
        os.chdir(d)
        try:
            with contextlib.redirect_stdout(io.StringIO()):
                vela.generate_supported_ops()
            md = open(os.path.join(d, "SUPPORTED_OPS.md")).read()
        finally:
            os.chdir(old)
    out["report_md"] = md
    # builtin operators
    rows = []
    for code in builtin_operator_map:
        rows.append((builtin_operator_name_map[code], int(code), opid[builtin_operator_map[code][0]]))
    rows.sort()
    out["builtins"] = rows
    # raw lists
    sem, sup = TFLiteSemantic(), TFLiteSupportedOperators()
    out["sem_generic"] = [ident("sem", c) for c in sem.generic_constraints]
    out["sup_generic"] = [ident("sup", c) for c in sup.generic_constraints]
    out["sem_specific"] = sorted((opid[o], [ident("sem", c) for c in l]) for o, l in sem.specific_constraints.items())
    out["sup_specific"] = sorted((opid[o], [ident("sup", c) for c in l]) for o, l in sup.specific_constraints.items())
    out["sem_exclude"] = sorted((opid[o], [ident("sem", c) for c in l])
                                for o, l in TFLiteSemantic.get_generic_constraint_exclude_list().items())
    out["sup_exceptions"] = sorted((opid[o], [ident("sup", c) for c in l]) for o, l in sup.generic_constraints_exceptions.items())
    out["padding"] = {m.name: int(m.value) for m in Padding}
    out["consts"] = {}
    for k, v in vars(TFLiteSupportedOperators).items():
        if isinstance(v, int) and not isinstance(v, bool):
            out["consts"][k] = v
        elif isinstance(v, tuple) and v and all(isinstance(x, int) and not isinstance(x, bool) for x in v):
            out["consts"][k] = list(v)
    # value lists: constraints whose sentence ends in "...: {}" print a formatted set (data types / operator types); the set
    # the predicate ENFORCES is the set-valued class constant its body reads (`cls.<NAME>`), rendered independently here
    from ethosu.vela.data_type import DataType
    from ethosu.vela.tflite_mapping import BUILTIN_OPERATOR_UNKNOWN
    import inspect

    def render(elem):
        if isinstance(elem, DataType):
            return str(elem)
        if isinstance(elem, Op):
            n = optype_to_builtintype(elem)
            return None if n is BUILTIN_OPERATOR_UNKNOWN else str(n)
        raise Unsupported("value of type %s in a documented set" % type(elem).__name__)
    vl = []
    for tag, cls in classes:
        ctree = find_class(ast.parse(inspect.getsource(sys.modules[cls.__module__])), cls.__name__)
        for node in ctree.body:
            if not (isinstance(node, ast.FunctionDef) and node.name.startswith("constraint_")) or (tag, node.name) not in fid:
                continue
            template = ast.get_docstring(node, clean=False) or ""
            if not template.endswith(": {}") or template.count("{}") != 1:
                continue
            prefix = template[:-2]
            doc = fns[fid[(tag, node.name)]][1]
            if not doc.startswith(prefix):
                raise Unsupported("docstring of %s does not start with its template" % node.name)
            printed = doc[len(prefix):].split(", ") if doc[len(prefix):] else []   # as printed (list_formatter sorts)
            names = sorted(set(n.attr for n in ast.walk(node) if isinstance(n, ast.Attribute) and isinstance(n.value, ast.Name)
                               and n.value.id == "cls" and isinstance(getattr(cls, n.attr, None), (set, frozenset))))
            if len(names) != 1:
                raise Unsupported("%s reads %d set-valued class constants (%s): cannot tell the enforced set" % (node.name, len(names), names))
            enforced = sorted(set(x for x in (render(e) for e in getattr(cls, names[0])) if x is not None))
            vl.append((fid[(tag, node.name)], prefix, printed, enforced, names[0]))
    out["value_lists"] = vl
    # traced evaluation order of the real drivers: every constraint replaced by a recorder answering True
    rec = []

    def patch(tag, cls):
        for name, desc in list(vars(cls).items()):
            if name.startswith("constraint_") and isinstance(desc, (staticmethod, classmethod)):
                def w(*a, _k=(tag, name)):
                    rec.append(fid[_k])
                    return True, ""
                w.__name__ = name
                w.__doc__ = desc.__func__.__doc__
                setattr(cls, name, staticmethod(w))
    saved = [(cls, dict((k, v) for k, v in vars(cls).items() if k.startswith("constraint_"))) for _, cls in classes]
    try:
        for tag, cls in classes:
            patch(tag, cls)
        sem2, sup2 = TFLiteSemantic(), TFLiteSupportedOperators()
        traced = []
        for o in oplist:
            stub = types.SimpleNamespace(type=o, name="stub")
            row = [opid[o]]
            for drv in (sup2.is_operator_supported, sem2.is_operator_semantic_valid):
                del rec[:]
                with contextlib.redirect_stdout(io.StringIO()):
                    r = drv(stub)
                row += [bool(r), list(rec)]
            traced.append(row)
        out["traced"] = traced
    finally:
        for cls, d in saved:
            for k, v in d.items():
                setattr(cls, k, v)
    return out, TFLiteSupportedOperators, Padding


def generate():
    data, cls, padding = introspect()
    vela_dir = os.path.join(REPO, "ethosu", "vela")
    tr = Translator(cls, padding)
    # helpers
    optree = ast.parse(open(os.path.join(vela_dir, "operation.py")).read())
    kcls = find_class(optree, "Kernel")
    for m in ("elements_wh", "area_width", "area_height"):
        node = find_func(kcls.body, m)
        if node is None:
            tr.failed["Kernel_" + m] = "method not found"
        else:
            tr.translate_kernel_method(node)
    nutree = ast.parse(open(os.path.join(vela_dir, "numeric_util.py")).read())
    node = find_func(nutree.body, "full_shape")
    if node is None:
        tr.failed["full_shape"] = "not found"
    else:
        tr.translate_plain(node, [("dim", "Z"), ("shape", "listZ"), ("fill", "Z")], "listZ")
    uttree = ast.parse(open(os.path.join(vela_dir, "utils.py")).read())
    node = find_func(uttree.body, "calc_resize_factor")
    if node is None:
        tr.failed["calc_resize_factor"] = "not found"
    else:
        tr.translate_plain(node, [("ifm_width", "Z"), ("stride_x", "Z")], "tuple")
    # constraints
    src = open(os.path.join(vela_dir, "tflite_supported_operators.py")).read()
    ctree = find_class(ast.parse(src), "TFLiteSupportedOperators")
    docs = dict(data["fns"])
    for name in WANTED:
        node = find_func(ctree.body, name)
        if node is None:
            tr.failed[name] = "method not found in the class"
            continue
        tr.translate(node, "constraint")
    L = ["(* GENERATED by tools/constraints2gallina.py from ethosu/vela/tflite_supported_operators.py, tflite_model_semantic.py,",
         "   vela.py (generate_supported_ops), operation.py, numeric_util.py, utils.py -- do not edit. *)",
         "From Coq Require Import ZArith List Bool.", "Import ListNotations.", "Open Scope Z_scope.", PRELUDE]
    L.append("(* ---- class constants of TFLiteSupportedOperators read by introspection (only those the translated code uses) *)")
    for k, (ty, v) in tr.consts.items():
        if ty == "Z":
            L.append("Definition %s : Z := %s." % (k, v))
        else:
            for i, x in enumerate(v):
                L.append("Definition %s_%d : Z := %s." % (k, i, zlit(x)))
    L.append("")
    L.append("(* ---- translated functions *)")
    for name, d in tr.done.items():
        L.append(d["text"])
        L.append("")
    for name, why in tr.failed.items():
        L.append("(* %s: NOT TRANSLATED: %s *)" % (name, why.replace("*)", "* )")))
    L.append("")
    L.append("(* ---- documented bounds: integer literals of the formatted docstrings (the text the report prints) *)")
    for name in WANTED:
        doc = docs.get("sup." + name)
        if doc is None:
            continue
        nums = [int(x) for x in re.findall(r"\d+", doc)]   # unsigned literals, in order of appearance
        L.append("Definition doc_nums_%s : list Z := %s." % (name, zlist(nums)))
        L.append("Definition doc_text_%s : list Z := %s." % (name, codes(doc)))
    L.append("")
    # ---- tables
    L.append("(* ---- tables by introspection *)")
    L.append("(* constraint functions: id, qualified name, formatted docstring *)")
    L.append("Definition constraint_fns : list (Z * list Z * list Z) := [")
    L.append(";\n".join("  (%d, %s, %s)" % (i, codes(n), codes(d)) for i, (n, d) in enumerate(data["fns"])))
    L.append("].\n")
    L.append("Definition n_ops : Z := %d.  (* members of operation.Op, numbered in definition order *)" % len(data["ops"]))
    L.append("Definition op_names : list (list Z) := [\n%s\n].\n" % ";\n".join("  %s" % codes(n) for n in data["ops"]))
    L.append("Definition supported_operators : list Z := %s.\n" % zlist(data["supported"]))
    for n, i in sorted(data["named_ops"].items()):
        L.append("Definition op_id_%s : Z := %d." % (n, i))
    L.append("")

    def table(name, rows, comment):
        L.append("(* %s *)" % comment)
        L.append("Definition %s : list (Z * list Z) := [\n%s\n].\n" % (name, ";\n".join("  (%d, %s)" % (k, zlist(v)) for k, v in rows)))
    L.append("Definition sem_generic : list Z := %s." % zlist(data["sem_generic"]))
    L.append("Definition sup_generic : list Z := %s.\n" % zlist(data["sup_generic"]))
    table("sem_exclude", data["sem_exclude"], "TFLiteSemantic.get_generic_constraint_exclude_list(): op -> excluded generic constraints")
    table("sup_exceptions", data["sup_exceptions"], "TFLiteSupportedOperators().generic_constraints_exceptions")
    table("sem_specific", data["sem_specific"], "TFLiteSemantic().specific_constraints")
    table("sup_specific", data["sup_specific"], "TFLiteSupportedOperators().specific_constraints")
    L.append("(* traced: (op, result of is_operator_supported with all constraints true, constraints it evaluated in order,")
    L.append("            result of is_operator_semantic_valid likewise, constraints it evaluated) *)")
    L.append("Definition traced : list (Z * bool * list Z * bool * list Z) := [")
    L.append(";\n".join("  (%d, %s, %s, %s, %s)" % (r[0], str(r[1]).lower(), zlist(r[2]), str(r[3]).lower(), zlist(r[4]))
                        for r in data["traced"]))
    L.append("].\n")
    # ---- report
    ops, has_spec, generic, spec = parse_report(data["report_md"])
    texts = []

    def intern(t):
        if t not in texts:
            texts.append(t)
        return texts.index(t)
    rep_rows = []
    by_name = {n: (code, oid) for n, code, oid in data["builtins"]}
    problems = []
    for n in ops:
        if n not in by_name:
            problems.append("report lists an operator %s that is not a TFLite builtin" % n)
            continue
        g = [intern(t) for t, excl in generic if n not in excl]
        s = [intern(t) for t in spec.get(n, [])] if has_spec[n] else []
        if has_spec[n] and n not in spec:
            problems.append("operator %s links to a specific section that does not exist" % n)
        rep_rows.append((by_name[n][0], by_name[n][1], len(g), g + s))
    for n in spec:
        if n not in ops or not has_spec.get(n):
            problems.append("specific section for %s without a table row linking to it" % n)
    if problems:
        raise Unsupported("report format: " + "; ".join(problems))
    L.append("(* TFLite builtin operators (name-sorted as the report walks them): builtin code, name, internal Op *)")
    L.append("Definition builtins : list (Z * list Z * Z) := [\n%s\n].\n" % ";\n".join(
        "  (%d, %s, %d)" % (code, codes(n), oid) for n, code, oid in data["builtins"]))
    L.append("(* distinct constraint lines of the generated SUPPORTED_OPS.md (markdown line breaks undone) *)")
    L.append("Definition report_lines : list (list Z) := [\n%s\n].\n" % ";\n".join("  %s" % codes(t) for t in texts))
    L.append("(* per operator row of the report, in table order: builtin code, internal Op, number of generic lines that apply,")
    L.append("   indices into report_lines of the lines that apply (generic lines not naming the operator in brackets, then its")
    L.append("   specific section) *)")
    L.append("Definition report_rows : list (Z * Z * Z * list Z) := [\n%s\n].\n" % ";\n".join(
        "  (%d, %d, %d, %s)" % (c, o, ng, zlist(l)) for c, o, ng, l in rep_rows))
    L.append("(* constraints whose sentence ends in a formatted value list: constraint id, the sentence up to the list, the values the")
    L.append("   sentence prints (in printed order), the values of the set-valued class constant the predicate body reads (sorted, rendered as")
    L.append("   the report renders them; operators without a TFLite name dropped) *)")
    L.append("Definition value_lists : list (Z * list Z * list (list Z) * list (list Z)) := [\n%s\n].\n" % ";\n".join(
        "  (%d, %s, [%s], [%s])  (* cls.%s *)" % (c, codes(pre), "; ".join(codes(x) for x in pr), "; ".join(codes(x) for x in en), cn)
        for c, pre, pr, en, cn in data["value_lists"]))
    text = "\n".join(L) + "\n"
    report = {"GenConstraints." + k: None for k in tr.done}
    report.update({"GenConstraints." + k: v for k, v in tr.failed.items()})
    return text, report


def main():
    out = None
    if "--out" in sys.argv:
        out = sys.argv[sys.argv.index("--out") + 1]
    try:
        text, report = generate()
    except Exception as ex:  # fail closed: no file content -> dependants do not build
        import traceback
        text = "(* NOT GENERATED: %s *)\n" % (traceback.format_exc()[-1500:].replace("*)", "* )"))
        report = {"GenConstraints": "%s: %s" % (type(ex).__name__, ex)}
    if out:
        old = open(out).read() if os.path.exists(out) else None
        if old != text:
            with open(out, "w") as f:
                f.write(text)
        json.dump(report, sys.stdout)
    else:
        sys.stdout.write(text)
        sys.stderr.write(json.dumps(report, indent=1) + "\n")


if __name__ == "__main__":
    main()
