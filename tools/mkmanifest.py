#!/usr/bin/env python3
"""Writes MANIFEST.json from the table below (single source of truth for registered checks)."""
import json
import os

ROOT = os.path.dirname(os.path.dirname(os.path.abspath(__file__)))
TB = ("Coq 8.16.1 kernel; no axioms declared; tools/py2gallina.py translator and/or correspondence harness "
      "(extraction via ExtrOcamlBasic + ocaml/driver.ml); see DESIGN.md section 6")

CHECKS = {
    "C16": dict(cat="other", ref="7/C16", technique="Coq theorems over constraint predicates translated from the source every run and tables introspected from the live classes; report/enforcement equality by vm_compute; placement by compiling boundary networks (exploration)",
                text="Partial. Proved: constraint_matches_doc_<name> - for ALL integer arguments the translated predicate equals "
                     "membership in the range parsed from its own formatted docstring (17 exact, 3 under a stated side condition, the "
                     "remaining ones `_partial` with `_refuted` witnesses that are the open findings); report_lists_enforced and "
                     "report_rows_are_the_supported_builtins (the generated report lists exactly, in order, the constraints the two "
                     "drivers evaluate, for all 192 Op members, tied to the recorded evaluation order); supported_is_conjunction, "
                     "npu_candidate_iff_report. NOT proved: that an operator passing the constraints ends up inside an Ethos-U operator "
                     "(graph optimiser, pass packing, subgraph extraction): sampled by compiling networks just inside and just outside "
                     "each documented range and judging placement with the documented reading.",
                note=TB + "; tools/constraints2gallina.py (dedicated fail-closed translator); six open known findings "
                     "(documentation/enforcement mismatches and two crashes)"),
    "C17": dict(cat="proof", ref="7/C17", technique="Coq proof (payload_parses) + translated source functions + correspondence by extraction",
                text="Theorem payload_parses: for all six accelerators (table regenerated from the source each run) and every in-range "
                     "word list below 2^24, an independent reader recovers the matching configuration, a 16-byte aligned start, the "
                     "declared length and the unmodified words; payload_rejects for longer lists. make_da_tag and "
                     "emit_cmd_stream_header are translated from /repo on every run and proved equal to the model; "
                     "create_driver_payload/build_config_word are tied by a byte-for-byte correspondence run.",
                note=TB + "; struct.pack/ctypes modelled; accelerator facts in Driver.spec_table"),
    "C01": dict(cat="other", ref="7/C01 and 10.4", technique="executable Coq semantics of the command stream (hw/NpuExec.v, extracted) run on the compiled model vs TFLite reference kernels on the source model; Coq theorems: scaling step, output stage and elementwise datapath equal the reference kernels, composed with the translated quantise_scale",
                text="Partial. Whole-network equivalence for all networks and inputs is not proved. Proved (props/C01.v, closed under the global "
                     "context): the TFL scaling mode of the executable hardware semantics is the reference MultiplyByQuantizedMultiplier; "
                     "composed with scaling.quantise_scale as translated from the source and C09's agreement with QuantizeMultiplier, the pair "
                     "Vela programs makes the hardware compute on every accumulator what the reference computes from the same scale "
                     "(requantisation_end_to_end, conv_output_stage_is_reference); the per-element elementwise ADD / SUB / MUL value equals "
                     "the reference AddElementwise / SubElementwise / Mul for all 8-bit operands; the table look-up reads inside the LUT "
                     "footprint of the hardware model. Executed: an extracted Gallina semantics of DMA, convolution, depthwise, pooling, "
                     "elementwise (add, sub, mul, min, max, abs, clz, shr, shl; broadcast, scalar, reversed operands; 8, 16 and 32 bit), "
                     "reduce-sum, 8-bit and 32-bit table look-up, IFM resampling, "
                     "8 / 16 / 32-bit feature maps, one and two cores, consuming exactly what the output file stores (command words, weight "
                     "streams through the reference-decoder and traversal models of C07, scale records, zero points, rounding modes, "
                     "clamps) runs the command streams of compiled generated networks and a corpus on random and fixed inputs; outputs are "
                     "compared bit for bit (one step for padded average pools, bilinear resize, mean, table activations, uint8 rescaling "
                     "concatenation, softmax, squared difference, MUL+MAX leaky ReLU) with a transcription of the TFLite reference kernels "
                     "evaluated on the SOURCE model; output models with CPU operators are run operator by operator over one simulated "
                     "arena (CPU-only kernels uninterpreted, the same stand-in on both sides); ARG_MAX bit for bit. Not executed: 16-bit "
                     "table activations, LSTM.",
                note=TB + "; the datapath semantics in hw/NpuExec.v (readings listed in DESIGN.md 10.1b) and tools/refnet.py (reference kernels) "
                     "are transcriptions, trusted; sampled networks and inputs"),
    "C02": dict(cat="translation_validation", ref="7/C02", technique="Coq-proved validator (check_bounds_sound) run on decoded command streams of real compilations",
                text="Theorem check_bounds_sound (Coq): if the extracted checker accepts a decoded stream, every element address of "
                     "IFM/IFM2/OFM (through tiles, strides, NHCWB16 bricks) and every weight/scale/LUT/SHRAM/DMA range of every "
                     "operation lies inside the region extents published in the output file, and nothing writes the constants "
                     "region. The checker is run on every command stream of generated networks compiled across accelerators, "
                     "memory modes, allocators and arena sizes; the Dedicated-SRAM clause compares the published fast-scratch "
                     "extent with the configured arena cache size. Each verdict is a proof for that compilation; the set of "
                     "compilations is sampled.",
                note=TB + "; coq/hw/Npu.v hardware footprint model is trusted (modelled from Vela's address code and register "
                     "definitions); tools/tflsum.py reads the extents from the output file"),
    "C03": dict(cat="translation_validation", ref="7/C03", technique="Coq-proved def-use validators (check_defuse_sound per command stream, check_inference_sound over the operator sequence of the output model) run on the artefacts of real compilations",
                text="Theorem check_defuse_sound (Coq): if the extracted checker accepts a decoded stream with the identities the "
                     "compiler intends, then in the byte-level run every byte of every IFM/IFM2 element, weight, scale and LUT range "
                     "an operation consumes carries, at that moment, exactly the intended identity (tensor, logical offset) written "
                     "by an earlier DMA/NPU operation, a constant of the file or the CPU side - stale rolling-buffer rows, "
                     "uninitialised and foreign-tensor bytes are rejected (fm_tsegs_cover, read_elements_defined). Theorems "
                     "check_inference_sound, npu_top_op_spec, stream_writes_retagged: the same discipline over the operators of the "
                     "output file (network inputs define, CPU operators demand and define, an Ethos-U operator demands its inputs, "
                     "every arena byte its stream writes loses its identity, its outputs are defined only where its stream writes; the "
                     "network outputs are demanded at the end), so a tensor clobbered between two operators is rejected. Run on every "
                     "stream / output model of generated networks across configurations plus a corpus; sampled compilations.",
                note=TB + "; hw/Npu.v footprint model trusted; intended identities are read from the compiler's own high-level "
                     "command stream by tools/wrap.py (run-time wrapper); views of one buffer with inconsistent strides are not "
                     "distinguished (C06/C10)"),
    "C04": dict(cat="proof", ref="7/C04", technique="Coq theorems over hand models of get_wait_dependency, RangeSet/MemoryAccessSet, calc_blockdep and get_address_ranges (coords_intersect translated from the source) + proved hazard validator (check_hazards_sound) run on decoded streams of random API op lists and of real compilations",
                text="waits_separate / waits_separate_bytes: for EVERY operation sequence, conflict relation and outstanding limits, replaying "
                     "the emitted waits in the two-queue machine never leaves a conflicting kernel/DMA pair unfinished together; "
                     "rangeset_intersects_spec, rangeset_or_invariant, conflicts_spec (byte-level meaning, symmetric); blockdep_sound "
                     "(abstract and concrete geometry), calc_blockdep_result/_zero; footprint_overapprox (tile bounding ranges contain "
                     "every element, for the repaired get_address_ranges); check_hazards_sound for the validator that simulates the "
                     "queues on exact footprints of the decoded stream (cross-queue RAW/WAR/WAW; consecutive kernels: BLOCKDEP at "
                     "block-job granularity). The validator runs on random API op lists (U55 and U65 limits) and on every compiled stream.",
                note=TB + "; queue machine and block traversal are modelled (DESIGN section 4); hazards between non-adjacent kernels and "
                     "DMA-DMA ordering rely on the in-order assumption; sampled streams"),
    "C05": dict(cat="proof", ref="7/C05", technique="Coq theorems over hand models of the three allocators (random choices as an arbitrary oracle stream) + extraction correspondence incl. the recorded randint stream + property oracle on the real allocators",
                text="greedy/linear/hillclimb_no_overlap (co-live ranges get disjoint byte intervals; declared-equivalent tensors share), "
                     "*_aligned, *_total_is_extent (reported total bounds every end and is attained in the allocator's own end-of-buffer "
                     "convention; exact when sizes are multiples of alignments), hillclimb_ge_peak, hillclimb_allocate_lr_terminates, "
                     "hillclimb_search_terminates / _iterations_bound and hillclimb_terminates (every run, for every random stream, "
                     "ends Ok within hc_iteration_bound) - all for ALL live-range sets. Greedy needs 0 < size "
                     "(greedy_zero_size_refuted witness); round_up is additionally translated from the source.",
                note=TB + "; hand models tied by correspondence (0 differences on ~9.5k quick / 322k thorough cases); HillClimb theorems "
                     "assume sum(size+align) <= 2^63; Linear modelled with one tensor per range; verify_allocation not modelled"),
    "C06": dict(cat="proof", ref="7/C06", technique="Coq invariant proof of register-elision transparency for all emitter call histories (decoder of hw/Npu.v on the emitter model's words) + masking/field/framing/guard theorems; field-to-register mapping by an independent per-register oracle on random op lists and every compiled stream",
                text="elision_transparent (+ _at_every_op, _any_split): for EVERY sequence of emitter calls the decoder recovers at each "
                     "operation exactly the un-elided last-written register file, for both register machines; emitter facts (DMA split, one "
                     "bank) are regenerated from the source; no_truncation, field_fits, stream_wellformed (exactly one STOP, last; waits "
                     "directly precede their operation), alignment_checks_complete. Which emitter call each NpuOperation field goes to is "
                     "NOT proved: an independent oracle written from the register documentation judges every decoded register of random "
                     "legal op lists (all op kinds, layouts, tiles, 1-2 cores) and of every compiled stream against the captured "
                     "NpuOperation list.",
                note=TB + "; hand model of the emitter tied word for word with the real CommandStreamEmitter; open finding: out-of-range "
                     "fields are masked silently (out_of_range_rejected_refuted)"),
    "C07": dict(cat="other", ref="7/C07", technique="Coq proofs about hand models of the C brick traversal (reorder) and of the reference stream decoder + per-input correspondence with the real codec (rebuilt from /repo's C sources) + sanitizer build as supporting evidence",
                text="Partial. Proved for ALL valid configurations: reorder_is_padded_permutation (every source weight of the OHWI volume "
                     "occurs exactly once in the stream of mlw_encode.c:reorder, everything else is zero padding: depth-first, part-kernel, "
                     "depthwise, any bit depth, decomposition and block depths), reorder_order_spec (documented nesting order), "
                     "bitbuf_put_get_roundtrip, decode_total and reader_never_past_buffer for the model of mlw_decode.c. NOT proved: "
                     "losslessness of the C encoder (palette / GRC search not modelled), the 16-byte multiple, C memory safety - these "
                     "are checked per input (every coding mode, exhaustive short sequences over small alphabets, all accelerators x "
                     "bit depth x traversal x dilation; decode_model(encode w) = reorder_model w) and by an ASan/UBSan build of the C "
                     "sources in the thorough tier. Out-of-range weights are observed at npu_encode_weights / encode_weights / "
                     "mlw_codec.encode.",
                note=TB + "; hand models tied by correspondence (0 differences); C int overflow not modelled; the extension is rebuilt "
                     "from /repo's current C sources into /verif/build/codec for every check"),
    "C08": dict(cat="proof", ref="7/C08", technique="Coq theorems over a Gallina model of the weight/scale tensor layout, address derivation and cache state machine (encode_bias translated from the source every run; codec universally quantified) + correspondence and independent oracles using the reference decoder",
                text="ranges_aligned_disjoint_ordered, scales_one_record_per_channel (every channel exactly once, under the slice-boundary "
                     "hypothesis; counterexample kept), encode_bias_roundtrip, double_buffer_bounds / single_buffer_bounds, "
                     "npu_ranges_inside_tensor, dma_length_is_slice, cache_reuse_sound for the real seven-field key with key_omits / "
                     "key_contains / cache_reuse_refuted (function level only). The real encode_weight_and_scale_tensor is driven over "
                     "operators, block depths, slice lists, 1/2 cores and cache histories; every weight section is decoded with the "
                     "reference decoder and compared with an independent brick traversal; compiled models' ranges are checked against "
                     "the flash tensor.",
                note=TB + "; weight codec universally quantified (length multiple of 16 only; C07); hash(str(depth_offsets)) treated as injective"),
    "C10": dict(cat="proof", ref="7/C10", technique="Coq theorems over a Gallina model of the stripe geometry (rolling_buffer_shape, needed_total_padding, _required_size translated from the source every run; transform_with_strides_and_skirt, create_padding, stripe loops, cascade interleaving by correspondence incl. the real generator) + proved tap validator on every captured stream",
                text="stripes_partition/_disjoint/_cover (OFM boxes of the three nested loops partition the region), stripe_taps_equal "
                     "(every tap through the stripe's box and pads equals the un-striped operator's tap, for all kernels, strides, "
                     "dilations, SAME/VALID/EXPLICIT geometries, write offsets; stride-1 read offsets; NEAREST upscaling partial), "
                     "rolling_buffer_sufficient with exact characterisation (all stride 1 and 2 cases, stride 3 except H = 1 mod 3) and "
                     "rolling_tile_addresses, check_stripes_sound; five refutation theorems exhibit the open defects of the unchanged tree.",
                note=TB + "; hardware tap semantics modelled; TRANSPOSE upscaling not covered; five open known findings (P10 and four "
                     "read-offset / explicit-padding defects)"),
    "C09": dict(cat="proof", ref="7/C09", technique="Coq theorems over quantise_scale / reduced_quantise_scale / quantise_pooling_scale translated from the source every run (gen_*_eq lemmas) + correspondence for the float step, the elementwise triples and the register call sites",
                text="quantise_scale_accurate(_Q): for every positive dyadic scale in range the pair has 2^30<=q<=2^31, 0<=shift<=63 and "
                     "relative error <= 2^-31; quantise_scale_degrades; quantise_scale_eq_tflite (same rational as TFLite "
                     "QuantizeMultiplier for shifts 0..62, difference at 63 stated); reduced form: error <= 2^-15+2^-31, multiplier "
                     "<= 32767; pooling_scale_exact: round-half-up division for every accumulator whenever 2nA < 2^31 (all 8-bit "
                     "windows <= 65536, int16 windows <= 2^15) with refutation witnesses beyond; assert-freedom. Elementwise "
                     "add/sub/mul triples: partial (hand float model at 53 bits tied by correspondence, equality with the reference "
                     "derivation proved on the model). The source functions are re-translated on every run.",
                note=TB + "; floats as exact dyadics (IEEE exactness at these call sites exercised by correspondence: 2^23 "
                     "mantissa sweeps); pooling exactness assumes natural rounding in the NPU; open finding: int16 windows > 2^15"),
    "C14": dict(cat="other", ref="7/C14", technique="Coq theorems on memo stores as state machines + history/hash-seed search over real compilations (exploration)",
                text="Partial. Proved in Coq: a memo store is transparent for every request history iff its key determines the cached "
                     "computation (cache_transparent, cache_collision_refutes); the address map trips its assertion exactly when a "
                     "surviving identifier gets a second address (address_map_history, address_map_consistent). Explored, not proved: "
                     "multi-compilation histories in one process (A;A, A;B;A, mixed entry points main/convert/convert_bytes, mixed "
                     "accelerators) and several PYTHONHASHSEED values; every step is compared byte for byte and by summary figures "
                     "with a solo compilation in a fresh process.",
                note=TB + "; the stores' real key functions are not translated (C08 models the weight cache key); sampled histories"),
    "C15": dict(cat="proof", ref="7/C15", technique="Coq theorems over _try_block_config and helpers translated from the source every run + hand model of find_block_config/try_block_config; oracle on api.npu_find_block_configs; proved register validator on generated ops and compiled streams",
                text="try_layout_wellformed (all inputs, any SHRAM config): ordered, disjoint, in-range partitions each double-buffering its "
                     "block at the bank granule; find_config_valid / offered_config_valid for the six accelerator rows (regenerated by "
                     "introspection) and all shapes: block is a positive multiple of the micro-block within the maximum with a "
                     "well-formed layout; offered_is_accepted proved for the scaling-agnostic rows and refuted (witness) for "
                     "ethos-u55-128 under differing `scaled` arguments; check_blockcfg_sound for the register validator. Every "
                     "block the public query offers is fed back through the real generator and the emitted registers are checked.",
                note=TB + "; float cost function and the API candidate loop are correspondence-only; hardware table in c15.py"),
    "C18": dict(cat="proof", ref="7/C18", technique="Coq theorems over a hand model of _read_config/_get_vela_config/main path handling against a Gallina transcription of OPTIONS.md + differential correspondence with ArchitectureFeatures and vela.main across working directories",
                text="read_config_spec / read_config_terminates (acyclic inheritance: nearest binding ancestor wins, fuel suffices; cycle "
                     "witness inherit_cycle_refuted), resolve_matches_doc and main_matches_doc for ALL files, selections, CLI overrides "
                     "and file-system views, rejection theorems (unknown section, self-inheritance, illegal mappings, out-of-range "
                     "sizes), config_path_spec / config_path_cwd_independent. The three parameters of main() the model depends on are "
                     "read off vela.py's AST (or identified behaviourally) on every run.",
                note=TB + "; ConfigParser/argparse/os.path modelled not verified; open finding: CLI internal default is the i.MX93 table"),
    "C11": dict(cat="translation_validation", ref="7/C11", technique="Coq-proved preservation validator (check_preserved_sound) on (source, output) model summaries of real compilations; matching supplied as checked witness; Coq theorem output_list_restored for the reader/writer treatment of the output list, reader run against the extracted model",
                text="Theorem check_preserved_sound (Coq): acceptance implies the same subgraph inputs/outputs in order with equal "
                     "(name, shape, type, quantisation); every CPU-resident operator of the output is a distinct source operator "
                     "with equal code, custom code, version, option fields, custom option bytes, constant operand contents and "
                     "wiring (through an injective tensor map); operator order respects data dependencies; every source operator "
                     "that disappeared has its surviving outputs produced by an Ethos-U operator or folded to a constant. Run on "
                     "generated networks mixing supported and unsupported operators (types, shapes, dtypes, dynamic weights, "
                     "third-party custom op, several outputs); additionally each output is re-read with Vela's reader and the plain "
                     "flatbuffer walker. Sampled compilations. Theorems output_list_restored / output_list_held_once (model/OutputList.v, unbounded): "
                     "the reader's duplicate-free output list plus recorded positions, after any elementwise rewrite and any appended "
                     "virtual outputs, is restored by the writer to the source's list (length, order, repetitions); the real reader is "
                     "compared with the extracted dedup / positions on every plan.",
                note=TB + "; tools/tflsum.py; 56-bit hash signatures; empty options table == absent options table"),
    "C12": dict(cat="translation_validation", ref="7/C12", technique="Coq-proved arena-plan validator (check_arena_sound) run on the output model, stream footprints and summary CSV of real compilations",
                text="Theorem check_arena_sound (Coq): acceptance implies that tensors live at a common time step never share a byte, "
                     "every offset honours the requested alignment, the scratch tensor starts at 0 and spans every arena byte the "
                     "command streams touch and every arena tensor the custom operators use, and the reported size covers the plan. "
                     "Run on every output model of generated networks (CPU/NPU interleavings, several NPU subgraphs, alignments "
                     "16..256, memory modes, allocators). Reading fixed in the check: an Ethos-U operator's inputs die and its "
                     "outputs are born inside the operator, so reuse between an input and an output of the SAME custom operator is "
                     "decided per byte by C03, not flagged here.",
                note=TB + "; tools/tflsum.py and the CSV parser; tensor byte size = shape product x element size; sampled compilations"),
    "C13": dict(cat="other", ref="7/C13", technique="Coq proofs of exception-freedom for modelled arithmetic cores + crash sweep of generated models (exploration)",
                text="Partial. Whole-compiler totality over all models is not a theorem. Proved in Coq: the arithmetic sites that "
                     "are modelled cannot raise (e.g. the scheduler's slack computation with the array dtype introspected from the "
                     "source each run: provable for int64, refuted for int32). Explored, not proved: generated valid models "
                     "(7 families incl. unsupported operators, odd ranks/dtypes, CPU/NPU mixes) x CLI option points are compiled "
                     "in fresh processes; a traceback, timeout, silent non-zero exit or missing output is reported with the job as replay.",
                note=TB + "; tools/netgen.py models stand for 'structurally valid flatbuffers'; the sweep samples the model space"),
    "C19": dict(cat="proof", ref="7/C19", technique="Coq theorems: fp_math.py translated from the source every run = gemmlowp/TFLite reference transcriptions for all int32/int16 operands; integer LUT entry models = reference kernels; per-table Coq-Interval certificates for sigmoid/tanh",
                text="srdhm32/16_eq_gemmlowp, rdbpot_eq_gemmlowp, srmbpot_eq, rescale_eq, mbqm_eq_reference (with the exact precondition), "
                     "exp_on_negative_values_eq/_total (every intermediate proved inside int32), shift_left*_saturates, "
                     "downscale_multiplier_eq for ALL operands in the stated domains; lut_lrelu_correct, lut_hardswish_correct, "
                     "optimise_quantize_fold_correct equate the table-entry models with transcriptions of the reference kernels for "
                     "all codes and multipliers. Sigmoid/tanh tables produced by the real rewrite are certified entry by entry with "
                     "`interval` (|v - f(x)/s + zp| <= 1/2 + 2^-10 or the saturated form) for sampled parameter sets. NumPy scalar "
                     "argument types are exercised per real call site by correspondence.",
                note=TB + "; certificates use the standard real-number axioms (ClassicalDedekindReals.sig_not_dec, Classical_Prop.classic) "
                     "and primitive floats/ints inside Coq-Interval; entry models are tied by correspondence with the real rewrites; "
                     "create_lut_8bit_op/int16 exp/log/gelu tables and the rsqrt table are not covered"),
}

NOT_YET = {}


def main():
    props = [json.loads(l) for l in open(os.path.join(ROOT, "properties.jsonl"))]
    checks = []
    na = []
    for p in props:
        pid = p["id"]
        c = CHECKS.get(pid)
        if c is None:
            na.append({"property_id": pid, "reason": NOT_YET.get(pid, "check not built yet (work in progress, see DESIGN.md section 8)")})
            continue
        checks.append({
            "property_id": pid,
            "quick_cmd": "./check %s quick" % pid,
            "thorough_cmd": "./check %s thorough" % pid,
            "evidence_file": "/verif/evidence/%s.json" % pid,
            "engine": "coq",
            "level_claimed": {"category": c["cat"], "text": c["text"], "design_ref": "DESIGN.md section " + c["ref"]},
            "level_note": c["note"],
            "technique": c["technique"],
        })
    m = {
        "version": 1,
        "setup_cmd": "./setup.sh",
        "hooks": {"guard": "none", "enable": "no source hooks: checks wrap module attributes at run time (tools/wrap.py)",
                  "baseline_off_cmd": "cd /repo && /venv/bin/python -m pytest -ra -q -p no:cacheprovider --timeout=900 --continue-on-collection-errors",
                  "source_commits": [], "add_only": True},
        "engines": [{"name": "coq", "path": "/verif/coq", "serves_properties": [c["property_id"] for c in checks],
                     "kind_free_text": "Coq 8.16.1 development (models, proofs, property statements) + Python-ast->Gallina translator + "
                                       "extraction-based correspondence harness"}],
        "checks": checks,
        "not_applicable": na,
        "notes": "Single entry point ./check <id> quick|thorough; evidence in /verif/evidence; known findings in /verif/known_findings.json",
    }
    json.dump(m, open(os.path.join(ROOT, "MANIFEST.json"), "w"), indent=1)


if __name__ == "__main__":
    main()
